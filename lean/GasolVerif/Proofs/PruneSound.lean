/-
  (P) C02: a specification and the same specification without loads whose results nothing uses evaluate, under a schedule and the
  schedule without those loads, to the same symbolic state (`prune_evalSpec`).  So what the check establishes for the pruned
  specification holds for the emitted one.   No Mathlib.
-/
import GasolVerif.Models.Prune
import GasolVerif.Proofs.RealizeSound
set_option linter.unusedSimpArgs false
set_option linter.unusedVariables false
namespace GasolVerif.Spec

/-! ### fuel: more is the same -/

theorem termOf_mono_le (S : Spec) (env : Env) (f g : Nat) (h : f ≤ g) :
    (∀ v t, termOfVar S env f v = some t → termOfVar S env g v = some t) ∧
    (∀ as ts, termsOf S env f as = some ts → termsOf S env g as = some ts) := by
  induction h with
  | refl => exact ⟨fun _ _ h => h, fun _ _ h => h⟩
  | step _ ih =>
    rename_i m hm
    have := termOf_mono S env m
    exact ⟨fun v t h => this.1 v t (ih.1 v t h), fun as ts h => this.2 as ts (ih.2 as ts h)⟩

/-! ### looking things up in the specification without `R` -/

theorem find?_filter_same {α} (p q : α → Bool) (l : List α) (h : ∀ x ∈ l, p x = true → q x = true) :
    (l.filter q).find? p = l.find? p := by
  induction l with
  | nil => rfl
  | cons x xs ih =>
    have ih' := ih (fun y hy => h y (List.mem_cons_of_mem _ hy))
    by_cases hq : q x = true
    · simp only [List.filter_cons, hq, if_true, List.find?_cons]
      cases hp : p x <;> simp [ih']
    · have hp : p x = false := by
        cases hp : p x with
        | false => rfl
        | true => exact absurd (h x (by simp) hp) hq
      simp only [List.filter_cons, hq, Bool.false_eq_true, if_false, List.find?_cons, hp, ih']

variable (S : Spec) (R : List String) (deps : List (String × String))

theorem out_removed (u : UInstr) (hu : u ∈ S.instrs) (hr : R.contains u.id = true) (o : String) (ho : u.out = some o) :
    o ∈ removedOuts S R := by
  simp only [removedOuts, List.mem_filterMap, List.mem_filter]
  exact ⟨u, ⟨hu, hr⟩, ho⟩

theorem producer_without (v : String) (hv : v ∉ removedOuts S R) :
    (without S R deps).producer? v = S.producer? v := by
  unfold Spec.producer? without
  apply find?_filter_same
  intro u hu hp
  cases hr : R.contains u.id with
  | false => rfl
  | true =>
    have : u.out = some v := by simpa using hp
    exact absurd (out_removed S R u hu hr v this) hv

theorem find_without (id : String) (hid : R.contains id = false) : (without S R deps).find? id = S.find? id := by
  unfold Spec.find? without
  apply find?_filter_same
  intro u hu hp
  have : u.id = id := by simpa using hp
  rw [this, hid]; rfl

theorem mem_without (u : UInstr) (h : u ∈ (without S R deps).instrs) : u ∈ S.instrs ∧ R.contains u.id = false := by
  simp only [without, List.mem_filter, Bool.not_eq_true'] at h
  exact h

/-! ### terms -/

/-- the two environments agree on every name that is not a removed result -/
def EnvRel (RO : List String) (env env' : Env) : Prop := ∀ v, v ∉ RO → env'.lookup v = env.lookup v

theorem kept_inp_ok (hok : pruneOk S R = true) (u : UInstr) (hu : u ∈ S.instrs) (hk : R.contains u.id = false) :
    ∀ a ∈ u.inp, atomOk (removedOuts S R) a = true := by
  simp only [pruneOk, Bool.and_eq_true, List.all_eq_true] at hok
  have := hok.1 u hu
  simp only [hk, Bool.false_eq_true, if_false, Bool.and_eq_true, List.all_eq_true] at this
  exact this.1

/-- a term found in the specification without `R` is found, the same, in the whole specification (same fuel) -/
theorem termOf_without (hok : pruneOk S R = true) (env env' : Env) (hrel : EnvRel (removedOuts S R) env env') : ∀ fuel : Nat,
    (∀ v t, v ∉ removedOuts S R → termOfVar (without S R deps) env' fuel v = some t → termOfVar S env fuel v = some t) ∧
    (∀ as ts, (∀ a ∈ as, atomOk (removedOuts S R) a = true) → termsOf (without S R deps) env' fuel as = some ts →
      termsOf S env fuel as = some ts) := by
  intro fuel
  induction fuel with
  | zero =>
    refine ⟨by intro v t _ h; simp [termOfVar] at h, ?_⟩
    intro as
    induction as with
    | nil => intro ts _ h; simp [termsOf] at h ⊢; exact h
    | cons a as ih =>
      intro ts hall h
      simp only [termsOf] at h ⊢
      cases a with
      | var v => simp [termOfAtom, termOfVar] at h
      | const n =>
        simp only [termOfAtom] at h ⊢
        cases hr : termsOf (without S R deps) env' 0 as with
        | none => simp [hr] at h
        | some rs => simp only [hr] at h; rw [ih rs (fun a ha => hall a (List.mem_cons_of_mem _ ha)) hr]; exact h
  | succ fuel ih =>
    have hV : ∀ v t, v ∉ removedOuts S R → termOfVar (without S R deps) env' (fuel + 1) v = some t →
        termOfVar S env (fuel + 1) v = some t := by
      intro v t hv h
      simp only [termOfVar] at h ⊢
      rw [hrel v hv] at h
      cases hl : env.lookup v with
      | some t0 => simp only [hl] at h ⊢; exact h
      | none =>
        simp only [hl] at h ⊢
        have hsrc : (without S R deps).src = S.src := rfl
        rw [hsrc] at h
        cases hs : S.src.idxOf? v with
        | some i => simp only [hs] at h ⊢; exact h
        | none =>
          simp only [hs] at h ⊢
          rw [producer_without S R deps v hv] at h
          cases hp : S.producer? v with
          | none => simp [hp] at h
          | some u =>
            simp only [hp] at h ⊢
            split at h
            · simp at h
            · rename_i hne
              simp only [hne, Bool.false_eq_true, if_false]
              have hu : u ∈ S.instrs := List.mem_of_find?_eq_some hp
              have hk : R.contains u.id = false := by
                cases hr : R.contains u.id with
                | false => rfl
                | true =>
                  have : u.out = some v := by simpa using List.find?_some hp
                  exact absurd (out_removed S R u hu hr v this) hv
              cases hr : termsOf (without S R deps) env' fuel u.inp with
              | none => simp [hr] at h
              | some rs =>
                rw [ih.2 u.inp rs (kept_inp_ok S R hok u hu hk) hr]
                simpa [hr] using h
    refine ⟨hV, ?_⟩
    intro as
    induction as with
    | nil => intro ts _ h; simp [termsOf] at h ⊢; exact h
    | cons a as iha =>
      intro ts hall h
      simp only [termsOf] at h ⊢
      cases ha : termOfAtom (without S R deps) env' (fuel + 1) a with
      | none => simp [ha] at h
      | some t =>
        cases hr : termsOf (without S R deps) env' (fuel + 1) as with
        | none => simp [ha, hr] at h
        | some rs =>
          simp only [ha, hr] at h
          have ha' : termOfAtom S env (fuel + 1) a = some t := by
            cases a with
            | const n => simpa [termOfAtom] using ha
            | var v =>
              simp only [termOfAtom] at ha ⊢
              have : atomOk (removedOuts S R) (.var v) = true := hall _ (by simp)
              exact hV v t (by simpa [atomOk] using this) ha
          rw [ha', iha rs (fun a ha => hall a (List.mem_cons_of_mem _ ha)) hr]; exact h


/-! ### one operation -/

/-- what an operation does to the evaluation state, given its argument terms -/
def effStep (u : UInstr) (args : List Tm) (st : EvalSt) : Option EvalSt :=
  match u.op, args, u.out with
  | "MSTORE", [a, v], _ => some { st with mem := .mstore st.mem a v, log := st.log ++ [(u.id, a, some v)] }
  | "MSTORE8", [a, v], _ => some { st with mem := .mstore8 st.mem a v, log := st.log ++ [(u.id, a, some v)] }
  | "SSTORE", [k, v], _ => some { st with sto := .sstore st.sto k v, log := st.log ++ [(u.id, k, some v)] }
  | "MLOAD", [a], some o => some { st with env := (o, .mload st.mem a) :: st.env, log := st.log ++ [(u.id, a, none)] }
  | "SLOAD", [k], some o => some { st with env := (o, .sload st.sto k) :: st.env, log := st.log ++ [(u.id, k, none)] }
  | "KECCAK256", [off, len], some o =>
    some { st with env := (o, .keccak st.mem off len) :: st.env, log := st.log ++ [(u.id, off, some len)] }
  | "SHA3", [off, len], some o =>
    some { st with env := (o, .keccak st.mem off len) :: st.env, log := st.log ++ [(u.id, off, some len)] }
  | _, _, _ => none

omit R deps in
theorem stepEffect_eq (st : EvalSt) (u : UInstr) :
    stepEffect S st u = (termsOf S st.env (fuelOf S) u.inp).bind (fun a => effStep u a st) := by
  unfold stepEffect effStep
  cases termsOf S st.env (fuelOf S) u.inp <;> rfl

structure StRel (RO : List String) (st st' : EvalSt) : Prop where
  mem : st'.mem = st.mem
  sto : st'.sto = st.sto
  env : EnvRel RO st.env st'.env

omit S R deps in
theorem envRel_cons_same (RO : List String) (env env' : Env) (h : EnvRel RO env env') (o : String) (t : Tm) :
    EnvRel RO ((o, t) :: env) ((o, t) :: env') := by
  intro v hv
  simp only [List.lookup]
  cases (v == o) with
  | true => rfl
  | false => exact h v hv

omit S R deps in
theorem envRel_cons_removed (RO : List String) (env env' : Env) (h : EnvRel RO env env') (o : String) (t : Tm) (ho : o ∈ RO) :
    EnvRel RO ((o, t) :: env) env' := by
  intro v hv
  have hne : (v == o) = false := by
    simp only [beq_eq_false_iff_ne, ne_eq]; intro h'; subst h'; exact hv ho
  simp only [List.lookup, hne]
  exact h v hv

omit S R deps in
/-- the same operation with the same argument terms keeps related states related -/
theorem effStep_rel (RO : List String) (u : UInstr) (a : List Tm) (st st' st1 st1' : EvalSt) (hr : StRel RO st st')
    (h : effStep u a st = some st1) (h' : effStep u a st' = some st1') : StRel RO st1 st1' := by
  unfold effStep at h h'
  split at h
  all_goals first | (simp at h; done) | skip
  all_goals (simp only [Option.some.injEq] at h; subst h)
  all_goals (rename_i hop; simp only [hop] at h')
  all_goals first
    | (simp only [Option.some.injEq] at h'; subst h'
       first
         | exact ⟨by simp [hr.mem], hr.sto, hr.env⟩
         | exact ⟨hr.mem, by simp [hr.sto], hr.env⟩)
    | skip
  all_goals (rename_i hout; simp only [hout, Option.some.injEq] at h'; subst h')
  all_goals first
    | exact ⟨hr.mem, hr.sto, by simp only [hr.mem]; exact envRel_cons_same RO _ _ hr.env _ _⟩
    | exact ⟨hr.mem, hr.sto, by simp only [hr.sto]; exact envRel_cons_same RO _ _ hr.env _ _⟩


theorem fuel_without_le : fuelOf (without S R deps) ≤ fuelOf S := by
  simp only [fuelOf, without]
  have := List.length_filter_le (fun u : UInstr => !R.contains u.id) S.instrs
  omega

/-- a kept operation: both evaluations take the same step -/
theorem step_kept (hok : pruneOk S R = true) (u : UInstr) (hu : u ∈ S.instrs) (hk : R.contains u.id = false)
    (st st' st1 st1' : EvalSt) (hr : StRel (removedOuts S R) st st')
    (h : stepEffect S st u = some st1) (h' : stepEffect (without S R deps) st' u = some st1') :
    StRel (removedOuts S R) st1 st1' := by
  rw [stepEffect_eq] at h h'
  cases ha' : termsOf (without S R deps) st'.env (fuelOf (without S R deps)) u.inp with
  | none => simp [ha'] at h'
  | some a' =>
    simp only [ha', Option.bind_some] at h'
    have h1 := (termOf_without S R deps hok st.env st'.env hr.env (fuelOf (without S R deps))).2 u.inp a'
      (kept_inp_ok S R hok u hu hk) ha'
    have h2 := (termOf_mono_le S st.env _ _ (fuel_without_le S R deps)).2 u.inp a' h1
    simp only [h2, Option.bind_some] at h
    exact effStep_rel _ u a' st st' st1 st1' hr h h'

omit deps in
/-- a removed operation is a load: it only binds its (removed) result -/
theorem step_removed (hok : pruneOk S R = true) (u : UInstr) (hu : u ∈ S.instrs) (hrm : R.contains u.id = true)
    (st st' st1 : EvalSt) (hr : StRel (removedOuts S R) st st') (h : stepEffect S st u = some st1) :
    StRel (removedOuts S R) st1 st' := by
  have hl : isLoadOp u = true ∧ ∃ o, u.out = some o := by
    simp only [pruneOk, Bool.and_eq_true, List.all_eq_true] at hok
    have := hok.1 u hu
    have hm : u.id ∈ R := by simpa using hrm
    simpa [hm, Option.isSome_iff_exists] using this
  obtain ⟨hop, o, ho⟩ := hl
  have hro := out_removed S R u hu hrm o ho
  rw [stepEffect_eq] at h
  cases ha : termsOf S st.env (fuelOf S) u.inp with
  | none => simp [ha] at h
  | some a =>
    simp only [ha, Option.bind_some] at h
    unfold effStep at h
    simp only [isLoadOp, Bool.or_eq_true, beq_iff_eq] at hop
    split at h
    all_goals first | (simp at h; done) | skip
    all_goals (simp only [Option.some.injEq] at h; subst h)
    all_goals first
      | (rename_i hop'; rcases hop with ((hq | hq) | hq) | hq <;> (rw [hq] at hop'; exact absurd hop' (by decide)))
      | skip
    all_goals (rename_i o' _ hout; rw [ho] at hout; cases hout)
    all_goals exact ⟨hr.mem, hr.sto, envRel_cons_removed _ _ _ hr.env _ _ hro⟩

/-- the two scheduled evaluations stay related -/
theorem run_rel (hok : pruneOk S R = true) : ∀ (L : List String) (st st' stf stf' : EvalSt), StRel (removedOuts S R) st st' →
    runSchedule S L st = some stf →
    runSchedule (without S R deps) (L.filter fun id => !R.contains id) st' = some stf' → StRel (removedOuts S R) stf stf'
  | [], st, st', stf, stf', hr, h, h' => by
    simp only [runSchedule, List.filter_nil, Option.some.injEq] at h h'
    subst h; subst h'; exact hr
  | id :: L, st, st', stf, stf', hr, h, h' => by
    simp only [runSchedule] at h
    cases hf : S.find? id with
    | none => simp [hf] at h
    | some u =>
      simp only [hf] at h
      have hu : u ∈ S.instrs := List.mem_of_find?_eq_some hf
      have hid : u.id = id := by simpa using List.find?_some hf
      cases hs : stepEffect S st u with
      | none => simp [hs] at h
      | some st1 =>
        simp only [hs, Option.bind_some] at h
        cases hrm : R.contains id with
        | true =>
          simp only [List.filter_cons, hrm, Bool.not_true, Bool.false_eq_true, if_false] at h'
          exact run_rel hok L st1 st' stf stf' (step_removed S R hok u hu (by rw [hid]; exact hrm) st st' st1 hr hs) h h'
        | false =>
          simp only [List.filter_cons, hrm, Bool.not_false, if_true, runSchedule, find_without S R deps id hrm, hf] at h'
          cases hs' : stepEffect (without S R deps) st' u with
          | none => simp [hs'] at h'
          | some st1' =>
            simp only [hs', Option.bind_some] at h'
            exact run_rel hok L st1 st1' stf stf' (step_kept S R deps hok u hu (by rw [hid]; exact hrm) st st' st1 st1' hr hs hs') h h'

/-- **leaving out loads whose results nothing uses does not change what a specification denotes**: under a schedule `L` and under `L`
    without the removed identifiers, the specification and the specification without `R` evaluate to the same symbolic state -/
theorem prune_evalSpec (hok : pruneOk S R = true) (L : List String) (X X' : SymSt)
    (h : evalSpec S L = some X) (h' : evalSpec (without S R deps) (L.filter fun id => !R.contains id) = some X') : X = X' := by
  unfold evalSpec at h h'
  cases hr : runSchedule S L {} with
  | none => simp [hr] at h
  | some stf =>
    cases hr' : runSchedule (without S R deps) (L.filter fun id => !R.contains id) {} with
    | none => rw [hr'] at h'; simp at h'
    | some stf' =>
      rw [hr'] at h'
      simp only [hr, Option.bind_eq_bind, Option.bind_some] at h h'
      have hrel := run_rel S R deps hok L {} {} stf stf' ⟨rfl, rfl, fun _ _ => rfl⟩ hr hr'
      cases ht' : termsOf (without S R deps) stf'.env (fuelOf (without S R deps)) (without S R deps).tgt with
      | none => simp [ht'] at h'
      | some stk' =>
        simp only [ht', Option.bind_some, Option.some.injEq] at h'
        have htgt : ∀ a ∈ S.tgt, atomOk (removedOuts S R) a = true := by
          simp only [pruneOk, Bool.and_eq_true, List.all_eq_true] at hok
          exact hok.2
        have h1 := (termOf_without S R deps hok stf.env stf'.env hrel.env (fuelOf (without S R deps))).2 S.tgt stk' htgt ht'
        have h2 := (termOf_mono_le S stf.env _ _ (fuel_without_le S R deps)).2 S.tgt stk' h1
        simp only [h2, Option.bind_some, Option.some.injEq] at h
        subst h; subst h'
        simp [hrel.mem, hrel.sto, without]


omit S R deps in
/-- **C02 for the emitted specification**: let `S'` be `S` without the loads `R` whose results nothing uses (`pruneOk`), and let the
    premises of `spec_denotes_block_under_every_schedule` hold for `S'` (conflicts ordered by `edges`, one schedule `L₁` matching the block).
    Then under EVERY schedule `L` of the emitted specification `S` under which it evaluates and whose kept part `L₂` is an admissible
    schedule of `S'`, the block computes exactly the state `S` denotes under `L`. -/
theorem spec_denotes_block_pruned (S : Spec) (R : List String) (deps : List (String × String)) (hok : pruneOk S R = true)
    (hn : namesOk (without S R deps) = true)
    (edges : List (String × String)) (fuel : Nat) (L₁ L : List String) (B : List Instr)
    (hnd : L₁.Nodup) (hp : L₁.Perm (L.filter fun id => !R.contains id))
    (hco : conflictsOrdered (without S R deps) edges fuel L₁ = true)
    (hr₁ : respectsB L₁ edges = true) (hr₂ : respectsB (L.filter fun id => !R.contains id) edges = true)
    (hm : scheduleMatches norm3 (without S R deps) L₁ B = true)
    (X X₂ : SymSt) (hX : evalSpec S L = some X) (h₂ : evalSpec (without S R deps) (L.filter fun id => !R.contains id) = some X₂)
    (e : GasolVerif.Env) (we : e.wf) (σ : St) :
    ∃ Y, symExec B .init = some Y ∧
      (max S.src.length Y.base ≤ σ.stack.length → exec e B σ = some (X.conc e σ)) := by
  have hXX := prune_evalSpec S R deps hok L X X₂ hX h₂
  subst hXX
  exact spec_denotes_block_under_every_schedule (without S R deps) hn edges fuel L₁ _ B hnd hp hco hr₁ hr₂ hm X h₂ e we σ

end GasolVerif.Spec
