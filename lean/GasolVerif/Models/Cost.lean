/-
  (M) C08: an independent cost measure on protocol tokens (`Ref`: Yellow Paper static gas tiers, byte
  sizes as solc's assembler computes them) and a model of the accept/reject decision of
  gasol_asm.improves_criterion / block_has_been_optimized.   No Mathlib.
-/
import GasolVerif.Parse
namespace GasolVerif.Cost

/-- static gas of one instruction (cold account/storage access, one-byte exponent for EXP) -/
def gasOf (push0 : Bool) : Instr → Nat
  | .push w => if push0 && w == 0#256 then 2 else 3
  | .pushSym _ => 3
  | .dup _ | .swap _ => 3
  | .pop => 2
  | .un _ => 3
  | .bin op =>
    match op with
    | .mul | .div | .sdiv | .mod | .smod | .signextend => 5
    | .exp => 60
    | _ => 3
  | .ter _ => 8
  | .env0 n => if n == "SELFBALANCE" then 5 else 2
  | .env1 n => if n == "CALLDATALOAD" then 3 else if n == "BLOCKHASH" then 20 else 2600
  | .mload | .mstore | .mstore8 => 3
  | .sload => 2100
  | .sstore => 5000
  | .keccak => 30
  | .ext n _ _ =>
    if n == "STOP" || n == "RETURN" || n == "REVERT" || n == "INVALID" then 0
    else if n.startsWith "tag" then 0
    else if n == "JUMPDEST" then 1
    else if n.startsWith "JUMPI" then 10
    else if n.startsWith "JUMP" then 8
    else if n == "GAS" then 2
    else if n.startsWith "LOG" then 375 + 375 * ((n.drop 3).toString.toNat?.getD 0)
    else if n == "CREATE" || n == "CREATE2" then 32000
    else if n == "CALL" || n == "CALLCODE" || n == "DELEGATECALL" || n == "STATICCALL" then 100
    else if n == "EXTCODECOPY" then 2600
    else if n == "SELFDESTRUCT" then 5000
    else if n.startsWith "ASSIGNIMMUTABLE" then 0
    else 3

def byteLen (n : Nat) : Nat := if n = 0 then 1 else (n.log2 / 8) + 1

def bytesOf (push0 : Bool) : Instr → Nat
  | .push w => if push0 && w == 0#256 then 1 else 1 + byteLen w.toNat
  | .pushSym s =>
    if s.startsWith "PUSH_#[$]" || s.startsWith "PUSHSIZE" then 5
    else if s.startsWith "PUSH_[tag]" || s.startsWith "PUSH_data" || s.startsWith "PUSH_[$]" then 3
    else if s.startsWith "PUSHLIB" || s.startsWith "PUSHDEPLOYADDRESS" then 21
    else if s.startsWith "PUSHIMMUTABLE" then 33
    else 1
  | .ext n _ _ => if n.startsWith "tag" then 0 else if n.startsWith "ASSIGNIMMUTABLE" then 35 else 1
  | _ => 1

def lenOf : Instr → Nat
  | .ext n _ _ => if n.startsWith "tag" then 0 else 1
  | _ => 1

structure Costs where
  gas : Nat
  bytes : Nat
  len : Nat
  deriving Repr, DecidableEq

def costs (push0 : Bool) (B : List Instr) : Costs :=
  ⟨(B.map (gasOf push0)).sum, (B.map (bytesOf push0)).sum, (B.map lenOf).sum⟩

inductive Crit | gas | size | length
  deriving DecidableEq, Repr

/-- model of `improves_criterion(saved_criterion, *saved_other)` -/
def improves (c : Int) : List Int → Bool
  | others =>
    if c > 0 then true
    else if c = 0 then
      let rec go : List Int → Bool → Bool
        | [], any => any
        | o :: os, any => if o > 0 then go os true else if o < 0 then false else go os any
      go others false
    else false

/-- model of `block_has_been_optimized` on the three savings -/
def hasBeenOptimized (crit : Crit) (savedSize savedGas savedLen : Int) : Bool :=
  match crit with
  | .size => improves savedSize [savedGas]
  | .length => improves savedLen [savedGas, savedSize]
  | .gas => improves savedGas [savedSize]

/-- what C08 demands of an emitted block against its input, in the independent measure -/
def acceptable (crit : Crit) (cin cout : Costs) : Bool :=
  let sg : Int := cin.gas - cout.gas
  let ss : Int := cin.bytes - cout.bytes
  let sl : Int := cin.len - cout.len
  match crit with
  | .gas => decide (sg > 0) || (sg == 0 && decide (ss ≥ 0) && decide (ss > 0))
  | .size => decide (ss > 0) || (ss == 0 && decide (sg ≥ 0) && decide (sg > 0))
  | .length => decide (sl > 0) || (sl == 0 && decide (sg ≥ 0) && decide (ss ≥ 0) && (decide (sg > 0) || decide (ss > 0)))

end GasolVerif.Cost
