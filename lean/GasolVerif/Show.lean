import GasolVerif.Norm
import GasolVerif.Equiv
import GasolVerif.Parse
namespace GasolVerif

def Tm.toStr : Tm → String
  | .const w => "0x" ++ hexOfNat w.toNat
  | .var i => s!"s{i}"
  | .sym s => s!"sym({s})"
  | .env0 n => n
  | .env1 n a => s!"{n}({a.toStr})"
  | .un op a => s!"{op.name}({a.toStr})"
  | .bin op a b => s!"{op.name}({a.toStr},{b.toStr})"
  | .ter op a b c => s!"{op.name}({a.toStr},{b.toStr},{c.toStr})"
  | .mload m a => s!"MLOAD[{m.toStr}]({a.toStr})"
  | .sload s k => s!"SLOAD[{s.toStr}]({k.toStr})"
  | .keccak m o l => s!"KECCAK[{m.toStr}]({o.toStr},{l.toStr})"
  | .mem0 => "M0"
  | .mstore m a v => s!"{m.toStr};MSTORE({a.toStr},{v.toStr})"
  | .mstore8 m a v => s!"{m.toStr};MSTORE8({a.toStr},{v.toStr})"
  | .sto0 => "S0"
  | .sstore s k v => s!"{s.toStr};SSTORE({k.toStr},{v.toStr})"

def SymSt.toStr (nf : Normaliser) (S : SymSt) : String :=
  s!"base={S.base} stack=[{" | ".intercalate (S.stk.map fun t => (nf.w t).toStr)}] mem={(nf.m S.mem).toStr} sto={(nf.s S.sto).toStr}"

end GasolVerif
