import GasolVerif.Models.Asm
set_option linter.unusedSimpArgs false
namespace GasolVerif.Asm

theorem subBlocksAux_ne (body : List (String × Bool)) (cur : List String) : subBlocksAux body cur ≠ [] := by
  induction body generalizing cur with
  | nil => simp [subBlocksAux]
  | cons x rest ih =>
    obtain ⟨i, c⟩ := x
    simp only [subBlocksAux]
    split
    · simp
    · exact ih _

theorem joinShared_aux (body : List (String × Bool)) (cur : List String) :
    joinShared (subBlocksAux body cur) = cur.reverse ++ body.map (·.1) := by
  induction body generalizing cur with
  | nil => simp [subBlocksAux, joinShared]
  | cons x rest ih =>
    obtain ⟨i, c⟩ := x
    simp only [subBlocksAux]
    split
    · have hne := subBlocksAux_ne rest [i]
      have ih' := ih [i]
      cases hT : subBlocksAux rest [i] with
      | nil => exact absurd hT hne
      | cons t rest' =>
        rw [hT] at ih'
        simp only [joinShared, ih']
        simp
    · rw [ih]; simp

/-- **splitting partitions the block**: joining the reported sub-blocks at their shared instruction
    gives back exactly the instruction sequence, for every choice of cut positions -/
theorem joinShared_subBlocks (body : List (String × Bool)) :
    joinShared (subBlocks body) = body.map (·.1) := by
  simp [subBlocks, joinShared_aux]

theorem head_aux (body : List (String × Bool)) (cur : List String) (hc : cur ≠ []) :
    ∃ t rest', subBlocksAux body cur = t :: rest' ∧ t.head? = cur.reverse.head? := by
  induction body generalizing cur with
  | nil => exact ⟨cur.reverse, [], by simp [subBlocksAux], rfl⟩
  | cons x rest ih =>
    obtain ⟨i, c⟩ := x
    simp only [subBlocksAux]
    have hh : (i :: cur).reverse.head? = cur.reverse.head? := by
      have : cur.reverse ≠ [] := by simpa using hc
      simp only [List.reverse_cons]
      cases hr : cur.reverse with
      | nil => exact absurd hr this
      | cons a as => simp
    split
    · exact ⟨(i :: cur).reverse, subBlocksAux rest [i], rfl, hh⟩
    · obtain ⟨t, r', h1, h2⟩ := ih (i :: cur) (by simp)
      exact ⟨t, r', h1, h2.trans hh⟩

/-- consecutive sub-blocks share exactly the splitting instruction -/
theorem sharedOk_aux (body : List (String × Bool)) (cur : List String) :
    sharedOk (subBlocksAux body cur) = true := by
  induction body generalizing cur with
  | nil => simp [subBlocksAux, sharedOk]
  | cons x rest ih =>
    obtain ⟨i, c⟩ := x
    simp only [subBlocksAux]
    split
    · obtain ⟨t, r', h1, h2⟩ := head_aux rest [i] (by simp)
      have ih' := ih [i]
      rw [h1] at ih' ⊢
      simp only [sharedOk, ih', Bool.and_true]
      simp [h2]
    · exact ih _

theorem sharedOk_subBlocks (body : List (String × Bool)) : sharedOk (subBlocks body) = true :=
  sharedOk_aux body []

/-! ### rebuilding with nothing replaced is the identity -/

def noRepl : Nat → Option (List String) := fun _ => none

theorem stripSharedTail_ne (T : List (List String)) (h : T ≠ []) : stripShared.stripSharedTail T ≠ [] := by
  match T, h with
  | [s], _ => simp [stripShared.stripSharedTail]
  | s :: t :: r, _ => simp [stripShared.stripSharedTail]

theorem rebuild_tail (body : List (String × Bool)) (cur : List String) (hc : cur ≠ []) (k : Nat) :
    rebuildBody (stripShared.stripSharedTail (subBlocksAux body cur)) (sharedOf (subBlocksAux body cur)) noRepl k
      = (cur.reverse ++ body.map (·.1)).drop 1 := by
  induction body generalizing cur k with
  | nil => simp [subBlocksAux, stripShared.stripSharedTail, sharedOf, rebuildBody, noRepl]
  | cons x rest ih =>
    obtain ⟨i, c⟩ := x
    simp only [subBlocksAux]
    split
    · have hne := subBlocksAux_ne rest [i]
      cases hT : subBlocksAux rest [i] with
      | nil => exact absurd hT hne
      | cons t r' =>
        have ih' := ih [i] (by simp) (k + 1)
        rw [hT] at ih'
        have hst := stripSharedTail_ne (t :: r') (by simp)
        cases hS : stripShared.stripSharedTail (t :: r') with
        | nil => exact absurd hS hst
        | cons a as =>
          rw [hS] at ih'
          have hr : cur.reverse ≠ [] := by simpa using hc
          have hlast : (cur.reverse ++ [i]).getLast? = some i := by simp
          simp only [stripShared.stripSharedTail, sharedOf, hS, List.reverse_cons, hlast, Option.toList,
            List.singleton_append, List.cons_append, List.nil_append, rebuildBody]
          rw [ih']
          simp only [noRepl, Option.getD_none]
          cases hcr : cur.reverse with
          | nil => exact absurd hcr hr
          | cons y ys => simp
    · have := ih (i :: cur) (by simp) k
      rw [this]; simp

theorem rebuild_head (body : List (String × Bool)) (cur : List String) :
    rebuildBody (stripShared (subBlocksAux body cur)) (sharedOf (subBlocksAux body cur)) noRepl 0
      = cur.reverse ++ body.map (·.1) := by
  induction body generalizing cur with
  | nil => simp [subBlocksAux, stripShared, sharedOf, rebuildBody, noRepl]
  | cons x rest ih =>
    obtain ⟨i, c⟩ := x
    simp only [subBlocksAux]
    split
    · have hne := subBlocksAux_ne rest [i]
      cases hT : subBlocksAux rest [i] with
      | nil => exact absurd hT hne
      | cons t r' =>
        have tl := rebuild_tail rest [i] (by simp) 1
        rw [hT] at tl
        have hst := stripSharedTail_ne (t :: r') (by simp)
        cases hS : stripShared.stripSharedTail (t :: r') with
        | nil => exact absurd hS hst
        | cons a as =>
          rw [hS] at tl
          have hlast : (cur.reverse ++ [i]).getLast? = some i := by simp
          simp only [stripShared, sharedOf, hS, List.reverse_cons, hlast, Option.toList,
            List.singleton_append, List.cons_append, List.nil_append, rebuildBody]
          rw [tl]
          simp only [noRepl, Option.getD_none]
          simp
    · rw [ih]; simp

/-- **rebuilding a block when no sub-block was replaced returns the block unchanged** -/
theorem rebuild_none (pre post : List String) (body : List (String × Bool)) :
    rebuild pre (subBlocks body) post noRepl = pre ++ body.map (·.1) ++ post := by
  simp [rebuild, subBlocks, rebuild_head]

end GasolVerif.Asm
