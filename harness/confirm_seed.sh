#!/bin/bash
# usage: confirm_seed.sh <id> <dir-with patch.diff, demo.py, meta.json>
# confirms in a scratch worktree: demo passes on the clean tree, fails with the patch, baseline tests still pass
id="$1"; src="$2"
wt=/tmp/seedchk/$id
mkdir -p /tmp/seedchk
git -C /repo worktree remove --force $wt 2>/dev/null
git -C /repo worktree add --detach $wt HEAD -q || exit 2
demo=$(ls $src/demo.* | head -1)
run_demo() { if [[ "$demo" == *.py ]]; then (cd $wt && timeout 600 /venv/bin/python $demo $wt >/dev/null 2>&1; echo $?); else (cd $wt && timeout 600 bash $demo $wt >/dev/null 2>&1; echo $?); fi; }
clean=$(run_demo)
git -C $wt apply $src/patch.diff || { echo "$id: patch does not apply" > /tmp/seedchk/$id.result; exit 2; }
changed=$(run_demo)
(cd $wt && timeout 1500 /venv/bin/python -m pytest -q -p no:cacheprovider --timeout=900 --continue-on-collection-errors --junitxml=/tmp/seedchk/$id.junit.xml tests >/dev/null 2>&1)
pass=$(/venv/bin/python - <<PY
import json, xml.etree.ElementTree as ET
sp=set(json.load(open('/root/.vp/BASELINE.json'))['stable_pass'])
res={}
for tc in ET.parse('/tmp/seedchk/$id.junit.xml').iter('testcase'):
    res[tc.get('classname')+'::'+tc.get('name')] = not any(c.tag in ('failure','error') for c in tc)
print(sum(1 for n in sp if res.get(n)), len(sp))
PY
)
echo "$id demo_clean=$clean demo_changed=$changed baseline_pass=$pass" > /tmp/seedchk/$id.result
git -C /repo worktree remove --force $wt
rm -f /tmp/seedchk/$id.junit.xml
