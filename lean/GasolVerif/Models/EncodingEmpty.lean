/-
  (M) C06: the `-empty` variants of the stack constraints (`*_encoding_empty`, `move_only_x_j_i`,
  `stack_encoding_for_position_empty`): no `u` variables, a cell is free when its `x` equals the constant `empty`.
  Raw constructor trees, as the Python code calls the constructors.   No Mathlib.
-/
import GasolVerif.Models.Encoding
namespace GasolVerif.Enc
open GasolVerif.Formula

/-- `sf.empty()`: the term tied to the name `empty` in the table -/
def emptyF (I : Inst) : Option F := I.term.lookup "empty"

/-- `move_only_x_j_i(sf, j, alpha, beta, delta)` -/
def moveX (j al be : Nat) (d : Int) : F :=
  if al > be then .lit true
  else .conn .and ((rangeL al (be + 1)).map fun i => F.conn .eq [xA (shift i d) (j + 1), xA i j])

def moveXI (j al : Nat) (be : Int) (d : Int) : F :=
  if (al : Int) > be then .lit true else moveX j al be.toNat d

def isE (e : F) (i j : Nat) : F := .conn .eq [xA i j, e]
def notE (e : F) (i j : Nat) : F := .conn .distinct [xA i j, e]

/-- the transition constraint of instruction `ins` at position `j` in the `-empty` encoding -/
def transRawE (I : Inst) (ins : Instr) (j : Nat) : Option F := do
  let e ← emptyF I
  let bs := I.bs
  let left := isT I j ins.theta
  let imp := fun (r : F) => some (F.conn .imp [left, r])
  match ins.kind with
  | .nop => imp (moveX j 0 (bs - 1) 0)
  | .pop => imp (.conn .and [notE e 0 j, isE e (bs - 1) (j + 1), moveX j 1 (bs - 1) (-1)])
  | .pushBasic =>
    imp (.conn .and [.conn .le [.num 0, aA j], .conn .lt [aA j, .num I.intLimit], isE e (bs - 1) j,
      .conn .eq [xA 0 (j + 1), aA j], moveXI j 0 ((bs : Int) - 2) 1])
  | .dup k =>
    imp (.conn .and [isE e (bs - 1) j, notE e (k - 1) j, .conn .eq [xA 0 (j + 1), xA (k - 1) j], moveXI j 0 ((bs : Int) - 2) 1])
  | .swap k =>
    imp (.conn .and [notE e k j, .conn .eq [xA 0 (j + 1), xA k j], notE e 0 j, .conn .eq [xA k (j + 1), xA 0 j],
      moveX j 1 (k - 1) 0, moveX j (k + 1) (bs - 1) 0])
  | .popU o0 => do
    let t0 ← svF I o0
    imp (.conn .and [notE e 0 j, .conn .eq [xA 0 j, t0], isE e (bs - 1) (j + 1), moveX j 1 (bs - 1) (-1)])
  | .store o0 o1 => do
    let t0 ← svF I o0
    let t1 ← svF I o1
    imp (.conn .and [.conn .eq [xA 0 j, t0], .conn .eq [xA 1 j, t1], moveX j 2 (bs - 1) (-2), isE e (bs - 1) (j + 1),
      isE e (bs - 2) (j + 1)])
  | .comm o0 o1 r => do
    let t0 ← svF I o0
    let t1 ← svF I o1
    let tr ← svF I r
    imp (.conn .and [
      .conn .or [.conn .and [.conn .eq [xA 0 j, t0], .conn .eq [xA 1 j, t1]],
                 .conn .and [.conn .eq [xA 0 j, t1], .conn .eq [xA 1 j, t0]]],
      .conn .eq [xA 0 (j + 1), tr], moveX j 2 (bs - 1) (-1), isE e (bs - 1) (j + 1)])
  | .nonComm o r => do
    let n := o.length
    let ts ← o.mapM (svF I)
    let tr ← svF I r
    let first := ts.zipIdx.map fun (t, i) => F.conn .eq [xA i j, t]
    let second := (rangeL (bs - n + 1) bs).map fun i => isE e i (j + 1)
    let third := (rangeL (bs + n - 1) bs).map fun i => isE e i j
    let all := first ++ second ++ third
    let combined := if all.isEmpty then F.lit true else .conn .and all
    imp (.conn .and [combined, .conn .eq [xA 0 (j + 1), tr],
      moveXI j n (min ((bs : Int) - 2 + n) ((bs : Int) - 1)) (1 - (n : Int))])

/-- `stack_encoding_for_position_empty` -/
def stackAtRawE (I : Inst) (j : Nat) (st : List SV) : Option (List F) := do
  let e ← emptyF I
  let ts ← st.mapM (svF I)
  some ((ts.zipIdx.map fun (t, al) => F.conn .eq [xA al j, t]) ++ (rangeL st.length I.bs).map fun be => isE e be j)

/-- the stack core of the hard constraints in the `-empty` encoding -/
def coreRawE (I : Inst) : Option (List F) := do
  let trans ← (I.instrs.flatMap fun ins => (rangeL ins.lb (ins.ub + 1)).map fun j => transRawE I ins j).mapM id
  let ini ← stackAtRawE I 0 I.src
  let fin ← if I.terminal then stackTerminalRaw I I.b0 I.tgt else stackAtRawE I I.b0 I.tgt
  some ((rangeL 0 I.b0).map (domainRaw I) ++ trans ++ ini ++ fin)

end GasolVerif.Enc
