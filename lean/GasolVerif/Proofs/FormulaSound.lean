/-
  C18: the constructors of the constraint interface preserve truth value under every valuation,
  and structural equality (`Connector.__eq__`, modelled by `pyEq`) implies equal value.
-/
import GasolVerif.Models.Formula
set_option linter.unusedSimpArgs false
set_option linter.unusedVariables false
namespace GasolVerif.Formula

variable (v : Val)

theorem evalAll_append (as bs : List F) : evalAll v (as ++ bs) = (evalAll v as && evalAll v bs) := by
  induction as with
  | nil => simp [evalAll]
  | cons a as ih => simp [evalAll, ih, Bool.and_assoc]

theorem evalAny_append (as bs : List F) : evalAny v (as ++ bs) = (evalAny v as || evalAny v bs) := by
  induction as with
  | nil => simp [evalAny]
  | cons a as ih => simp [evalAny, ih, Bool.or_assoc]

theorem flatten_and (as : List F) (h : as.any (isLit false) = false) :
    evalAll v (flatten .and as) = evalAll v as := by
  induction as with
  | nil => simp [flatten]
  | cons a as ih =>
    simp only [List.any_cons, Bool.or_eq_false_iff] at h
    have ih := ih h.2
    cases a with
    | lit b =>
      cases b
      · simp [isLit] at h
      · simp [flatten, evalAll, evalB, ih]
    | num n => simp [flatten, evalAll, ih]
    | atom n s args => simp [flatten, evalAll, ih]
    | conn c xs =>
      simp only [flatten]
      split
      · rename_i hc; subst hc
        simp [evalAll_append, evalAll, evalB, ih]
      · simp [evalAll, ih]

theorem flatten_or (as : List F) (h : as.any (isLit true) = false) :
    evalAny v (flatten .or as) = evalAny v as := by
  induction as with
  | nil => simp [flatten]
  | cons a as ih =>
    simp only [List.any_cons, Bool.or_eq_false_iff] at h
    have ih := ih h.2
    cases a with
    | lit b =>
      cases b
      · simp [flatten, evalAny, evalB, ih]
      · simp [isLit] at h
    | num n => simp [flatten, evalAny, ih]
    | atom n s args => simp [flatten, evalAny, ih]
    | conn c xs =>
      simp only [flatten]
      split
      · rename_i hc; subst hc
        simp [evalAny_append, evalAny, evalB, ih]
      · simp [evalAny, ih]

theorem evalAll_of_litFalse (as : List F) (h : as.any (isLit false) = true) : evalAll v as = false := by
  induction as with
  | nil => simp at h
  | cons a as ih =>
    simp only [List.any_cons, Bool.or_eq_true] at h
    rcases h with h | h
    · cases a <;> simp [isLit] at h
      subst h; simp [evalAll, evalB]
    · simp [evalAll, ih h]

theorem evalAny_of_litTrue (as : List F) (h : as.any (isLit true) = true) : evalAny v as = true := by
  induction as with
  | nil => simp at h
  | cons a as ih =>
    simp only [List.any_cons, Bool.or_eq_true] at h
    rcases h with h | h
    · cases a <;> simp [isLit] at h
      subst h; simp [evalAny, evalB]
    · simp [evalAny, ih h]

/-- `add_and`: whenever it does not raise, the result has the truth value of the conjunction -/
theorem mkAnd_eval (as : List F) (r : F) (h : mkAnd as = .ok r) : evalB v r = evalAll v as := by
  unfold mkAnd at h
  split at h
  · simp at h
  · split at h
    · rename_i hf
      simp at h; subst h
      simp only [evalB]; exact (evalAll_of_litFalse v as hf).symm
    · rename_i hf
      have hfl := flatten_and v as (by simpa using hf)
      split at h
      · rename_i x hx
        simp at h; subst h
        rw [← hfl, hx]; simp [evalAll]
      · simp at h
      · simp at h; subst h
        rw [← hfl]; simp [evalB]

theorem mkOr_eval (as : List F) (r : F) (h : mkOr as = .ok r) : evalB v r = evalAny v as := by
  unfold mkOr at h
  split at h
  · simp at h
  · split at h
    · rename_i hf
      simp at h; subst h
      simp only [evalB]; exact (evalAny_of_litTrue v as hf).symm
    · rename_i hf
      have hfl := flatten_or v as (by simpa using hf)
      split at h
      · rename_i x hx
        simp at h; subst h
        rw [← hfl, hx]; simp [evalAny]
      · simp at h
      · simp at h; subst h
        rw [← hfl]; simp [evalB]

/-- `add_and`/`add_or` raise exactly when every argument is a literal that is dropped -/
theorem mkAnd_error_iff (as : List F) :
    (∃ e, mkAnd as = .error e) ↔ (as.isEmpty ∨ (as.any (isLit false) = false ∧ flatten .and as = [])) := by
  unfold mkAnd
  constructor
  · rintro ⟨e, h⟩
    split at h
    · left; assumption
    · split at h
      · simp at h
      · rename_i hf
        right
        refine ⟨by simpa using hf, ?_⟩
        split at h <;> simp_all
  · rintro (h | ⟨h1, h2⟩)
    · simp [h]
    · by_cases he : as.isEmpty
      · simp [he]
      · simp [he, h1, h2]

theorem mkNot_eval (a : F) : evalB v (mkNot a) = !evalB v a := by
  unfold mkNot
  split <;> simp [evalB]

theorem mkImplies_eval (l r : F) : evalB v (mkImplies l r) = (!evalB v l || evalB v r) := by
  unfold mkImplies
  split <;> simp [evalB, mkNot_eval]

/-! ### structural equality -/

mutual
theorem beq_eq : ∀ (a b : F), F.beq a b = true → a = b
  | .lit a, .lit b, h => by simp [F.beq] at h; rw [h]
  | .num a, .num b, h => by simp [F.beq] at h; rw [h]
  | .atom n s as, .atom n' s' as', h => by
    simp only [F.beq, Bool.and_eq_true, beq_iff_eq] at h
    obtain ⟨⟨h1, h2⟩, h3⟩ := h
    rw [h1, h2, beqList_eq as as' h3]
  | .conn c as, .conn c' as', h => by
    simp only [F.beq, Bool.and_eq_true, beq_iff_eq] at h
    obtain ⟨h1, h3⟩ := h
    rw [h1, beqList_eq as as' h3]
  | .lit _, .num _, h | .lit _, .atom _ _ _, h | .lit _, .conn _ _, h
  | .num _, .lit _, h | .num _, .atom _ _ _, h | .num _, .conn _ _, h
  | .atom _ _ _, .lit _, h | .atom _ _ _, .num _, h | .atom _ _ _, .conn _ _, h
  | .conn _ _, .lit _, h | .conn _ _, .num _, h | .conn _ _, .atom _ _ _, h => by simp [F.beq] at h
theorem beqList_eq : ∀ (as bs : List F), F.beqList as bs = true → as = bs
  | [], [], _ => rfl
  | a :: as, b :: bs, h => by
    simp only [F.beqList, Bool.and_eq_true] at h
    rw [beq_eq a b h.1, beqList_eq as bs h.2]
  | [], _ :: _, h | _ :: _, [], h => by simp [F.beqList] at h
end

/-! ### canonical forms preserve value -/

theorem evalAll_perm {as bs : List F} (h : as.Perm bs) : evalAll v as = evalAll v bs := by
  induction h with
  | nil => rfl
  | cons a _ ih => simp [evalAll, ih]
  | swap a b l => simp only [evalAll]; rw [← Bool.and_assoc, ← Bool.and_assoc, Bool.and_comm (evalB v b)]
  | trans _ _ ih1 ih2 => rw [ih1, ih2]

theorem evalAny_perm {as bs : List F} (h : as.Perm bs) : evalAny v as = evalAny v bs := by
  induction h with
  | nil => rfl
  | cons a _ ih => simp [evalAny, ih]
  | swap a b l => simp only [evalAny]; rw [← Bool.or_assoc, ← Bool.or_assoc, Bool.or_comm (evalB v b)]
  | trans _ _ ih1 ih2 => rw [ih1, ih2]

theorem evalIs_eq_map (as : List F) : evalIs v as = as.map (evalI v) := by
  induction as with
  | nil => rfl
  | cons a as ih => simp [evalIs, ih]

theorem pairwiseDistinct_perm {xs ys : List Int} (h : xs.Perm ys) : pairwiseDistinct xs = pairwiseDistinct ys := by
  induction h with
  | nil => rfl
  | cons a hp ih =>
    simp only [pairwiseDistinct, ih]
    congr 2
    simp only [List.contains_eq_mem]
    exact decide_eq_decide.mpr hp.mem_iff
  | swap a b l =>
    simp only [pairwiseDistinct, List.contains_cons]
    by_cases hab : a = b
    · subst hab; simp
    · have hba : b ≠ a := fun h => hab h.symm
      have e1 : (b == a) = false := by simp [hba]
      have e2 : (a == b) = false := by simp [hab]
      simp only [e1, e2, Bool.false_or, Bool.not_false, Bool.true_and]
      cases l.contains a <;> cases l.contains b <;> simp
  | trans _ _ ih1 ih2 => rw [ih1, ih2]

theorem perm_pair {α : Type} {p q a b : α} (h : [p, q].Perm [a, b]) : (p = a ∧ q = b) ∨ (p = b ∧ q = a) := by
  have hp : p ∈ [a, b] := h.mem_iff.mp (by simp)
  have hq : q ∈ [a, b] := h.mem_iff.mp (by simp)
  have ha : a ∈ [p, q] := h.mem_iff.mpr (by simp)
  have hb : b ∈ [p, q] := h.mem_iff.mpr (by simp)
  simp at hp hq ha hb
  rcases hp with rfl | rfl
  · rcases hq with rfl | rfl
    · rcases hb with rfl | rfl <;> simp
    · simp
  · rcases hq with rfl | rfl
    · simp
    · rcases ha with rfl | rfl <;> simp

theorem canonList_length (fs : List F) : (canonList fs).length = fs.length := by
  induction fs with
  | nil => rfl
  | cons a as ih => simp [canonList, ih]

omit v in
mutual
theorem canon_sound (v : Val) : ∀ (f : F), f.ws = true →
    evalB v (canon f) = evalB v f ∧ evalI v (canon f) = evalI v f ∧ (canon f).isBoolSorted = f.isBoolSorted
  | .lit b, _ => by simp [canon]
  | .num n, _ => by simp [canon]
  | .atom n s args, h => by
    simp only [F.ws] at h
    have := canonList_sound v args h
    simp [canon, evalB, evalI, F.isBoolSorted, this.1]
  | .conn c args, h => by
    refine ⟨?_, by simp [canon, evalI], by simp [canon, F.isBoolSorted]⟩
    cases c with
    | and =>
      simp only [F.ws, Bool.and_eq_true] at h
      have := canonList_sound v args h.1.1
      simp only [canon, Conn.comm, if_true, evalB]
      rw [evalAll_perm v (List.mergeSort_perm _ _), this.2.1]
    | or =>
      simp only [F.ws, Bool.and_eq_true] at h
      have := canonList_sound v args h.1.1
      simp only [canon, Conn.comm, if_true, evalB]
      rw [evalAny_perm v (List.mergeSort_perm _ _), this.2.2]
    | distinct =>
      simp only [F.ws, Bool.and_eq_true] at h
      have := canonList_sound v args h.1.1
      simp only [canon, Conn.comm, if_true, evalB]
      rw [evalIs_eq_map, evalIs_eq_map]
      apply pairwiseDistinct_perm
      have hp := (List.mergeSort_perm (canonList args) (fun x y => fLe x y)).map (evalI v)
      rw [← evalIs_eq_map v (canonList args), this.1, evalIs_eq_map] at hp
      exact hp
    | not =>
      match args, h with
      | [a], h =>
        simp only [F.ws, Bool.and_eq_true] at h
        have := canon_sound v a h.1
        simp [canon, canonList, Conn.comm, evalB, this.1]
      | [], h | _ :: _ :: _, h => simp [F.ws] at h
    | eq =>
      match args, h with
      | [a, b], h =>
        simp only [F.ws, Bool.and_eq_true, beq_iff_eq] at h
        have ha := canon_sound v a h.1.1
        have hb := canon_sound v b h.1.2
        simp only [canon, canonList, Conn.comm, if_true]
        have hp := List.mergeSort_perm [canon a, canon b] (fun x y => fLe x y)
        have hl : ([canon a, canon b].mergeSort (fun x y => fLe x y)).length = 2 := by
          rw [List.length_mergeSort]; rfl
        match hm : [canon a, canon b].mergeSort (fun x y => fLe x y), hl with
        | [p, q], _ =>
          rw [hm] at hp
          rcases perm_pair hp with ⟨rfl, rfl⟩ | ⟨rfl, rfl⟩
          · simp [evalB, ha.1, ha.2.1, ha.2.2, hb.1, hb.2.1]
          · simp only [evalB, hb.2.2, ha.2.2, ← h.2, ha.1, hb.1, ha.2.1, hb.2.1]
            split
            · rw [Bool.beq_comm]
            · by_cases hh : evalI v a = evalI v b
              · rw [hh]
              · have h2 : ¬ evalI v b = evalI v a := fun h => hh h.symm
                have e1 : (evalI v a == evalI v b) = false := by simpa using hh
                have e2 : (evalI v b == evalI v a) = false := by simpa using h2
                rw [e1, e2]
      | [], h | [_], h | _ :: _ :: _ :: _, h => simp [F.ws] at h
    | imp =>
      match args, h with
      | [a, b], h =>
        simp only [F.ws, Bool.and_eq_true] at h
        have ha := canon_sound v a h.1.1.1
        have hb := canon_sound v b h.1.1.2
        simp [canon, canonList, Conn.comm, evalB, ha.1, hb.1]
      | [], h | [_], h | _ :: _ :: _ :: _, h => simp [F.ws] at h
    | lt =>
      match args, h with
      | [a, b], h =>
        simp only [F.ws, Bool.and_eq_true] at h
        have ha := canon_sound v a h.1.1.1
        have hb := canon_sound v b h.1.1.2
        simp [canon, canonList, Conn.comm, evalB, ha.2.1, hb.2.1]
      | [], h | [_], h | _ :: _ :: _ :: _, h => simp [F.ws] at h
    | le =>
      match args, h with
      | [a, b], h =>
        simp only [F.ws, Bool.and_eq_true] at h
        have ha := canon_sound v a h.1.1.1
        have hb := canon_sound v b h.1.1.2
        simp [canon, canonList, Conn.comm, evalB, ha.2.1, hb.2.1]
      | [], h | [_], h | _ :: _ :: _ :: _, h => simp [F.ws] at h
theorem canonList_sound (v : Val) : ∀ (fs : List F), F.wsList fs = true →
    evalIs v (canonList fs) = evalIs v fs ∧ evalAll v (canonList fs) = evalAll v fs ∧
      evalAny v (canonList fs) = evalAny v fs
  | [], _ => by simp [canonList]
  | a :: as, h => by
    simp only [F.wsList, Bool.and_eq_true] at h
    have ha := canon_sound v a h.1
    have hs := canonList_sound v as h.2
    simp [canonList, evalIs, evalAll, evalAny, ha.1, ha.2.1, hs.1, hs.2.1, hs.2.2]
end

/-- **structural equality implies equal value**: `pyEq` models `Connector.__eq__` /
    `ExpressionReference.__eq__` (equality modulo the order of the arguments of commutative connectors) -/
theorem pyEq_sound (f g : F) (hf : f.ws = true) (hg : g.ws = true) (h : pyEq f g = true) :
    evalB v f = evalB v g ∧ evalI v f = evalI v g ∧ f.isBoolSorted = g.isBoolSorted := by
  unfold pyEq at h
  have he : canon f = canon g := beq_eq _ _ h
  have h1 := canon_sound v f hf
  have h2 := canon_sound v g hg
  rw [he] at h1
  exact ⟨h1.1.symm.trans h2.1, h1.2.1.symm.trans h2.2.1, h1.2.2.symm.trans h2.2.2⟩

/-- `add_eq` -/
theorem mkEq_eval (l r : F) (hl : l.ws = true) (hr : r.ws = true) (hs : l.isBoolSorted = r.isBoolSorted) :
    evalB v (mkEq l r) = evalB v (.conn .eq [l, r]) := by
  unfold mkEq
  split
  · rename_i b hb
    unfold pyLitEq at hb
    split at hb <;> simp at hb <;> subst hb
    · simp [evalB, F.isBoolSorted]
    · simp [evalB, F.isBoolSorted, evalI]
    · simp [F.isBoolSorted] at hs
    · simp [F.isBoolSorted] at hs
  · split
    · rename_i hpe
      have := pyEq_sound v l r hl hr hpe
      simp [evalB, this.1, this.2.1]
    · rfl

/-! ### building a whole tree through the interface -/

theorem wsList_append (as bs : List F) : F.wsList (as ++ bs) = (F.wsList as && F.wsList bs) := by
  induction as with
  | nil => simp [F.wsList]
  | cons a as ih => simp [F.wsList, ih, Bool.and_assoc]

theorem flatten_ws (c : Conn) (hc : c = .and ∨ c = .or) (as : List F) (h : F.wsList as = true) :
    F.wsList (flatten c as) = true := by
  induction as with
  | nil => simp [flatten, F.wsList]
  | cons a as ih =>
    simp only [F.wsList, Bool.and_eq_true] at h
    have ih := ih h.2
    cases a with
    | lit b => simp [flatten, ih]
    | num n => simp [flatten, F.wsList, F.ws, ih]
    | atom n s args => simp [flatten, F.wsList, ih, h.1]
    | conn c' xs =>
      simp only [flatten]
      split
      · rename_i hcc; subst hcc
        rw [wsList_append, ih]
        rcases hc with rfl | rfl <;> simp [F.ws] at h <;> simp [h.1.1]
      · simp [F.wsList, ih, h.1]

theorem mem_flatten_ws (c : Conn) (hc : c = .and ∨ c = .or) (as : List F) (h : F.wsList as = true) (x : F)
    (hx : flatten c as = [x]) : x.ws = true := by
  have := flatten_ws c hc as h
  rw [hx] at this
  simpa [F.wsList] using this

theorem allBool_append (as bs : List F) : allBool (as ++ bs) = (allBool as && allBool bs) := by
  induction as with
  | nil => simp [allBool]
  | cons a as ih => simp [allBool, ih, Bool.and_assoc]

theorem flatten_allBool (c : Conn) (hc : c = .and ∨ c = .or) (as : List F) (hw : F.wsList as = true)
    (hb : allBool as = true) : allBool (flatten c as) = true := by
  induction as with
  | nil => simp [flatten, allBool]
  | cons a as ih =>
    simp only [F.wsList, Bool.and_eq_true] at hw
    simp only [allBool, Bool.and_eq_true] at hb
    have ih := ih hw.2 hb.2
    cases a with
    | lit b => simp [flatten, ih]
    | num n => simp [F.isBoolSorted] at hb
    | atom n s args => simp [flatten, allBool, ih, hb.1]
    | conn c' xs =>
      simp only [flatten]
      split
      · rename_i hcc; subst hcc
        rw [allBool_append, ih]
        rcases hc with rfl | rfl <;> simp [F.ws] at hw <;> simp [hw.1.2]
      · simp [allBool, ih, F.isBoolSorted]

theorem mkAnd_props (as : List F) (r : F) (h : mkAnd as = .ok r) (hw : F.wsList as = true)
    (hb : allBool as = true) : r.ws = true ∧ r.isBoolSorted = true := by
  have hfw := flatten_ws .and (Or.inl rfl) as hw
  have hfb := flatten_allBool .and (Or.inl rfl) as hw hb
  unfold mkAnd at h
  split at h
  · simp at h
  · split at h
    · simp at h; subst h; simp [F.ws, F.isBoolSorted]
    · split at h
      · rename_i x hx; simp at h; subst h
        rw [hx] at hfw hfb
        simp [F.wsList, allBool] at hfw hfb
        exact ⟨hfw, hfb⟩
      · simp at h
      · rename_i xs h1 h2
        simp at h; subst h
        refine ⟨?_, rfl⟩
        simp only [F.ws, hfw, hfb, Bool.true_and, Bool.and_true]
        cases hf : flatten .and as with
        | nil => exact absurd hf h2
        | cons _ _ => rfl

theorem mkOr_props (as : List F) (r : F) (h : mkOr as = .ok r) (hw : F.wsList as = true)
    (hb : allBool as = true) : r.ws = true ∧ r.isBoolSorted = true := by
  have hfw := flatten_ws .or (Or.inr rfl) as hw
  have hfb := flatten_allBool .or (Or.inr rfl) as hw hb
  unfold mkOr at h
  split at h
  · simp at h
  · split at h
    · simp at h; subst h; simp [F.ws, F.isBoolSorted]
    · split at h
      · rename_i x hx; simp at h; subst h
        rw [hx] at hfw hfb
        simp [F.wsList, allBool] at hfw hfb
        exact ⟨hfw, hfb⟩
      · simp at h
      · rename_i xs h1 h2
        simp at h; subst h
        refine ⟨?_, rfl⟩
        simp only [F.ws, hfw, hfb, Bool.true_and, Bool.and_true]
        cases hf : flatten .or as with
        | nil => exact absurd hf h2
        | cons _ _ => rfl

theorem mkNot_props (a : F) (hw : a.ws = true) (hb : a.isBoolSorted = true) :
    (mkNot a).ws = true ∧ (mkNot a).isBoolSorted = true := by
  unfold mkNot
  split
  · rename_i x
    simp [F.ws] at hw
    exact ⟨hw.1, hw.2⟩
  · simp [F.ws, F.isBoolSorted]
  · exact ⟨by simp [F.ws, hw, hb], rfl⟩

theorem mkImplies_props (l r : F) (hl : l.ws = true) (hr : r.ws = true) (bl : l.isBoolSorted = true)
    (br : r.isBoolSorted = true) : (mkImplies l r).ws = true ∧ (mkImplies l r).isBoolSorted = true := by
  unfold mkImplies
  split
  · simp [F.ws, F.isBoolSorted]
  · exact ⟨hr, br⟩
  · simp [F.ws, F.isBoolSorted]
  · exact mkNot_props _ hl bl
  · exact ⟨by simp [F.ws, hl, hr, bl, br], rfl⟩

theorem mkEq_props (l r : F) (hl : l.ws = true) (hr : r.ws = true) (hs : l.isBoolSorted = r.isBoolSorted) :
    (mkEq l r).ws = true ∧ (mkEq l r).isBoolSorted = true := by
  unfold mkEq
  split
  · simp [F.ws, F.isBoolSorted]
  · split
    · simp [F.ws, F.isBoolSorted]
    · exact ⟨by simp [F.ws, hl, hr, hs], rfl⟩

/-! ### building a whole tree through the interface -/

/-- what building preserves: truth value, sort, well-sortedness; integer-sorted formulas are untouched -/
def Rel (v : Val) (f r : F) : Prop :=
  evalB v r = evalB v f ∧ r.isBoolSorted = f.isBoolSorted ∧ r.ws = true ∧ (f.isBoolSorted = false → r = f)

def RelList (v : Val) : List F → List F → Prop
  | [], [] => True
  | f :: fs, r :: rs => Rel v f r ∧ RelList v fs rs
  | _, _ => False

theorem relList_all (v : Val) : ∀ (fs rs : List F), RelList v fs rs →
    evalAll v rs = evalAll v fs ∧ evalAny v rs = evalAny v fs ∧ F.wsList rs = true ∧
      allBool rs = allBool fs ∧ noneBool rs = noneBool fs ∧ (noneBool fs = true → rs = fs) ∧ rs.isEmpty = fs.isEmpty
  | [], [], _ => by simp [evalAll, evalAny, F.wsList, allBool, noneBool]
  | f :: fs, r :: rs, h => by
    obtain ⟨⟨h1, h2, h3, h4⟩, ht⟩ := h
    have ih := relList_all v fs rs ht
    refine ⟨by simp [evalAll, h1, ih.1], by simp [evalAny, h1, ih.2.1], by simp [F.wsList, h3, ih.2.2.1],
      by simp [allBool, h2, ih.2.2.2.1], by simp [noneBool, h2, ih.2.2.2.2.1], ?_, by simp⟩
    intro hn
    simp only [noneBool, Bool.and_eq_true, Bool.not_eq_true'] at hn
    rw [h4 hn.1, ih.2.2.2.2.2.1 hn.2]
  | [], _ :: _, h | _ :: _, [], h => by simp [RelList] at h

mutual
/-- **every formula built through the constraint-construction interface has the truth value of the
    unsimplified formula it was built from**, under every valuation (well-sorted input, no raise) -/
theorem build_eval (v : Val) : ∀ (f r : F), f.ws = true → build f = .ok r → Rel v f r
  | .lit b, r, _, h => by simp [build] at h; subst h; simp [Rel, F.ws]
  | .num n, r, _, h => by simp [build] at h; subst h; simp [Rel, F.ws]
  | .atom n s args, r, hw, h => by simp [build] at h; subst h; exact ⟨rfl, rfl, hw, fun _ => rfl⟩
  | .conn c args, r, hw, h => by
    simp only [build] at h
    cases hb : buildList args with
    | error e => simp [hb, bind, Except.bind] at h
    | ok as =>
      simp only [hb, bind, Except.bind] at h
      cases c with
      | and =>
        simp only [F.ws, Bool.and_eq_true] at hw
        have hl := relList_all v args as (buildList_eval v args as hw.1.1 hb)
        simp only [build1] at h
        have hp := mkAnd_props as r h hl.2.2.1 (by rw [hl.2.2.2.1]; exact hw.2)
        exact ⟨by rw [mkAnd_eval v as r h, hl.1]; simp [evalB], by rw [hp.2]; rfl, hp.1, by simp [F.isBoolSorted]⟩
      | or =>
        simp only [F.ws, Bool.and_eq_true] at hw
        have hl := relList_all v args as (buildList_eval v args as hw.1.1 hb)
        simp only [build1] at h
        have hp := mkOr_props as r h hl.2.2.1 (by rw [hl.2.2.2.1]; exact hw.2)
        exact ⟨by rw [mkOr_eval v as r h, hl.2.1]; simp [evalB], by rw [hp.2]; rfl, hp.1, by simp [F.isBoolSorted]⟩
      | distinct =>
        simp only [F.ws, Bool.and_eq_true] at hw
        have hl := relList_all v args as (buildList_eval v args as hw.1.1 hb)
        have has : as = args := hl.2.2.2.2.2.1 hw.2
        subst has
        simp only [build1, mkDistinct] at h
        split at h
        · simp at h
        · simp at h; subst h
          exact ⟨rfl, rfl, by simp [F.ws, hw.1.1, hw.1.2, hw.2], by simp [F.isBoolSorted]⟩
      | not =>
        match args, as, hw, hb, h with
        | [a], as, hw, hb, h =>
          simp only [F.ws, Bool.and_eq_true] at hw
          have hl := buildList_eval v [a] as (by simp [F.wsList, hw.1]) hb
          match as, hl, h with
          | [a'], hl, h =>
            obtain ⟨⟨h1, h2, h3, h4⟩, _⟩ := hl
            simp only [build1] at h
            simp at h; subst h
            have hp := mkNot_props a' h3 (by rw [h2]; exact hw.2)
            exact ⟨by rw [mkNot_eval, h1]; simp [evalB], by rw [hp.2]; rfl, hp.1, by simp [F.isBoolSorted]⟩
          | [], hl, h | _ :: _ :: _, hl, h => simp [RelList] at hl
        | [], as, hw, hb, h | _ :: _ :: _, as, hw, hb, h => simp [F.ws] at hw
      | imp =>
        match args, as, hw, hb, h with
        | [a, b], as, hw, hb, h =>
          simp only [F.ws, Bool.and_eq_true] at hw
          have hl := buildList_eval v [a, b] as (by simp [F.wsList, hw.1.1.1, hw.1.1.2]) hb
          match as, hl, h with
          | [a', b'], hl, h =>
            obtain ⟨⟨h1, h2, h3, h4⟩, ⟨g1, g2, g3, g4⟩, _⟩ := hl
            simp only [build1] at h
            simp at h; subst h
            have hp := mkImplies_props a' b' h3 g3 (by rw [h2]; exact hw.1.2) (by rw [g2]; exact hw.2)
            exact ⟨by rw [mkImplies_eval, h1, g1]; simp [evalB], by rw [hp.2]; rfl, hp.1, by simp [F.isBoolSorted]⟩
          | [], hl, h | [_], hl, h | _ :: _ :: _ :: _, hl, h => simp [RelList] at hl
        | [], as, hw, hb, h | [_], as, hw, hb, h | _ :: _ :: _ :: _, as, hw, hb, h => simp [F.ws] at hw
      | eq =>
        match args, as, hw, hb, h with
        | [a, b], as, hw, hb, h =>
          simp only [F.ws, Bool.and_eq_true, beq_iff_eq] at hw
          have hl := buildList_eval v [a, b] as (by simp [F.wsList, hw.1.1, hw.1.2]) hb
          match as, hl, h with
          | [a', b'], hl, h =>
            obtain ⟨⟨h1, h2, h3, h4⟩, ⟨g1, g2, g3, g4⟩, _⟩ := hl
            simp only [build1] at h
            simp at h; subst h
            have hs : a'.isBoolSorted = b'.isBoolSorted := by rw [h2, g2]; exact hw.2
            have hp := mkEq_props a' b' h3 g3 hs
            refine ⟨?_, by rw [hp.2]; rfl, hp.1, by simp [F.isBoolSorted]⟩
            rw [mkEq_eval v a' b' h3 g3 hs]
            simp only [evalB, h2]
            cases hab : a.isBoolSorted with
            | true => simp [h1, g1]
            | false =>
              have hbb : b.isBoolSorted = false := by rw [← hw.2]; exact hab
              rw [h4 hab, g4 hbb]
          | [], hl, h | [_], hl, h | _ :: _ :: _ :: _, hl, h => simp [RelList] at hl
        | [], as, hw, hb, h | [_], as, hw, hb, h | _ :: _ :: _ :: _, as, hw, hb, h => simp [F.ws] at hw
      | lt =>
        match args, as, hw, hb, h with
        | [a, b], as, hw, hb, h =>
          simp only [F.ws, Bool.and_eq_true, Bool.not_eq_true'] at hw
          have hl := buildList_eval v [a, b] as (by simp [F.wsList, hw.1.1.1, hw.1.1.2]) hb
          match as, hl, h with
          | [a', b'], hl, h =>
            obtain ⟨⟨h1, h2, h3, h4⟩, ⟨g1, g2, g3, g4⟩, _⟩ := hl
            simp only [build1, mkLt] at h
            simp at h; subst h
            rw [h4 hw.1.2, g4 hw.2]
            exact ⟨rfl, rfl, by simp [F.ws, hw.1.1.1, hw.1.1.2, hw.1.2, hw.2], by simp [F.isBoolSorted]⟩
          | [], hl, h | [_], hl, h | _ :: _ :: _ :: _, hl, h => simp [RelList] at hl
        | [], as, hw, hb, h | [_], as, hw, hb, h | _ :: _ :: _ :: _, as, hw, hb, h => simp [F.ws] at hw
      | le =>
        match args, as, hw, hb, h with
        | [a, b], as, hw, hb, h =>
          simp only [F.ws, Bool.and_eq_true, Bool.not_eq_true'] at hw
          have hl := buildList_eval v [a, b] as (by simp [F.wsList, hw.1.1.1, hw.1.1.2]) hb
          match as, hl, h with
          | [a', b'], hl, h =>
            obtain ⟨⟨h1, h2, h3, h4⟩, ⟨g1, g2, g3, g4⟩, _⟩ := hl
            simp only [build1, mkLe] at h
            simp at h; subst h
            rw [h4 hw.1.2, g4 hw.2]
            exact ⟨rfl, rfl, by simp [F.ws, hw.1.1.1, hw.1.1.2, hw.1.2, hw.2], by simp [F.isBoolSorted]⟩
          | [], hl, h | [_], hl, h | _ :: _ :: _ :: _, hl, h => simp [RelList] at hl
        | [], as, hw, hb, h | [_], as, hw, hb, h | _ :: _ :: _ :: _, as, hw, hb, h => simp [F.ws] at hw
theorem buildList_eval (v : Val) : ∀ (fs rs : List F), F.wsList fs = true → buildList fs = .ok rs → RelList v fs rs
  | [], rs, _, h => by simp [buildList] at h; subst h; trivial
  | f :: fs, rs, hw, h => by
    simp only [F.wsList, Bool.and_eq_true] at hw
    simp only [buildList] at h
    cases hf : build f with
    | error e => simp [hf, bind, Except.bind] at h
    | ok x =>
      cases hfs : buildList fs with
      | error e => simp [hf, hfs, bind, Except.bind] at h
      | ok xs =>
        simp [hf, hfs, bind, Except.bind] at h
        subst h
        exact ⟨build_eval v f x hw.1 hf, buildList_eval v fs xs hw.2 hfs⟩
end

end GasolVerif.Formula
