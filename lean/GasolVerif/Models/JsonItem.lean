/-
  (M) C15, clause one at the level of items: `parser_asm.build_asm_bytecode` (a JSON assembly item → AsmBytecode, with the
  table that numbers PUSHLIB addresses by first appearance) and `AsmBytecode.to_json`.  A JSON item is the record of its
  optional fields (what `dict.get` can see); Python's json module, which turns text into that record, is outside.
  `Proofs/JsonItemSound.lean`: reading an item and writing it back gives the item, up to the documented PUSH0 spelling.
  No Mathlib.
-/
namespace GasolVerif.Json

structure JItem where
  begin_ : Option Int := none
  end_ : Option Int := none
  name : Option String := none
  source : Option Int := none
  value : Option String := none
  jumpType : Option String := none
  modifierDepth : Option Int := none
  deriving DecidableEq, Repr, Inhabited

/-- `AsmBytecode.value`: the item's text, or for PUSHLIB the index of its address in the table -/
inductive Val | str (s : String) | idx (n : Nat)
  deriving DecidableEq, Repr

structure Bytecode where
  begin_ : Int
  end_ : Int
  source : Int
  disasm : String
  value : Option Val
  jumpType : Option String
  modifierDepth : Option Int
  realValue : Option String
  deriving DecidableEq, Repr

/-- `build_asm_bytecode`; `none` where Python raises (PUSHLIB without value) or builds an item without a name -/
def build (push0 : Bool) (j : JItem) (tbl : List String) : Option (Bytecode × List String) :=
  match j.name with
  | none => none
  | some name =>
    let mk (value : Option Val) (real : Option String) (tbl : List String) : Option (Bytecode × List String) :=
      let b := j.begin_.getD (-1)
      let e := j.end_.getD (-1)
      let s := j.source.getD (-1)
      if push0 && name == "PUSH" && value == some (.str "0") then
        some (⟨b, e, s, "PUSH0", none, j.jumpType, j.modifierDepth, real⟩, tbl)
      else some (⟨b, e, s, name, value, j.jumpType, j.modifierDepth, real⟩, tbl)
    if name == "PUSHLIB" then
      match j.value with
      | none => none
      | some v =>
        if tbl.contains v then mk (some (.idx (tbl.idxOf v))) (some v) tbl
        else mk (some (.idx tbl.length)) (some v) (tbl ++ [v])
    else mk (j.value.map .str) j.value tbl

/-- `AsmBytecode.to_json` -/
def toJson (b : Bytecode) : JItem :=
  { begin_ := some b.begin_, end_ := some b.end_, name := some b.disasm, source := some b.source,
    value := if b.value.isSome then b.realValue else none,
    jumpType := b.jumpType, modifierDepth := b.modifierDepth }

/-- the documented spelling of a zero push when PUSH0 is enabled -/
def normP0 (push0 : Bool) (j : JItem) : JItem :=
  if push0 && j.name == some "PUSH" && j.value == some "0" then { j with name := some "PUSH0", value := none } else j

/-- items as solc writes them: the four positional fields are present, PUSHLIB carries its address -/
def JItem.wf (j : JItem) : Bool :=
  j.begin_.isSome && j.end_.isSome && j.name.isSome && j.source.isSome && (j.name != some "PUSHLIB" || j.value.isSome)

/-- a list of items read one after the other, threading the PUSHLIB table -/
def buildAll (push0 : Bool) : List JItem → List String → Option (List Bytecode)
  | [], _ => some []
  | j :: js, tbl =>
    match build push0 j tbl with
    | none => none
    | some (b, tbl') => (buildAll push0 js tbl').map (b :: ·)

/-- names that end a block -/
def isFinal (n : String) : Bool := n == "JUMP" || n == "JUMPI" || n == "STOP" || n == "RETURN" || n == "REVERT" || n == "INVALID"

/-- `build_blocks_from_asm_representation`: the items of a code section cut into blocks (a block ends with a final instruction, a
    `tag` starts a new one when the current one is not empty); the PUSHLIB table starts empty in every block.
    `cur`: the block being filled, `tbl`: its table -/
def buildBlocks (push0 : Bool) : List JItem → List Bytecode → List String → Option (List (List Bytecode))
  | [], cur, _ => some (if cur.isEmpty then [] else [cur])
  | j :: js, cur, tbl =>
    match build push0 j tbl with
    | none => none
    | some (b, tbl') =>
      if isFinal (j.name.getD "") then (buildBlocks push0 js [] []).map ((cur ++ [b]) :: ·)
      else if j.name == some "tag" then
        if cur.isEmpty then buildBlocks push0 js [b] tbl'
        else (buildBlocks push0 js [b] []).map (cur :: ·)
      else buildBlocks push0 js (cur ++ [b]) tbl'

/-! ### wire format: one field is `-` (absent) or `=` followed by its text -/
def fieldS (s : String) : Option String := if s.startsWith "=" then some (s.drop 1).toString else none
def fieldI (s : String) : Option Int := (fieldS s).bind String.toInt?
def showS : Option String → String
  | none => "-" | some s => "=" ++ s
def showI : Option Int → String
  | none => "-" | some i => "=" ++ toString i
def showV : Option Val → String
  | none => "-" | some (.str s) => "=s" ++ s | some (.idx n) => "=i" ++ toString n

def parseItem (s : String) : Option JItem :=
  match s.splitOn "\x1f" with
  | [b, e, n, src, v, jt, md] => some ⟨fieldI b, fieldI e, fieldS n, fieldI src, fieldS v, fieldS jt, fieldI md⟩
  | _ => none

def showItem (j : JItem) : String :=
  "\x1f".intercalate [showI j.begin_, showI j.end_, showS j.name, showI j.source, showS j.value, showS j.jumpType, showI j.modifierDepth]

def showBytecode (b : Bytecode) : String :=
  "\x1f".intercalate [toString b.begin_, toString b.end_, toString b.source, b.disasm, showV b.value, showS b.jumpType, showI b.modifierDepth, showS b.realValue]

/-- JSONITEMS: a block's items (separated by \x1e) → the bytecodes read and the items written back -/
def handleItems (p0 items : String) : String :=
  match (items.splitOn "\x1e").filter (· ≠ "") |>.mapM parseItem with
  | none => "error:parse"
  | some js =>
    match buildAll (p0 == "1") js [] with
    | none => "raise"
    | some bs => "\x1e".intercalate (bs.map showBytecode) ++ "\x1d" ++ "\x1e".intercalate (bs.map fun b => showItem (toJson b))

/-- JSONBLOCKS: a code section → its blocks (separated by \x1d), each a list of bytecodes -/
def handleBlocks (p0 items : String) : String :=
  match (items.splitOn "\x1e").filter (· ≠ "") |>.mapM parseItem with
  | none => "error:parse"
  | some js =>
    match buildBlocks (p0 == "1") js [] [] with
    | none => "raise"
    | some bl => "\x1d".intercalate (bl.map fun bs => "\x1e".intercalate (bs.map showBytecode))

end GasolVerif.Json
