/-
  (F) Foundations: a small-step EVM block machine. Specification side.
  Stack (head = top), byte-addressed memory without gas or address wrap, storage, and a trace of
  externally visible operations.  Gas, memory-expansion failure, MSIZE and PC are not modelled.
-/
import GasolVerif.Word
namespace GasolVerif

abbrev Byte := BitVec 8
abbrev Mem := Nat → Byte
abbrev Sto := Word → Word

/-- big-endian 32-byte word at `a` -/
def Mem.readBytes (m : Mem) (a : Nat) : Nat → Word
  | 0 => 0#256
  | n + 1 => (Mem.readBytes m a n <<< 8) ||| (m (a + n)).setWidth 256

def Mem.readWord (m : Mem) (a : Nat) : Word := m.readBytes a 32

def wordByte (v : Word) (i : Nat) : Byte := (v >>> (8 * (31 - i))).setWidth 8

def Mem.writeWord (m : Mem) (a : Nat) (v : Word) : Mem :=
  fun j => if a ≤ j ∧ j < a + 32 then wordByte v (j - a) else m j

def Mem.writeByte (m : Mem) (a : Nat) (v : Word) : Mem :=
  fun j => if j = a then v.setWidth 8 else m j

def Sto.write (s : Sto) (k v : Word) : Sto := fun j => if j = k then v else s j

/-- an externally visible operation: name, operands, and the whole memory and storage it saw -/
structure Event where
  name : String
  args : List Word
  mem : Mem
  sto : Sto

inductive Instr
  | push (w : Word)
  | pushSym (s : String)          -- pseudo-push, identified by its full text (`PUSH [tag] 5`, `PUSHLIB 0`, …)
  | dup (k : Nat) | swap (k : Nat) | pop
  | un (op : UnOp) | bin (op : BinOp) | ter (op : TerOp)
  | env0 (name : String)          -- ADDRESS, CALLER, …
  | env1 (name : String)          -- BALANCE, CALLDATALOAD, …
  | mload | mstore | mstore8 | sload | sstore | keccak
  | ext (name : String) (nin : Nat) (out : Bool)   -- split / terminal / marker instructions
  deriving DecidableEq, Repr, Inhabited

structure ExtRes where
  out : Word
  mem : Mem
  sto : Sto

/-- Everything a block cannot compute by itself. All fields are universally quantified in theorems.
    Reads depend on the trace so far (RETURNDATASIZE after a CALL, …). -/
structure Env where
  sym : String → Word
  env0 : String → List Event → Word
  env1 : String → List Event → Word → Word
  /-- hash of `len` bytes of the given byte source -/
  keccak : Nat → (Nat → Byte) → Word
  ext : String → List Event → List Word → Mem → Sto → ExtRes

def addrMask : Word := BitVec.ofNat 256 (2 ^ 160 - 1)

/-- assumptions on the environment under which the address-mask, `BALANCE(ADDRESS)` and
    hash-range rules are identities -/
structure Env.wf (e : Env) : Prop where
  addr160 : ∀ n, n ∈ ["ADDRESS", "CALLER", "ORIGIN", "COINBASE"] →
      ∀ tr, (e.env0 n tr) &&& addrMask = e.env0 n tr
  selfbal : ∀ tr, e.env1 "BALANCE" tr (e.env0 "ADDRESS" tr) = e.env0 "SELFBALANCE" tr
  keccak_ext : ∀ n f g, (∀ i, i < n → f i = g i) → e.keccak n f = e.keccak n g

structure St where
  stack : List Word
  mem : Mem
  sto : Sto
  trace : List Event

def step (e : Env) : Instr → St → Option St
  | .push w, s => some { s with stack := w :: s.stack }
  | .pushSym x, s => some { s with stack := e.sym x :: s.stack }
  | .dup k, s =>
    if k = 0 then none else
    match s.stack[k - 1]? with
    | some w => some { s with stack := w :: s.stack }
    | none => none
  | .swap k, s =>
    if k = 0 then none else
    match s.stack with
    | [] => none
    | top :: rest =>
      match rest[k - 1]? with
      | some w => some { s with stack := w :: rest.set (k - 1) top }
      | none => none
  | .pop, s =>
    match s.stack with
    | _ :: rest => some { s with stack := rest }
    | [] => none
  | .un op, s =>
    match s.stack with
    | a :: rest => some { s with stack := op.sem a :: rest }
    | _ => none
  | .bin op, s =>
    match s.stack with
    | a :: b :: rest => some { s with stack := op.sem a b :: rest }
    | _ => none
  | .ter op, s =>
    match s.stack with
    | a :: b :: c :: rest => some { s with stack := op.sem a b c :: rest }
    | _ => none
  | .env0 n, s => some { s with stack := e.env0 n s.trace :: s.stack }
  | .env1 n, s =>
    match s.stack with
    | a :: rest => some { s with stack := e.env1 n s.trace a :: rest }
    | _ => none
  | .mload, s =>
    match s.stack with
    | a :: rest => some { s with stack := s.mem.readWord a.toNat :: rest }
    | _ => none
  | .mstore, s =>
    match s.stack with
    | a :: v :: rest => some { s with stack := rest, mem := s.mem.writeWord a.toNat v }
    | _ => none
  | .mstore8, s =>
    match s.stack with
    | a :: v :: rest => some { s with stack := rest, mem := s.mem.writeByte a.toNat v }
    | _ => none
  | .sload, s =>
    match s.stack with
    | k :: rest => some { s with stack := s.sto k :: rest }
    | _ => none
  | .sstore, s =>
    match s.stack with
    | k :: v :: rest => some { s with stack := rest, sto := s.sto.write k v }
    | _ => none
  | .keccak, s =>
    match s.stack with
    | off :: len :: rest =>
      some { s with stack := e.keccak len.toNat (fun i => s.mem (off.toNat + i)) :: rest }
    | _ => none
  | .ext n nin out, s =>
    if s.stack.length < nin then none else
    let args := s.stack.take nin
    let rest := s.stack.drop nin
    let r := e.ext n s.trace args s.mem s.sto
    some { stack := if out then r.out :: rest else rest
           mem := r.mem, sto := r.sto
           trace := s.trace ++ [⟨n, args, s.mem, s.sto⟩] }

def exec (e : Env) : List Instr → St → Option St
  | [], s => some s
  | i :: is, s => (step e i s).bind (exec e is)

/-- `B'` may replace `B`: from every state on which `B` runs, `B'` runs and ends in the same state
    (same stack, memory, storage and the same trace of externally visible operations, each with the
    operands, memory and storage it saw).  This includes "needs no deeper stack" and "same height
    change". -/
def ObsEq (B B' : List Instr) : Prop :=
  ∀ (e : Env), e.wf → ∀ σ σ', exec e B σ = some σ' → exec e B' σ = some σ'

theorem exec_append (e : Env) (B₁ B₂ : List Instr) (σ : St) :
    exec e (B₁ ++ B₂) σ = (exec e B₁ σ).bind (exec e B₂) := by
  induction B₁ generalizing σ with
  | nil => simp [exec]
  | cons i is ih =>
    simp only [List.cons_append, exec]
    cases step e i σ with
    | none => simp
    | some σ₁ => simp [ih]

theorem ObsEq.refl (B : List Instr) : ObsEq B B := fun _ _ _ _ h => h

theorem ObsEq.trans {A B C : List Instr} (h₁ : ObsEq A B) (h₂ : ObsEq B C) : ObsEq A C :=
  fun e we σ σ' h => h₂ e we σ σ' (h₁ e we σ σ' h)

theorem ObsEq.append {A A' B B' : List Instr} (h₁ : ObsEq A A') (h₂ : ObsEq B B') :
    ObsEq (A ++ B) (A' ++ B') := by
  intro e we σ σ' h
  rw [exec_append] at h ⊢
  cases hA : exec e A σ with
  | none => simp [hA] at h
  | some σ₁ =>
    rw [hA] at h
    simp only [Option.bind_some] at h
    rw [h₁ e we σ σ₁ hA]
    simp only [Option.bind_some]
    exact h₂ e we σ₁ σ' h

end GasolVerif
