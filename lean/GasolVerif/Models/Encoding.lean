/-
  (M) C06: the stack core of the Max-SMT encoding — `restrict_t_domain`, the per-instruction transition constraints
  of `synthesis_stack_constraints.py` (boolean `u` variables, i.e. without `-empty`), the initial/final stack
  constraints of `synthesis_initialize_variables.py` — generated as raw constructor trees exactly as the Python code
  calls `add_and/add_eq/…`; `Formula.build` (the proved model of `connector_factory`) turns them into the emitted
  formulas and `Formula.render` into the SMT-LIB text that is compared with the real encoder's output.   No Mathlib.
-/
import GasolVerif.Models.Formula
namespace GasolVerif.Enc
open GasolVerif.Formula

/-- `Stack_Var_T`: an integer constant or the name of a stack variable -/
inductive SV
  | num (n : Int)
  | var (s : String)
  deriving DecidableEq, Repr, Inhabited

inductive Kind
  | nop | pop | pushBasic
  | dup (k : Nat) | swap (k : Nat)
  | nonComm (o : List SV) (r : SV)
  | comm (o0 o1 r : SV)
  | store (o0 o1 : SV)
  | popU (o0 : SV)
  deriving DecidableEq, Repr, Inhabited

structure Instr where
  theta : Nat
  id : String
  kind : Kind
  lb : Nat
  ub : Nat
  deriving Repr, Inhabited

/-- what the harness reads off a `FullEncoding` object -/
structure Inst where
  bs : Nat
  b0 : Nat
  intLimit : Int
  thetaUF : Bool                      -- theta values are constants `theta_k` of an uninterpreted sort
  instrs : List Instr
  src : List SV
  tgt : List SV
  terminal : Bool
  term : List (String × F)            -- `_stack_var_to_term`
  deriving Repr, Inhabited

def uA (i j : Nat) : F := .atom s!"u_{i}_{j}" true []
def xA (i j : Nat) : F := .atom s!"x_{i}_{j}" false []
def tA (j : Nat) : F := .atom s!"t_{j}" false []
def aA (j : Nat) : F := .atom s!"a_{j}" false []

def thetaF (I : Inst) (th : Nat) : F := if I.thetaUF then .atom s!"theta_{th}" false [] else .num th

/-- `sf.stack_var`: an integer is itself, a name is looked up (`none`: Python raises) -/
def svF (I : Inst) : SV → Option F
  | .num n => some (.num n)
  | .var s => I.term.lookup s

def rangeL (a b : Nat) : List Nat := (List.range (b - a)).map (· + a)

def shift (i : Nat) (d : Int) : Nat := (Int.ofNat i + d).toNat

/-- `move(sf, j, alpha, beta, delta)` -/
def move (j al be : Nat) (d : Int) : F :=
  if al > be then .lit true
  else .conn .and ((rangeL al (be + 1)).flatMap fun i =>
    [.conn .eq [uA (shift i d) (j + 1), uA i j], .conn .eq [xA (shift i d) (j + 1), xA i j]])

/-- `move` with an upper end computed in Python integers (`bs - 2` is `-1`, an empty range, when `bs = 1`) -/
def moveI (j al : Nat) (be : Int) (d : Int) : F :=
  if (al : Int) > be then .lit true else move j al be.toNat d

def isT (I : Inst) (j th : Nat) : F := .conn .eq [tA j, thetaF I th]

/-- the transition constraint of instruction `ins` at position `j` (raw tree) -/
def transRaw (I : Inst) (ins : Instr) (j : Nat) : Option F :=
  let bs := I.bs
  let left := isT I j ins.theta
  let imp := fun (r : F) => some (F.conn .imp [left, r])
  match ins.kind with
  | .nop => imp (move j 0 (bs - 1) 0)
  | .pop => imp (.conn .and [uA 0 j, .conn .not [uA (bs - 1) (j + 1)], move j 1 (bs - 1) (-1)])
  | .pushBasic =>
    imp (.conn .and [.conn .le [.num 0, aA j], .conn .lt [aA j, .num I.intLimit], .conn .not [uA (bs - 1) j],
      uA 0 (j + 1), .conn .eq [xA 0 (j + 1), aA j], moveI j 0 ((bs : Int) - 2) 1])
  | .dup k =>
    imp (.conn .and [.conn .not [uA (bs - 1) j], uA (k - 1) j, uA 0 (j + 1),
      .conn .eq [xA 0 (j + 1), xA (k - 1) j], moveI j 0 ((bs : Int) - 2) 1])
  | .swap k =>
    imp (.conn .and [uA k j, uA 0 (j + 1), .conn .eq [xA 0 (j + 1), xA k j], uA k (j + 1),
      .conn .eq [xA k (j + 1), xA 0 j], move j 1 (k - 1) 0, move j (k + 1) (bs - 1) 0])
  | .popU o0 => do
    let t0 ← svF I o0
    imp (.conn .and [uA 0 j, .conn .eq [xA 0 j, t0], .conn .not [uA (bs - 1) (j + 1)], move j 1 (bs - 1) (-1)])
  | .store o0 o1 => do
    let t0 ← svF I o0
    let t1 ← svF I o1
    imp (.conn .and [uA 0 j, uA 1 j, .conn .and [.conn .eq [xA 0 j, t0], .conn .eq [xA 1 j, t1]],
      move j 2 (bs - 1) (-2), .conn .not [uA (bs - 1) (j + 1)], .conn .not [uA (bs - 2) (j + 1)]])
  | .comm o0 o1 r => do
    let t0 ← svF I o0
    let t1 ← svF I o1
    let tr ← svF I r
    imp (.conn .and [uA 0 j, uA 1 j,
      .conn .or [.conn .and [.conn .eq [xA 0 j, t0], .conn .eq [xA 1 j, t1]],
                 .conn .and [.conn .eq [xA 0 j, t1], .conn .eq [xA 1 j, t0]]],
      uA 0 (j + 1), .conn .eq [xA 0 (j + 1), tr], move j 2 (bs - 1) (-1), .conn .not [uA (bs - 1) (j + 1)]])
  | .nonComm o r => do
    let n := o.length
    let ts ← o.mapM (svF I)
    let tr ← svF I r
    let first := ts.zipIdx.map fun (t, i) => F.conn .and [uA i j, .conn .eq [xA i j, t]]
    let second := (rangeL (bs - n + 1) bs).map fun i => F.conn .not [uA i (j + 1)]
    let third := (rangeL (bs + n - 1) bs).map fun i => F.conn .not [uA i j]
    let all := first ++ second ++ third
    let combined := if all.isEmpty then F.lit true else .conn .and all
    imp (.conn .and [combined, uA 0 (j + 1), .conn .eq [xA 0 (j + 1), tr],
      moveI j n (min ((bs : Int) - 2 + n) ((bs : Int) - 1)) (1 - (n : Int))])

/-- `stack_encoding_for_position(j, sf, stack_state, bs)` -/
def stackAtRaw (I : Inst) (j : Nat) (st : List SV) : Option (List F) := do
  let ts ← st.mapM (svF I)
  some ((ts.zipIdx.map fun (t, al) => F.conn .and [uA al j, .conn .eq [xA al j, t]]) ++
        (rangeL st.length I.bs).map fun be => F.conn .not [uA be j])

/-- `stack_encoding_for_terminal` -/
def stackTerminalRaw (I : Inst) (j : Nat) (st : List SV) : Option (List F) :=
  match st with
  | s0 :: s1 :: _ => do
    let t0 ← svF I s0
    let t1 ← svF I s1
    some [.conn .and [uA 0 j, .conn .eq [xA 0 j, t0]], .conn .and [uA 1 j, .conn .eq [xA 1 j, t1]]]
  | _ => none

/-- `restrict_t_domain` at position `j` -/
def domainRaw (I : Inst) (j : Nat) : F :=
  .conn .or ((I.instrs.filter fun ins => ins.lb ≤ j && j ≤ ins.ub).map fun ins => isT I j ins.theta)

/-- the stack core of the hard constraints, as raw trees -/
def coreRaw (I : Inst) : Option (List F) := do
  let trans ← (I.instrs.flatMap fun ins => (rangeL ins.lb (ins.ub + 1)).map fun j => transRaw I ins j).mapM id
  let ini ← stackAtRaw I 0 I.src
  let fin ← if I.terminal then stackTerminalRaw I I.b0 I.tgt else stackAtRaw I I.b0 I.tgt
  some ((rangeL 0 I.b0).map (domainRaw I) ++ trans ++ ini ++ fin)

/-- the emitted formulas: every raw tree built through the constructors (`none`: some constructor raises) -/
def coreBuilt (I : Inst) : Option (List F) := do
  let raws ← coreRaw I
  raws.mapM fun f => match build f with
    | .ok r => some r
    | .error _ => none

/-! ### reading a valuation, the abstract stack, the meaning of instructions -/

/-! ### reading a valuation -/
def U (v : Val) (i j : Nat) : Bool := v.b s!"u_{i}_{j}" []
def X (v : Val) (i j : Nat) : Int := v.i s!"x_{i}_{j}" []
def T (v : Val) (j : Nat) : Int := v.i s!"t_{j}" []
def A (v : Val) (j : Nat) : Int := v.i s!"a_{j}" []
def thetaV (I : Inst) (v : Val) (th : Nat) : Int := evalI v (thetaF I th)

/-- the `u` flags at position `j` mark exactly the `h` topmost cells -/
def Height (I : Inst) (v : Val) (j h : Nat) : Prop :=
  h ≤ I.bs ∧ ∀ i, i < I.bs → (U v i j = true ↔ i < h)

def stk (v : Val) (j h : Nat) : List Int := (List.range h).map fun i => X v i j

/-- effect of one instruction on the value stack (`none`: not applicable); `a` is the pushed constant -/
def stepVal (I : Inst) (val : SV → Int) (k : Kind) (a : Int) (s : List Int) : Option (List Int) :=
  match k with
  | .nop => some s
  | .pop => match s with | _ :: r => some r | [] => none
  | .pushBasic => if s.length < I.bs ∧ 0 ≤ a ∧ a < I.intLimit then some (a :: s) else none
  | .dup k => if s.length < I.bs then s[k - 1]?.map (· :: s) else none
  | .swap k =>
    match s with
    | top :: rest => rest[k - 1]?.map fun y => y :: rest.set (k - 1) top
    | [] => none
  | .popU o0 => match s with | y :: r => if y = val o0 then some r else none | [] => none
  | .store o0 o1 => match s with | y0 :: y1 :: r => if y0 = val o0 ∧ y1 = val o1 then some r else none | _ => none
  | .comm o0 o1 r =>
    match s with
    | y0 :: y1 :: rest =>
      if (y0 = val o0 ∧ y1 = val o1) ∨ (y0 = val o1 ∧ y1 = val o0) then some (val r :: rest) else none
    | _ => none
  | .nonComm o r =>
    if o.length ≤ s.length ∧ s.take o.length = o.map val ∧ s.length - o.length < I.bs then
      some (val r :: s.drop o.length) else none

/-- side conditions on an instruction for a given stack bound (Python would index `u_{-1}` etc. otherwise) -/
def kindFits (bs : Nat) : Kind → Bool
  | .nop => true
  | .pop | .pushBasic | .popU _ => 1 ≤ bs
  | .dup k | .swap k => 1 ≤ k && k < bs
  | .store _ _ | .comm _ _ _ => 2 ≤ bs
  | .nonComm o _ => o.length ≤ bs && 1 ≤ bs

/-- value of a stack variable under a valuation -/
def valOf (I : Inst) (v : Val) (s : SV) : Int :=
  match svF I s with
  | some t => evalI v t
  | none => 0

def runVal (I : Inst) (val : SV → Int) : List (Kind × Int) → List Int → Option (List Int)
  | [], s => some s
  | (k, a) :: r, s => (stepVal I val k a s).bind (runVal I val r)

/-- the valuation `v` decodes to the instruction sequence `steps` (kind and pushed constant per position) -/
def Decodes (I : Inst) (v : Val) (steps : List (Kind × Int)) : Prop :=
  ∀ j (h : j < steps.length), ∃ ins ∈ I.instrs, ins.kind = steps[j].1 ∧ T v j = thetaV I v ins.theta ∧ steps[j].2 = A v j

/-- executable side conditions of `core_sound`, evaluated by the driver on every instance -/
def instOk (I : Inst) : Bool :=
  I.instrs.all (fun ins => kindFits I.bs ins.kind) && decide (I.src.length ≤ I.bs) && decide (I.tgt.length ≤ I.bs) &&
    !I.terminal

/-- effect of one instruction on the symbolic stack (stack variables and pushed constants) -/
def stepSym (I : Inst) (k : Kind) (a : Int) (s : List SV) : Option (List SV) :=
  match k with
  | .nop => some s
  | .pop => match s with | _ :: r => some r | [] => none
  | .pushBasic => if s.length < I.bs ∧ 0 ≤ a ∧ a < I.intLimit then some (.num a :: s) else none
  | .dup k => if s.length < I.bs then s[k - 1]?.map (· :: s) else none
  | .swap k =>
    match s with
    | top :: rest => rest[k - 1]?.map fun y => y :: rest.set (k - 1) top
    | [] => none
  | .popU o0 => match s with | y :: r => if y = o0 then some r else none | [] => none
  | .store o0 o1 => match s with | y0 :: y1 :: r => if y0 = o0 ∧ y1 = o1 then some r else none | _ => none
  | .comm o0 o1 r =>
    match s with
    | y0 :: y1 :: rest => if (y0 = o0 ∧ y1 = o1) ∨ (y0 = o1 ∧ y1 = o0) then some (r :: rest) else none
    | _ => none
  | .nonComm o r =>
    if o.length ≤ s.length ∧ s.take o.length = o ∧ s.length - o.length < I.bs then some (r :: s.drop o.length) else none

def runSym (I : Inst) : List (Kind × Int) → List SV → Option (List SV)
  | [], s => some s
  | (k, a) :: r, s => (stepSym I k a s).bind (runSym I r)

/-- the stack variables and constants an instruction mentions -/
def Kind.svs : Kind → List SV
  | .nonComm o r => r :: o
  | .comm o0 o1 r => [o0, o1, r]
  | .store o0 o1 => [o0, o1]
  | .popU o0 => [o0]
  | _ => []

def allSVs (I : Inst) : List SV := I.src ++ I.tgt ++ I.instrs.flatMap (·.kind.svs)

/-- the symbols whose values must identify them: the stack variables and constants of the instance, and — when
    the basic PUSH is part of the instruction set — every constant it may push -/
def Dom (I : Inst) (x : SV) : Prop :=
  x ∈ allSVs I ∨ ((∃ ins ∈ I.instrs, ins.kind = .pushBasic) ∧ ∃ n : Int, x = .num n ∧ 0 ≤ n ∧ n < I.intLimit)

/-! ### values identify stack variables: the constraints and data that ensure it -/

def hasPushBasic (I : Inst) : Bool := I.instrs.any fun ins => ins.kind == .pushBasic

/-- executable part of the premises of `inj_of_nodup`: every stack variable of the instance has a term; integer
    constants occur only when the basic PUSH is available, and then within its range -/
def svsOk (I : Inst) : Bool :=
  (allSVs I).all fun x =>
    match x with
    | .var s => (I.term.lookup s).isSome
    | .num n => hasPushBasic I && decide (0 ≤ n) && decide (n < I.intLimit)

/-- uninterpreted term encodings: `expressions_are_distinct(*created_stack_vars)` -/
def distinctRaw (I : Inst) : F := .conn .distinct (I.term.map (·.2))

/-- `-term-encoding stack_vars`: `initialize_stack_variables(sf, initial)` -/
def initVarsRaw (I : Inst) (initial : Int) : List F :=
  I.term.zipIdx.map fun (p, i) => F.conn .eq [p.2, .num (initial + i)]

/-- `-term-encoding int`: the table maps stack variables to pairwise different integers (beyond the range of
    pushed constants when the basic PUSH is available) — a property of the instance data, checked by evaluation -/
def intTermsOk (I : Inst) : Bool :=
  (I.term.all fun p => match p.2 with | .num _ => true | _ => false) &&
  pairwiseDistinct (I.term.map fun p => match p.2 with | .num k => k | _ => 0) &&
  (!hasPushBasic I || I.term.all fun p => match p.2 with | .num k => decide (I.intLimit ≤ k) | _ => false)

end GasolVerif.Enc
