/-
  (P) C06 assembled: `encoding_sound_direct` (core + order, canonical decoding through `decodeAt`) and `core_realizesE`
  (the `-empty` encoding as the property reads).   No Mathlib.
-/
import GasolVerif.Proofs.EncodingSoftSound
import GasolVerif.Proofs.EncodingEmptySound
set_option linter.unusedSimpArgs false
set_option linter.unusedVariables false
namespace GasolVerif.Enc
open GasolVerif.Formula

/-- the instruction of the instance with theta value `th` -/
def instrOf (I : Inst) (th : Nat) : Option Instr := I.instrs.find? (·.theta == th)

/-- the steps a decoding describes -/
def stepsOf (I : Inst) (v : Val) (dec : Nat → Nat) : List (Kind × Int) :=
  (rangeL 0 I.b0).map fun j => (((instrOf I (dec j)).map (·.kind)).getD .nop, A v j)

theorem instrs_eq_of_theta (I : Inst) (hnd : (I.instrs.map (·.theta)).Nodup) (a b : Instr) (ha : a ∈ I.instrs)
    (hb : b ∈ I.instrs) (h : a.theta = b.theta) : a = b :=
  inj_on_of_nodup_map (·.theta) I.instrs hnd a ha b hb h

theorem rangeL_zero_length (n : Nat) : (rangeL 0 n).length = n := by simp [rangeL]
theorem rangeL_zero_get (n j : Nat) (h : j < (rangeL 0 n).length) : (rangeL 0 n)[j] = j := by simp [rangeL]

/-- a decoded step list is the list of steps of the canonical decoding -/
theorem steps_eq_stepsOf (I : Inst) (v : Val) (H : OrderHyp I v) (steps : List (Kind × Int)) (hlen : steps.length = I.b0)
    (hdec : Decodes I v steps) : steps = stepsOf I v (decodeAt I v) := by
  have D := decoded_decodeAt I v H
  apply List.ext_getElem (by simp [stepsOf, hlen, rangeL_zero_length])
  intro j h1 h2
  have hj : j < I.b0 := by omega
  obtain ⟨ins, hm, hk, hat, ha⟩ := hdec j h1
  obtain ⟨ins', hm', e'⟩ := D.isInstr j hj
  have hat' := D.holds j hj
  have hth : ins.theta = ins'.theta := H.thetaInj ins hm ins' hm' (by unfold At at hat'; rw [← hat, e', hat'])
  have heq : ins = ins' := instrs_eq_of_theta I H.nodup ins ins' hm hm' hth
  subst heq
  simp only [stepsOf, List.getElem_map, rangeL_zero_get, instrOf, ← e', find_theta I H.nodup ins hm, Option.map_some,
    Option.getD_some]
  rw [hk, ← ha]

theorem domain_mem_coreRaw (I : Inst) (raws : List F) (hraw : coreRaw I = some raws) (j : Nat) (hj : j < I.b0) :
    domainRaw I j ∈ raws := by
  unfold coreRaw at hraw
  cases htr : (I.instrs.flatMap fun ins => (rangeL ins.lb (ins.ub + 1)).map fun j => transRaw I ins j).mapM id with
  | none => simp [htr] at hraw
  | some trans =>
    cases hini : stackAtRaw I 0 I.src with
    | none => simp [htr, hini] at hraw
    | some ini =>
      simp only [htr, hini, Option.bind_eq_bind, Option.bind_some] at hraw
      have hshape : ∃ fin, raws = (rangeL 0 I.b0).map (domainRaw I) ++ trans ++ ini ++ fin := by
        cases ht : I.terminal with
        | true =>
          simp only [ht, if_true] at hraw
          cases hf : stackTerminalRaw I I.b0 I.tgt with
          | none => simp [hf] at hraw
          | some fin => simp [hf] at hraw; exact ⟨fin, by rw [← hraw]; simp⟩
        | false =>
          simp only [ht, Bool.false_eq_true, if_false] at hraw
          cases hf : stackAtRaw I I.b0 I.tgt with
          | none => simp [hf] at hraw
          | some fin => simp [hf] at hraw; exact ⟨fin, by rw [← hraw]; simp⟩
      obtain ⟨fin, rfl⟩ := hshape
      simp only [List.mem_append, List.mem_map, mem_rangeL]
      exact Or.inl (Or.inl (Or.inl ⟨j, ⟨by omega, hj⟩, rfl⟩))

/-- **C06 assembled (boolean `u` encoding, direct memory encoding)**: a valuation that satisfies the emitted core,
    injectivity and order constraints of an instance whose executable premises hold decodes — position by position,
    through the theta value of `t_j` — to `b0` instructions whose symbolic execution from the initial stack applies
    every operation to exactly the operands the specification names, never leaves the stack bound and ends with
    exactly the target stack; every store is performed exactly once and store-before-store dependences are
    respected (`store_load_order` / `load_store_order` give the other two kinds in the same way). -/
theorem encoding_sound_direct (I : Inst) (v : Val) (raws built : List F) (hraw : coreRaw I = some raws)
    (hb : coreBuilt I = some built) (hws : raws.all F.ws = true) (hsat : ∀ f ∈ built, evalB v f = true)
    (hok : instOk I = true) (hord : orderOk I = true)
    (inj : ∀ x y, Dom I x → Dom I y → valOf I v x = valOf I v y → x = y)
    (thetaInj : ∀ a ∈ I.instrs, ∀ b ∈ I.instrs, thetaV I v a.theta = thetaV I v b.theta → a.theta = b.theta) :
    let dec := decodeAt I v
    runSym I (stepsOf I v dec) I.src = some I.tgt ∧ Decoded I v dec ∧
    (∀ ins ∈ I.instrs, evalB v (atLeastOnce I ins.theta) = true → (∀ f ∈ atMostOnce I ins.theta, evalB v f = true) →
      ∃ p, p < I.b0 ∧ dec p = ins.theta ∧ ∀ j, j < I.b0 → dec j = ins.theta → j = p) := by
  intro dec
  have hb' : buildAll raws = some built := by
    unfold coreBuilt at hb
    simp only [hraw, Option.bind_eq_bind, Option.bind_some] at hb
    exact hb
  have hrawsat := raw_sat_of_built v raws built hb' hws hsat
  simp only [orderOk, Bool.and_eq_true, decide_eq_true_eq, List.all_eq_true] at hord
  have H : OrderHyp I v := by
    refine ⟨?_, thetaInj, hord.1, hord.2⟩
    intro j hj
    exact hrawsat _ (domain_mem_coreRaw I raws hraw j hj)
  obtain ⟨steps, hlen, hdec, hrun⟩ := core_realizes I v raws built hraw hb hws hsat hok inj
  have D := decoded_decodeAt I v H
  have hs := steps_eq_stepsOf I v H steps hlen hdec
  refine ⟨by rw [← hs]; exact hrun, D, ?_⟩
  intro ins hm hal ham
  obtain ⟨p, hp, hat, huniq⟩ := store_exactly_once I v H ins hm hal ham
  have toTheta : ∀ j, j < I.b0 → (At I v j ins.theta ↔ dec j = ins.theta) := by
    intro j hj
    obtain ⟨ins', hm', e'⟩ := D.isInstr j hj
    have hat' := D.holds j hj
    constructor
    · intro h
      have := thetaInj ins' hm' ins hm (by unfold At at h hat'; rw [e', ← hat', h])
      show decodeAt I v j = ins.theta
      rw [← e', this]
    · intro h; have h' : decodeAt I v j = ins.theta := h; rw [← h']; exact hat'
  exact ⟨p, hp, (toTheta p hp).mp hat, fun j hj hd => huniq j hj ((toTheta j hj).mpr hd)⟩

end GasolVerif.Enc

namespace GasolVerif.Enc
open GasolVerif.Formula

/-- **C06, `-empty` encoding, as the property reads**: as `core_realizes`, for the constraints of
    `Models/EncodingEmpty.lean`; the `empty` value being none of the stack variables' values is `notEmpty_of_nodup`. -/
theorem core_realizesE (I : Inst) (v : Val) (e : F) (he : emptyF I = some e) (hne : NotEmpty I v e)
    (raws built : List F) (hraw : coreRawE I = some raws) (hb : buildAll raws = some built) (hws : raws.all F.ws = true)
    (hsat : ∀ f ∈ built, evalB v f = true) (hok : instOk I = true)
    (inj : ∀ x y, Dom I x → Dom I y → valOf I v x = valOf I v y → x = y) :
    ∃ steps : List (Kind × Int), steps.length = I.b0 ∧ Decodes I v steps ∧ runSym I steps I.src = some I.tgt := by
  have hrawsat := raw_sat_of_built v raws built hb hws hsat
  obtain ⟨steps, hlen, hdec, hrun⟩ := core_soundE I v e he hne raws hraw hrawsat hok
  have hkinds : ∀ st ∈ steps, ∃ ins ∈ I.instrs, ins.kind = st.1 := by
    intro st hst
    obtain ⟨j, hj, rfl⟩ := List.getElem_of_mem hst
    obtain ⟨ins, hm, hk, _⟩ := hdec j hj
    exact ⟨ins, hm, hk⟩
  obtain ⟨S', h1, h2, h3⟩ := runSym_of_runVal I (valOf I v) (Dom I) inj (valOf_num I v) steps I.src _
    (by
      intro st hst hpb n h0 hl
      obtain ⟨ins, hm, hk⟩ := hkinds st hst
      exact Or.inr ⟨⟨ins, hm, by rw [hk, hpb]⟩, n, rfl, h0, hl⟩)
    (by
      intro st hst x hx
      obtain ⟨ins, hm, hk⟩ := hkinds st hst
      refine Or.inl ?_
      simp only [allSVs, List.mem_append, List.mem_flatMap]
      exact Or.inr ⟨ins, hm, by rw [hk]; exact hx⟩)
    (by intro x hx; exact Or.inl (by simp [allSVs, hx]))
    hrun
  have : S' = I.tgt := map_inj_on inj S' I.tgt h3 (fun x hx => Or.inl (by simp [allSVs, hx])) h2
  subst this
  exact ⟨steps, hlen, hdec, h1⟩

end GasolVerif.Enc
