"""Seeded generators.  Every random choice derives from one random.Random(seed)."""
import random

M = 2 ** 256
BOUNDARY = [0, 1, 2, 31, 32, 255, 256, 2 ** 160 - 1, 2 ** 255 - 1, 2 ** 255, M - 1, M - 2]
OFFSETS = [0, 1, 16, 31, 32, 33, 64, 96, 128]

BIN = ["ADD", "MUL", "SUB", "DIV", "SDIV", "MOD", "SMOD", "EXP", "SIGNEXTEND", "LT", "GT", "SLT",
       "SGT", "EQ", "AND", "OR", "XOR", "BYTE", "SHL", "SHR", "SAR"]
UN = ["ISZERO", "NOT"]
TER = ["ADDMOD", "MULMOD"]
ENV0 = ["ADDRESS", "ORIGIN", "CALLER", "CALLVALUE", "CALLDATASIZE", "CODESIZE", "GASPRICE", "COINBASE",
        "TIMESTAMP", "NUMBER", "GASLIMIT", "CHAINID", "SELFBALANCE", "BASEFEE", "RETURNDATASIZE"]
ENV1 = ["BALANCE", "CALLDATALOAD", "EXTCODESIZE", "EXTCODEHASH", "BLOCKHASH"]
SPLIT = ["LOG0", "LOG1", "LOG2", "CALLDATACOPY", "CODECOPY", "RETURNDATACOPY", "EXTCODECOPY", "CALL",
         "STATICCALL", "DELEGATECALL", "CREATE", "CREATE2", "GAS"]
TERMINAL = ["JUMP", "JUMPI", "STOP", "RETURN", "REVERT", "INVALID"]
PSEUDO = ["PUSH [tag] %x", "PUSH data %x", "PUSHIMMUTABLE %x", "PUSHSIZE", "PUSHDEPLOYADDRESS",
          "PUSH #[$] %x", "PUSH [$] %x", "PUSHLIB %x"]


def push(v):
    if v == 0:
        return "PUSH1 0x0"
    n = max(1, (v.bit_length() + 7) // 8)
    return "PUSH%d 0x%x" % (n, v)


class BlockGen:
    def __init__(self, rng, profile="mixed"):
        self.r = rng
        self.profile = profile

    def const(self):
        r = self.r
        k = r.random()
        if k < 0.45:
            return r.choice(BOUNDARY)
        if k < 0.75:
            return r.randrange(0, 300)
        if k < 0.85:
            return r.choice(OFFSETS)
        if k < 0.93:
            return r.randrange(0, M)
        return r.choice([2 ** r.randrange(1, 256), M - r.randrange(1, 40)])

    def operand(self, out, depth_hint=4):
        """push one operand: constant, or a copy of a stack value"""
        r = self.r
        if r.random() < 0.5:
            out.append(push(self.const()))
        else:
            out.append("DUP%d" % r.randrange(1, depth_hint + 1))

    def addr(self, out):
        r = self.r
        k = r.random()
        if k < 0.55:
            out.append(push(r.choice(OFFSETS)))
        elif k < 0.75:
            out.append("DUP%d" % r.randrange(1, 4))
        else:
            out.append("DUP%d" % r.randrange(1, 4))
            out.append(push(r.choice(OFFSETS)))
            out.append("ADD")

    def snippet(self, out):
        r = self.r
        k = r.random()
        p = self.profile
        mem_w = {"mixed": 0.22, "mem": 0.6, "arith": 0.03, "stack": 0.05, "rules": 0.05}[p]
        stack_w = {"mixed": 0.15, "mem": 0.1, "arith": 0.1, "stack": 0.6, "rules": 0.1}[p]
        rule_w = 0.7 if p == "rules" else 0.25
        if k < mem_w:
            self.mem_snippet(out)
        elif k < mem_w + stack_w:
            self.stack_snippet(out)
        elif k < mem_w + stack_w + rule_w:
            self.rule_snippet(out)
        else:
            self.arith_snippet(out)

    def stack_snippet(self, out):
        r = self.r
        k = r.random()
        hi = 16 if self.profile == "stack" else 6
        if k < 0.35:
            out.append("DUP%d" % r.randrange(1, hi + 1))
        elif k < 0.7:
            out.append("SWAP%d" % r.randrange(1, hi + 1))
        elif k < 0.85:
            out.append("POP")
        else:
            out.append(push(self.const()))

    def arith_snippet(self, out):
        r = self.r
        k = r.random()
        if k < 0.6:
            n = r.random()
            if n < 0.7:
                self.operand(out)
            if n < 0.35:
                self.operand(out)
            out.append(r.choice(BIN))
        elif k < 0.75:
            if r.random() < 0.4:
                self.operand(out)
            out.append(r.choice(UN))
        elif k < 0.82:
            for _ in range(r.randrange(0, 4)):
                self.operand(out)
            out.append(r.choice(TER))
        elif k < 0.9:
            out.append(r.choice(ENV0))
        elif k < 0.96:
            if r.random() < 0.5:
                self.operand(out)
            out.append(r.choice(ENV1))
        else:
            t = r.choice(PSEUDO)
            out.append(t % r.randrange(0, 40) if "%" in t else t)

    def mem_snippet(self, out):
        r = self.r
        k = r.random()
        if k < 0.3:
            self.operand(out)
            self.addr(out)
            out.append("MSTORE")
        elif k < 0.5:
            self.addr(out)
            out.append("MLOAD")
        elif k < 0.6:
            self.operand(out)
            self.addr(out)
            out.append("MSTORE8")
        elif k < 0.7:
            out.append(push(r.choice([0, 1, 32, 33, 64])))
            self.addr(out)
            out.append("KECCAK256")
        elif k < 0.85:
            self.operand(out)
            out.append(push(r.choice([0, 1, 2])) if r.random() < 0.7 else "DUP%d" % r.randrange(1, 4))
            out.append("SSTORE")
        else:
            out.append(push(r.choice([0, 1, 2])) if r.random() < 0.7 else "DUP%d" % r.randrange(1, 4))
            out.append("SLOAD")

    RULES = [
        "PUSH1 0x0 {x} GT ISZERO", "{x} PUSH1 0x0 LT ISZERO", "{x} PUSH1 0x1 GT", "PUSH1 0x1 {x} LT",
        "{x} PUSH1 0x0 EQ", "PUSH1 0x0 {x} EQ", "{x} {y} GT ISZERO ISZERO", "{x} {y} SLT ISZERO ISZERO",
        "{x} {y} EQ ISZERO ISZERO", "{x} ISZERO ISZERO ISZERO", "{x} ISZERO PUSH1 0x1 EQ",
        "{x} {y} AND {x} AND", "{y} {x} {y} OR OR", "{x} {y} AND {x} OR", "{x} {y} OR {x} AND",
        "{x} {y} XOR {x} XOR", "{x} {y} XOR ISZERO", "{x} {y} SUB ISZERO", "{x} NOT NOT",
        "{x} NOT {x} AND", "{x} NOT {x} OR", "PUSH20 0xffffffffffffffffffffffffffffffffffffffff {a} AND",
        "{a} PUSH20 0xffffffffffffffffffffffffffffffffffffffff AND",
        "PUSH1 0x1 {x} SHL {y} MUL", "{y} PUSH1 0x1 {x} SHL MUL", "PUSH1 0x1 {x} SHL {y} DIV",
        "{x} {y} SHL {x} {z} SHL AND", "{y} {x} SHL {z} {x} SHL AND", "ADDRESS BALANCE",
        "{x} PUSH1 0x0 EXP", "{x} PUSH1 0x2 EXP", "PUSH1 0x0 {x} EXP", "PUSH1 0x1 {x} EXP", "{x} PUSH1 0x1 EXP",
        "{x} {x} DIV", "{x} {x} SDIV", "{x} {x} SUB", "{x} {x} XOR", "{x} {x} EQ", "{x} {x} GT", "{x} {x} LT",
        "{x} {x} SLT", "{x} {x} SGT", "{x} {x} AND", "{x} {x} OR", "{x} {x} MOD",
        "PUSH1 0x0 {x} SHL", "{x} PUSH1 0x0 SHL", "PUSH1 0x0 {x} SHR", "{x} PUSH1 0x0 SHR",
        "{x} PUSH1 0x0 SAR", "PUSH1 0x0 {x} SAR",
        "{x} PUSH1 0x0 ADD", "PUSH1 0x0 {x} SUB", "{x} PUSH1 0x0 SUB", "{x} PUSH1 0x1 MUL", "{x} PUSH1 0x0 MUL",
        "PUSH1 0x1 {x} DIV", "{x} PUSH1 0x1 DIV", "{x} PUSH1 0x0 DIV", "PUSH1 0x0 {x} DIV",
        "PUSH1 0x1 {x} SDIV", "{x} PUSH1 0x0 MOD", "PUSH1 0x0 {x} MOD", "PUSH1 0x1 {x} MOD",
        "{x} PUSH32 0xffffffffffffffffffffffffffffffffffffffffffffffffffffffffffffffff AND",
        "{x} PUSH1 0x0 OR", "{x} PUSH1 0x0 XOR", "{x} PUSH1 0x0 GT", "PUSH1 0x0 {x} GT", "PUSH1 0x0 {x} LT",
        "{x} PUSH1 0x0 LT", "{c} {c} {op}", "{c} {c} {op}", "{c} {c} {op}", "{c} NOT", "{c} ISZERO",
        "{c} {c} {c} ADDMOD", "{c} {c} {c} MULMOD", "{x} {c} {c} ADDMOD",
    ]

    def rule_snippet(self, out):
        r = self.r
        t = r.choice(self.RULES)
        vs = {}
        for name in "xyz":
            vs[name] = "DUP%d" % r.randrange(1, 5) if r.random() < 0.8 else push(self.const())
        toks = []
        for w in t.split(" "):
            if w in ("{x}", "{y}", "{z}"):
                toks.append(vs[w[1]])
            elif w == "{c}":
                toks.append(push(self.const()))
            elif w == "{a}":
                toks.append(r.choice(["ADDRESS", "CALLER", "ORIGIN", "COINBASE"]))
            elif w == "{op}":
                toks.append(r.choice(BIN))
            else:
                toks.append(w)
        out.append(" ".join(toks))
        # often consume / combine the result so that rules see uses of it
        k = r.random()
        if k < 0.2:
            out.append("ISZERO")
        elif k < 0.3:
            out.append("DUP1")

    def block(self, max_snippets=8, split_prob=0.12, terminal_prob=0.1):
        r = self.r
        out = []
        n = r.randrange(1, max_snippets + 1)
        for _ in range(n):
            self.snippet(out)
            if r.random() < split_prob:
                out.append(r.choice(SPLIT))
        if r.random() < terminal_prob:
            out.append(r.choice(TERMINAL))
        return " ".join(out)


# ---- systematic neighbourhood of the rewrite rules: every template instantiated with every operator of its
# family and with small constants, so that a rule that fires on the wrong operator, operand position or
# constant is exercised (not only the instances the rules are meant for)
FAM = {
    "cmp": ["GT", "LT", "SGT", "SLT", "EQ"],
    "bw": ["AND", "OR", "XOR"],
    "sh": ["SHL", "SHR", "SAR"],
    "ar": ["ADD", "SUB", "MUL", "DIV", "SDIV", "MOD", "SMOD", "EXP", "SIGNEXTEND", "BYTE"],
    "un": ["ISZERO", "NOT"],
    "k": ["PUSH1 0x0", "PUSH1 0x1", "PUSH1 0x2", "PUSH32 0x" + "f" * 64],
    "env": ["ADDRESS", "CALLER", "ORIGIN", "COINBASE", "CALLVALUE", "SELFBALANCE"],
}
TEMPLATES = [
    "{k} {x} {cmp} {un}", "{x} {k} {cmp} {un}", "{x} {y} {cmp} {un} {un}", "{x} {un} {un} {un}",
    "{x} {un} {k} {cmp}", "{k} {x} {un} {cmp}", "{x} {y} {bw} {x} {bw2}", "{y} {x} {y} {bw} {bw2}",
    "{x} {y} {bw} {un}", "{x} {y} {ar} {un}", "{x} {un} {x} {bw}", "{x} {x} {un} {bw}",
    "PUSH20 0xffffffffffffffffffffffffffffffffffffffff {env} {bw}", "{env} PUSH20 0xffffffffffffffffffffffffffffffffffffffff {bw}",
    "PUSH19 0xffffffffffffffffffffffffffffffffffffff {env} AND",
    "{k} {x} {sh} {y} {ar}", "{y} {k} {x} {sh} {ar}", "{x} {y} {sh} {x} {z} {sh2} {bw}", "{y} {x} {sh} {z} {x} {sh2} {bw}",
    "{env} BALANCE", "{env} EXTCODESIZE", "{x} {k} {ar}", "{k} {x} {ar}", "{x} {x} {ar}", "{x} {x} {cmp}", "{x} {x} {bw}",
    "{k} {x} {sh}", "{x} {k} {sh}", "{x} {x} {sh}", "{x} {k} {bw}", "{x} {k} {cmp}", "{k} {x} {cmp}",
]


def rule_corpus():
    """deterministic list of blocks: all instantiations of TEMPLATES (operators and constants), with stack variables"""
    import itertools
    out = []
    for t in TEMPLATES:
        slots = []
        for w in t.split(" "):
            if w.startswith("{") and w[1:-1].rstrip("2") in FAM:
                slots.append(w)
        keys = list(dict.fromkeys(slots))
        choices = [FAM[k[1:-1].rstrip("2")] for k in keys]
        for combo in itertools.product(*choices):
            m = dict(zip(keys, combo))
            depth = 0
            toks = []
            for w in t.split(" "):
                if w in m:
                    toks.append(m[w])
                elif w in ("{x}", "{y}", "{z}"):
                    toks.append("DUP%d" % ({"{x}": 1, "{y}": 2, "{z}": 3}[w] + depth))
                else:
                    toks.append(w)
                # track how many words the prefix has pushed on top of the three variables
                last = toks[-1].split(" ")[0]
                if last.startswith("DUP") or last.startswith("PUSH") or last in FAM["env"]:
                    depth += 1
                elif last in FAM["un"] or last in ("BALANCE", "EXTCODESIZE"):
                    pass
                else:
                    depth -= 1
            out.append(" ".join(toks))
    return list(dict.fromkeys(out))


def consuming_rule_corpus():
    """rule left-hand sides whose operands are taken from the input stack itself (not copied with DUP), so that a rule
    that makes an operand unused forces a POP: `k OP`, `OP`, `DUP1 OP`, `k SWAP1 OP`"""
    out = []
    ops = BIN
    for op in ops:
        out.append(op)
        out.append("DUP1 %s" % op)
        for k in FAM["k"]:
            out.append("%s %s" % (k, op))
            out.append("%s SWAP1 %s" % (k, op))
    for op in UN:
        out += [op, "%s %s" % (op, op), "%s %s %s" % (op, op, op)]
    for op in BIN:
        out.append("%s ISZERO" % op)
        out.append("%s ISZERO ISZERO" % op)
    return out


def fold_corpus(values=None):
    """PUSH b PUSH a OP for every binary operator over a grid of constants"""
    vals = values or [0, 1, 2, 31, 32, 255, 256, 2 ** 255 - 1, 2 ** 255, M - 1]
    return ["%s %s %s" % (push(b), push(a), op) for op in BIN for a in vals for b in vals]


def load_store_corpus():
    """several loads whose results stay on the stack across a later store that also uses them (the greedy back end
    has to keep them: its bookkeeping of such values lives in sets)"""
    out = []
    loads = ["PUSH1 0x20 MLOAD", "PUSH1 0x0 MLOAD", "PUSH1 0x40 MLOAD", "PUSH1 0x1 SLOAD", "PUSH1 0x2 SLOAD", "PUSH1 0x60 MLOAD"]
    import itertools
    for k in (2, 3, 4):
        for combo in itertools.islice(itertools.permutations(loads, k), 0, 40, 3):
            pre = " ".join(combo)
            for store in ("MSTORE", "SSTORE"):
                if k == 2:
                    out.append("%s SWAP1 DUP2 DUP2 ADD DUP4 %s" % (pre, store))
                    out.append("%s DUP2 DUP2 MUL DUP4 %s" % (pre, store))
                elif k == 3:
                    out.append("%s DUP3 DUP3 ADD DUP2 ADD DUP5 %s" % (pre, store))
                    out.append("%s SWAP2 DUP3 DUP2 XOR DUP5 %s" % (pre, store))
                else:
                    out.append("%s DUP4 DUP4 ADD DUP3 DUP3 ADD ADD DUP6 %s" % (pre, store))
    return out


def store_of_load_corpus():
    """a value loaded from a place and stored back (word store, byte store, storage), at the same place and at
    neighbouring ones, with constant and symbolic addresses, with an access in between (the front end removes a
    store of the value just loaded; a byte store is not such a store)"""
    out = []
    for tail in ("", " PUSH1 0x1 ADD", " DUP1 MLOAD"):
        for st in ("MSTORE", "MSTORE8"):
            out.append("DUP1 MLOAD DUP2 %s%s" % (st, tail))
            out.append("DUP1 MLOAD DUP2 PUSH1 0x1 ADD %s%s" % (st, tail))
            out.append("DUP1 MLOAD DUP2 PUSH1 0x1f ADD %s%s" % (st, tail))
            out.append("DUP1 MLOAD DUP3 DUP3 MSTORE DUP2 %s%s" % (st, tail))
            for a in (0, 1, 0x1f, 0x20, 0x40):
                out.append("PUSH1 0x%x MLOAD PUSH1 0x%x %s%s" % (a, a, st, tail))
                out.append("PUSH1 0x%x MLOAD PUSH1 0x%x %s%s" % (a, a + 31, st, tail))
                out.append("PUSH1 0x%x MLOAD PUSH1 0x%x %s%s" % (a + 31, a, st, tail))
        out.append("DUP1 SLOAD DUP2 SSTORE%s" % tail)
        out.append("DUP1 SLOAD DUP3 DUP3 SSTORE DUP2 SSTORE%s" % tail)
        out.append("PUSH1 0x3 SLOAD PUSH1 0x3 SSTORE%s" % tail)
        out.append("PUSH1 0x3 SLOAD PUSH1 0x4 SSTORE%s" % tail)
    return out


def cse_corpus():
    """blocks that compute the same expression twice (the front end unifies the copies and records a renaming),
    with and without a store of a computed value afterwards"""
    out = []
    for op in ("ADD", "MUL", "AND", "SUB", "XOR", "LT"):
        for op2 in ("MUL", "ADD", "OR"):
            out.append("DUP2 DUP2 %s SWAP2 %s %s" % (op, op, op2))
            out.append("DUP3 DUP3 %s SWAP2 %s PUSH1 0x40 MSTORE" % (op, op2))
            out.append("DUP2 DUP2 %s DUP3 DUP3 %s %s DUP2 SSTORE" % (op, op, op2))
            out.append("DUP1 DUP3 %s DUP2 DUP4 %s %s PUSH1 0x20 MSTORE8" % (op, op, op2))
            out.append("DUP3 DUP3 %s SWAP2 %s DUP1 PUSH1 0x0 MSTORE PUSH1 0x20 MSTORE" % (op, op2))
    return out


def stack_corpus():
    """permutations that need deep stack access: SWAPi POP SWAPj, DUPi SWAPj POP, for all depths"""
    out = []
    for i in range(1, 17):
        for j in range(1, 17):
            out.append("SWAP%d POP SWAP%d" % (i, j))
            if (i + j) % 3 == 0:
                out.append("DUP%d SWAP%d POP" % (i, j))
                out.append("SWAP%d SWAP%d POP POP" % (i, j))
    return out


def dead_load_corpus():
    """a load whose result stays in use, a store that overlaps it, and a second load whose result a rule makes useless (X-X, X xor X, 0*X,
    POP): removing the useless load must not disturb the order of the others"""
    out = []
    kills = ["DUP1 SUB", "DUP1 XOR", "PUSH1 0x0 MUL", "POP", "DUP1 EQ", "PUSH1 0x0 AND"]
    for k in kills:
        out.append("PUSH1 0x20 MLOAD PUSH1 0x7 PUSH1 0x21 MSTORE PUSH1 0x1f MLOAD %s" % k)
        out.append("PUSH1 0x20 MLOAD PUSH1 0x7 PUSH1 0x20 MSTORE PUSH1 0x40 MLOAD %s" % k)
        out.append("DUP1 MLOAD PUSH1 0x7 DUP3 MSTORE DUP2 PUSH1 0x1 ADD MLOAD %s" % k)
        out.append("PUSH1 0x2 SLOAD PUSH1 0x7 DUP3 SSTORE PUSH1 0x3 SLOAD %s" % k)
        out.append("DUP1 SLOAD PUSH1 0x7 DUP3 SSTORE DUP2 SLOAD %s" % k)
        out.append("PUSH1 0x40 MLOAD PUSH1 0x20 PUSH1 0x0 KECCAK256 %s PUSH1 0x9 PUSH1 0x40 MSTORE" % k)
    return out


DEEP_PINNED = ["DUP11 ADD SWAP11 POP DUP15 POP POP POP SWAP16 SWAP12 DUP10 SWAP12 ADD",
               "ADD DUP11 POP SWAP8 ADD ADD POP POP DUP16 DUP14 DUP11 DUP14 PUSH1 0x2 DUP10",
               "DUP10 POP ADD SWAP10 ADD POP DUP16 DUP14 SWAP12 PUSH1 0x8 POP DUP15 DUP13",
               "SWAP15 PUSH1 0x3 SWAP9 SWAP14 PUSH1 0x2 POP ADD SWAP9 ADD POP POP POP ADD DUP12 SWAP13",
               "DUP10 POP POP ADD SWAP12 SWAP11 POP POP POP SWAP12 DUP13 SWAP10 ADD SWAP16",
               "DUP14 POP SWAP8 ADD SWAP15 POP DUP14 POP POP ADD POP PUSH1 0x8 ADD DUP11 PUSH1 0x3",
               "PUSH1 0x3 PUSH1 0x7 ADD SWAP15 ADD PUSH1 0x5 POP SWAP8 POP DUP10 POP POP",
               "SWAP11 ADD SWAP9 SWAP12 POP POP SWAP16 SWAP15 SWAP16 PUSH1 0x4 POP DUP16 POP DUP16"]


def deep_same_operand_corpus():
    """a word 13 to 16 deep used as both operands of one operation (and nowhere else), kept in place, dropped or replaced afterwards"""
    out = []
    for k in (13, 14, 15, 16):
        for op in ("ADD", "MUL", "SUB", "AND", "LT"):
            out += ["DUP%d DUP1 %s" % (k, op), "DUP%d DUP1 %s SWAP%d POP" % (k, op, k), "DUP%d DUP1 %s PUSH1 0x0 MSTORE" % (k, op)]
        out += ["DUP%d DUP1 MSTORE" % k, "DUP%d DUP1 SSTORE" % k, "DUP%d DUP1 DUP1 ADDMOD" % k]
    return out


def deep_stack_blocks(seed, n):
    """blocks that work 10 to 17 words deep and drop words on the way: the greedy algorithm has to clear words out of the way
    (`clean_stack`, found with the line-coverage diagnostic: SWAPi POP of a word that is not on top) before it can reach an operand"""
    rng = random.Random(seed)
    out = list(DEEP_PINNED)
    for _ in range(n):
        toks = []
        for _ in range(rng.randrange(6, 16)):
            r = rng.random()
            if r < 0.3:
                toks.append("POP")
            elif r < 0.55:
                toks.append("DUP%d" % rng.randrange(10, 17))
            elif r < 0.8:
                toks.append("SWAP%d" % rng.randrange(8, 17))
            elif r < 0.9:
                toks.append(rng.choice(["ADD", "SUB", "LT", "MSTORE"]))
            else:
                toks.append("PUSH1 0x%x" % rng.randrange(1, 9))
        out.append(" ".join(toks))
    return out


def cross_region_corpus():
    """a value loaded from one region (kept in that region's order by a later store to the same place) that an operation of the other
    region stores, with independent stores before and after it in both regions: the two orders have to be merged around the load"""
    out = []
    for pre in ("PUSH1 0x5 PUSH1 0x1 SSTORE", "CALLER PUSH1 0x1 SSTORE", "PUSH1 0x5 PUSH1 0x1 SSTORE PUSH1 0x6 PUSH1 0x3 SSTORE", ""):
        for post in ("PUSH1 0x0 MSTORE", "PUSH1 0x0 MSTORE8", "PUSH1 0x0 MSTORE PUSH1 0x9 PUSH1 0x4 SSTORE", "PUSH1 0x8 PUSH1 0x60 MSTORE PUSH1 0x0 MSTORE"):
            out.append(("%s PUSH1 0x2 SLOAD PUSH1 0x7 PUSH1 0x2 SSTORE %s" % (pre, post)).strip())
    for pre in ("PUSH1 0x5 PUSH1 0x20 MSTORE", "CALLER PUSH1 0x20 MSTORE", "PUSH1 0x5 PUSH1 0x20 MSTORE PUSH1 0x6 PUSH1 0x80 MSTORE8", ""):
        for post in ("PUSH1 0x0 SSTORE", "PUSH1 0x0 SSTORE PUSH1 0x9 PUSH1 0xa0 MSTORE", "PUSH1 0x8 PUSH1 0x3 SSTORE PUSH1 0x0 SSTORE"):
            out.append(("%s PUSH1 0x40 MLOAD PUSH1 0x7 PUSH1 0x40 MSTORE %s" % (pre, post)).strip())
            out.append(("%s PUSH1 0x20 PUSH1 0x40 KECCAK256 PUSH1 0x7 PUSH1 0x40 MSTORE %s" % (pre, post)).strip())
    return out


def overwritten_store_corpus():
    """a store, a reader of (part of) what it wrote, and a second store to the same place: the first store is redundant only when nothing in
    between reads it.  Readers: word loads at every offset around the stored byte/word, hashes whose range ends just before / inside / after
    it, loads of the same and of another key; constant and symbolic addresses"""
    out = []
    for st in ("MSTORE", "MSTORE8"):
        for a in (0x3f, 0x40):
            for b in sorted({a - 32, a - 31, a - 1, a, a + 1, a + 31, a + 32}):
                if b >= 0:
                    out.append("PUSH1 0xaa PUSH1 0x%x %s PUSH1 0x%x MLOAD PUSH1 0xbb PUSH1 0x%x %s" % (a, st, b, a, st))
            for off, ln in ((a - 8, 8), (a - 8, 9), (a, 1), (a + 1, 4), (0, a), (0, a + 1)):
                if off >= 0:
                    out.append("PUSH1 0xaa PUSH1 0x%x %s PUSH1 0x%x PUSH1 0x%x KECCAK256 PUSH1 0xbb PUSH1 0x%x %s" % (a, st, ln, off, a, st))
        # symbolic address: the same word, the next byte, another word
        out.append("PUSH1 0xaa DUP2 %s DUP1 MLOAD PUSH1 0xbb DUP3 %s" % (st, st))
        out.append("PUSH1 0xaa DUP2 %s DUP1 PUSH1 0x1 ADD MLOAD PUSH1 0xbb DUP3 %s" % (st, st))
        out.append("PUSH1 0xaa DUP2 %s DUP2 MLOAD PUSH1 0xbb DUP3 %s" % (st, st))
        # the other store kind in between
        other = "MSTORE8" if st == "MSTORE" else "MSTORE"
        out.append("PUSH1 0xaa PUSH1 0x40 %s PUSH1 0xcc PUSH1 0x41 %s PUSH1 0xbb PUSH1 0x40 %s" % (st, other, st))
    for k2 in (0x2, 0x3):
        out.append("PUSH1 0xaa PUSH1 0x2 SSTORE PUSH1 0x%x SLOAD PUSH1 0xbb PUSH1 0x2 SSTORE" % k2)
    out.append("PUSH1 0xaa DUP2 SSTORE DUP1 SLOAD PUSH1 0xbb DUP3 SSTORE")
    out.append("PUSH1 0xaa DUP2 SSTORE DUP2 SLOAD PUSH1 0xbb DUP3 SSTORE")
    return out


def hash_pair_corpus():
    """two reads of memory (hash/hash, hash/load, load/load) with equal and different offsets and lengths, constant and symbolic, with
    and without a store in between: reads may be unified only when they read the same bytes of the same memory"""
    out = []
    lens = [0x20, 0x40, 0x1, 0x21]
    offs = [0x0, 0x20, 0x1]
    for o1 in offs:
        for l1 in lens:
            for o2 in offs:
                for l2 in lens:
                    if (o1, l1) <= (o2, l2):
                        out.append("%s %s KECCAK256 %s %s KECCAK256" % (push(l1), push(o1), push(l2), push(o2)))
    out += ["DUP1 DUP3 KECCAK256 SWAP2 SWAP1 PUSH1 0x20 ADD SWAP1 KECCAK256", "DUP2 DUP2 KECCAK256 DUP3 DUP3 KECCAK256", "DUP2 DUP2 KECCAK256 DUP3 DUP3 PUSH1 0x1 ADD KECCAK256",
            "DUP2 DUP2 KECCAK256 PUSH1 0x7 DUP3 MSTORE DUP3 DUP3 KECCAK256", "PUSH1 0x20 PUSH1 0x0 KECCAK256 PUSH1 0x0 MLOAD", "PUSH1 0x0 MLOAD PUSH1 0x0 MLOAD",
            "PUSH1 0x0 MLOAD PUSH1 0x1 MLOAD", "DUP1 MLOAD DUP2 MLOAD", "DUP1 MLOAD PUSH1 0x5 DUP3 MSTORE DUP2 MLOAD", "DUP1 SLOAD DUP2 SLOAD", "DUP1 SLOAD PUSH1 0x5 DUP3 SSTORE DUP2 SLOAD",
            "DUP1 SLOAD DUP3 SLOAD"]
    return out


def size_fold_corpus():
    """constant expressions whose value needs more bytes than the expression (or exactly as many): in size mode the fold must not enlarge
    the code; values with an odd number of hexadecimal digits and with leading zero bytes included"""
    out = []
    for a in (0x10, 0x100, 0x1000, 0xfff, 0x100000, 0xffff, 0x10000, 0x1000000, 0x7fffffff):
        out += ["PUSH %x DUP1 MUL" % a, "PUSH %x PUSH %x MUL" % (a, a), "PUSH %x PUSH1 0x8 SHL" % a, "PUSH1 0x3 PUSH %x EXP" % a, "PUSH %x PUSH %x ADD" % (a, a),
                "PUSH %x NOT" % a, "PUSH %x PUSH1 0x1 SUB" % a]
    return out


def discount_corpus():
    """a simplification (constant folding with equal and with different operands, an algebraic rule) whose result is used more than once
    and has to be shuffled afterwards: the length bound is discounted per simplification and must stay above the shortest program"""
    bases = []
    for op in ("ADD", "SUB", "MUL", "AND", "OR", "XOR", "SHL", "LT", "EQ", "DIV", "EXP"):
        bases += ["PUSH1 0x1 PUSH1 0x3 %s" % op, "PUSH1 0x3 PUSH1 0x1 %s" % op, "PUSH1 0x2 PUSH1 0x2 %s" % op]
    bases += ["PUSH1 0x5 PUSH1 0x3 PUSH1 0x2 ADDMOD", "PUSH1 0x7 PUSH1 0x3 PUSH1 0x4 MULMOD", "PUSH1 0xed PUSH1 0x1f PUSH2 0x16f ADDMOD",
              "SWAP2 ADDMOD PUSH1 0x5 PUSH1 0x3 PUSH1 0x2 ADDMOD"]
    bases += ["PUSH1 0x0 ADD", "PUSH1 0x1 MUL", "DUP1 XOR", "DUP1 SUB", "PUSH1 0x0 OR", "ISZERO ISZERO ISZERO", "PUSH1 0x1 PUSH1 0x3 ADD PUSH1 0x4 ADD",
              "PUSH1 0x1 PUSH1 0x3 SUB PUSH1 0x1 PUSH1 0x3 SUB ADD"]
    tails = ["DUP1 SWAP2", "DUP1 DUP1 SWAP3", "DUP1 SWAP2 SWAP1", "DUP1 DUP3 SWAP2 POP", "DUP1 DUP1 ADD SWAP1", "SWAP1 DUP2 SWAP2"]
    return ["%s %s" % (b, t) for b in bases for t in tails]


def deep_operand_corpus():
    """operations whose operands sit at (or depend on) the deepest reachable cells: every operation with two or three operands applied to
    words at depths 14..16, in both operand orders, directly and under another operation; stores and loads at those depths"""
    out = []
    for k in (13, 14, 15, 16):
        for op in BIN:
            out.append("DUP%d %s" % (k, op))
            out.append("DUP%d SWAP1 %s" % (k, op))
            out.append("DUP%d DUP3 ADD %s" % (k, op))
            out.append("DUP%d DUP%d %s" % (k, k, op))
        for op in TER:
            out.append("DUP%d %s" % (k, op))
            out.append("DUP%d SWAP2 %s" % (k, op))
        for st in ("MSTORE", "SSTORE", "MSTORE8"):
            out.append("DUP%d %s" % (k, st))
            out.append("DUP%d SWAP1 %s" % (k, st))
        out.append("DUP%d MLOAD" % k)
        out.append("SWAP%d SUB" % k)
        out.append("SWAP%d SWAP1 DIV" % k)
    return out


def mem_pair_corpus():
    """every ordered pair of memory accesses (word store, byte store, load, hash) at constant offsets around
    word boundaries, and at symbolic base + constant; the second access is followed by a load of each range"""
    offs = [0, 1, 0x10, 0x1f, 0x20, 0x21, 0x3f, 0x40]
    lens = [1, 0x20, 0x21, 0x40]

    def acc(kind, addr_toks, n, v):
        if kind == "st":
            return [push(v)] + addr_toks + ["MSTORE"]
        if kind == "st8":
            return [push(v)] + addr_toks + ["MSTORE8"]
        if kind == "ld":
            return addr_toks + ["MLOAD"]
        return [push(lens[n % len(lens)])] + addr_toks + ["KECCAK256"]
    out = []
    kinds = ["st", "st8", "ld", "h"]
    n = 0
    for k1 in kinds:
        for k2 in kinds:
            if k1 in ("ld", "h") and k2 in ("ld", "h"):
                continue
            for a in offs:
                for b in offs:
                    n += 1
                    out.append(" ".join(acc(k1, [push(a)], n, 0x11) + acc(k2, [push(b)], n + 1, 0x22)))
            for ca in (0, 1, 0x1f, 0x20, 0x21):
                for cb in (0, 1, 0x1f, 0x20, 0x21):
                    n += 1
                    # symbolic base s0: address = s0 + c (the stack grows by one per load/hash before the second access)
                    d1 = 1
                    a_t = ["DUP%d" % (d1 + (1 if k1 in ("st", "st8") else 0) + (1 if k1 == "h" else 0)), push(ca), "ADD"] if ca else \
                          ["DUP%d" % (d1 + (1 if k1 in ("st", "st8") else 0) + (1 if k1 == "h" else 0))]
                    grow = 1 if k1 in ("ld", "h") else 0
                    d2 = 1 + grow
                    b_t = ["DUP%d" % (d2 + (1 if k2 in ("st", "st8") else 0) + (1 if k2 == "h" else 0)), push(cb), "ADD"] if cb else \
                          ["DUP%d" % (d2 + (1 if k2 in ("st", "st8") else 0) + (1 if k2 == "h" else 0))]
                    out.append(" ".join(acc(k1, a_t, n, 0x11) + acc(k2, b_t, n + 1, 0x22)))
    return out


def trailing_store_corpus(seed, n):
    """a load early in the block (it heads the memory order, so the stores are not emitted eagerly), stack traffic, and several stores at the
    end that leave dead words behind: the back end flushes the stores after the final stack is settled and pops what is left"""
    rng = random.Random(seed)
    out = ["PUSH1 0xff DUP1 PUSH1 0x40 MSTORE MLOAD SWAP4 PUSH1 0x40 MSTORE MSTORE MSTORE8"]
    for _ in range(n):
        b = [rng.choice(["PUSH1 0x40 MLOAD", "DUP1 MLOAD", "PUSH1 0xff DUP1 PUSH1 0x40 MSTORE MLOAD", "PUSH1 0x0 SLOAD"])]
        for _ in range(rng.randrange(1, 4)):
            b.append(rng.choice(["SWAP1", "SWAP2", "SWAP3", "SWAP4", "DUP1", "DUP2", "PUSH1 0x40", "PUSH1 0x7", "DUP3"]))
        for _ in range(rng.randrange(2, 5)):
            b.append(rng.choice(["MSTORE", "MSTORE8", "SSTORE", "PUSH1 0x40 MSTORE", "PUSH1 0x20 MSTORE8", "SWAP1 MSTORE", "DUP2 SWAP1 SSTORE"]))
        out.append(" ".join(b))
    return out


def folded_key_corpus():
    """two accesses of one storage slot / memory word whose keys are the same constant written differently: a literal, a folded unary
    operation (ISZERO, NOT of a constant), a folded binary operation; every pairing, store/store, store/load and load/store"""
    M = (1 << 256) - 1
    spell = {0: ["PUSH1 0x00", "PUSH1 0x05 ISZERO", "PUSH32 0x%x NOT" % M, "PUSH1 0x01 PUSH1 0x01 SUB"],
             1: ["PUSH1 0x01", "PUSH1 0x00 ISZERO", "PUSH32 0x%x NOT" % (M - 1), "PUSH1 0x00 PUSH1 0x01 ADD"],
             M: ["PUSH32 0x%x" % M, "PUSH1 0x00 NOT", "PUSH1 0x01 PUSH1 0x00 SUB"]}
    out = []
    for st, ld in (("SSTORE", "SLOAD"), ("MSTORE", "MLOAD")):
        for v, sps in spell.items():
            if st == "MSTORE" and v == M:
                continue
            for a in sps:
                for b in sps:
                    if a == b:
                        continue
                    out.append("PUSH1 0xaa %s %s PUSH1 0xbb %s %s" % (a, st, b, st))
                    out.append("PUSH1 0xaa %s %s %s %s" % (a, st, b, ld))
                    out.append("%s %s PUSH1 0xbb %s %s" % (a, ld, b, st))
    return out


def tuck_corpus():
    """a value computed from fresh operands (none of them a word of the initial stack) and tucked under untouched words of the initial
    stack with SWAPn .. SWAP1, alone or twice: the stack need is the kept words plus the operands in flight"""
    vals = ["PUSH1 0x1 CALLVALUE ADD", "ADDRESS PUSH1 0x1 EQ", "CALLVALUE ADDRESS ADD", "PUSH1 0x2 CALLER MUL", "CALLER CALLVALUE ADDRESS ADDMOD",
            "CALLVALUE ISZERO", "PUSH1 0x0 MLOAD PUSH1 0x1 ADD", "CALLER PUSH1 0x3 SUB"]
    tucks = ["SWAP1", "SWAP2 SWAP1", "SWAP3 SWAP2 SWAP1", "SWAP4 SWAP3 SWAP2 SWAP1", "SWAP2", "SWAP1 SWAP2"]
    out = []
    for v in vals:
        for t in tucks:
            out.append("%s %s" % (v, t))
            out.append("%s %s %s SWAP1" % (v, t, vals[0]))
    return out


def mapping_corpus():
    """the shape of `mapping[key] = v` and `mapping[key]`: a word that comes from storage, memory or the environment is written to
    memory, the written range is hashed, and the hash is the key of a storage access or the address of another memory access: memory
    order and storage order interact (the back end schedules the two regions separately and merges them)"""
    out = []
    srcs = ["PUSH1 0x1 SLOAD", "PUSH1 0x80 MLOAD", "CALLER", "DUP1", "PUSH1 0x1 SLOAD PUSH1 0x2 SLOAD ADD"]
    stores = ["PUSH1 0x0 MSTORE", "PUSH1 0x20 MSTORE", "PUSH1 0x1f MSTORE8"]
    hashes = ["PUSH1 0x40 PUSH1 0x0 KECCAK256", "PUSH1 0x20 PUSH1 0x0 KECCAK256", "PUSH1 0x20 PUSH1 0x20 KECCAK256", "DUP2 PUSH1 0x0 KECCAK256"]
    sinks = ["SSTORE", "SLOAD", "DUP1 SLOAD PUSH1 0x1 ADD SWAP1 SSTORE", "MLOAD", "SWAP1 POP", "PUSH1 0x1 SLOAD SWAP1 SSTORE", "DUP1 SLOAD SWAP1 PUSH1 0x60 MSTORE"]
    for a in srcs:
        for b in stores:
            for h in hashes:
                for z in sinks:
                    out.append("%s %s %s %s" % (a, b, h, z))
    # two mappings in a row (nested mapping): the second hash reads what the first one produced
    for a in srcs[:3]:
        out.append("%s PUSH1 0x0 MSTORE PUSH1 0x40 PUSH1 0x0 KECCAK256 PUSH1 0x20 MSTORE PUSH1 0x40 PUSH1 0x0 KECCAK256 SLOAD" % a)
        out.append("%s PUSH1 0x0 MSTORE PUSH1 0x3 PUSH1 0x20 MSTORE PUSH1 0x40 PUSH1 0x0 KECCAK256 SSTORE" % a)
    return out


def access_pair_corpus():
    """a storage access and an account access on the same operand, in both orders, inside stack traffic that leaves the back end room to
    reorder them (the tool prices repeated accesses of one kind as warm; the two kinds keep separate books)"""
    out = ["DUP1 SLOAD SWAP1 BALANCE SWAP2 PUSH1 0x40 MLOAD DUP1 SWAP2 SUB SWAP1"]
    tails = ["PUSH1 0x40 MLOAD DUP1 SWAP2 SUB SWAP1", "DUP1 SWAP2 SUB SWAP1", "SWAP1 POP", "ADD", "DUP2 DUP2 SUB SWAP2 POP"]
    for key in ("DUP1", "CALLER", "PUSH1 0x5"):
        for sto in ("SLOAD", "DUP1 SWAP2 SSTORE"):
            for acc in ("BALANCE", "EXTCODESIZE", "EXTCODEHASH"):
                k2 = "SWAP1" if key == "DUP1" else key
                for tail in tails:
                    out.append("%s %s %s %s SWAP2 %s" % (key, sto, k2, acc, tail))
                    out.append("%s %s %s %s SWAP2 %s" % (key, acc, k2, sto, tail))
                    out.append("%s %s SWAP1 %s %s SWAP1 %s" % (key, sto, k2, acc, tail))
    return out


def forwarding_corpus():
    """a store followed by a load of the same place (the front end forwards the stored value), with the stored value still needed
    afterwards and a value computed between store and load that stays beneath the loaded one; constant and symbolic places"""
    out = []
    mids = ["", "PUSH1 0x20 ADD", "CALLER", "DUP2 ISZERO", "PUSH1 0x20 ADD SWAP1", "CALLVALUE CALLER"]
    for st, ld in (("MSTORE", "MLOAD"), ("SSTORE", "SLOAD")):
        for place in ("PUSH1 0x40", "PUSH1 0x0", "DUP3"):
            for keep in ("DUP1 ", "DUP2 ", ""):
                for mid in mids:
                    for tail in ("", " ADD", " SWAP1", " DUP2 ADD"):
                        out.append(("%s%s %s %s %s %s%s" % (keep, place, st, mid, place, ld, tail)).replace("  ", " "))
    return out


def ordering_corpus(seed, n):
    """accesses of one region in a row, loads of loaded words included: an access then has several ordering predecessors that
    share predecessors of their own (the position-bound computation visits them in some order)"""
    rng = random.Random(seed)
    out = ["SLOAD SLOAD PUSH1 0x00 MSTORE PUSH1 0x02 SLOAD POP PUSH1 0x80 ISZERO POP PUSH1 0x40 PUSH1 0x80 SLOAD ISZERO SSTORE PUSH1 0x60",
           "SLOAD SLOAD PUSH1 0x80 SLOAD ISZERO PUSH1 0x40 SSTORE", "MLOAD MLOAD PUSH1 0x80 MLOAD ISZERO PUSH1 0x40 MSTORE",
           "SLOAD SLOAD DUP1 SLOAD SWAP1 PUSH1 0x40 SSTORE PUSH1 0x40 SLOAD ADD"]
    for _ in range(n):
        ld, st = rng.choice([("SLOAD", "SSTORE"), ("MLOAD", "MSTORE"), ("MLOAD", "MSTORE8")])
        b = []
        for _ in range(rng.randrange(3, 7)):
            r = rng.random()
            k = rng.choice(["0x00", "0x02", "0x40", "0x80"])
            if r < 0.3:
                b.append(ld)                                   # load of the word on top (a loaded one, often)
            elif r < 0.55:
                b += ["PUSH1 " + k, ld]
            elif r < 0.8:
                b += ["PUSH1 " + k, st]
            elif r < 0.9:
                b += [rng.choice(["ISZERO", "DUP1", "SWAP1", "ADD"])]
            else:
                b += ["PUSH1 " + k, rng.choice(["SLOAD", "MLOAD"])]
        out.append(" ".join(b))
    return out


def blocks(seed, n, profiles=("mixed", "mixed", "mem", "arith", "stack"), **kw):
    rng = random.Random(seed)
    res = []
    for i in range(n):
        g = BlockGen(rng, profiles[i % len(profiles)])
        res.append(g.block(**kw))
    return res


def states(rng, need, n):
    """initial stacks (as hex strings) and a seed for memory/storage/environment"""
    res = []
    for i in range(n):
        k = rng.random()
        if k < 0.25:
            pal = [0, 0, 1]
        elif k < 0.5:
            pal = rng.sample(OFFSETS, 3) + [0]
        elif k < 0.7:
            pal = rng.sample(BOUNDARY, 3)
        elif k < 0.85:
            pal = [rng.randrange(0, M) for _ in range(3)] + [rng.choice(BOUNDARY)]
        else:
            pal = [rng.randrange(0, 64) for _ in range(4)]
        depth = need + rng.choice([0, 0, 1, 3])
        st = [rng.choice(pal) for _ in range(depth)]
        res.append((rng.randrange(1, 1 << 30), ",".join("%x" % w for w in st)))
    return res


if __name__ == "__main__":
    import sys
    for b in blocks(int(sys.argv[1]) if len(sys.argv) > 1 else 0, 20):
        print(b)
