/-
  (V) C16: the published minimum length.  The front end publishes `min_length_instrs`
  (smt_encoding/count_sms_greedy.py: minsize_from_json): the number of stores, plus for every value that is not
  a word of the initial stack the number of places that refer to it (final stack, operands of the stores,
  operands of the operations that are needed), plus for every word of the initial stack the distance between
  the number of such places and one.  `minInstr` is that number computed on the specification the
  way the tool computes it; `minLenOk` are the executable premises of the theorem
  `MinLen.min_length_le` (Proofs/MinLenSound.lean): every sequence that realizes the specification (`Spec.realizes`,
  C04's definition) has at least `minInstr` instructions.   No Mathlib.
-/
import GasolVerif.Models.Spec
namespace GasolVerif.Spec

/-- the stores of the specification -/
def Spec.stores (S : Spec) : List UInstr := S.instrs.filter (·.isStore)

/-- the value a cell of the stack stands for -/
abbrev Spec.R (S : Spec) (a : Atom) : Atom := resolve S a

/-- an operation whose result is not a pushed constant -/
def selfResolved (S : Spec) (u : UInstr) : Bool :=
  match u.out with
  | some o => S.R (.var o) == .var o
  | none => false

/-- the places that refer to a value: the final stack, the operands of the stores and of the operations `needed` -/
def refsOf (S : Spec) (needed : List UInstr) : List Atom :=
  (S.tgt ++ S.stores.flatMap (·.inp) ++ needed.flatMap (·.inp)).map S.R

def isSrcVar (S : Spec) : Atom → Bool
  | .var v => S.src.contains v
  | .const _ => false

/-- minsize_from_json -/
def minInstrWith (S : Spec) (needed : List UInstr) : Nat :=
  let refs := refsOf S needed
  S.stores.length + (refs.filter (fun a => !isSrcVar S a)).length
    + (S.src.map fun i => refs.count (.var i) - 1).sum
    + (S.src.filter fun i => refs.count (.var i) == 0).length

/-- the operations in an order in which each one is referred to by the final stack, by a store or by an earlier
    operation (the order in which `count_ops_one` reaches them) -/
def justified (S : Spec) : List Atom → List UInstr → Bool
  | _, [] => true
  | roots, u :: rest =>
    (match u.out with
     | some o => !selfResolved S u || roots.contains (S.R (.var o))
     | none => false)
    && justified S (roots ++ u.inp.map S.R) rest

/-- reachability order: repeatedly take the operations whose result is referred to so far -/
def neededLoop (S : Spec) : Nat → List Atom → List UInstr → List UInstr → List UInstr
  | 0, _, acc, _ => acc
  | fuel + 1, roots, acc, pending =>
    match pending.find? (fun u => match u.out with
        | some o => roots.contains (S.R (.var o))
        | none => false) with
    | some u => neededLoop S fuel (roots ++ u.inp.map S.R) (acc ++ [u]) (pending.filter (fun w => w.id != u.id))
    | none => acc

def neededOf (S : Spec) : List UInstr :=
  let ops := S.instrs.filter (fun u => !u.isStore)
  let roots := (S.tgt ++ S.stores.flatMap (·.inp)).map S.R
  neededLoop S (ops.length + 1) roots [] ops

/-- executable premises of `min_length_le` -/
def minLenOk (S : Spec) (needed : List UInstr) : Bool :=
  decide S.src.Nodup
  && decide ((S.stores ++ needed).map (·.id)).Nodup
  -- identifiers and results name one instruction
  && S.instrs.all (fun u => S.instrs.all fun w => (u.id != w.id) || (u.inp == w.inp && u.out == w.out))
  && S.instrs.all (fun u => S.instrs.all fun w => !(u.out.isSome && u.out == w.out) || u.id == w.id)
  -- no instruction writes a word of the initial stack
  && S.instrs.all (fun u => match u.out with | some o => !S.src.contains o | none => true)
  -- stores have no result
  && S.stores.all (fun u => u.out.isNone)
  -- every other instruction is needed, needed ones belong to the specification and have a result
  && S.instrs.all (fun u => u.isStore || needed.any (fun w => w.id == u.id))
  && needed.all (fun u => S.instrs.any (fun w => w.id == u.id && w.inp == u.inp && w.out == u.out) && !u.isStore)
  -- a pushed constant has no operands
  && needed.all (fun u => selfResolved S u || u.inp.isEmpty)
  && justified S ((S.tgt ++ S.stores.flatMap (·.inp)).map S.R) needed

def minInstr (S : Spec) : Nat := minInstrWith S (neededOf S)

def handleMinLen (src tgt instrs deps : String) : String :=
  match parseSpec src tgt instrs deps with
  | some S =>
    let nd := neededOf S
    s!"ok {minLenOk S nd} {minInstrWith S nd}"
  | none => "error:parse"

end GasolVerif.Spec
