"""C08 — optimization never makes a block costlier in the chosen criterion."""
import random, itertools
from collections import Counter
import common, e2e, gen, pool, drv

THEOREMS = ["Cost.improves_spec", "Cost.accepted_not_worse", "Cost.costs_append", "Cost.go_spec"]
CRITS = {"gas": [], "size": ["-size"], "length": ["-length"]}


def run(tier):
    sd = common.seed()
    rng = random.Random(sd * 6007 + 13)
    po = common.proof_obligations("GasolVerif.Proofs.CostSound", THEOREMS)
    violations = [{"kind": "broken-proof-obligation", "what": b, "no_failing_input": True, "input": b} for b in po["broken"]]
    c = Counter()
    # ---- decision table: improves_criterion on all small tuples (shape-exhaustive), against the proved model
    rng_vals = [-2, -1, 0, 1, 2]
    rows = [[a, list(o)] for a in rng_vals for n in (0, 1, 2, 3) for o in itertools.product(rng_vals, repeat=n)]
    items = ["PUSH1 0x0", "PUSH1 0x1", "PUSH2 0x100", "PUSH32 0x" + "ff" * 32, "PUSH [tag] 5", "PUSH data 1a", "PUSHIMMUTABLE 1a",
             "PUSHSIZE", "PUSHDEPLOYADDRESS", "PUSH #[$] 0", "PUSH [$] 0", "DUP3", "SWAP5", "POP"] + gen.BIN + gen.UN + gen.TER + \
            gen.ENV0 + gen.ENV1 + ["MLOAD", "MSTORE", "MSTORE8", "SLOAD", "SSTORE", "KECCAK256"] + gen.SPLIT + gen.TERMINAL
    res = pool.run_tasks([{"kind": "improves_table", "rows": rows, "timeout": 60},
                          {"kind": "cost_table", "items": items, "opts": ["-greedy"], "timeout": 60},
                          {"kind": "cost_table", "items": items, "opts": ["-greedy", "-push0"], "timeout": 60}], nproc=3, timeout=60)
    it = res[0][1] if res[0][2] == "ok" and res[0][1] and "rows" in res[0][1] else None
    if it is None:
        c["localisation_unavailable:improves_criterion"] += 1
    else:
        outs = drv.batch(["IMPROVES\t%d\t%s" % (a, ",".join(map(str, o))) for a, o, _, _ in it["rows"]])
        for (a, o, r, exc), m in zip(it["rows"], outs):
            c["decision-rows"] += 1
            if exc is not None or str(r) != m:
                # judge against the property's wording: strictly better, or equal and no worse elsewhere with one strictly better
                spec = a > 0 or (a == 0 and all(x >= 0 for x in o) and any(x > 0 for x in o))
                if exc is None and bool(r) == spec:
                    violations.append({"kind": "decision-model-mismatch", "input": "%s %s" % (a, o), "no_failing_input": True,
                                       "what": "improves_criterion(%s,%s)=%s agrees with the property but not with the model (%s)" % (a, o, r, m)})
                else:
                    violations.append({"kind": "acceptance-test-wrong", "input": "improves_criterion(%s, %s)" % (a, o),
                                       "what": "improves_criterion(%s, *%s) = %s (%s) but the property requires %s" % (a, o, r, exc, spec)})
    # ---- the tool's accounting against the independent measure, per instruction (diagnostic, reported not fatal)
    diffs = []
    for k, p0 in ((1, "1"), (2, "0")):
        ct = res[k][1] if res[k][2] == "ok" and res[k][1] and "rows" in res[k][1] else None
        if not ct:
            continue
        good = [r for r in ct["rows"] if r[5] is None and r[1]]
        outs = drv.batch(["COST\t%s\t%s" % (p0, r[1]) for r in good])
        for r, o in zip(good, outs):
            c["cost-rows"] += 1
            if o.split()[:3] != [str(r[2]), str(r[3]), str(r[4])]:
                diffs.append({"item": r[0], "push0": p0, "tool": r[2:5], "reference": o})
    c["cost-table-differences"] = len(diffs)
    # ---- emitted blocks: independent cost of output against input, per criterion and split mode
    n = 360 if tier == "quick" else 5000
    blocks = gen.blocks(sd * 33 + 2, n) + (rng.sample(gen.rule_corpus(), 120) if tier == "quick" else gen.rule_corpus())
    blocks += ["PUSH0 DUP1 PUSH1 0x5 DUP1", "PUSH1 0x0 DUP1 PUSH2 0x1234 DUP1 DUP1", "PUSH1 0x0 PUSH1 0x0 PUSH1 0x7 PUSH1 0x7"]
    # a value without operands needed twice: whether to copy it or to compute it again depends on the price of its opcode alone
    for x in gen.ENV0:
        blocks += ["%s DUP1 ADD" % x, "%s DUP1 DUP2 MUL SUB" % x, "%s DUP1 SWAP2 POP" % x]
    for _ in range(60 if tier == "quick" else 600):
        # blocks where gas and size pull in opposite directions: repeated constants of various widths
        k = rng.choice([0, 0, 1, 0xff, 0x1234, 2 ** 64, 2 ** 255])
        m = rng.choice([0, 5, 0x100, 2 ** 128 + 3])
        blocks.append(" ".join(rng.choice([[gen.push(k), "DUP1"], [gen.push(k), gen.push(k)], [gen.push(m), "DUP1", "DUP1"],
                                           [gen.push(m), gen.push(k), "DUP2"], ["DUP1", "SWAP1"], ["SWAP1", "SWAP1"]])[i]
                               for _ in range(rng.randrange(2, 5)) for i in range(2)))
    osets = []
    for crit, co in CRITS.items():
        for extra in ([], ["-storage"], ["-partition"], ["-push0"]):
            osets.append(["-greedy"] + co + extra)
    runs = e2e.run_optimize(blocks, osets, assign="rotate" if tier == "quick" else "all")
    # witness blocks under every criterion
    runs += e2e.run_optimize(blocks[-(63 + 3 * len(gen.ENV0) if tier == "quick" else 603 + 3 * len(gen.ENV0)):] + gen.size_fold_corpus() + gen.access_pair_corpus(), [["-greedy"], ["-greedy", "-size"], ["-greedy", "-length"]], assign="all")
    # PUSH0 disabled together with each criterion: blocks whose simplification leaves a zero (a zero push is then two bytes, and must be counted so)
    zero = ["DUP1 XOR", "DUP1 SUB", "DUP1 LT", "DUP1 GT", "DUP1 XOR SWAP1 POP", "PUSH1 0x5 PUSH1 0x5 SUB ADD", "DUP1 DUP1 SUB SWAP1", "PUSH1 0x0 PUSH1 0x0 ADD DUP1",
            "DUP2 DUP1 XOR ADD", "PUSH1 0x3 DUP1 SUB DUP1 MSTORE"]
    runs += e2e.run_optimize(zero, [["-greedy", "-push0"], ["-greedy", "-size", "-push0"], ["-greedy", "-length", "-push0"]], assign="all")
    reqs, meta = [], []
    for text, opts, e, st in runs:
        if e is None:
            c["run:" + st.split(":")[0]] += 1
            continue
        c["blocks"] += 1
        if "out_tokens" not in e or "unsupported" in e:
            continue
        if e["out_tokens"] == e["in_tokens"]:
            c["unchanged"] += 1
            continue
        crit = "size" if "-size" in opts else "length" if "-length" in opts else "gas"
        p0 = "0" if "-push0" in opts else "1"
        reqs.append("ACCEPT\t%s\t%s\t%s\t%s" % (crit, p0, e["in_tokens"], e["out_tokens"]))
        meta.append((text, opts, e, crit))
    outs = drv.batch(reqs)
    samples = []
    for o, (text, opts, e, crit) in zip(outs, meta):
        c["changed"] += 1
        c["changed-" + crit] += 1
        if o.startswith("bad"):
            violations.append({"kind": "emitted-block-not-cheaper", "input": text, "options": opts,
                               "what": "%s %s => %s: independent (gas bytes len) %s violates the %s criterion (tool: %s -> %s)" %
                                       (text, opts, e["out_tokens"], o[4:], crit, e.get("cost_in"), e.get("cost_out"))})
        elif o.startswith("error"):
            raise common.MachineryError("driver: " + o)
        elif len(samples) < 4:
            samples.append({"input": text, "options": opts, "emitted": e["out_tokens"], "independent_costs": o[3:]})
    cov = {"obligations": po["obligations"], "discharged": po["discharged"],
           "checker_cmd": "cd lean && lake build GasolVerif gvdrv; #print axioms " + ", ".join(THEOREMS),
           "trusted_base": ["Lean 4.33 kernel", "axioms: propext, Classical.choice, Quot.sound",
                            "Models/Cost.lean gasOf/bytesOf as the independent measure (Yellow Paper static tiers, cold accesses, solc item sizes)"],
           "axioms": po["axioms"], "evaluations": c["decision-rows"] + c["blocks"], "distinct_nontrivial": c["changed"] + c["decision-rows"],
           "rule": "improves_criterion on every tuple over [-2,2] with 0..3 secondary savings (shape-exhaustive) against the proved model; "
                   "generated blocks x {gas,-size,-length} x {default,-storage,-partition,-push0}: every emitted block that differs from "
                   "its input must satisfy `acceptable` in the independent measure; non-trivial = changed block or decision row",
           "samples": samples or [{"rows": rows[:3]}], "counters": dict(c), "tool_vs_reference_cost_differences": diffs[:12]}
    return {"level": "proof", "coverage": cov, "violations": violations,
            "assumptions": ["static gas only: dynamic parts (memory expansion, EXP exponent bytes, hashed words, warm accesses) are equal on both sides or only underestimate savings",
                            "printed totals and CSV rows are not parsed by this check (partial)"]}


def replay(v):
    print(v.get("what"))
    return 1
