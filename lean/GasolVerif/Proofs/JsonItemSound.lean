/-
  (P) C15, clause one on items: reading a JSON assembly item and writing it back gives the item again, up to the documented
  spelling of a zero push as PUSH0 when PUSH0 is enabled; a whole list of items likewise (the PUSHLIB table is threaded but never
  reaches the output); and what was written is a fixed point (reading it again and writing gives the same text).   No Mathlib.
-/
import GasolVerif.Models.JsonItem
set_option linter.unusedSimpArgs false
namespace GasolVerif.Json

/-- **one item**: `to_json(build_asm_bytecode(j)) = j` up to the PUSH0 spelling, for every well-formed item, every PUSHLIB table
    and either PUSH0 setting -/
theorem toJson_build (p0 : Bool) (j : JItem) (tbl : List String) (hw : j.wf = true) :
    ∃ b tbl', build p0 j tbl = some (b, tbl') ∧ toJson b = normP0 p0 j := by
  obtain ⟨b, e, n, s, v, jt, md⟩ := j
  simp only [JItem.wf, Bool.and_eq_true, Option.isSome_iff_exists, Bool.or_eq_true, bne_iff_ne, ne_eq] at hw
  obtain ⟨⟨⟨⟨⟨b', rfl⟩, ⟨e', rfl⟩⟩, ⟨n', rfl⟩⟩, ⟨s', rfl⟩⟩, hv⟩ := hw
  by_cases hl : n' = "PUSHLIB"
  · subst hl
    have : ∃ v', v = some v' := by
      rcases hv with h | h
      · exact absurd rfl h
      · exact h
    obtain ⟨v', rfl⟩ := this
    by_cases hc : v' ∈ tbl
    · simp [build, hc, toJson, normP0]
    · simp [build, hc, toJson, normP0]
  · have hl' : (n' == "PUSHLIB") = false := by simp [hl]
    by_cases hz : (p0 && n' == "PUSH" && v.map Val.str == some (Val.str "0")) = true
    · have hz' := hz
      simp only [Bool.and_eq_true, beq_iff_eq] at hz'
      obtain ⟨⟨hp, hn⟩, hv0⟩ := hz'
      subst hn
      have hv1 : v = some "0" := by
        cases v with
        | none => simp at hv0
        | some x => simp at hv0; subst hv0; rfl
      subst hv1
      simp [build, hp, toJson, normP0]
    · have hz2 : (p0 && some n' == some "PUSH" && v == some "0") = false := by
        cases hq : (p0 && some n' == some "PUSH" && v == some "0") with
        | false => rfl
        | true =>
          exfalso; apply hz
          simp only [Bool.and_eq_true, beq_iff_eq, Option.some.injEq] at hq
          obtain ⟨⟨hp, hn⟩, hv0⟩ := hq
          subst hn; subst hv0
          simp [hp]
      simp only [build, hl', Bool.false_eq_true, if_false, hz]
      refine ⟨_, _, rfl, ?_⟩
      simp only [toJson, normP0, hz2, Bool.false_eq_true, if_false]
      cases v <;> simp

theorem normP0_wf (p0 : Bool) (j : JItem) (hw : j.wf = true) : (normP0 p0 j).wf = true := by
  unfold normP0
  split
  · rename_i h
    simp only [Bool.and_eq_true, beq_iff_eq] at h
    simp only [JItem.wf, Bool.and_eq_true] at hw ⊢
    refine ⟨⟨⟨⟨hw.1.1.1.1, hw.1.1.1.2⟩, rfl⟩, hw.1.2⟩, ?_⟩
    simp
  · exact hw

theorem normP0_idem (p0 : Bool) (j : JItem) : normP0 p0 (normP0 p0 j) = normP0 p0 j := by
  unfold normP0
  split
  · simp
  · rename_i h; simp [h]

/-- **a list of items** (one code section): read in order, threading the PUSHLIB table, and written back -/
theorem buildAll_toJson (p0 : Bool) : ∀ (js : List JItem) (tbl : List String), (∀ j ∈ js, j.wf = true) →
    ∃ bs, buildAll p0 js tbl = some bs ∧ bs.map toJson = js.map (normP0 p0)
  | [], _, _ => ⟨[], rfl, rfl⟩
  | j :: js, tbl, hw => by
    obtain ⟨b, tbl', hb, hj⟩ := toJson_build p0 j tbl (hw j (by simp))
    obtain ⟨bs, hbs, hmap⟩ := buildAll_toJson p0 js tbl' (fun x hx => hw x (by simp [hx]))
    exact ⟨b :: bs, by simp [buildAll, hb, hbs], by simp [hj, hmap]⟩

/-- what was written is a fixed point: reading the written section again and writing it gives the same section -/
theorem roundtrip_stable (p0 : Bool) (js : List JItem) (tbl tbl' : List String) (hw : ∀ j ∈ js, j.wf = true) :
    ∃ bs bs', buildAll p0 js tbl = some bs ∧ buildAll p0 (bs.map toJson) tbl' = some bs' ∧ bs'.map toJson = bs.map toJson := by
  obtain ⟨bs, hbs, hmap⟩ := buildAll_toJson p0 js tbl hw
  have hw' : ∀ j ∈ bs.map toJson, j.wf = true := by
    rw [hmap]; intro j hj
    obtain ⟨x, hx, rfl⟩ := List.mem_map.1 hj
    exact normP0_wf p0 x (hw x hx)
  obtain ⟨bs', hbs', hmap'⟩ := buildAll_toJson p0 (bs.map toJson) tbl' hw'
  refine ⟨bs, bs', hbs, hbs', ?_⟩
  rw [hmap', hmap, List.map_map]
  apply List.map_congr_left
  intro j _
  exact normP0_idem p0 j

/-- with PUSH0 disabled the round trip is the identity -/
theorem buildAll_toJson_off (js : List JItem) (tbl : List String) (hw : ∀ j ∈ js, j.wf = true) :
    ∃ bs, buildAll false js tbl = some bs ∧ bs.map toJson = js := by
  obtain ⟨bs, h1, h2⟩ := buildAll_toJson false js tbl hw
  refine ⟨bs, h1, ?_⟩
  rw [h2]
  conv => rhs; rw [← List.map_id js]
  apply List.map_congr_left
  intro j _; simp [normP0]

/-- **blocks partition the section**: cutting a section into blocks and writing the blocks back one after the other gives the
    section (up to the PUSH0 spelling), whatever the block being filled and its table; no block is empty -/
theorem buildBlocks_flatten (p0 : Bool) : ∀ (js : List JItem) (cur : List Bytecode) (tbl : List String), (∀ j ∈ js, j.wf = true) →
    ∃ bl, buildBlocks p0 js cur tbl = some bl ∧ bl.flatten.map toJson = cur.map toJson ++ js.map (normP0 p0) ∧ ∀ b ∈ bl, b ≠ []
  | [], cur, tbl, _ => by
    by_cases hc : cur = []
    · subst hc; exact ⟨[], by simp [buildBlocks], by simp, by simp⟩
    · refine ⟨[cur], ?_, by simp, by simp [hc]⟩
      have : cur.isEmpty = false := by cases cur <;> simp_all
      simp [buildBlocks, this]
  | j :: js, cur, tbl, hw => by
    obtain ⟨b, tbl', hb, hj⟩ := toJson_build p0 j tbl (hw j (by simp))
    have hw' : ∀ x ∈ js, x.wf = true := fun x hx => hw x (by simp [hx])
    simp only [buildBlocks, hb]
    split
    · obtain ⟨bl, h1, h2, h3⟩ := buildBlocks_flatten p0 js [] [] hw'
      refine ⟨(cur ++ [b]) :: bl, by simp [h1], ?_, ?_⟩
      · simp [h2, hj]
      · intro x hx
        rcases List.mem_cons.1 hx with rfl | hx
        · simp
        · exact h3 x hx
    · split
      · split
        · rename_i hc
          have hc' : cur = [] := by cases cur <;> simp_all
          subst hc'
          obtain ⟨bl, h1, h2, h3⟩ := buildBlocks_flatten p0 js [b] tbl' hw'
          exact ⟨bl, h1, by simp [h2, hj], h3⟩
        · rename_i hc
          have hc' : cur ≠ [] := by intro h; subst h; simp at hc
          obtain ⟨bl, h1, h2, h3⟩ := buildBlocks_flatten p0 js [b] [] hw'
          refine ⟨cur :: bl, by simp [h1], by simp [h2, hj], ?_⟩
          intro x hx
          rcases List.mem_cons.1 hx with rfl | hx
          · exact hc'
          · exact h3 x hx
      · obtain ⟨bl, h1, h2, h3⟩ := buildBlocks_flatten p0 js (cur ++ [b]) tbl' hw'
        exact ⟨bl, h1, by simp [h2, hj], h3⟩

/-- a whole code section: the blocks, written back in order, are the section -/
theorem blocks_roundtrip (p0 : Bool) (js : List JItem) (hw : ∀ j ∈ js, j.wf = true) :
    ∃ bl, buildBlocks p0 js [] [] = some bl ∧ bl.flatten.map toJson = js.map (normP0 p0) ∧ ∀ b ∈ bl, b ≠ [] := by
  obtain ⟨bl, h1, h2, h3⟩ := buildBlocks_flatten p0 js [] [] hw
  exact ⟨bl, h1, by simpa using h2, h3⟩

/-- C17, reader/writer side: with PUSH0 disabled, what is read and written back contains no item named PUSH0 that the input did not have -/
theorem no_new_push0_when_disabled (js : List JItem) (tbl : List String) (hw : ∀ j ∈ js, j.wf = true) :
    ∃ bs, buildAll false js tbl = some bs ∧ ∀ j ∈ bs.map toJson, j.name = some "PUSH0" → j ∈ js := by
  obtain ⟨bs, h1, h2⟩ := buildAll_toJson_off js tbl hw
  exact ⟨bs, h1, fun j hj _ => h2 ▸ hj⟩

/-- with PUSH0 enabled a zero push is written with the documented spelling, every other item as it was read -/
theorem normP0_enabled (j : JItem) :
    (j.name = some "PUSH" ∧ j.value = some "0" → (normP0 true j).name = some "PUSH0" ∧ (normP0 true j).value = none) ∧
    (¬ (j.name = some "PUSH" ∧ j.value = some "0") → normP0 true j = j) := by
  constructor
  · rintro ⟨h1, h2⟩; simp [normP0, h1, h2]
  · intro h
    unfold normP0
    split
    · rename_i hc
      simp only [Bool.true_and, Bool.and_eq_true, beq_iff_eq] at hc
      exact absurd hc h
    · rfl

-- the premises are satisfiable and the PUSH0 case is really exercised
example : build true { begin_ := some 1, end_ := some 2, name := some "PUSH", source := some 0, value := some "0" } [] =
    some (⟨1, 2, 0, "PUSH0", none, none, none, some "0"⟩, []) := by decide
example : (build false { begin_ := some 1, end_ := some 2, name := some "PUSHLIB", source := some 0, value := some "ab" } ["cd"]).map (·.2) =
    some ["cd", "ab"] := by decide

end GasolVerif.Json
