/-
  (P) C04 / C06 / C01: `Spec.realizes` has a semantic meaning.  If an identifier sequence realizes a specification
  whose executable premises (`realOk`) hold and performs no memory/storage operation twice, then the EVM instructions
  the identifiers stand for (`asmOf`), run from any state at least as deep as the specification's initial stack, end
  in exactly the state the specification denotes under the schedule in which the sequence performs the operations
  (`realizes_exec`).  With C02's theorem this closes the chain block → specification → sequence:
  `realized_sequence_obsEq`.   No Mathlib.
-/
import GasolVerif.Models.Realize
import GasolVerif.Proofs.SpecSim
set_option linter.unusedSimpArgs false
set_option linter.unusedVariables false
namespace GasolVerif.Spec

/-! ### lists of atoms and their terms -/

theorem termsOf_iff (S : Spec) (env : Env) (fuel : Nat) :
    ∀ (as : List Atom) (ts : List Tm),
      termsOf S env fuel as = some ts ↔ as.map (termOfAtom S env fuel) = ts.map some
  | [], ts => by
    cases ts <;> simp [termsOf]
  | a :: as, ts => by
    simp only [termsOf, List.map_cons]
    cases ha : termOfAtom S env fuel a with
    | none =>
      cases ts <;> simp
    | some t =>
      cases hr : termsOf S env fuel as with
      | none =>
        cases ts with
        | nil => simp
        | cons t' ts' =>
          simp only [List.map_cons, List.cons.injEq, Option.some.injEq, false_iff, not_and, reduceCtorEq]
          intro _ h
          have := (termsOf_iff S env fuel as ts').2 h
          rw [hr] at this; cases this
      | some rs =>
        have h1 := (termsOf_iff S env fuel as rs).1 hr
        cases ts with
        | nil => simp
        | cons t' ts' =>
          simp only [Option.some.injEq, List.cons.injEq, List.map_cons]
          constructor
          · rintro ⟨rfl, rfl⟩; exact ⟨rfl, h1⟩
          · rintro ⟨rfl, h⟩
            rw [h1] at h
            have : rs = ts' := by
              have := congrArg (List.filterMap id) h
              simpa [List.filterMap_map] using this
            exact ⟨rfl, this⟩


theorem map_some_inj {α} : ∀ (xs ys : List α), xs.map some = ys.map some → xs = ys := by
  intro xs ys h
  have := congrArg (List.filterMap id) h
  simpa [List.filterMap_map] using this

/-- **fuel monotonicity**: a term found with some fuel is found, unchanged, with more -/
theorem termOf_mono (S : Spec) (env : Env) : ∀ fuel : Nat,
    (∀ v t, termOfVar S env fuel v = some t → termOfVar S env (fuel + 1) v = some t) ∧
    (∀ as ts, termsOf S env fuel as = some ts → termsOf S env (fuel + 1) as = some ts) := by
  intro fuel
  induction fuel with
  | zero =>
    refine ⟨by intro v t h; simp [termOfVar] at h, ?_⟩
    intro as
    induction as with
    | nil => intro ts h; simp [termsOf] at h ⊢; exact h
    | cons a as ih =>
      intro ts h
      simp only [termsOf] at h ⊢
      cases a with
      | var v => simp [termOfAtom, termOfVar] at h
      | const n =>
        simp only [termOfAtom] at h ⊢
        cases hr : termsOf S env 0 as with
        | none => simp [hr] at h
        | some rs => simp only [hr] at h; rw [ih rs hr]; exact h
  | succ fuel ih =>
    have hV : ∀ v t, termOfVar S env (fuel + 1) v = some t → termOfVar S env (fuel + 1 + 1) v = some t := by
      intro v t h
      simp only [termOfVar] at h ⊢
      cases hl : env.lookup v with
      | some t0 => simp only [hl] at h ⊢; exact h
      | none =>
        simp only [hl] at h ⊢
        cases hs : S.src.idxOf? v with
        | some i => simp only [hs] at h ⊢; exact h
        | none =>
          simp only [hs] at h ⊢
          cases hp : S.producer? v with
          | none => simp [hp] at h
          | some u =>
            simp only [hp] at h ⊢
            split at h
            · simp at h
            · rename_i hne
              simp only [hne, Bool.false_eq_true, if_false]
              cases hr : termsOf S env fuel u.inp with
              | none => simp [hr] at h
              | some rs =>
                rw [ih.2 u.inp rs hr]
                simpa [hr] using h
    refine ⟨hV, ?_⟩
    intro as
    induction as with
    | nil => intro ts h; simp [termsOf] at h ⊢; exact h
    | cons a as iha =>
      intro ts h
      simp only [termsOf] at h ⊢
      cases ha : termOfAtom S env (fuel + 1) a with
      | none => simp [ha] at h
      | some t =>
        cases hr : termsOf S env (fuel + 1) as with
        | none => simp [ha, hr] at h
        | some rs =>
          simp only [ha, hr] at h
          have ha' : termOfAtom S env (fuel + 1 + 1) a = some t := by
            cases a with
            | const n => simpa [termOfAtom] using ha
            | var v => simp only [termOfAtom] at ha ⊢; exact hV v t ha
          rw [ha', iha rs hr]; exact h

theorem instrOk_of_mem (S : Spec) (h : realOk S = true) (u : UInstr) (hu : u ∈ S.instrs) : instrOk S u = true := by
  simp only [realOk, Bool.and_eq_true, List.all_eq_true] at h
  exact h.2 u hu

theorem realOk_names (S : Spec) (h : realOk S = true) : namesOk S = true := by
  simp only [realOk, Bool.and_eq_true] at h; exact h.1.1

theorem realOk_nodup (S : Spec) (h : realOk S = true) : S.src.Nodup := by
  simp only [realOk, Bool.and_eq_true, decide_eq_true_eq] at h; exact h.1.2

/-! ### the term of an atom -/

theorem tmA_const (S : Spec) (n : Nat) : tmA S (.const n) = some (.const (BitVec.ofNat 256 n)) := by
  simp [tmA, termOfAtom]

theorem not_loadOut_of_src (S : Spec) (hn : namesOk S = true) (s : String) (hs : s ∈ S.src) : s ∉ loadOuts S := by
  simp only [namesOk, Bool.and_eq_true, List.all_eq_true] at hn
  intro h
  have := hn.1.1 s h
  simp [hs] at this

theorem tmA_src (S : Spec) (hn : namesOk S = true) (s : String) (hs : s ∈ S.src) :
    tmA S (.var s) = some (.var (S.src.idxOf s)) := by
  simp only [tmA, termOfAtom, fuelOf, termOfVar]
  rw [lookup_opaqueEnv_none S s (not_loadOut_of_src S hn s hs)]
  have : S.src.idxOf? s = some (S.src.idxOf s) := by
    simp [List.idxOf?, List.idxOf, List.findIdx?_eq_some_of_exists, hs]
  simp [this]


theorem tmA_load (S : Spec) (o : String) (ho : o ∈ loadOuts S) : tmA S (.var o) = some (.sym (loadSym o)) := by
  simp only [tmA, termOfAtom, fuelOf, termOfVar]
  rw [lookup_opaqueEnv S o ho]

/-- a result of an instruction that is not a memory/storage operation is no load result -/
theorem not_loadOut_of_pure (S : Spec) (hn : namesOk S = true) (u : UInstr) (o : String)
    (hp : S.producer? o = some u) (he : u.isEffect = false) : o ∉ loadOuts S := by
  simp only [namesOk, Bool.and_eq_true, List.all_eq_true] at hn
  intro h
  have := hn.2 o h
  simp [hp, he] at this

theorem producer_of_mem (S : Spec) (hok : realOk S = true) (u : UInstr) (hu : u ∈ S.instrs) (o : String)
    (ho : u.out = some o) : S.producer? o = some u ∧ o ∉ S.src := by
  have hi := instrOk_of_mem S hok u hu
  simp only [instrOk, ho, Bool.and_eq_true, decide_eq_true_eq, Bool.not_eq_true', List.contains_eq_mem,
    decide_eq_false_iff_not] at hi
  exact ⟨hi.1.2.2, hi.1.2.1⟩

/-- the term of the result of an instruction that is not a memory/storage operation is its operation applied to the terms of its
    operands (one unfolding of `termOfVar`, and fuel monotonicity for the operands) -/
theorem tmA_pure (S : Spec) (hok : realOk S = true) (u : UInstr) (hu : u ∈ S.instrs) (he : u.isEffect = false)
    (o : String) (ho : u.out = some o) :
    ∃ ts t, termsOf S (opaqueEnv S) (fuelOf S) u.inp = some ts ∧ pureTm u ts = some t ∧ tmA S (.var o) = some t := by
  have hn := realOk_names S hok
  obtain ⟨hp, hsrc⟩ := producer_of_mem S hok u hu o ho
  have hi := instrOk_of_mem S hok u hu
  simp only [instrOk, he, ho, Bool.false_eq_true, if_false, Bool.and_eq_true, Option.isSome_iff_exists] at hi
  obtain ⟨_, _, ⟨t, ht⟩⟩ := hi
  have hlk := lookup_opaqueEnv_none S o (not_loadOut_of_pure S hn u o hp he)
  have hidx : S.src.idxOf? o = none := by
    simp only [List.idxOf?, List.findIdx?_eq_none_iff, beq_iff_eq]
    intro x hx; simp only [beq_eq_false_iff_ne, ne_eq]; intro hxo; subst hxo; exact hsrc hx
  have ht' := ht
  simp only [fuelOf, termOfVar, hlk, hidx, hp, he, Bool.false_eq_true, if_false] at ht'
  cases hr : termsOf S (opaqueEnv S) (S.instrs.length + 1) u.inp with
  | none => simp [hr] at ht'
  | some ts =>
    simp only [hr, Option.bind_some] at ht'
    have hm := (termOf_mono S (opaqueEnv S) (S.instrs.length + 1)).2 u.inp ts hr
    exact ⟨ts, t, hm, ht', by simpa [tmA, termOfAtom] using ht⟩

theorem tmA_resolve (S : Spec) (hok : realOk S = true) (a : Atom) : tmA S (resolve S a) = tmA S a := by
  cases a with
  | const n => rfl
  | var v =>
    simp only [resolve]
    cases hp : S.producer? v with
    | none => rfl
    | some u =>
      simp only
      split
      · rename_i hop
        cases hx : parseHex? u.sym with
        | none => rfl
        | some n =>
          simp only
          have hu : u ∈ S.instrs := List.mem_of_find?_eq_some hp
          have hout : u.out = some v := by
            have := List.find?_some hp
            simpa using this
          have he : u.isEffect = false := by
            rcases (by simpa using hop : u.op = "PUSH" ∨ u.op = "PUSH0") with h | h <;>
              simp [UInstr.isEffect, UInstr.isMem, UInstr.isSto, memOps, stoOps, h]
          obtain ⟨ts, t, hts, hpt, hv⟩ := tmA_pure S hok u hu he v hout
          have hi := instrOk_of_mem S hok u hu
          simp only [instrOk, Bool.and_eq_true] at hi
          have hemp : u.inp = [] := by
            have := hi.1.1.2
            simpa [hop] using this
          rw [hemp] at hts
          simp only [termsOf, Option.some.injEq] at hts
          subst hts
          rw [hv, tmA_const]
          simp only [pureTm, hop, if_true, hx, Option.map_some, Option.some.injEq] at hpt
          rw [← hpt]
      · rfl


/-! ### instructions and effects -/

theorem op_ne_of_pure (u : UInstr) (he : u.isEffect = false) :
    u.op ≠ "MSTORE" ∧ u.op ≠ "MSTORE8" ∧ u.op ≠ "SSTORE" ∧ u.op ≠ "MLOAD" ∧ u.op ≠ "SLOAD" ∧
      u.op ≠ "KECCAK256" ∧ u.op ≠ "SHA3" := by
  simp only [UInstr.isEffect, UInstr.isMem, UInstr.isSto, memOps, stoOps, Bool.or_eq_false_iff,
    List.contains_eq_mem, decide_eq_false_iff_not, List.mem_cons, List.not_mem_nil, or_false, not_or] at he
  obtain ⟨⟨a, b, c, d, f⟩, g, h⟩ := he
  exact ⟨a, b, g, c, h, d, f⟩

theorem effOf_pure (S : Spec) (u : UInstr) (he : u.isEffect = false) : effOf S u = .skip := by
  obtain ⟨h1, h2, h3, h4, h5, h6, h7⟩ := op_ne_of_pure u he
  unfold effOf
  split <;> simp_all

theorem effOf_cases (S : Spec) (u : UInstr) (h : effOf S u ≠ .skip) :
    (∃ a v, u.op = "MSTORE" ∧ argsTm S u = some [a, v] ∧ effOf S u = .wmem a v) ∨
    (∃ a v, u.op = "MSTORE8" ∧ argsTm S u = some [a, v] ∧ effOf S u = .bmem a v) ∨
    (∃ a v, u.op = "SSTORE" ∧ argsTm S u = some [a, v] ∧ effOf S u = .wsto a v) ∨
    (∃ a o, u.op = "MLOAD" ∧ argsTm S u = some [a] ∧ u.out = some o ∧ effOf S u = .rmem o a) ∨
    (∃ a o, u.op = "SLOAD" ∧ argsTm S u = some [a] ∧ u.out = some o ∧ effOf S u = .rsto o a) ∨
    (∃ a l o, (u.op = "KECCAK256" ∨ u.op = "SHA3") ∧ argsTm S u = some [a, l] ∧ u.out = some o ∧
      effOf S u = .hmem o a l) := by
  unfold effOf at h ⊢
  split at h <;> simp_all

variable (e : GasolVerif.Env) (σ₀ : St)

theorem step_pure (u : UInstr) (i : Instr) (he : u.isEffect = false) (hi : instrOfU u = some i)
    (σ : St) (ws rest : List Word) (hs : σ.stack = ws ++ rest) (hl : ws.length = u.inp.length) (w : Word)
    (hv : pureVal e σ.trace u ws = some w) : step e i σ = some { σ with stack := w :: rest } := by
  obtain ⟨h1, h2, h3, h4, h5, h6, h7⟩ := op_ne_of_pure u he
  have e1 : (u.op == "MSTORE") = false := by simp [h1]
  have e2 : (u.op == "MSTORE8") = false := by simp [h2]
  have e3 : (u.op == "SSTORE") = false := by simp [h3]
  have e4 : (u.op == "MLOAD") = false := by simp [h4]
  have e5 : (u.op == "SLOAD") = false := by simp [h5]
  have e6 : (u.op == "KECCAK256" || u.op == "SHA3") = false := by simp [h6, h7]
  unfold instrOfU at hi
  simp only [e1, e2, e3, e4, e5, e6, Bool.false_eq_true, if_false] at hi
  unfold pureVal at hv
  match hinp : u.inp, ws, hl with
  | [], [], _ =>
    simp only [hinp] at hi
    simp only [List.nil_append] at hs
    split at hi
    · rename_i hop
      simp only [hop, if_true] at hv
      cases hx : parseHex? u.sym with
      | none => simp [hx] at hv
      | some n =>
        simp only [hx, Option.map_some, Option.some.injEq] at hv hi
        subst hv; subst hi
        simp [step, hs]
    · rename_i hop
      simp only [hop, if_false] at hv
      split at hi
      · rename_i hp
        simp only [hp, if_true, Option.some.injEq, Bool.false_eq_true, if_false] at hv hi
        subst hv; subst hi
        simp [step, hs]
      · rename_i hp
        simp only [hp, Bool.false_eq_true, if_false, Option.some.injEq] at hv hi
        subst hv; subst hi
        simp [step, hs]
  | [_], [a], _ =>
    simp only [hinp] at hi
    simp only [List.cons_append, List.nil_append] at hs
    cases ho : UnOp.ofName? u.op with
    | none =>
      simp only [ho, Option.some.injEq] at hv hi
      subst hv; subst hi
      simp [step, hs]
    | some o =>
      simp only [ho, Option.some.injEq] at hv hi
      subst hv; subst hi
      simp [step, hs]
  | [_, _], [a, b], _ =>
    simp only [hinp] at hi
    simp only [List.cons_append, List.nil_append] at hs
    cases ho : BinOp.ofName? u.op with
    | none => simp [ho] at hv
    | some o =>
      simp only [ho, Option.map_some, Option.some.injEq] at hv hi
      subst hv; subst hi
      simp [step, hs]
  | [_, _, _], [a, b, c], _ =>
    simp only [hinp] at hi
    simp only [List.cons_append, List.nil_append] at hs
    cases ho : TerOp.ofName? u.op with
    | none => simp [ho] at hv
    | some o =>
      simp only [ho, Option.map_some, Option.some.injEq] at hv hi
      subst hv; subst hi
      simp [step, hs]
  | _ :: _ :: _ :: _ :: _, _ :: _ :: _ :: _ :: _, _ => simp at hv

omit σ₀ in
theorem pureVal_comm (tr : List Event) (u : UInstr) (hc : (BinOp.ofName? u.op).any (·.comm) = true) (a b : Word) :
    pureVal e tr u [a, b] = pureVal e tr u [b, a] := by
  unfold pureVal
  cases ho : BinOp.ofName? u.op with
  | none => simp [ho] at hc
  | some o =>
    simp only [ho, Option.any_some] at hc
    simp [BinOp.comm_sound o hc a b]

theorem runActs_snoc {α σ : Type} (act : α → σ → σ) (L : List α) (a : α) (s : σ) :
    runActs act (L ++ [a]) s = act a (runActs act L s) := by
  induction L generalizing s with
  | nil => rfl
  | cons b L ih => simp only [List.cons_append, runActs]; exact ih _

theorem runSched_snoc (S : Spec) (L : List String) (id : String) (c : CSt) :
    runSched e σ₀ S (L ++ [id]) c = actEff e σ₀ (effId S id) (runSched e σ₀ S L c) := by
  unfold runSched; exact runActs_snoc _ L id c


/-! ### the simulation invariant -/

/-- the concrete scheduled state after the operations performed so far -/
def cOf (S : Spec) (done : List String) : CSt := runSched e σ₀ S done (initC σ₀)

/-- value of a term in the loaded values of a scheduled state -/
abbrev evc (c : CSt) (t : Tm) : Word := evalW (withLoads e c.lv) σ₀ t

/-- the abstract run state `st` and the machine state `σ` agree: every cell of the abstract stack stands for a pure
    term whose value (in the loaded values so far) is the word in the machine's cell; memory and storage are the
    ones of the scheduled run; a term mentions only loads that were performed -/
structure RInv (S : Spec) (st : RunSt) (σ : St) : Prop where
  ex : ∃ ts : List Tm, st.stack.map (tmA S) = ts.map some ∧
        σ.stack = ts.map (evc e σ₀ (cOf e σ₀ S st.done)) ++ σ₀.stack.drop S.src.length ∧
        ∀ t ∈ ts, isPure t = true ∧
          ∀ o ∈ loadOuts S, usesLoad o t = true → ∃ id ∈ st.done, (S.find? id).bind (·.out) = some o
  mem : σ.mem = (cOf e σ₀ S st.done).mem
  sto : σ.sto = (cOf e σ₀ S st.done).sto
  trace : σ.trace = σ₀.trace
  lvdom : ∀ s w, (cOf e σ₀ S st.done).lv s = some w → s ∈ loadOuts S

omit e σ₀ in
theorem take_terms (S : Spec) (hok : realOk S = true) (stack : List Atom) (ts : List Tm)
    (hmap : stack.map (tmA S) = ts.map some) (inp : List Atom) (targs : List Tm)
    (hin : inp.map (tmA S) = targs.map some) :
    ((stack.take inp.length).map (resolve S) = inp.map (resolve S) → ts.take inp.length = targs) ∧
    ((stack.take inp.length).map (resolve S) = (inp.map (resolve S)).reverse → ts.take inp.length = targs.reverse) := by
  have h1 : (stack.take inp.length).map (tmA S) = (ts.take inp.length).map some := by
    rw [List.map_take, hmap, ← List.map_take]
  have h2 : ∀ l : List Atom, (l.map (resolve S)).map (tmA S) = l.map (tmA S) := by
    intro l; simp only [List.map_map]; apply List.map_congr_left; intro a _; exact tmA_resolve S hok a
  constructor
  · intro h
    apply map_some_inj
    rw [← h1, ← h2, h, h2, hin]
  · intro h
    apply map_some_inj
    rw [← h1, ← h2, h, List.map_reverse, h2, hin, List.map_reverse]

omit e σ₀ in
theorem map_cons_some {α β} (f : α → Option β) (a : α) (r : List α) (ts : List β) (h : (a :: r).map f = ts.map some) :
    ∃ t ts', ts = t :: ts' ∧ f a = some t ∧ r.map f = ts'.map some := by
  cases ts with
  | nil => simp at h
  | cons t ts' => simp only [List.map_cons, List.cons.injEq] at h; exact ⟨t, ts', rfl, h.1, h.2⟩

omit e σ₀ in
theorem getElem?_map_some {α β} (f : α → Option β) (l : List α) (ts : List β) (h : l.map f = ts.map some) (k : Nat) (a : α)
    (hk : l[k]? = some a) : ∃ t, ts[k]? = some t ∧ f a = some t := by
  have := congrArg (fun x => x[k]?) h
  simp only [List.getElem?_map, hk, Option.map_some] at this
  cases ht : ts[k]? with
  | none => simp [ht] at this
  | some t => simp only [ht, Option.map_some, Option.some.injEq] at this; exact ⟨t, rfl, this⟩


omit e σ₀ in
theorem usesLoad_pureTm (u : UInstr) (ts : List Tm) (t : Tm) (h : pureTm u ts = some t) (o : String)
    (hu : usesLoad o t = true) : (∃ t' ∈ ts, usesLoad o t' = true) ∨ u.sym = loadSym o := by
  unfold pureTm at h
  split at h
  · split at h
    · cases hx : parseHex? u.sym with
      | none => simp [hx] at h
      | some n => simp [hx] at h; subst h; simp [usesLoad] at hu
    · split at h
      · simp at h; subst h; simp [usesLoad] at hu; exact Or.inr hu
      · simp at h; subst h; simp [usesLoad] at hu
  · split at h
    · simp at h; subst h; simp only [usesLoad] at hu; exact Or.inl ⟨_, by simp, hu⟩
    · simp at h; subst h; simp only [usesLoad] at hu; exact Or.inl ⟨_, by simp, hu⟩
  · cases ho : BinOp.ofName? u.op with
    | none => simp [ho] at h
    | some op =>
      simp [ho] at h; subst h
      simp only [usesLoad, Bool.or_eq_true] at hu
      rcases hu with hu | hu
      · exact Or.inl ⟨_, by simp, hu⟩
      · exact Or.inl ⟨_, by simp, hu⟩
  · cases ho : TerOp.ofName? u.op with
    | none => simp [ho] at h
    | some op =>
      simp [ho] at h; subst h
      simp only [usesLoad, Bool.or_eq_true] at hu
      rcases hu with (hu | hu) | hu
      · exact Or.inl ⟨_, by simp, hu⟩
      · exact Or.inl ⟨_, by simp, hu⟩
      · exact Or.inl ⟨_, by simp, hu⟩
  · simp at h

omit e σ₀ in
theorem sym_not_loadOut (S : Spec) (hn : namesOk S = true) (u : UInstr) (hu : u ∈ S.instrs) : u.sym ∉ loadOuts S := by
  simp only [namesOk, Bool.and_eq_true, List.all_eq_true] at hn
  have := hn.1.2 u hu
  simpa using this

/-- an instruction that is not a memory/storage operation: the machine computes the value of its term -/
theorem pure_sim (S : Spec) (hok : realOk S = true) (st : RunSt) (σ : St) (id : String) (u : UInstr)
    (hf : S.find? id = some u) (he : u.isEffect = false) (hinv : RInv e σ₀ S st σ)
    (hlen : ¬ st.stack.length < u.inp.length)
    (hargs : (st.stack.take u.inp.length).map (resolve S) = u.inp.map (resolve S) ∨
             ((u.comm = true ∧ (BinOp.ofName? u.op).any (·.comm) = true) ∧
               (st.stack.take u.inp.length).map (resolve S) = (u.inp.map (resolve S)).reverse))
    (o : String) (ho : u.out = some o) (pk : Nat) :
    ∃ i σ1, instrOfU u = some i ∧ step e i σ = some σ1 ∧
      RInv e σ₀ S { stack := .var o :: st.stack.drop u.inp.length, done := st.done ++ [id], peak := pk } σ1 := by
  have hn := realOk_names S hok
  have hu : u ∈ S.instrs := List.mem_of_find?_eq_some hf
  obtain ⟨targs, t, hts, hpt, hv⟩ := tmA_pure S hok u hu he o ho
  have hin := (termsOf_iff S _ _ u.inp targs).1 hts
  obtain ⟨ts, hmap, hstk, hall⟩ := hinv.ex
  have hc : cOf e σ₀ S (st.done ++ [id]) = cOf e σ₀ S st.done := by
    simp [cOf, runSched_snoc, effId, hf, effOf_pure S u he, actEff]
  have hi := instrOk_of_mem S hok u hu
  have hins : ∃ i, instrOfU u = some i := by
    simp only [instrOk, he, Bool.false_eq_true, if_false, Bool.and_eq_true, Option.isSome_iff_exists] at hi
    exact hi.2.1
  obtain ⟨i, hi1⟩ := hins
  have hlts : ts.length = st.stack.length := by
    have := congrArg List.length hmap; simpa using this.symm
  have hlv : (cOf e σ₀ S st.done).lv u.sym = none := by
    cases h : (cOf e σ₀ S st.done).lv u.sym with
    | none => rfl
    | some w => exact absurd (hinv.lvdom _ _ h) (sym_not_loadOut S hn u hu)
  have hpv := pureTm_val (withLoads e (cOf e σ₀ S st.done).lv) σ₀ u targs t hpt
  rw [pureVal_withLoads e σ₀.trace _ u hlv] at hpv
  have htk := take_terms S hok st.stack ts hmap u.inp targs hin
  -- the operand terms are cells of the stack, and the machine's operands give the value of the term
  have hboth : (∀ t' ∈ targs, t' ∈ ts) ∧
      pureVal e σ.trace u ((ts.take u.inp.length).map (evc e σ₀ (cOf e σ₀ S st.done))) =
        some (evc e σ₀ (cOf e σ₀ S st.done) t) := by
    rcases hargs with h | ⟨⟨hcm, hco⟩, h⟩
    · have := htk.1 h
      rw [this, hinv.trace]
      exact ⟨fun t' ht' => List.mem_of_mem_take (this ▸ ht'), hpv.1⟩
    · have hrev := htk.2 h
      have hcomm : u.inp.length = 2 ∧ (BinOp.ofName? u.op).any (·.comm) = true := by
        refine ⟨?_, hco⟩
        simp only [instrOk, hcm, Bool.not_true, Bool.false_or, Bool.and_eq_true, beq_iff_eq] at hi
        exact hi.1.1.1.2.1.1
      refine ⟨fun t' ht' => List.mem_of_mem_take (hrev ▸ (List.mem_reverse.2 ht')), ?_⟩
      rw [hrev, hinv.trace]
      have hl2 : targs.length = 2 := by
        have := congrArg List.length hin; simp only [List.length_map] at this; omega
      match targs, hl2 with
      | [a, b], _ =>
        simp only [List.reverse_cons, List.reverse_nil, List.nil_append, List.cons_append, List.map_cons, List.map_nil]
        rw [pureVal_comm e σ₀.trace u hcomm.2]
        simpa using hpv.1
  have hsplit : σ.stack = (ts.take u.inp.length).map (evc e σ₀ (cOf e σ₀ S st.done)) ++
      ((ts.drop u.inp.length).map (evc e σ₀ (cOf e σ₀ S st.done)) ++ σ₀.stack.drop S.src.length) := by
    rw [hstk, ← List.append_assoc, ← List.map_append, List.take_append_drop]
  have hl : ((ts.take u.inp.length).map (evc e σ₀ (cOf e σ₀ S st.done))).length = u.inp.length := by
    simp only [List.length_map, List.length_take]; omega
  have hstep := step_pure e u i he hi1 σ _ _ hsplit hl _ hboth.2
  refine ⟨i, _, hi1, hstep, ?_⟩
  refine ⟨⟨t :: ts.drop u.inp.length, ?_, ?_, ?_⟩, ?_, ?_, ?_, ?_⟩
  · simp only [List.map_cons, hv, List.map_drop, hmap]
  · simp only [hc, List.map_cons, List.cons_append]
  · intro t' ht'
    rcases List.mem_cons.1 ht' with rfl | ht'
    · refine ⟨hpv.2 (List.all_eq_true.2 fun x hx => (hall x (hboth.1 x hx)).1), ?_⟩
      intro o' ho' hus
      rcases usesLoad_pureTm u targs t' hpt o' hus with ⟨x, hx, hxu⟩ | hsym
      · obtain ⟨id', hid', hfo⟩ := (hall x (hboth.1 x hx)).2 o' ho' hxu
        exact ⟨id', List.mem_append_left _ hid', hfo⟩
      · exact absurd (by rw [hsym]; exact ho') (sym_not_loadOut S hn u hu)
    · obtain ⟨hp, hl'⟩ := hall t' (List.mem_of_mem_drop ht')
      refine ⟨hp, fun o' ho' hus => ?_⟩
      obtain ⟨id', hid', hfo⟩ := hl' o' ho' hus
      exact ⟨id', List.mem_append_left _ hid', hfo⟩
  · simp only [hc]; exact hinv.mem
  · simp only [hc]; exact hinv.sto
  · exact hinv.trace
  · simp only [hc]; exact hinv.lvdom


omit e σ₀ in
/-- a load that has not been performed yet is mentioned by no cell of the stack -/
theorem fresh_load (S : Spec) (hok : realOk S = true) (done : List String) (id : String) (u : UInstr)
    (hf : S.find? id = some u) (o : String) (hout : u.out = some o) (hfresh : id ∉ done) (t' : Tm)
    (hall : ∀ o ∈ loadOuts S, usesLoad o t' = true → ∃ id' ∈ done, (S.find? id').bind (·.out) = some o)
    (ho : o ∈ loadOuts S) : usesLoad o t' = false := by
  cases hus : usesLoad o t' with
  | false => rfl
  | true =>
    obtain ⟨id', hid', hfo⟩ := hall o ho hus
    cases hf' : S.find? id' with
    | none => simp [hf'] at hfo
    | some u' =>
      simp only [hf', Option.bind_some] at hfo
      have hu : u ∈ S.instrs := List.mem_of_find?_eq_some hf
      have hu' : u' ∈ S.instrs := List.mem_of_find?_eq_some hf'
      have h1 := (producer_of_mem S hok u hu o hout).1
      have h2 := (producer_of_mem S hok u' hu' o hfo).1
      rw [h1] at h2
      cases h2
      have e1 : u.id = id := by simpa using List.find?_some hf
      have e2 : u.id = id' := by simpa using List.find?_some hf'
      rw [← e1, e2] at hfresh
      exact absurd hid' hfresh

/-- a memory/storage operation: the machine performs the effect of the scheduled run -/
theorem eff_sim (S : Spec) (hok : realOk S = true) (st : RunSt) (σ : St) (id : String) (u : UInstr)
    (hf : S.find? id = some u) (he : u.isEffect = true) (hinv : RInv e σ₀ S st σ)
    (hlen : ¬ st.stack.length < u.inp.length)
    (hargs : (st.stack.take u.inp.length).map (resolve S) = u.inp.map (resolve S) ∨
             ((u.comm = true ∧ (BinOp.ofName? u.op).any (·.comm) = true) ∧
               (st.stack.take u.inp.length).map (resolve S) = (u.inp.map (resolve S)).reverse))
    (hfresh : id ∉ st.done) (pk : Nat) :
    ∃ i σ1, instrOfU u = some i ∧ step e i σ = some σ1 ∧
      RInv e σ₀ S { stack := (match u.out with
                              | some o => .var o :: st.stack.drop u.inp.length
                              | none => st.stack.drop u.inp.length),
                    done := st.done ++ [id], peak := pk } σ1 := by
  have hn := realOk_names S hok
  have hu : u ∈ S.instrs := List.mem_of_find?_eq_some hf
  obtain ⟨ts, hmap, hstk, hall⟩ := hinv.ex
  have hi := instrOk_of_mem S hok u hu
  have hnc : u.comm = false := by
    cases hcm : u.comm with
    | false => rfl
    | true => simp [instrOk, hcm, he] at hi
  have hdirect : (st.stack.take u.inp.length).map (resolve S) = u.inp.map (resolve S) := by
    rcases hargs with h | ⟨⟨h, _⟩, _⟩
    · exact h
    · rw [hnc] at h; cases h
  have heff : effOf S u ≠ .skip ∧ (u.isStore = true → u.out = none) := by
    simp only [instrOk, he, if_true, Bool.and_eq_true, bne_iff_ne, ne_eq, Bool.or_eq_true, Bool.not_eq_true',
      Option.isNone_iff_eq_none] at hi
    refine ⟨hi.2.1, fun h => ?_⟩
    rcases hi.2.2 with h' | h'
    · rw [h] at h'; cases h'
    · exact h'
  have hc : cOf e σ₀ S (st.done ++ [id]) = actEff e σ₀ (effOf S u) (cOf e σ₀ S st.done) := by
    simp [cOf, runSched_snoc, effId, hf]
  have hlts : ts.length = st.stack.length := by
    have := congrArg List.length hmap; simpa using this.symm
  have hsplit : σ.stack = (ts.take u.inp.length).map (evc e σ₀ (cOf e σ₀ S st.done)) ++
      ((ts.drop u.inp.length).map (evc e σ₀ (cOf e σ₀ S st.done)) ++ σ₀.stack.drop S.src.length) := by
    rw [hstk, ← List.append_assoc, ← List.map_append, List.take_append_drop]
  have htake : ∀ targs, termsOf S (opaqueEnv S) (fuelOf S) u.inp = some targs → ts.take u.inp.length = targs :=
    fun targs hts => (take_terms S hok st.stack ts hmap u.inp targs ((termsOf_iff S _ _ u.inp targs).1 hts)).1 hdirect
  -- the rest of the stack keeps its meaning under stores (loaded values unchanged)
  have hrest : ∀ t' ∈ ts.drop u.inp.length, isPure t' = true ∧ ∀ o ∈ loadOuts S, usesLoad o t' = true →
      ∃ id' ∈ st.done ++ [id], (S.find? id').bind (·.out) = some o := by
    intro t' ht'
    obtain ⟨hp, hl'⟩ := hall t' (List.mem_of_mem_drop ht')
    refine ⟨hp, fun o' ho' hus => ?_⟩
    obtain ⟨id', hid', hfo⟩ := hl' o' ho' hus
    exact ⟨id', List.mem_append_left _ hid', hfo⟩
  rcases effOf_cases S u heff.1 with ⟨a, v, hop, hat, hef⟩ | ⟨a, v, hop, hat, hef⟩ | ⟨a, v, hop, hat, hef⟩ |
      ⟨a, o, hop, hat, hout, hef⟩ | ⟨a, o, hop, hat, hout, hef⟩ | ⟨a, l, o, hop, hat, hout, hef⟩
  · -- MSTORE
    have hout : u.out = none := heff.2 (by simp [UInstr.isStore, hop])
    have hlen2 : u.inp.length = 2 := by
      have := congrArg List.length ((termsOf_iff S _ _ u.inp [a, v]).1 hat); simpa using this
    have htk := htake _ hat
    rw [htk] at hsplit
    simp only [List.map_cons, List.map_nil, List.cons_append, List.nil_append] at hsplit
    refine ⟨.mstore, _, by simp [instrOfU, hop], by simp only [step, hsplit]; rfl, ?_⟩
    rw [hef] at hc
    refine ⟨⟨ts.drop u.inp.length, ?_, ?_, hrest⟩, ?_, ?_, ?_, ?_⟩
    · simp only [hout, List.map_drop, hmap]
    · simp only [hc, actEff]
    · simp only [hc, actEff, hinv.mem]
    · simp only [hc, actEff]; exact hinv.sto
    · exact hinv.trace
    · simp only [hc, actEff]; exact hinv.lvdom
  · -- MSTORE8
    have hout : u.out = none := heff.2 (by simp [UInstr.isStore, hop])
    have htk := htake _ hat
    rw [htk] at hsplit
    simp only [List.map_cons, List.map_nil, List.cons_append, List.nil_append] at hsplit
    refine ⟨.mstore8, _, by simp [instrOfU, hop], by simp only [step, hsplit]; rfl, ?_⟩
    rw [hef] at hc
    refine ⟨⟨ts.drop u.inp.length, ?_, ?_, hrest⟩, ?_, ?_, ?_, ?_⟩
    · simp only [hout, List.map_drop, hmap]
    · simp only [hc, actEff]
    · simp only [hc, actEff, hinv.mem]
    · simp only [hc, actEff]; exact hinv.sto
    · exact hinv.trace
    · simp only [hc, actEff]; exact hinv.lvdom
  · -- SSTORE
    have hout : u.out = none := heff.2 (by simp [UInstr.isStore, hop])
    have htk := htake _ hat
    rw [htk] at hsplit
    simp only [List.map_cons, List.map_nil, List.cons_append, List.nil_append] at hsplit
    refine ⟨.sstore, _, by simp [instrOfU, hop], by simp only [step, hsplit]; rfl, ?_⟩
    rw [hef] at hc
    refine ⟨⟨ts.drop u.inp.length, ?_, ?_, hrest⟩, ?_, ?_, ?_, ?_⟩
    · simp only [hout, List.map_drop, hmap]
    · simp only [hc, actEff]
    · simp only [hc, actEff]; exact hinv.mem
    · simp only [hc, actEff, hinv.sto]
    · exact hinv.trace
    · simp only [hc, actEff]; exact hinv.lvdom
  · -- MLOAD
    have ho : o ∈ loadOuts S := out_mem_loadOuts S u o hu he hout
    have htk := htake _ hat
    rw [htk] at hsplit
    simp only [List.map_cons, List.map_nil, List.cons_append, List.nil_append] at hsplit
    refine ⟨.mload, _, by simp [instrOfU, hop], by simp only [step, hsplit]; rfl, ?_⟩
    rw [hef] at hc
    have hfr : ∀ t' ∈ ts.drop u.inp.length,
        evc e σ₀ (cOf e σ₀ S (st.done ++ [id])) t' = evc e σ₀ (cOf e σ₀ S st.done) t' := by
      intro t' ht'
      obtain ⟨hp, hl'⟩ := hall t' (List.mem_of_mem_drop ht')
      rw [hc]; simp only [actEff]
      exact evalW_setLv e σ₀ _ o _ t' hp (fresh_load S hok st.done id u hf o hout hfresh t' hl' ho)
    refine ⟨⟨.sym (loadSym o) :: ts.drop u.inp.length, ?_, ?_, ?_⟩, ?_, ?_, ?_, ?_⟩
    · simp only [hout, List.map_cons, tmA_load S o ho, List.map_drop, hmap]
    · simp only [List.map_cons, List.cons_append]
      congr 1
      · simp [evc, hc, actEff, evalW, withLoads, setLv, hinv.mem]
      · congr 1; exact (List.map_congr_left hfr).symm
    · intro t' ht'
      rcases List.mem_cons.1 ht' with rfl | ht'
      · refine ⟨rfl, fun o' ho' hus => ?_⟩
        simp only [usesLoad, beq_iff_eq, loadSym] at hus
        subst hus
        exact ⟨id, by simp, by simp [hf, hout]⟩
      · exact hrest t' ht'
    · simp only [hc, actEff]; exact hinv.mem
    · simp only [hc, actEff]; exact hinv.sto
    · exact hinv.trace
    · intro s w h
      simp only [hc, actEff, setLv] at h
      split at h
      · rename_i hs; rw [hs]; exact ho
      · exact hinv.lvdom s w h
  · -- SLOAD
    have ho : o ∈ loadOuts S := out_mem_loadOuts S u o hu he hout
    have htk := htake _ hat
    rw [htk] at hsplit
    simp only [List.map_cons, List.map_nil, List.cons_append, List.nil_append] at hsplit
    refine ⟨.sload, _, by simp [instrOfU, hop], by simp only [step, hsplit]; rfl, ?_⟩
    rw [hef] at hc
    have hfr : ∀ t' ∈ ts.drop u.inp.length,
        evc e σ₀ (cOf e σ₀ S (st.done ++ [id])) t' = evc e σ₀ (cOf e σ₀ S st.done) t' := by
      intro t' ht'
      obtain ⟨hp, hl'⟩ := hall t' (List.mem_of_mem_drop ht')
      rw [hc]; simp only [actEff]
      exact evalW_setLv e σ₀ _ o _ t' hp (fresh_load S hok st.done id u hf o hout hfresh t' hl' ho)
    refine ⟨⟨.sym (loadSym o) :: ts.drop u.inp.length, ?_, ?_, ?_⟩, ?_, ?_, ?_, ?_⟩
    · simp only [hout, List.map_cons, tmA_load S o ho, List.map_drop, hmap]
    · simp only [List.map_cons, List.cons_append]
      congr 1
      · simp [evc, hc, actEff, evalW, withLoads, setLv, hinv.sto]
      · congr 1; exact (List.map_congr_left hfr).symm
    · intro t' ht'
      rcases List.mem_cons.1 ht' with rfl | ht'
      · refine ⟨rfl, fun o' ho' hus => ?_⟩
        simp only [usesLoad, beq_iff_eq, loadSym] at hus
        subst hus
        exact ⟨id, by simp, by simp [hf, hout]⟩
      · exact hrest t' ht'
    · simp only [hc, actEff]; exact hinv.mem
    · simp only [hc, actEff]; exact hinv.sto
    · exact hinv.trace
    · intro s w h
      simp only [hc, actEff, setLv] at h
      split at h
      · rename_i hs; rw [hs]; exact ho
      · exact hinv.lvdom s w h
  · -- KECCAK256
    have ho : o ∈ loadOuts S := out_mem_loadOuts S u o hu he hout
    have htk := htake _ hat
    rw [htk] at hsplit
    simp only [List.map_cons, List.map_nil, List.cons_append, List.nil_append] at hsplit
    refine ⟨.keccak, _, by rcases hop with hop | hop <;> simp [instrOfU, hop], by simp only [step, hsplit]; rfl, ?_⟩
    rw [hef] at hc
    have hfr : ∀ t' ∈ ts.drop u.inp.length,
        evc e σ₀ (cOf e σ₀ S (st.done ++ [id])) t' = evc e σ₀ (cOf e σ₀ S st.done) t' := by
      intro t' ht'
      obtain ⟨hp, hl'⟩ := hall t' (List.mem_of_mem_drop ht')
      rw [hc]; simp only [actEff]
      exact evalW_setLv e σ₀ _ o _ t' hp (fresh_load S hok st.done id u hf o hout hfresh t' hl' ho)
    refine ⟨⟨.sym (loadSym o) :: ts.drop u.inp.length, ?_, ?_, ?_⟩, ?_, ?_, ?_, ?_⟩
    · simp only [hout, List.map_cons, tmA_load S o ho, List.map_drop, hmap]
    · simp only [List.map_cons, List.cons_append]
      congr 1
      · simp [evc, hc, actEff, evalW, withLoads, setLv, hinv.mem]
      · congr 1; exact (List.map_congr_left hfr).symm
    · intro t' ht'
      rcases List.mem_cons.1 ht' with rfl | ht'
      · refine ⟨rfl, fun o' ho' hus => ?_⟩
        simp only [usesLoad, beq_iff_eq, loadSym] at hus
        subst hus
        exact ⟨id, by simp, by simp [hf, hout]⟩
      · exact hrest t' ht'
    · simp only [hc, actEff]; exact hinv.mem
    · simp only [hc, actEff]; exact hinv.sto
    · exact hinv.trace
    · intro s w h
      simp only [hc, actEff, setLv] at h
      split at h
      · rename_i hs; rw [hs]; exact ho
      · exact hinv.lvdom s w h


/-! ### one identifier, a whole sequence -/

theorem exec_one (i : Instr) (σ σ1 : St) (h : step e i σ = some σ1) : exec e [i] σ = some σ1 := by
  simp [exec, h]

/-- **one step of the simulation**: a successful abstract step is a run of the instructions the identifier stands
    for, and the invariant is kept -/
theorem stepId_sim (S : Spec) (hok : realOk S = true) (st st1 : RunSt) (σ : St) (id : String)
    (hinv : RInv e σ₀ S st σ) (hstep : stepId S st id = .ok st1)
    (hfresh : st1.done = st.done ++ [id] → isEffId S id = true → id ∉ st.done) :
    ∃ is σ1, instrsOfId S id = some is ∧ exec e is σ = some σ1 ∧ RInv e σ₀ S st1 σ1 := by
  obtain ⟨ts, hmap, hstk, hall⟩ := hinv.ex
  unfold stepId at hstep
  unfold instrsOfId
  by_cases h1 : (id == "NOP") = true
  · simp only [h1, if_true] at hstep ⊢
    cases hstep
    exact ⟨[], σ, rfl, rfl, hinv⟩
  simp only [h1, Bool.false_eq_true, if_false] at hstep ⊢
  by_cases h2 : id.startsWith "PUSH#" = true
  · simp only [h2, if_true] at hstep ⊢
    split at hstep
    · rename_i n hn
      cases hstep
      have hn' : (id.drop 5).toString.toNat? = some n := hn
      simp only [hn', Option.map_some]
      have hs1 : step e (.push (BitVec.ofNat 256 n)) σ = some { σ with stack := BitVec.ofNat 256 n :: σ.stack } := rfl
      refine ⟨_, _, rfl, exec_one e _ σ _ hs1, ?_⟩
      refine ⟨⟨.const (BitVec.ofNat 256 n) :: ts, ?_, ?_, ?_⟩, hinv.mem, hinv.sto, hinv.trace, hinv.lvdom⟩
      · simp only [List.map_cons, hmap, tmA_const]
      · simp only [hstk, List.map_cons, List.cons_append, evalW]
      · intro t ht
        rcases List.mem_cons.1 ht with rfl | ht
        · exact ⟨rfl, fun o _ h => by simp [usesLoad] at h⟩
        · exact hall t ht
    · simp at hstep
  simp only [h2, Bool.false_eq_true, if_false] at hstep ⊢
  by_cases h3 : (id == "POP") = true
  · simp only [h3, if_true] at hstep ⊢
    cases hs : st.stack with
    | nil => simp [hs] at hstep
    | cons a r =>
      simp only [hs] at hstep
      cases hstep
      rw [hs] at hmap
      obtain ⟨t, ts', rfl, hta, hr⟩ := map_cons_some _ a r ts hmap
      simp only [List.map_cons, List.cons_append] at hstk
      have hs1 : step e .pop σ = some { σ with stack := ts'.map (evc e σ₀ (cOf e σ₀ S st.done)) ++ σ₀.stack.drop S.src.length } := by
        simp only [step, hstk]
      refine ⟨_, _, rfl, exec_one e _ σ _ hs1, ?_⟩
      refine ⟨⟨ts', hr, rfl, ?_⟩, hinv.mem, hinv.sto, hinv.trace, hinv.lvdom⟩
      exact fun t' ht' => hall t' (List.mem_cons_of_mem _ ht')
  simp only [h3, Bool.false_eq_true, if_false] at hstep ⊢
  cases hd : stackIdx? "DUP" id with
  | some k =>
    simp only [hd] at hstep ⊢
    split at hstep
    · simp at hstep
    · rename_i hk
      simp only [Bool.or_eq_true, decide_eq_true_eq, not_or] at hk
      cases hg : st.stack[k - 1]? with
      | none => simp [hg] at hstep
      | some a =>
        simp only [hg] at hstep
        cases hstep
        obtain ⟨t, htk, hta⟩ := getElem?_map_some _ st.stack ts hmap (k - 1) a hg
        have hlt : k - 1 < ts.length := by
          rcases List.getElem?_eq_some_iff.1 htk with ⟨h, _⟩; exact h
        have hget : σ.stack[k - 1]? = some (evc e σ₀ (cOf e σ₀ S st.done) t) := by
          rw [hstk, List.getElem?_append_left (by simpa using hlt), List.getElem?_map, htk]; rfl
        have hs1 : step e (.dup k) σ = some { σ with stack := evc e σ₀ (cOf e σ₀ S st.done) t :: σ.stack } := by
          simp only [step, hk.1, if_false, hget]
        refine ⟨_, _, rfl, exec_one e _ σ _ hs1, ?_⟩
        refine ⟨⟨t :: ts, ?_, ?_, ?_⟩, hinv.mem, hinv.sto, hinv.trace, hinv.lvdom⟩
        · simp only [List.map_cons, hmap, hta]
        · simp only [hstk, List.map_cons, List.cons_append]
        · intro t' ht'
          rcases List.mem_cons.1 ht' with rfl | ht'
          · exact hall t' (List.mem_of_getElem? htk)
          · exact hall t' ht'
  | none =>
  simp only [hd] at hstep ⊢
  cases hw : stackIdx? "SWAP" id with
  | some k =>
    simp only [hw] at hstep ⊢
    split at hstep
    · simp at hstep
    · rename_i hk
      simp only [Bool.or_eq_true, decide_eq_true_eq, not_or] at hk
      cases hs : st.stack with
      | nil => simp [hs] at hstep
      | cons top rest =>
        simp only [hs] at hstep
        cases hg : rest[k - 1]? with
        | none => simp [hg] at hstep
        | some a =>
          simp only [hg] at hstep
          cases hstep
          rw [hs] at hmap
          obtain ⟨t0, ts', rfl, ht0, hr⟩ := map_cons_some _ top rest ts hmap
          obtain ⟨t, htk, hta⟩ := getElem?_map_some _ rest ts' hr (k - 1) a hg
          have hlt : k - 1 < ts'.length := by
            rcases List.getElem?_eq_some_iff.1 htk with ⟨h, _⟩; exact h
          simp only [List.map_cons, List.cons_append] at hstk
          have hget : (ts'.map (evc e σ₀ (cOf e σ₀ S st.done)) ++ σ₀.stack.drop S.src.length)[k - 1]? =
              some (evc e σ₀ (cOf e σ₀ S st.done) t) := by
            rw [List.getElem?_append_left (by simpa using hlt), List.getElem?_map, htk]; rfl
          have hs1 : step e (.swap k) σ = some { σ with stack := (evc e σ₀ (cOf e σ₀ S st.done) t ::
              (List.set (ts'.map (evc e σ₀ (cOf e σ₀ S st.done)) ++ σ₀.stack.drop S.src.length) (k - 1)
                (evc e σ₀ (cOf e σ₀ S st.done) t0))) } := by
            simp only [step, hk.1, if_false, hstk, hget]
          refine ⟨_, _, rfl, exec_one e _ σ _ hs1, ?_⟩
          refine ⟨⟨t :: ts'.set (k - 1) t0, ?_, ?_, ?_⟩, hinv.mem, hinv.sto, hinv.trace, hinv.lvdom⟩
          · simp only [List.map_cons, hta, List.map_set, hr, ht0]
          · simp only [List.map_cons, List.cons_append, List.map_set]
            rw [List.set_append_left _ _ (by simpa using hlt)]
          · intro t' ht'
            rcases List.mem_cons.1 ht' with rfl | ht'
            · exact hall t' (List.mem_cons_of_mem _ (List.mem_of_getElem? htk))
            · rcases List.mem_or_eq_of_mem_set ht' with h | h
              · exact hall t' (List.mem_cons_of_mem _ h)
              · exact hall t' (by rw [h]; exact List.mem_cons_self)
  | none =>
  simp only [hw] at hstep ⊢
  cases hf : S.find? id with
  | none => simp [hf] at hstep
  | some u =>
    simp only [hf, Option.bind_some] at hstep ⊢
    split at hstep
    · simp at hstep
    · rename_i hlen
      split at hstep
      · simp at hstep
      · rename_i hargs
        split at hstep
        · simp at hstep
        · cases hstep
          have hargs' : (st.stack.take u.inp.length).map (resolve S) = u.inp.map (resolve S) ∨
              ((u.comm = true ∧ (BinOp.ofName? u.op).any (·.comm) = true) ∧
                (st.stack.take u.inp.length).map (resolve S) = (u.inp.map (resolve S)).reverse) := by
            cases hb : ((st.stack.take u.inp.length).map (resolve S) == u.inp.map (resolve S) ||
                (u.comm && (BinOp.ofName? u.op).any (·.comm)) && (st.stack.take u.inp.length).map (resolve S) == (u.inp.map (resolve S)).reverse) with
            | false => rw [hb] at hargs; simp at hargs
            | true =>
              simp only [Bool.or_eq_true, Bool.and_eq_true, beq_iff_eq] at hb
              exact hb
          by_cases he : u.isEffect = true
          · have hfr : id ∉ st.done := hfresh rfl (by simp [isEffId, hf, he])
            obtain ⟨i, σ1, hi, hs1, hr⟩ := eff_sim e σ₀ S hok st σ id u hf he hinv hlen hargs' hfr _
            exact ⟨[i], σ1, by simp [hi], exec_one e i σ σ1 hs1, hr⟩
          · have he' : u.isEffect = false := by simpa using he
            have hu : u ∈ S.instrs := List.mem_of_find?_eq_some hf
            have hi := instrOk_of_mem S hok u hu
            have hout : ∃ o, u.out = some o := by
              cases ho : u.out with
              | some o => exact ⟨o, rfl⟩
              | none => simp [instrOk, he', ho] at hi
            obtain ⟨o, ho⟩ := hout
            obtain ⟨i, σ1, hi1, hs1, hr⟩ := pure_sim e σ₀ S hok st σ id u hf he' hinv hlen hargs' o ho _
            refine ⟨[i], σ1, by simp [hi1], exec_one e i σ σ1 hs1, ?_⟩
            simp only [ho]
            exact hr


omit e σ₀ in
theorem stepId_done (S : Spec) (st st1 : RunSt) (id : String) (h : stepId S st id = .ok st1) :
    st1.done = st.done ∨ st1.done = st.done ++ [id] := by
  unfold stepId at h
  repeat' (split at h)
  all_goals first | (cases h; simp; done) | (simp at h; done) | skip
  all_goals
    by_cases c1 : st.stack.length < (‹UInstr›).inp.length
    · simp [c1] at h
    · simp only [c1, if_false] at h
      split at h
      · simp at h
      · first | (cases h; simp; done) | (simp at h; done)

omit e σ₀ in
theorem runIds_done (S : Spec) : ∀ (ids : List String) (st st' : RunSt), runIds S ids st = .ok st' →
    ∃ suf, st'.done = st.done ++ suf
  | [], st, st', h => by simp only [runIds] at h; cases h; exact ⟨[], by simp⟩
  | id :: ids, st, st', h => by
    simp only [runIds] at h
    cases hs : stepId S st id with
    | error err => simp [hs] at h
    | ok st1 =>
      simp only [hs] at h
      obtain ⟨suf, hsuf⟩ := runIds_done S ids st1 st' h
      rcases stepId_done S st st1 id hs with h1 | h1
      · exact ⟨suf, by rw [hsuf, h1]⟩
      · exact ⟨[id] ++ suf, by rw [hsuf, h1]; simp⟩

omit e σ₀ in
theorem nodup_filter_twice (p : String → Bool) (l suf : List String) (a : String) (hp : p a = true) (ha : a ∈ l) :
    ¬ ((l ++ [a] ++ suf).filter p).Nodup := by
  intro h
  simp only [List.filter_append, List.append_assoc] at h
  have h1 := (List.nodup_append.1 h).2.2
  have : a ∈ List.filter p [a] ++ List.filter p suf := by simp [hp]
  exact h1 a (List.mem_filter.2 ⟨ha, hp⟩) a this rfl

/-- **the run of a whole identifier sequence is simulated by the machine** -/
theorem runIds_sim (S : Spec) (hok : realOk S = true) :
    ∀ (ids : List String) (st st' : RunSt) (σ : St), RInv e σ₀ S st σ → runIds S ids st = .ok st' →
      (schedOf S st'.done).Nodup →
      ∃ A σ', asmOf S ids = some A ∧ exec e A σ = some σ' ∧ RInv e σ₀ S st' σ'
  | [], st, st', σ, hinv, h, _ => by
    simp only [runIds] at h; cases h
    exact ⟨[], σ, rfl, rfl, hinv⟩
  | id :: ids, st, st', σ, hinv, h, hnd => by
    simp only [runIds] at h
    cases hs : stepId S st id with
    | error err => simp [hs] at h
    | ok st1 =>
      simp only [hs] at h
      obtain ⟨suf, hsuf⟩ := runIds_done S ids st1 st' h
      have hfresh : st1.done = st.done ++ [id] → isEffId S id = true → id ∉ st.done := by
        intro h1 hp ha
        rw [hsuf, h1] at hnd
        exact nodup_filter_twice (isEffId S) st.done suf id hp ha hnd
      obtain ⟨is, σ1, hi, hx, hinv1⟩ := stepId_sim e σ₀ S hok st st1 σ id hinv hs hfresh
      obtain ⟨A, σ', hA, hx', hinv'⟩ := runIds_sim S hok ids st1 st' σ1 hinv1 h hnd
      refine ⟨is ++ A, σ', by simp [asmOf, hi, hA], ?_, hinv'⟩
      rw [exec_append, hx]; exact hx'

theorem runSched_filter (S : Spec) (L : List String) (c : CSt) :
    runSched e σ₀ S (L.filter (isEffId S)) c = runSched e σ₀ S L c := by
  unfold runSched
  induction L generalizing c with
  | nil => rfl
  | cons id L ih =>
    simp only [List.filter_cons]
    split
    · simp only [runActs]; exact ih _
    · rename_i hp
      have : actEff e σ₀ (effId S id) c = c := by
        unfold effId isEffId at *
        cases hf : S.find? id with
        | none => simp [actEff]
        | some u =>
          simp only [hf] at hp ⊢
          rw [effOf_pure S u (by simpa using hp)]; simp [actEff]
      simp only [runActs, this]; exact ih _

omit e σ₀ in
theorem map_idxOf_nodup (l : List String) (h : l.Nodup) : l.map (fun s => l.idxOf s) = List.range l.length := by
  apply List.ext_getElem
  · simp
  · intro i h1 h2
    simp only [List.getElem_map, List.getElem_range]
    exact h.idxOf_getElem i (by simpa using h1)

/-- the invariant holds at the start: the abstract stack is the specification's initial stack -/
theorem rinv_init (S : Spec) (hok : realOk S = true) (hσ : S.src.length ≤ σ₀.stack.length) (pk : Nat) :
    RInv e σ₀ S { stack := S.src.map .var, peak := pk } σ₀ := by
  have hn := realOk_names S hok
  refine ⟨⟨(List.range S.src.length).map Tm.var, ?_, ?_, ?_⟩, ?_, ?_, rfl, ?_⟩
  · rw [← map_idxOf_nodup S.src (realOk_nodup S hok)]
    simp only [List.map_map]
    apply List.map_congr_left
    intro s hs
    simp only [Function.comp]
    exact tmA_src S hn s hs
  · have := map_var_range (withLoads e (cOf e σ₀ S []).lv) σ₀ 0 S.src.length (by omega)
    simp only [Nat.zero_add, List.drop_zero] at this
    rw [this, List.take_append_drop]
  · intro t ht
    simp only [List.mem_map, List.mem_range] at ht
    obtain ⟨i, _, rfl⟩ := ht
    exact ⟨rfl, fun o _ h => by simp [usesLoad] at h⟩
  · simp [cOf, runSched, runActs, initC]
  · simp [cOf, runSched, runActs, initC]
  · intro s w h; simp [cOf, runSched, runActs, initC] at h


omit e σ₀ in
theorem realizes_run (S : Spec) (ids : List String) (st : RunSt) (h : realizes S ids = .ok st) :
    runIds S ids { stack := S.src.map .var, peak := S.src.length } = .ok st ∧
      st.stack.map (resolve S) = S.tgt.map (resolve S) := by
  unfold realizes at h
  cases hrun : runIds S ids { stack := S.src.map .var, peak := S.src.length } with
  | error err => simp [hrun] at h
  | ok st0 =>
    simp only [hrun] at h
    split at h
    · simp at h
    · rename_i hstk
      split at h
      · simp at h
      · split at h
        · simp at h
        · cases h
          exact ⟨rfl, by simpa using hstk⟩

omit σ₀ in
/-- **C04, semantically**: an identifier sequence that realizes a specification (whose executable premises hold) and
    performs no memory/storage operation twice stands for EVM instructions that, from every state at least as deep
    as the specification's initial stack and in every environment, end in exactly the state the specification denotes
    under the schedule in which the sequence performs the operations. -/
theorem realizes_exec (S : Spec) (hok : realOk S = true) (ids : List String) (st : RunSt)
    (hr : realizes S ids = .ok st) (hnd : (schedOf S st.done).Nodup)
    (X : SymSt) (hX : evalSpec S (schedOf S st.done) = some X)
    (σ : St) (hσ : S.src.length ≤ σ.stack.length) :
    ∃ A, asmOf S ids = some A ∧ exec e A σ = some (X.conc e σ) := by
  obtain ⟨hrun, hfin⟩ := realizes_run S ids st hr
  have hn := realOk_names S hok
  obtain ⟨A, σ', hA, hx, hinv⟩ := runIds_sim e σ S hok ids _ st σ (rinv_init e σ S hok hσ _) hrun hnd
  refine ⟨A, hA, ?_⟩
  rw [hx]
  obtain ⟨ts, hmap, hstk, _⟩ := hinv.ex
  obtain ⟨stk', hstk', hden⟩ := evalSpec_denote e σ S hn _ X hX
  have htgt : S.tgt.map (tmA S) = ts.map some := by
    have h2 : ∀ l : List Atom, (l.map (resolve S)).map (tmA S) = l.map (tmA S) := by
      intro l; simp only [List.map_map]; apply List.map_congr_left; intro a _; exact tmA_resolve S hok a
    rw [← h2, ← hfin, h2, hmap]
  have hts : stk' = ts := by
    have := (termsOf_iff S _ _ S.tgt stk').1 hstk'
    exact map_some_inj _ _ (this.symm.trans htgt)
  subst hts
  have hb := evalSpec_base S _ X hX
  simp only [schedOf, runSched_filter] at hden
  simp only [denote, Prod.mk.injEq] at hden
  have h1 := hinv.mem
  have h2 := hinv.sto
  have h3 := hinv.trace
  obtain ⟨stk0, m0, s0, tr0⟩ := σ'
  simp only at hstk h1 h2 h3
  subst hstk h1 h2 h3
  simp only [SymSt.conc, hden.1, hden.2.1, hden.2.2, hb, cOf]


omit e σ₀ in
/-- **block → specification → sequence (C02 + C04/C06 ⇒ C01)**.  Let the conflicting operations of `S` be ordered
    by `edges`, let ONE schedule `L₁` respecting `edges` match the block `B` (the premises of C02's theorem), and let
    `ids` realize `S`, performing the memory/storage operations once each, in an order `schedOf S st.done` that respects
    `edges`.  Then the instructions the identifiers stand for and the block compute the same final state from every
    state deep enough, in every well-formed environment.  Every premise is executable and is evaluated by the driver
    (`REALEXEC`) on each (block, specification, solution) the real tool produces. -/
theorem realized_sequence_exec (S : Spec) (hok : realOk S = true)
    (edges : List (String × String)) (fuel : Nat) (L₁ : List String) (B : List Instr)
    (hnd : L₁.Nodup) (hco : conflictsOrdered S edges fuel L₁ = true)
    (hr₁ : respectsB L₁ edges = true) (hm : scheduleMatches norm3 S L₁ B = true)
    (ids : List String) (st : RunSt) (hr : realizes S ids = .ok st)
    (hp : L₁.Perm (schedOf S st.done)) (hr₂ : respectsB (schedOf S st.done) edges = true)
    (X₂ : SymSt) (h₂ : evalSpec S (schedOf S st.done) = some X₂) :
    ∃ A Y, asmOf S ids = some A ∧ symExec B .init = some Y ∧
      ∀ (e : GasolVerif.Env), e.wf → ∀ σ : St, max S.src.length Y.base ≤ σ.stack.length →
        exec e B σ = some (X₂.conc e σ) ∧ exec e A σ = some (X₂.conc e σ) := by
  have hn := realOk_names S hok
  have hnd₂ : (schedOf S st.done).Nodup := hp.nodup_iff.1 hnd
  cases hY : symExec B .init with
  | none =>
    cases h₁ : evalSpec S L₁ with
    | none => simp [scheduleMatches, h₁] at hm
    | some X₁ => simp [scheduleMatches, h₁, hY] at hm
  | some Y =>
    -- the instruction list does not depend on the environment or the state
    have hasm : ∃ A, asmOf S ids = some A := by
      obtain ⟨A, hA, _⟩ := realizes_exec
        { sym := fun _ => 0, env0 := fun _ _ => 0, env1 := fun _ _ _ => 0, keccak := fun _ _ => 0,
          ext := fun _ _ _ m s => ⟨0, m, s⟩ }
        S hok ids st hr hnd₂ X₂ h₂
        { stack := List.replicate S.src.length 0#256, mem := fun _ => 0, sto := fun _ => 0, trace := [] }
        (by simp)
      exact ⟨A, hA⟩
    obtain ⟨A, hA⟩ := hasm
    refine ⟨A, Y, hA, rfl, ?_⟩
    intro e we σ hd
    obtain ⟨Y', hY', hB⟩ := spec_denotes_block_under_every_schedule S hn edges fuel L₁ _ B hnd hp hco hr₁ hr₂ hm
      X₂ h₂ e we σ
    rw [hY] at hY'
    cases hY'
    refine ⟨hB hd, ?_⟩
    obtain ⟨A', hA', hx⟩ := realizes_exec e S hok ids st hr hnd₂ X₂ h₂ σ (by omega)
    rw [hA] at hA'
    cases hA'
    exact hx

omit e σ₀ in
/-- when the specification's initial stack is not deeper than what the block itself reads, the sequence may replace
    the block (`ObsEq`: from every state on which the block runs, the sequence runs and ends in the same state) -/
theorem realized_sequence_obsEq (S : Spec) (hok : realOk S = true)
    (edges : List (String × String)) (fuel : Nat) (L₁ : List String) (B : List Instr)
    (hnd : L₁.Nodup) (hco : conflictsOrdered S edges fuel L₁ = true)
    (hr₁ : respectsB L₁ edges = true) (hm : scheduleMatches norm3 S L₁ B = true)
    (ids : List String) (st : RunSt) (hr : realizes S ids = .ok st)
    (hp : L₁.Perm (schedOf S st.done)) (hr₂ : respectsB (schedOf S st.done) edges = true)
    (X₂ : SymSt) (h₂ : evalSpec S (schedOf S st.done) = some X₂)
    (Y : SymSt) (hY : symExec B .init = some Y) (hdeep : S.src.length ≤ Y.base) :
    ∃ A, asmOf S ids = some A ∧ ObsEq B A := by
  obtain ⟨A, Y', hA, hY', hex⟩ := realized_sequence_exec S hok edges fuel L₁ B hnd hco hr₁ hm ids st hr hp hr₂ X₂ h₂
  rw [hY] at hY'
  cases hY'
  refine ⟨A, hA, ?_⟩
  intro e we σ σ' hrun
  have h0 : SymSt.init.base ≤ σ.stack.length := by simp [SymSt.init]
  have e2 := symExec_conc e σ B .init Y h0 hY
  rw [conc_init] at e2
  by_cases hb : Y.base ≤ σ.stack.length
  · obtain ⟨h1, h2⟩ := hex e we σ (by omega)
    rw [h1] at hrun
    rw [h2]; exact hrun
  · rw [e2] at hrun
    simp [hb] at hrun

end GasolVerif.Spec
