"""C14 — splitting partitions the block; rebuilding with nothing optimized is the identity."""
import random
from collections import Counter
import common, gen, pool, drv

THEOREMS = ["Asm.joinShared_subBlocks", "Asm.sharedOk_subBlocks", "Asm.rebuild_none", "Asm.rebuild_head", "Asm.rebuild_tail", "Asm.rebuild_one"]
SPLIT = {"LOG0", "LOG1", "LOG2", "LOG3", "LOG4", "CALLDATACOPY", "CODECOPY", "EXTCODECOPY", "RETURNDATACOPY", "CALL",
         "STATICCALL", "DELEGATECALL", "CREATE", "CREATE2", "ASSIGNIMMUTABLE", "GAS"}
STORES = {"SSTORE", "MSTORE", "MSTORE8"}


def opname(plain):
    return plain.split(" ")[0]


def run(tier):
    sd = common.seed()
    rng = random.Random(sd * 2003 + 21)
    po = common.proof_obligations("GasolVerif.Proofs.AsmSound", THEOREMS)
    violations = [{"kind": "broken-proof-obligation", "what": b, "no_failing_input": True, "input": b} for b in po["broken"]]
    n = 400 if tier == "quick" else 6000
    texts = []
    for i, b in enumerate(gen.blocks(sd * 51 + 4, n, split_prob=0.3, terminal_prob=0.3)):
        pre = "tag %d JUMPDEST " % rng.randrange(1, 99) if rng.random() < 0.4 else ""
        texts.append(pre + b)
    # long blocks around the partition threshold, with stores
    for _ in range(120 if tier == "quick" else 1500):
        g = gen.BlockGen(rng, "mem")
        out = []
        while len(" ".join(out).split()) < rng.randrange(14, 40):
            g.snippet(out)
            if rng.random() < 0.08:
                out.append(rng.choice(gen.SPLIT))
        texts.append(" ".join(out))
    # blocks of every length around the partition threshold whose only store is the last / the first / the k-th instruction, and with two stores
    for n in range(16, 34):
        chain = ["PUSH1 0x1"] + ["PUSH1 0x1", "ADD"] * 20
        for st in ("PUSH1 0x40 MSTORE", "PUSH1 0x2 SSTORE", "PUSH1 0x40 MSTORE8"):
            body = chain[:max(1, n - 2) | 1]                       # an odd number of tokens: one value on the stack
            texts.append(" ".join(body) + " " + st)                                     # the store is the last instruction
            texts.append("PUSH1 0x7 " + st + " " + " ".join(body))                      # ... the first
            texts.append(" ".join(body[:len(body) // 2 | 1]) + " DUP1 " + st + " " + " ".join(body[1:len(body) // 2 | 1]))   # ... in the middle
            texts.append(" ".join(body) + " DUP1 " + st + " " + st)                     # two stores at the end
            texts.append("PUSH1 0x9 " + " ".join(body[:-2]) + " " + st)                 # a value that stays below the chain, store last
            texts.append("PUSH1 0x9 PUSH1 0x7 " + st + " " + " ".join(body[:-2]))       # ... store first
    # a store (every kind) whose operands are words of the initial stack, first in the block, right after another store, right after a split
    # instruction, on shallow and on deeper stacks: what the next sub-block starts from is read off the store's operands
    for st in ("MSTORE", "MSTORE8", "SSTORE"):
        for tail in ("SWAP1 POP PUSH1 0x5 SWAP1 MSTORE PUSH1 0x3", "PUSH1 0x1 ADD", "DUP2 ADD SWAP1 POP"):
            texts.append("JUMPDEST %s %s JUMP" % (st, tail))
            texts.append("%s %s" % (st, tail))
            for st0 in ("MSTORE", "SSTORE", "MSTORE8", "LOG0", "CALLDATACOPY"):
                texts.append("%s %s %s" % (st0, st, tail))
            texts.append("DUP9 DUP9 %s %s" % (st, tail))
    osets = [["-greedy"], ["-greedy", "-storage"], ["-greedy", "-partition"]]
    tasks = [{"kind": "split", "text": t, "opts": o} for t in texts for o in osets]
    groups = {}
    for t in tasks:
        groups.setdefault(tuple(t["opts"]), []).append(t)
    res = []
    for g in groups.values():
        res.extend(pool.run_tasks(g, timeout=30, nproc=6))
    c = Counter()
    reqs, meta = [], []
    for t, r, st in res:
        if st != "ok" or r is None or "harness_error" in (r or {}) or "parse_exception" in (r or {}):
            c["run:" + st] += 1
            continue
        for e in r["blocks"]:
            c["blocks"] += 1
            if "exception" in e:
                c["analysis-exception"] += 1
                continue
            if any(";" in x or "|" in x or "\t" in x for x in e["plain"]):
                continue
            mode = "storage" if "-storage" in t["opts"] else "partition" if "-partition" in t["opts"] else "default"
            c["mode:" + mode] += 1
            nsub = len(e["subs"])
            c["sub-blocks:%d" % min(nsub, 5)] += 1
            body = e["optimizable"]
            subs = "|".join(";".join(s) for s in e["subs"])
            key = (t["text"], mode)
            cutset = SPLIT | (STORES if mode == "storage" else set())
            if mode == "partition":
                reqs.append("JOIN\t%s\t%s" % (";".join(body), subs)); meta.append(("join", key, e))
                # cut positions must be splitting instructions or stores
                bad = [s[-1] for s in e["subs"][:-1] if opname(s[-1]) not in (SPLIT | STORES)]
                if bad:
                    violations.append({"kind": "partition-cuts-at-non-store", "input": t["text"], "options": t["opts"],
                                       "what": "sub-block of %s ends at %s, neither a store nor a splitting instruction" % (t["text"], bad)})
            else:
                flags = "".join("1" if opname(x) in cutset else "0" for x in body)
                reqs.append("SPLIT\t%s\t%s\t%s" % (";".join(body), flags, subs)); meta.append(("split", key, e))
            # spec keys name reported sub-blocks
            idx = {"%s_%d" % (e["name"], k) for k in range(nsub)}
            if not set(e["keys"]) <= idx:
                violations.append({"kind": "spec-key-without-sub-block", "input": t["text"], "options": t["opts"],
                                   "what": "specification keys %s are not all among the %d reported sub-blocks of %s" % (e["keys"], nsub, t["text"])})
            # source/target stack sizes of each specification against the Lean stack discipline of its sub-block
            for k, tok in enumerate(e["sub_tokens"]):
                name = "%s_%d" % (e["name"], k)
                if tok and name in e["spec_shape"]:
                    reqs.append("NEED\t" + tok); meta.append(("need", key, (e, name)))
            # rebuild
            i0 = 0
            while i0 < len(e["plain"]) and (not body or e["plain"][i0] != body[0]):
                i0 += 1
            pre, post = e["plain"][:i0], e["plain"][i0 + len(body):]
            reqs.append("REBUILD\t%s\t%s\t%s\t-1\t" % (";".join(pre), subs, ";".join(post))); meta.append(("rb", key, (e, -1)))
            if e["rebuild_none"] != e["plain"] or not e["rebuild_none_same_objects"]:
                violations.append({"kind": "rebuild-none-not-identity", "input": t["text"], "options": t["opts"],
                                   "what": "rebuild with nothing replaced changed %s into %s" % (e["plain"], e["rebuild_none"])})
            for k in range(nsub):
                reqs.append("REBUILD\t%s\t%s\t%s\t%d\tPUSH dead;POP" % (";".join(pre), subs, ";".join(post), k)); meta.append(("rb", key, (e, k)))
    outs = drv.batch(reqs)
    samples = []
    for o, (kind, key, x) in zip(outs, meta):
        c["judged:" + kind] += 1
        if o.startswith("error"):
            raise common.MachineryError("driver %s on %s" % (o, key))
        if kind == "split" and o != "same":
            violations.append({"kind": "sub-blocks-not-the-partition", "input": key[0], "options": key[1],
                               "what": "reported sub-blocks %s of %s (%s) differ from the partition at splitting instructions %s" % (x["subs"], key[0], key[1], o[5:])})
        elif kind == "join" and o != "ok":
            violations.append({"kind": "sub-blocks-do-not-join", "input": key[0], "options": key[1],
                               "what": "sub-blocks %s do not join to %s" % (x["subs"], x["optimizable"])})
        elif kind == "need":
            e, name = x
            src, tgt, _ = e["spec_shape"][name]
            if not o.endswith("ext"):
                base, height = map(int, o.split())
                # the specification may drop untouched bottom words: depth at most the need, same height change
                if src > base or tgt - src != height - base:
                    violations.append({"kind": "spec-stack-shape", "input": key[0], "options": key[1],
                                       "what": "specification %s of %s has |src|=%d |tgt|=%d, its sub-block needs %d and leaves %d" % (name, key[0], src, tgt, base, height)})
        elif kind == "rb":
            e, k = x
            real = e["rebuild_none"] if k < 0 else e["rebuild_one"][k]
            if o != ";".join(real):
                violations.append({"kind": "rebuild-differs-from-specification", "input": key[0], "options": key[1],
                                   "what": "rebuild of %s with sub-block %d replaced gives %s, specified %s" % (key[0], k, real, o)})
            elif k >= 0 and len(samples) < 3 and len(e["subs"]) > 1:
                samples.append({"block": key[0], "mode": key[1], "sub_blocks": e["subs"], "replaced": k, "rebuilt": real})
    cov = {"obligations": po["obligations"], "discharged": po["discharged"],
           "checker_cmd": "cd lean && lake build GasolVerif gvdrv; #print axioms " + ", ".join(THEOREMS),
           "trusted_base": ["Lean 4.33 kernel", "axioms: propext, Classical.choice, Quot.sound",
                            "Models/Asm.lean subBlocks/joinShared/rebuild as the specification of splitting and rebuilding",
                            "the harness's own list of splitting instructions"],
           "axioms": po["axioms"], "evaluations": c["blocks"], "distinct_nontrivial": sum(v for k, v in c.items() if k.startswith("sub-blocks:") and k != "sub-blocks:1"),
           "rule": "generated blocks (split instructions p=0.3 per snippet, tags/JUMPDEST prefixes, terminals, long store-heavy blocks around "
                   "the partition threshold) x {default,-storage,-partition}; real sub-block lists compared with Asm.subBlocks, joins, spec keys, "
                   "src/tgt sizes against Lean symbolic execution, rebuild(None) and rebuild({k:R}) for every k against Asm.rebuild; "
                   "non-trivial = block with more than one sub-block",
           "samples": samples or [{"block": texts[0]}], "counters": dict(c)}
    return {"level": "proof", "coverage": cov, "violations": violations,
            "assumptions": ["for -partition only join/shared/cut-kind are checked (which stores are chosen is the tool's heuristic)"]}


def replay(v):
    print(v.get("what"))
    return 1
