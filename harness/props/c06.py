"""C06 — every model of the Max-SMT hard constraints decodes to a realizing sequence; C07 shares the machinery."""
import random, re, itertools
from collections import Counter
import common, gen, pool, drv

THEOREMS = ["Enc.encoding_sound_direct", "Enc.core_realizesE", "Enc.step_soundE", "Enc.core_soundE", "Enc.notEmpty_of_nodup", "Enc.consume_produceP", "Enc.store_exactly_once", "Enc.store_store_order", "Enc.store_load_order", "Enc.load_store_order", "Enc.l_exactly_once", "Enc.l_order",
            "Enc.raw_sat_of_built", "Enc.thetaInj_int", "Enc.thetaInj_uf", "Enc.step_sound", "Enc.core_sound", "Enc.core_sound_built", "Enc.runSym_of_runVal", "Enc.core_realizes", "Enc.inj_of_nodup",
            "Enc.inj_uf", "Enc.inj_stackVars", "Enc.inj_int", "Formula.build_eval", "Spec.realizes_exec", "Spec.realized_sequence_obsEq"]
ENC_OPTION_SETS = [[], ["-term-encoding", "int"], ["-term-encoding", "stack_vars"], ["-term-encoding", "uninterpreted_int"],
                   ["-memory-encoding", "l_vars"], ["-push-basic", "-term-encoding", "int"], ["-pop-uninterpreted"], ["-order-bounds"],
                   ["-order-conflicts"], ["-at-most"], ["-no-output-before-pop"], ["-size"], ["-storage"], ["-no-simplification"],
                   ["-pop-uninterpreted", "-order-bounds", "-term-encoding", "stack_vars"], ["-empty"], ["-empty", "-term-encoding", "int"],
                   ["-empty", "-pop-uninterpreted", "-term-encoding", "stack_vars"], ["-empty", "-push-basic", "-term-encoding", "int"]]
BASE = ["-solver", "z3", "-tout", "5"]
OPTION_SETS = [[], ["-term-encoding", "int"], ["-term-encoding", "stack_vars"], ["-term-encoding", "uninterpreted_int"],
               ["-memory-encoding", "l_vars"], ["-push-basic"], ["-pop-uninterpreted"], ["-order-bounds"], ["-order-conflicts"],
               ["-at-most"], ["-pushed-once"], ["-no-output-before-pop"], ["-empty"], ["-direct-inequalities"], ["-size"], ["-length"],
               ["-term-encoding", "int", "-memory-encoding", "l_vars", "-at-most", "-pushed-once"],
               ["-order-bounds", "-order-conflicts", "-no-output-before-pop"], ["-storage"], ["-no-simplification"]]


# operations applied while the stack is at its bound (the deepest cells are the ones a transition constraint can forget)
FULL_STACK = ["PUSH1 0x1 ADD SWAP1 POP", "PUSH1 0x1 SUB SWAP1 POP", "DUP1 DUP3 ADD SWAP2 POP POP", "PUSH1 0x1 DUP3 SSTORE POP", "DUP2 DUP2 MSTORE POP",
              "DUP2 ISZERO SWAP2 POP POP", "PUSH1 0x2 PUSH1 0x1 ADDMOD SWAP1 POP", "CALLVALUE SWAP2 POP POP", "DUP2 DUP2 LT SWAP2 POP POP"]
# shapes on which each pruning constraint is tight: a POP right after a store / a swap / a pop, values that are dropped, repeated pushes,
# programs that need the whole length bound
PRUNING = ["SSTORE POP", "MSTORE POP", "MSTORE8 POP", "SWAP2 POP SWAP1 SSTORE", "SWAP2 POP SWAP1 MSTORE", "SWAP1 POP POP", "POP SWAP1 POP",
           "SWAP1 POP SWAP1 POP", "DUP2 SSTORE POP", "SWAP1 SSTORE POP POP", "PUSH1 0x1 PUSH1 0x1 PUSH1 0x1", "PUSH1 0x7 DUP1 DUP1 ADD ADD",
           "SLOAD POP", "DUP1 MLOAD POP POP"]
# every kind of dependence (load->store, store->load, store->store; memory and storage) in a block with two instructions of slack, so that
# the position ranges of the ordering constraints are not empty
ORDER = ["PUSH1 0x3 POP PUSH1 0x0 MLOAD PUSH1 0x1 PUSH1 0x0 MSTORE", "PUSH1 0x3 POP DUP1 SLOAD SWAP2 SWAP1 SSTORE", "PUSH1 0x3 POP DUP1 MLOAD SWAP2 SWAP1 MSTORE",
         "PUSH1 0x3 POP PUSH1 0x1 PUSH1 0x0 MSTORE PUSH1 0x0 MLOAD", "PUSH1 0x3 POP DUP2 DUP2 SSTORE SLOAD", "PUSH1 0x3 POP DUP1 DUP3 SSTORE SSTORE",
         "PUSH1 0x3 POP DUP1 DUP3 MSTORE MSTORE", "PUSH1 0x3 POP DUP1 MLOAD DUP2 MSTORE8", "DUP1 MLOAD SWAP2 SWAP1 MSTORE", "DUP1 SLOAD SWAP2 SWAP1 SSTORE",
         # an operation reached twice through the ordering (store -> load -> load of the loaded key, the store ordered before both): its
         # position window is tight
         "SSTORE SLOAD SLOAD", "MSTORE MLOAD MLOAD", "SSTORE SLOAD SLOAD DUP1 POP", "MSTORE MLOAD MLOAD DUP1 POP", "SSTORE DUP1 SLOAD SWAP1 SLOAD",
         "MSTORE8 MLOAD MLOAD", "SSTORE SLOAD DUP1 SLOAD ADD"]
# a value without operands that is needed at two depths: recomputing it late is cheaper than keeping a copy, so the optimum needs the
# instruction at a late position (tight upper position bounds remove it)
LATE = ["CALLVALUE DUP1 ISZERO SWAP1", "ADDRESS DUP1 NOT SWAP1", "CALLER DUP1 DUP3 ADD SWAP1", "CALLVALUE DUP1 DUP3 SSTORE", "CODESIZE DUP1 DUP1 MLOAD SWAP1",
        # an operation with three operands whose third one is produced just before and tucked under the other two with one SWAP2: the producer
        # sits two positions before its consumer, tight against the length bound
        "POP ISZERO SWAP2 ADDMOD", "ISZERO SWAP2 ADDMOD", "ISZERO SWAP2 MULMOD", "CALLER SWAP2 MULMOD", "DUP3 ADD SWAP2 MULMOD SWAP1", "POP NOT SWAP2 MULMOD",
        "CALLVALUE SWAP2 ADDMOD SWAP1"]
STRUCTURAL = [[], ["-empty"], ["-pop-uninterpreted"], ["-empty", "-pop-uninterpreted"], ["-push-basic", "-term-encoding", "int"],
              ["-empty", "-term-encoding", "int"], ["-memory-encoding", "l_vars"], ["-empty", "-term-encoding", "stack_vars"]]


def small_blocks(rng, n):
    out = []
    for _ in range(n):
        g = gen.BlockGen(rng, rng.choice(["mixed", "mem", "arith", "stack"]))
        b = []
        for _ in range(rng.randrange(1, 4)):
            g.snippet(b)
        out.append(" ".join(b))
    out += ["DUP1 SWAP1 POP PUSH1 0x1 ADD", "SWAP1 SWAP1", "DUP2 DUP2 ADD SWAP2 POP POP", "PUSH1 0x5 DUP2 MSTORE", "DUP1 MLOAD SWAP1 POP",
            "PUSH1 0x1 DUP2 SSTORE PUSH1 0x2 DUP2 SSTORE", "DUP1 DUP1 MUL", "POP POP", "PUSH1 0x0 DUP2 MSTORE DUP1 MLOAD",
            # dependent stores whose second operands are on top of the initial stack (a store at position 0 must not overtake the first one)
            "SWAP2 SWAP1 SWAP3 SWAP1 SSTORE SSTORE", "SWAP2 SWAP1 SWAP3 SWAP1 MSTORE MSTORE", "SWAP2 SWAP1 SWAP3 SWAP1 MSTORE8 MSTORE"]
    out += FULL_STACK + PRUNING + ORDER + LATE
    return out


def collect(tier, sd, rng, max_len, models, osets=None):
    blocks = small_blocks(rng, 40 if tier == "quick" else 160)
    osets = osets or OPTION_SETS
    tasks = []
    for i, b in enumerate(blocks):
        chosen = [osets[i % len(osets)], osets[(i * 7 + 3) % len(osets)]] if tier == "quick" else osets
        for o in chosen:
            tasks.append({"kind": "smt", "text": b, "opts": BASE + o, "max_len": max_len, "models": models, "timeout": 240})
    # blocks that work at the stack bound: every structural variant of the transition constraints
    for b in FULL_STACK:
        for o in STRUCTURAL:
            tasks.append({"kind": "smt", "text": b, "opts": BASE + o, "max_len": max(max_len, 6), "models": max(models, 8), "timeout": 240})
    # dependent stores: always with and without position bounds / instruction order, with enough models to meet a swapped pair
    for b in blocks:
        if b.startswith("SWAP2 SWAP1 SWAP3 SWAP1 "):
            for o in ([], ["-order-bounds"], ["-order-bounds", "-order-conflicts"], ["-memory-encoding", "l_vars", "-order-bounds"]):
                if osets is None or True:
                    tasks.append({"kind": "smt", "text": b, "opts": BASE + o, "max_len": max(max_len, 6), "models": max(models, 12), "timeout": 240})
    groups = {}
    for t in tasks:
        groups.setdefault(tuple(t["opts"]), []).append(t)
    res = []
    for g in groups.values():
        res.extend(pool.run_tasks(g, timeout=240, nproc=4))
    return res


def enc_correspondence(tier, rng, c, violations, soft_out=None):
    """the stack core of the hard constraints, generated by Models/Encoding.lean from the instance data of the real
    FullEncoding object, must occur verbatim among the constraints the real encoder emits (premise of Enc.core_realizes)"""
    blocks = small_blocks(rng, 60 if tier == "quick" else 200) + gen.blocks(rng.randrange(1 << 30), 40 if tier == "quick" else 120)
    if tier == "quick":
        # the two families of transition constraints (boolean u variables / the `empty` constant) always, the rest in rotation
        rest = [o for o in ENC_OPTION_SETS[1:] if o != ["-empty"]]
        k = rng.randrange(len(rest))
        osets = [ENC_OPTION_SETS[0], ["-empty"]] + [rest[(k + 3 * i) % len(rest)] for i in range(4)]
    else:
        osets = ENC_OPTION_SETS
    res = []
    import threading
    lock = threading.Lock()

    def one(o):
        g = [{"kind": "enc", "text": b, "opts": ["-solver", "z3"] + o, "max_len": 8 if tier == "quick" else 12, "timeout": 120} for b in blocks]
        out = pool.run_tasks(g, timeout=120, nproc=3 if tier == "quick" else 2)
        with lock:
            res.extend(out)
    th = [threading.Thread(target=one, args=(o,)) for o in osets]
    for x in th:
        x.start()
    for x in th:
        x.join()
    reqs, meta = [], []
    for t, r, st in res:
        if st != "ok" or r is None or "harness_error" in (r or {}):
            c["enc-run:" + st] += 1
            continue
        if "exception" in r:
            c["enc-front-end-exception"] += 1
            continue
        for e in r["subs"]:
            if "exception" in e:
                violations.append({"kind": "encoder-raises", "input": t["text"], "options": t["opts"],
                                   "what": "building the encoding of %s (%s) with %s raised %s" % (t["text"], e["name"], t["opts"], e["exception"])})
                continue
            if e.get("inst") is None:
                c["enc-outside-model:" + str(e.get("meta"))] += 1
                continue
            if e["meta"].get("empty"):
                c["enc-empty-variant"] += 1
            if e["meta"]["first"] != 0 or e["meta"]["last"] != e["b0"] - 1:
                c["enc-outside-model:positions"] += 1
                continue
            reqs.append("ENC\t" + "\t".join(e["inst"]))
            meta.append((t, e))
    outs = drv.batch(reqs)
    soft_mismatch = []
    for o, (t, e) in zip(outs, meta):
        parts = o.split("\t")
        c["enc-instances"] += 1
        c["enc-options:" + (" ".join(t["opts"][2:]) or "default")] += 1
        if not parts[0].startswith("ok"):
            c["enc-" + parts[0]] += 1
            violations.append({"kind": "encoder-core-differs-from-model", "input": t["text"], "options": t["opts"], "no_failing_input": True,
                               "what": "Models/Encoding.lean cannot generate the core constraints for %s (%s) with %s: %s" % (t["text"], e["name"], t["opts"], parts[0])})
            continue
        _, iok, ws, injok, ordok, softok = parts[0].split()
        ks = parts.index("#soft")
        soft_model = parts[ks + 1:]
        parts = parts[:ks]
        if e["inst"][13] != "-":
            c["enc-soft-premises-" + ("hold" if softok == "1" else "fail")] += 1
            c["enc-soft-constraints"] += len(soft_model)
            if softok == "1" and iok == "1" and sorted(soft_model) != sorted(e["soft"]):
                only_m = [x for x in soft_model if x not in set(e["soft"])]
                only_r = [x for x in e["soft"] if x not in set(soft_model)]
                soft_mismatch.append({"kind": "soft-constraints-differ-from-model", "input": t["text"], "options": t["opts"], "no_failing_input": True, "instance": e["inst"],
                                      "what": "correspondence Models/EncodingSoft.lean <-> soft_constraints_grouped_by_weight broken for %s (%s) with %s: the model generates %d weighted clauses, "
                                              "the encoder emits %d; only in the model: %s; only in the encoder: %s (theorem Enc.penalty_affine is about the model's clauses)"
                                              % (t["text"], e["name"], t["opts"], len(soft_model), len(e["soft"]), (only_m[:1] or [""])[0][:200], (only_r[:1] or [""])[0][:200])})
        c["enc-injectivity-premises-" + ("hold" if injok == "1" else "fail")] += 1
        c["enc-order-premises-" + ("hold" if ordok == "1" else "fail")] += 1
        c["enc-memory-encoding:" + e["inst"][9]] += 1
        k, k2 = parts.index("#inj"), parts.index("#order")
        core, inj, order = parts[1:k], parts[k + 1:k2], parts[k2 + 1:]
        parts = [parts[0]] + core + (inj if injok == "1" else []) + (order if ordok == "1" else [])
        c["enc-injectivity-constraints"] += len(inj)
        c["enc-order-constraints"] += len(order)
        c["enc-premises-hold" if iok == "1" and ws == "1" else "enc-premises-fail"] += 1
        if iok != "1" or ws != "1":
            # instOk fails (e.g. a stack bound of 0, a terminal block): Enc.core_realizes does not speak about this instance and the model's
            # natural-number indices are not meant to mirror Python's negative ones; the per-model check below still covers it
            continue
        hard = set(e["hard"])
        c["enc-core-constraints"] += len(parts) - 1
        c["enc-hard-constraints"] += len(e["hard"])
        miss = [f for f in parts[1:] if f not in hard]
        if miss:
            c["enc-core-missing"] += len(miss)
            violations.append({"kind": "encoder-core-differs-from-model", "input": t["text"], "options": t["opts"], "no_failing_input": True,
                               "instance": e["inst"], "what": "correspondence Models/Encoding.lean <-> synthesis_stack_constraints/synthesis_initialize_variables broken "
                               "for %s (%s) with %s: %d of the %d core constraints the model generates are not among the %d hard constraints the encoder emits, "
                               "first: %s (theorem Enc.core_realizes is about the model's constraints)" % (t["text"], e["name"], t["opts"], len(miss), len(parts) - 1, len(e["hard"]), miss[0][:300])})
    c["enc-soft-mismatches"] += len(soft_mismatch)
    if soft_out is not None:
        soft_out.extend(soft_mismatch[:20])


def run(tier):
    sd = common.seed()
    rng = random.Random(sd * 3571 + 47)
    po = common.proof_obligations("GasolVerif.Proofs.EncodingCapstone,GasolVerif.Proofs.RealizeSound", THEOREMS)
    violations = [{"kind": "broken-proof-obligation", "what": b, "no_failing_input": True, "input": b} for b in po["broken"]]
    c = Counter()
    enc_correspondence(tier, random.Random(sd * 977 + 5), c, violations)
    res = collect(tier, sd, rng, 6 if tier == "quick" else 7, 5 if tier == "quick" else 12)
    reqs, meta = [], []
    for t, r, st in res:
        if st != "ok" or r is None or "harness_error" in (r or {}):
            c["run:" + st] += 1
            continue
        if "exception" in r:
            c["front-end-exception"] += 1
            continue
        for e in r["subs"]:
            if "unsupported" in e:
                continue
            c["instances"] += 1
            oname = " ".join(t["opts"][4:]) or "default"
            c["options:" + oname] += 1
            if "exception" in e:
                violations.append({"kind": "encoder-raises", "input": " ".join(e["plain"]), "options": t["opts"],
                                   "what": "building/solving the encoding of %s with %s raised %s" % (" ".join(e["plain"]), t["opts"], e["exception"])})
                continue
            if e.get("z3errors"):
                violations.append({"kind": "smtlib-rejected-by-solver", "input": " ".join(e["plain"]), "options": t["opts"],
                                   "what": "z3 reports errors on the emitted text for %s with %s: %s" % (" ".join(e["plain"]), t["opts"], e["z3errors"][:200])})
                continue
            c["outcome:" + str(e.get("outcome"))] += 1
            seqs = [("model", m) for m in e.get("models", [])]
            if e.get("opt_ids") and e.get("outcome") in ("optimal", "non_optimal"):
                if "PUSH" in e["opt_ids"]:
                    c["optimum-with-basic-push-not-decoded"] += 1      # the id list does not carry the pushed constant (a_j)
                else:
                    seqs.append(("optimum", e["opt_ids"]))
            for kind, m in seqs:
                if any(x is None for x in m):
                    violations.append({"kind": "model-does-not-decode", "input": " ".join(e["plain"]), "options": t["opts"],
                                       "what": "a model of the hard constraints for %s (%s) assigns a position no instruction: %s" % (" ".join(e["plain"]), t["opts"], m)})
                    continue
                reqs.append("REALIZES\t%s\t%s" % ("\t".join(e["spec"]), ",".join(m)))
                meta.append((t, e, kind, m))
    outs = drv.batch(reqs)
    samples = []
    for o, (t, e, kind, m) in zip(outs, meta):
        c["sequences-checked"] += 1
        if o.startswith("ok"):
            peak = int(o[3:])
            c["realizing-" + kind] += 1
            if len([x for x in m if x != "NOP"]) > e["b0"] or peak > e["max_sk_sz"]:
                violations.append({"kind": "decoded-sequence-outside-bounds", "input": " ".join(e["plain"]), "options": t["opts"],
                                   "what": "%s %s of %s uses length/stack %d/%d beyond the declared %d/%d" % (kind, m, " ".join(e["plain"]), len(m), peak, e["b0"], e["max_sk_sz"])})
            elif len(samples) < 4 and kind == "model":
                samples.append({"block": " ".join(e["plain"]), "options": t["opts"], "model_decodes_to": m, "peak_stack": peak})
        elif o.startswith("no:"):
            violations.append({"kind": "model-does-not-realize", "input": " ".join(e["plain"]), "options": t["opts"], "spec": e["spec"], "ids": m,
                               "what": "a %s of the hard constraints for %s with %s decodes to %s: %s" % (kind, " ".join(e["plain"]), t["opts"], m, o[3:])})
        else:
            raise common.MachineryError("driver: " + o)
    # the decoded sequences against the EVM (theorems realizes_exec / realized_sequence_obsEq): every premise evaluated per model
    from props import c02
    reqs2 = []
    for o, (t, e, kind, m) in zip(outs, meta):
        if o.startswith("ok") and "tokens" in e and not any(x.startswith("PUSH#") for x in m):
            edges = [tuple(d) for d in e["deps"]] + c02.data_edges(e)
            Ls = c02.linear_extensions(e["effects"], edges, random.Random(1), 0)
            if Ls:
                reqs2.append("REALEXEC\t%s\t%s\t%s\t%s" % (e["tokens"], "\t".join(e["spec"]), ",".join(m), ",".join(Ls[0])))
    for o in drv.batch(reqs2):
        status = o.partition("\t")[0]
        if status.startswith("error"):
            raise common.MachineryError("driver: " + o)
        key = status.split(":")[0]
        c["semantic:" + (status if key in ("partial", "exec-only", "no") else key)] += 1
    cov = {"programs": c["instances"], "disagreements_checked": c["sequences-checked"], "evaluations": c["sequences-checked"],
           "distinct_nontrivial": c["realizing-model"] + c["realizing-optimum"], "obligations": po["obligations"], "discharged": po["discharged"],
           "rule": "small generated blocks (init_progr_len <= 6/7) x a covering family of %d encoder option sets; the text the real encoder "
                   "hands to the solver must be accepted by z3 without errors (every symbol declared once at its sort), and the optimum plus up "
                   "to 5/12 further models of the hard constraints (blocking clauses on the t_j), decoded with the encoder's own theta table, must "
                   "pass Spec.realizes within the declared length and stack bounds" % len(OPTION_SETS),
           "samples": samples or [{"n": 0}], "counters": dict(c),
           "checker_cmd": "gvdrv REALIZES; /usr/bin/z3 as the stand-in solver", "trusted_base": ["Spec.realizes (Lean)", "z3 4.8.12 as model enumerator and SMT-LIB well-formedness oracle"]}
    cov["axioms"] = po["axioms"]
    cov["rule"] += ("; the constraints Models/Encoding(Order).lean generates from the real FullEncoding's instance data (core, injectivity, order) must "
                    "occur verbatim among the encoder's hard constraints, and the executable premises of the soundness theorems are evaluated on "
                    "each instance")
    cov["trusted_base"] += ["Lean 4.33 kernel; axioms propext, Classical.choice, Quot.sound", "harness extraction of the instance data from the FullEncoding object (tasks.enc_instance)",
                            "FormulaIO S-expression reader/printer", "-empty variants, stack bound 0, terminal blocks: outside the theorems (per-model validation only)"]
    return {"level": "proof", "coverage": cov, "violations": violations,
            "assumptions": ["the universal claim over assignments is the Lean theorems (core_realizes, store_exactly_once, *_order) about the generated constraints; "
                            "that the real encoder emits those constraints is checked instance by instance (verbatim), over sampled specifications and option sets",
                            "models are additionally enumerated up to a small number per instance and checked by Spec.realizes (failing-input search)"]}


def replay(v):
    print(v.get("what"))
    return 1
