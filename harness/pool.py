"""Watchdog process pool: runs tasks in worker subprocesses that import the real code; a task that
exceeds its time limit (e.g. an unbounded big-integer power inside the tool) kills only its worker.
"""
import json, os, shutil, subprocess, sys, threading, time, queue

HERE = os.path.dirname(os.path.abspath(__file__))
PY = os.environ.get("GASOL_PY", "/venv/bin/python")


class _Worker:
    def __init__(self, env):
        self.p = subprocess.Popen([PY, os.path.join(HERE, "worker.py")], stdin=subprocess.PIPE,
                                  stdout=subprocess.PIPE, stderr=subprocess.DEVNULL, env=env, text=True,
                                  bufsize=1)
        self.scratch = None
        try:
            hello = json.loads(self.p.stdout.readline())
            self.scratch = hello.get("hello")
        except Exception:
            pass

    def _rm_scratch(self):
        # the tool's own scratch directory (/tmp/gasol_<uuid> of that process): remove it when the worker is gone
        if self.scratch and os.path.basename(self.scratch.rstrip("/")).startswith("gasol_"):
            shutil.rmtree(self.scratch, ignore_errors=True)

    def run(self, task, timeout):
        """returns (result dict | None, status)"""
        try:
            self.p.stdin.write(json.dumps(task) + "\n")
            self.p.stdin.flush()
        except (BrokenPipeError, OSError):
            return None, "worker-died"
        res = {}

        def rd():
            try:
                res["line"] = self.p.stdout.readline()
            except Exception as e:  # pragma: no cover
                res["line"] = ""
        t = threading.Thread(target=rd, daemon=True)
        t.start()
        t.join(timeout)
        if t.is_alive():
            self.kill()
            return None, "timeout"
        line = res.get("line", "")
        if not line:
            self.kill()
            return None, "worker-died"
        try:
            return json.loads(line), "ok"
        except Exception:
            self.kill()
            return None, "bad-output"

    def kill(self):
        try:
            self.p.kill()
            self.p.wait(5)
        except Exception:
            pass
        self._rm_scratch()

    def close(self):
        try:
            self.p.stdin.close()
            self.p.wait(10)
        except Exception:
            self.kill()
        self._rm_scratch()


def run_tasks(tasks, nproc=None, timeout=30, env_extra=None, progress=None):
    """tasks: list of JSON-able dicts with key 'kind'. Returns list of (task, result|None, status)."""
    nproc = nproc or min(16, os.cpu_count() or 4)
    env = dict(os.environ)
    env.setdefault("PYTHONHASHSEED", "0")
    env["PYTHONWARNINGS"] = "ignore"
    if env_extra:
        env.update(env_extra)
    q = queue.Queue()
    for i, t in enumerate(tasks):
        q.put((i, t))
    out = [None] * len(tasks)
    lock = threading.Lock()
    done = [0]

    def loop():
        w = None
        while True:
            try:
                i, t = q.get_nowait()
            except queue.Empty:
                break
            if t.get("fresh") and w is not None:
                w.close()
                w = None
            if w is None:
                w = _Worker(env)
            r, st = w.run(t, t.get("timeout", timeout))
            if st != "ok":
                w = None
            elif t.get("fresh"):
                w.close()
                w = None
            out[i] = (t, r, st)
            with lock:
                done[0] += 1
                if progress and done[0] % progress == 0:
                    print("  ... %d/%d" % (done[0], len(tasks)), file=sys.stderr)
        if w is not None:
            w.close()

    th = [threading.Thread(target=loop) for _ in range(min(nproc, max(1, len(tasks))))]
    for t in th:
        t.start()
    for t in th:
        t.join()
    return out
