/-
  (V) C02: leaving out operations whose results nothing uses.  `without S R deps` is `S` without the instructions whose identifier
  is in `R`; `pruneOk S R` is the executable side condition (the removed instructions are loads with a result; no kept instruction,
  and not the final stack, mentions a removed result; no kept instruction produces one).  `Proofs/PruneSound.lean`: under a schedule
  and the schedule without `R` the two specifications evaluate to the SAME symbolic state.   No Mathlib.
-/
import GasolVerif.Models.SpecSem
namespace GasolVerif.Spec

def removedOuts (S : Spec) (R : List String) : List String :=
  (S.instrs.filter fun u => R.contains u.id).filterMap (·.out)

def without (S : Spec) (R : List String) (deps : List (String × String)) : Spec :=
  { S with instrs := S.instrs.filter (fun u => !R.contains u.id), deps := deps }

def atomOk (RO : List String) : Atom → Bool
  | .const _ => true
  | .var v => !RO.contains v

def isLoadOp (u : UInstr) : Bool := u.op == "MLOAD" || u.op == "SLOAD" || u.op == "KECCAK256" || u.op == "SHA3"

def pruneOk (S : Spec) (R : List String) : Bool :=
  let RO := removedOuts S R
  S.instrs.all (fun u =>
    if R.contains u.id then isLoadOp u && u.out.isSome
    else u.inp.all (atomOk RO) && (match u.out with
      | some o => !RO.contains o
      | none => true)) &&
  S.tgt.all (atomOk RO)

/-- `pruneDead S` is `S` without some set of loads: the identifiers it removed -/
def prunedIds (S : Spec) : List String :=
  let S' := pruneDead S
  (S.instrs.filter fun u => !(S'.instrs.any fun w => w.id == u.id)).map (·.id)

/-- SPECCHK with the link back to the emitted specification: the pruned specification the schedule theorem is applied to is
    `without S R deps'` with `pruneOk S R` (premises of `prune_evalSpec`), and the emitted specification itself evaluates under the
    first full schedule (then it denotes the same state as the pruned one, hence the block) -/
def handleSpecChk2 (nf : Normaliser) (block src tgt instrs deps scheds : String) : String :=
  match parseSpec src tgt instrs deps with
  | none => "error:parse"
  | some S =>
    let S' := pruneDead S
    let R := prunedIds S
    let W := without S R S'.deps
    if !(decide (W.instrs = S'.instrs)) then "error:pruned-specification-is-not-the-specification-without-the-removed-loads" else
    if !(pruneOk S R) then "error:prune-side-condition" else
    let core := handleSpecChk nf block src tgt instrs deps scheds
    if core.startsWith "ok:" then
      let L0 := match (scheds.splitOn "|") with
        | l :: _ => splitNE l ","
        | [] => []
      core ++ (if (evalSpec S L0).isSome then ":emitted-evaluates" else ":pruned-only") ++ s!":removed={R.length}"
    else core

end GasolVerif.Spec
