"""C17 — instruction-set restrictions chosen by the user are honoured (PUSH0 flag, contract selection)."""
import json, random
from collections import Counter
import common, docrun, gen, pool, docs, e2e, drv, vocab

THEOREMS = ["Cost.costs_append", "Cost.costs_flag", "Cost.saving_flag", "Cost.selection_frame", "Cost.selection_names", "Cost.gasAcc_le_static",
            "Cost.gasAcc_eq_static", "Json.no_new_push0_when_disabled", "Json.normP0_enabled"]


def plain_items(text):
    """the tool's plain rendering of a block (blocks.csv) -> [(name, value)]"""
    toks, out, i = text.split(), [], 0
    while i < len(toks):
        t = toks[i]
        i += 1
        if t == "PUSH":
            k = toks[i]
            if k in ("[tag]", "data", "#[$]", "[$]"):
                out.append(("PUSH " + k, toks[i + 1])); i += 2
            else:
                int(k, 16)
                out.append(("PUSH", k)); i += 1
        elif t in ("PUSHIMMUTABLE", "PUSHLIB", "ASSIGNIMMUTABLE", "tag"):
            out.append((t, toks[i])); i += 1
        else:
            out.append((t, None))
    return out


def run(tier):
    sd = common.seed()
    rng = random.Random(sd * 389 + 29)
    po = common.proof_obligations("GasolVerif.Proofs.FlagSound,GasolVerif.Proofs.JsonItemSound", THEOREMS)
    violations = [{"kind": "broken-proof-obligation", "what": b, "no_failing_input": True, "input": b} for b in po["broken"]]
    c = Counter()
    # (a) documents with PUSH0 disabled / enabled
    dl = docs.handcrafted()[:4] + docrun.synthesized(sd + 31, 8 if tier == "quick" else 100, ncontracts=2, nblocks=5)
    full = {}
    csv_reqs, csv_meta = [], []
    # with PUSH0 disabled also a document whose zero pushes are written with leading zeros (the reader keeps the spelling of a value)
    zi = lambda n, v=None: dict({"begin": 1, "end": 2, "name": n, "source": 0}, **({"value": v} if v is not None else {}))
    zcode = [zi("tag", "1"), zi("JUMPDEST"), zi("PUSH", "00"), zi("CALLDATALOAD"), zi("PUSH", "0000"), zi("MSTORE"), zi("PUSH", "1"), zi("PUSH", "2"), zi("ADD"),
             zi("PUSH", "00"), zi("SSTORE"), zi("STOP")]
    zz = {"contracts": {"z.sol:Z": {"asm": {".code": zcode, ".data": {"0": {".auxdata": "a4", ".code": [dict(i) for i in zcode]}}}}}, "version": "0.8.15+commit.e14f2714"}
    for flag, opts in (("off", ["-greedy", "-push0"]), ("on", ["-greedy"])):
        for r in docrun.run_docs(dl + ([("handzeros.json_solc", zz)] if flag == "off" else []), opts):
            res = r["res"]
            outname = r["name"].split(".")[0] + "_optimized.json_solc"
            if r["status"] != "ok" or not res or res.get("rc") != 0 or outname not in res["files"]:
                violations.append({"kind": "no-output-file", "input": r["name"], "options": opts, "what": "%s %s: rc %s" % (r["name"], opts, (res or {}).get("rc"))})
                continue
            c["documents"] += 1
            dout = json.loads(res["files"][outname])
            full[(r["name"], flag)] = dout
            if flag == "on":
                full[r["name"]] = dout
            # the per-block accounting the tool writes (blocks.csv): instructions as it read/emitted them, priced under the same flag
            import csv as _csv, io as _io
            for row in _csv.DictReader(_io.StringIO(res["files"].get("blocks.csv", ""))):
                for side in ("old", "new"):
                    text = row.get(side + "_instrs") or ""
                    if flag == "off" and "PUSH0" in text.split():
                        violations.append({"kind": "push0-emitted-when-disabled", "input": r["name"], "options": opts,
                                           "what": "%s %s: the %s instructions of block %s contain PUSH0 with PUSH0 disabled: %s" % (r["name"], opts, side, row.get("block_id"), text[:200])})
                    try:
                        toks = " ".join(vocab.token(n, v) for n, v in plain_items(text))
                    except (vocab.Unsupported, ValueError, IndexError):
                        c["csv-rows-outside-vocabulary"] += 1
                        continue
                    csv_reqs.append("COST\t%s\t%s" % ("0" if flag == "off" else "1", toks))
                    csv_meta.append((r["name"], opts, row.get("block_id"), side, text, [row.get(side + "_gas"), row.get(side + "_size"), row.get(side + "_length")], toks))
            sin, sout = dict(docrun.code_sections(r["doc"])), dict(docrun.code_sections(dout))
            for path in sin:
                if path not in sout:
                    continue
                for x, y in zip(docrun.blocks_of(sin[path]), docrun.blocks_of(sout[path])):
                    c["blocks"] += 1
                    n_in = sum(1 for it in x if it["name"] == "PUSH0")
                    n_out = sum(1 for it in y if it["name"] == "PUSH0")
                    if flag == "off" and n_out > n_in:
                        violations.append({"kind": "push0-emitted-when-disabled", "input": r["name"], "options": opts,
                                           "what": "%s %s: block has %d PUSH0 items in the output and %d in the input with PUSH0 disabled" % (r["name"], path, n_out, n_in)})
    for o, (name, opts, bid, side, text, tool, toks) in zip(drv.batch(csv_reqs), csv_meta):
        c["csv-cost-comparisons"] += 1
        ref = o.split()
        # the tool prices a storage slot / an account that the block touched before as warm: Cost.gasAcc (4th number) is that accounting
        ref = [ref[3], ref[1], ref[2]]
        if ref != [str(x) for x in tool]:
            violations.append({"kind": "push0-pricing-inconsistent", "input": name, "options": opts,
                               "what": "blocks.csv of %s under %s, %s side of %s (%s): tool prices (gas,bytes,len)=%s, reference with the same flag %s" % (name, opts, side, bid, text[:160], tool, o)})
    # (b) plain blocks: the emitted text must not contain PUSH0 when disabled; costs priced with the same flag on both sides
    blocks = gen.blocks(sd * 5 + 40, 200 if tier == "quick" else 3000) + ["PUSH1 0x0 PUSH1 0x0 ADD DUP1", "PUSH1 0x5 PUSH1 0x5 SUB", "DUP1 DUP1 XOR",
                                                                          "PUSH1 0x0 DUP2 MSTORE PUSH1 0x0 DUP1 SSTORE"]
    blocks += gen.access_pair_corpus()[::5]      # warm/cold books: storage slots and accounts on the same operand
    # the same slot reached through a zero push that is kept and one that is rebuilt (the key of the warm/cold book is the pushed value)
    blocks += ["PUSH0 SLOAD PUSH1 0x05 PUSH1 0x05 SUB POP GAS POP PUSH0 SLOAD", "PUSH1 0x00 SLOAD PUSH1 0x01 PUSH1 0x00 ADD POP GAS POP PUSH1 0x00 SLOAD",
               "PUSH0 SLOAD POP PUSH1 0x03 PUSH1 0x03 SUB SLOAD", "PUSH1 0x07 PUSH0 SSTORE GAS POP PUSH1 0x00 PUSH1 0x00 ADD SLOAD"]
    # every spelling of a zero push, kept (nothing to optimize around it) and next to something that is optimized
    for z in ("PUSH1 0x0", "PUSH1 0x00", "PUSH1 0", "PUSH1 00", "PUSH2 0x0000", "PUSH32 0x" + "0" * 64, "PUSH0"):
        blocks += ["%s CALLDATALOAD %s SLOAD" % (z, z), "%s DUP2 MSTORE PUSH1 0x1 PUSH1 0x2 ADD" % z, "%s %s SUB %s" % (z, z, z)]
    runs = e2e.run_optimize(blocks, [["-greedy", "-push0"], ["-greedy"]], assign="all")
    reqs, meta = [], []
    for text, opts, e, st in runs:
        if e is None or "out_items" not in e:
            continue
        c["plain-blocks"] += 1
        off = "-push0" in opts
        has_in = any(d == "PUSH0" for d, v in e["in_items"])
        has_out = any(d == "PUSH0" for d, v in e["out_items"])
        if off and (has_out or has_in):
            violations.append({"kind": "push0-emitted-when-disabled", "input": text, "options": opts,
                               "what": "with PUSH0 disabled %s is parsed/emitted with a PUSH0 item: %s" % (text, e["out_items"])})
        if "in_tokens" in e and "out_tokens" in e:
            reqs.append("COST\t%s\t%s" % ("0" if off else "1", e["in_tokens"])); meta.append((text, opts, e, "in"))
            reqs.append("COST\t%s\t%s" % ("0" if off else "1", e["out_tokens"])); meta.append((text, opts, e, "out"))
    for o, (text, opts, e, side) in zip(drv.batch(reqs), meta):
        tool = e["cost_in"] if side == "in" else e["cost_out"]
        c["cost-comparisons"] += 1
        toks = e["in_tokens"] if side == "in" else e["out_tokens"]
        ref = o.split()
        # the tool's block-level gas counts repeated storage/account accesses as warm: Cost.gasAcc (4th number) models that accounting
        ref = [ref[3], ref[1], ref[2]]
        toolv = [str(x) for x in tool]
        if ref != toolv:
            violations.append({"kind": "push0-pricing-inconsistent", "input": text, "options": opts,
                               "what": "%s side of %s under %s: tool prices (gas,bytes,len)=%s, reference with the same flag %s" % (side, text, opts, tool, o)})
    # (c) contract selection
    # contracts whose short names are suffixes / prefixes of one another: the selection must be exact
    rel = [("rel%d.json_solc" % i, docs.make_doc(sd * 77 + i, ncontracts=3, nblocks=3, naming="related")) for i in range(2 if tier == "quick" else 10)]
    for (nm, d), r in zip(rel, docrun.run_docs(rel, ["-greedy"])):
        on = nm.split(".")[0] + "_optimized.json_solc"
        if r["status"] == "ok" and r["res"] and on in r["res"]["files"]:
            full[nm] = json.loads(r["res"]["files"][on])
    # both restrictions together: the selection must give the selected contract's assembly of the full run made under the same PUSH0 setting
    for name, d in dl[4:8] + rel:
        for k_, cname in enumerate([k for k, v in d["contracts"].items() if v.get("asm")][:3]):
            short = cname.split("/")[-1].split(":")[-1]
            for flag, extra in (("on", []), ("off", ["-push0"])):
                if flag == "off" and ((name, "off") not in full or k_ > 0):
                    continue
                r = docrun.run_docs([(name, d)], ["-greedy", "-c", short] + extra)[0]
                res = r["res"]
                outname = name.split(".")[0] + "_optimized.json_solc"
                c["contract-selections"] += 1
                if r["status"] != "ok" or not res or res.get("rc") != 0 or outname not in res["files"]:
                    violations.append({"kind": "no-output-file", "input": name, "options": ["-c", short] + extra, "what": "-c %s on %s: rc %s %s" % (short, name, (res or {}).get("rc"), ((res or {}).get("stderr_tail") or "")[-200:])})
                    continue
                single = json.loads(res["files"][outname])
                want = (full.get((name, "off")) if flag == "off" else full.get(name, {})).get("contracts", {}).get(cname, {}).get("asm")
                if single != want:
                    violations.append({"kind": "contract-selection-changes-result", "input": name, "options": ["-c", short] + extra,
                                       "what": "the output of -c %s %s on %s is not the selected contract's optimized assembly of the full run under the same PUSH0 setting" % (short, " ".join(extra), name)})
    cov = {"evaluations": c["blocks"] + c["plain-blocks"] + c["contract-selections"], "distinct_nontrivial": c["blocks"] + c["plain-blocks"],
           "obligations": po["obligations"], "discharged": po["discharged"],
           "rule": "documents and plain blocks run with PUSH0 disabled and enabled: PUSH0 items may not appear when disabled; the tool's gas/bytes/"
                   "length of input and output are compared with the Lean reference computed with the same flag; -c <contract> must yield exactly "
                   "that contract's assembly of the full run",
           "samples": [{"document": dl[0][0]}], "counters": dict(c)}
    cov.update({"axioms": po["axioms"], "programs": c["plain-blocks"] + c["blocks"], "disagreements_checked": c["cost-comparisons"],
                "checker_cmd": "cd lean && lake build GasolVerif gvdrv; #print axioms " + ", ".join(THEOREMS),
                "trusted_base": ["Lean 4.33 kernel", "axioms: propext, Classical.choice, Quot.sound",
                                 "Models/Cost.lean as the reference price list (tied to the tool by the cost comparison on every input and output block, both flag values)",
                                 "emission of PUSH0 and the contract filter are observed on real runs, not modelled"]})
    return {"level": "translation_validation", "coverage": cov, "violations": violations,
            "assumptions": ["pricing clause: Cost.costs_flag / saving_flag (kernel-checked) say what the flag may change in the reference cost; the tool's "
                            "costs are compared with that reference under the same flag on every block; emission and contract selection are differential "
                            "observations of real runs (selection_frame states the contract on a model of the filter only)"]}


def replay(v):
    print(v.get("what"))
    return 1
