/-
  (P) C16: every sequence that realizes a specification has at least `minInstr` instructions.
  The argument is an accounting of stack cells by the value they stand for:
    cells at the start + cells created = cells at the end + cells consumed + cells popped       (conservation)
  every creation and every pop is one instruction; a value that is not on the initial stack is referred to
  `refs.count` times, and each of these places consumes or keeps a cell of its own, because every needed operation
  is executed at least once (a cell of a value can only come from the operation that computes it).   No Mathlib.
-/
import GasolVerif.Models.MinLen
namespace GasolVerif.Spec

/-! ### what a successful step does -/

/-- the shapes of a successful `stepId`, on the two fields the accounting needs -/
inductive StepRel (S : Spec) : RunSt → String → RunSt → Prop
  | nop (st id) : StepRel S st id st
  | push (st id n st') : st'.stack = .const n :: st.stack → st'.done = st.done → StepRel S st id st'
  | pop (st id a r st') : st.stack = a :: r → st'.stack = r → st'.done = st.done → StepRel S st id st'
  | dup (st id) (k : Nat) (a st') : st.stack[k]? = some a → st'.stack = a :: st.stack → st'.done = st.done → StepRel S st id st'
  | swap (st id) (k : Nat) (top rest a st') : st.stack = top :: rest → rest[k]? = some a → st'.stack = a :: rest.set k top →
      st'.done = st.done → StepRel S st id st'
  | op (st id u st') : S.find? id = some u → u.inp.length ≤ st.stack.length →
      ((st.stack.take u.inp.length).map (resolve S) = u.inp.map (resolve S)
        ∨ (st.stack.take u.inp.length).map (resolve S) = (u.inp.map (resolve S)).reverse) →
      st'.stack = (match u.out with | some o => [.var o] | none => []) ++ st.stack.drop u.inp.length →
      st'.done = st.done ++ [id] → StepRel S st id st'

theorem stepId_rel (S : Spec) (st st' : RunSt) (id : String) (h : stepId S st id = .ok st') : StepRel S st id st' := by
  unfold stepId at h
  split at h
  · cases h; exact .nop _ _
  split at h
  · split at h
    · cases h; exact .push _ _ _ _ rfl rfl
    · cases h
  split at h
  · split at h
    · rename_i a r hs; cases h; exact .pop _ _ a r _ hs rfl rfl
    · cases h
  split at h
  · rename_i k _
    split at h
    · cases h
    split at h
    · rename_i a ha; cases h; exact .dup _ _ (k - 1) a _ ha rfl rfl
    · cases h
  split at h
  · rename_i k _
    split at h
    · cases h
    split at h
    · rename_i top rest hs
      split at h
      · rename_i a ha; cases h; exact .swap _ _ (k - 1) top rest a _ hs ha rfl rfl
      · cases h
    · cases h
  split at h
  · cases h
  · rename_i u hu
    simp only at h
    split at h
    · cases h
    rename_i hlen
    split at h
    · cases h
    rename_i hargs
    split at h
    · cases h
    cases h
    refine .op _ _ u _ hu (by omega) ?_ ?_ rfl
    · have hb : (List.map (resolve S) (List.take u.inp.length st.stack) == List.map (resolve S) u.inp ||
          (u.comm && (BinOp.ofName? u.op).any (·.comm)) && List.map (resolve S) (List.take u.inp.length st.stack) == (List.map (resolve S) u.inp).reverse) = true := by
        cases hq : (List.map (resolve S) (List.take u.inp.length st.stack) == List.map (resolve S) u.inp ||
          (u.comm && (BinOp.ofName? u.op).any (·.comm)) && List.map (resolve S) (List.take u.inp.length st.stack) == (List.map (resolve S) u.inp).reverse)
        · exact absurd (by rw [hq]; rfl) hargs
        · rfl
      simp only [Bool.or_eq_true, beq_iff_eq, Bool.and_eq_true] at hb
      rcases hb with h1 | ⟨_, h2⟩
      · exact Or.inl h1
      · exact Or.inr h2
    · cases u.out <;> rfl

/-! ### conservation of cells, by value -/

/-- the operands consumed by the executed instructions -/
def csOf (S : Spec) (done : List String) : List Atom :=
  done.flatMap fun id => match S.find? id with
    | some u => u.inp.map (resolve S)
    | none => []

/-- executed instructions without a result -/
def nooutOf (S : Spec) (done : List String) : Nat :=
  (done.filter fun id => match S.find? id with
    | some u => u.out.isNone
    | none => false).length

theorem swap_perm {α} (rest : List α) (k : Nat) (a top : α) (h : rest[k]? = some a) :
    (a :: rest.set k top).Perm (top :: rest) := by
  induction rest generalizing k with
  | nil => simp at h
  | cons b r ih =>
    cases k with
    | zero =>
      simp at h; subst h
      simp only [List.set_cons_zero]
      exact List.Perm.swap _ _ _
    | succ k =>
      simp only [List.getElem?_cons_succ] at h
      simp only [List.set_cons_succ]
      have := ih k h
      exact ((List.Perm.swap b a _).trans ((this.cons b).trans (List.Perm.swap top b r)))

theorem resolve_const (S : Spec) (n : Nat) : resolve S (.const n) = .const n := rfl

theorem step_conserve (S : Spec) (st st' : RunSt) (id : String) (h : StepRel S st id st') :
    ∃ cr pp : List Atom, cr.length + pp.length + nooutOf S st'.done ≤ 1 + nooutOf S st.done ∧
      ∀ x, (st.stack.map (resolve S)).count x + cr.count x + (csOf S st.done).count x
          = (st'.stack.map (resolve S)).count x + (csOf S st'.done).count x + pp.count x := by
  cases h
  case nop => exact ⟨[], [], by simp, by simp⟩
  case push n hs hd =>
    refine ⟨[.const n], [], by simp [hd], fun x => ?_⟩
    simp [hs, hd, resolve_const, List.count_cons]
  case pop a r hs hs' hd =>
    refine ⟨[], [resolve S a], by simp [hd], fun x => ?_⟩
    simp [hs, hs', hd, List.count_cons]; omega
  case dup k a ha hs' hd =>
    refine ⟨[resolve S a], [], by simp [hd], fun x => ?_⟩
    simp [hs', hd, List.count_cons]
  case swap k top rest a hs ha hs' hd =>
    refine ⟨[], [], by simp [hd], fun x => ?_⟩
    have hp := ((swap_perm rest k a top ha).map (resolve S)).count_eq x
    simp [hs, hs', hd] at hp ⊢
    omega
  case op u hu hlen hargs hs' hd =>
    refine ⟨(match u.out with | some o => [resolve S (.var o)] | none => []), [], ?_, fun x => ?_⟩
    · simp only [hd, nooutOf, List.filter_append, List.length_append, List.length_nil, Nat.add_zero]
      simp only [List.filter_cons, hu, List.filter_nil]
      cases u.out <;> simp <;> omega
    · have hsplit : (st.stack.map (resolve S)).count x
          = ((st.stack.take u.inp.length).map (resolve S)).count x + ((st.stack.drop u.inp.length).map (resolve S)).count x := by
        rw [← List.count_append, ← List.map_append, List.take_append_drop]
      have hwant : ((st.stack.take u.inp.length).map (resolve S)).count x = (u.inp.map (resolve S)).count x := by
        rcases hargs with h1 | h2
        · rw [h1]
        · rw [h2, List.count_reverse]
      have hcs : (csOf S st'.done).count x = (csOf S st.done).count x + (u.inp.map (resolve S)).count x := by
        simp [hd, csOf, List.flatMap_append, hu]
      rw [hsplit, hwant, hcs, hs']
      cases u.out <;> simp [List.count_cons] <;> omega

theorem runIds_cons_ok (S : Spec) (id : String) (ids : List String) (st st' : RunSt)
    (h : runIds S (id :: ids) st = .ok st') : ∃ st1, stepId S st id = .ok st1 ∧ runIds S ids st1 = .ok st' := by
  simp only [runIds] at h
  split at h
  · rename_i st1 h1; exact ⟨st1, h1, h⟩
  · cases h

theorem run_conserve (S : Spec) : ∀ (ids : List String) (st st' : RunSt), runIds S ids st = .ok st' →
    ∃ cr pp : List Atom, cr.length + pp.length + nooutOf S st'.done ≤ ids.length + nooutOf S st.done ∧
      ∀ x, (st.stack.map (resolve S)).count x + cr.count x + (csOf S st.done).count x
          = (st'.stack.map (resolve S)).count x + (csOf S st'.done).count x + pp.count x
  | [], st, st', h => by
    simp only [runIds] at h; cases h
    exact ⟨[], [], by simp, by simp⟩
  | id :: ids, st, st', h => by
    obtain ⟨st1, h1, h2⟩ := runIds_cons_ok S id ids st st' h
    obtain ⟨cr1, pp1, hl1, hc1⟩ := step_conserve S st st1 id (stepId_rel S st st1 id h1)
    obtain ⟨cr2, pp2, hl2, hc2⟩ := run_conserve S ids st1 st' h2
    refine ⟨cr1 ++ cr2, pp1 ++ pp2, ?_, fun x => ?_⟩
    · simp only [List.length_append, List.length_cons]; omega
    · have a := hc1 x; have b := hc2 x
      simp only [List.count_append]; omega

/-! ### a cell of a computed value comes from the operation that computes it -/

theorem resolve_eq_var (S : Spec) (a : Atom) (o : String) (h : resolve S a = .var o) : a = .var o := by
  cases a with
  | const n => simp [resolve] at h
  | var v =>
    simp only [resolve] at h
    split at h
    · split at h
      · split at h
        · cases h
        · exact h
      · exact h
    · exact h

theorem find?_spec (S : Spec) (id : String) (w : UInstr) (h : S.find? id = some w) : w ∈ S.instrs ∧ w.id = id := by
  unfold Spec.find? at h
  exact ⟨List.mem_of_find?_eq_some h, by simpa using List.find?_some h⟩

/-- as long as `u` has not been executed there is no cell standing for its result, and none was consumed -/
def InvU (S : Spec) (u : UInstr) (o : String) (st : RunSt) : Prop :=
  u.id ∉ st.done → (st.stack.map (resolve S)).count (.var o) = 0 ∧ (csOf S st.done).count (.var o) = 0

theorem step_invU (S : Spec) (u : UInstr) (o : String)
    (huniq : ∀ w ∈ S.instrs, w.out = some o → w.id = u.id)
    (st st' : RunSt) (id : String) (h : StepRel S st id st') (hi : InvU S u o st) : InvU S u o st' := by
  cases h
  case nop => exact hi
  case push n hs hd =>
    intro hn; rw [hd] at hn ⊢
    obtain ⟨h1, h2⟩ := hi hn
    refine ⟨?_, h2⟩
    simp [hs, resolve_const, h1] at h1 ⊢
  case pop a r hs hs' hd =>
    intro hn; rw [hd] at hn ⊢
    obtain ⟨h1, h2⟩ := hi hn
    refine ⟨?_, h2⟩
    rw [hs] at h1; rw [hs']
    simp only [List.map_cons, List.count_cons] at h1
    omega
  case dup k a ha hs' hd =>
    intro hn; rw [hd] at hn ⊢
    obtain ⟨h1, h2⟩ := hi hn
    refine ⟨?_, h2⟩
    have hmem : resolve S a ∈ st.stack.map (resolve S) := List.mem_map_of_mem (List.mem_of_getElem? ha)
    have hne : (resolve S a == Atom.var o) = false := by
      apply Bool.eq_false_iff.mpr
      intro he
      have := beq_iff_eq.mp he
      rw [this] at hmem
      exact (List.count_eq_zero.mp h1) hmem
    rw [hs']
    simp only [List.map_cons, List.count_cons, hne]
    simpa using h1
  case swap k top rest a hs ha hs' hd =>
    intro hn; rw [hd] at hn ⊢
    obtain ⟨h1, h2⟩ := hi hn
    refine ⟨?_, h2⟩
    have hp := ((swap_perm rest k a top ha).map (resolve S)).count_eq (Atom.var o)
    rw [hs'] ; rw [hs] at h1
    omega
  case op w hw hlen hargs hs' hd =>
    intro hn
    rw [hd] at hn
    have hnd : u.id ∉ st.done := fun hm => hn (List.mem_append_left _ hm)
    have hne : u.id ≠ id := fun he => hn (by simp [he])
    obtain ⟨h1, h2⟩ := hi hnd
    obtain ⟨hwm, hwid⟩ := find?_spec S id w hw
    have hdrop : ((st.stack.drop w.inp.length).map (resolve S)).count (.var o) = 0 := by
      have := ((List.drop_sublist w.inp.length st.stack).map (resolve S)).count_le (Atom.var o)
      omega
    have htake : ((st.stack.take w.inp.length).map (resolve S)).count (.var o) = 0 := by
      have := ((List.take_sublist w.inp.length st.stack).map (resolve S)).count_le (Atom.var o)
      omega
    have hwant : (w.inp.map (resolve S)).count (.var o) = 0 := by
      rcases hargs with e | e
      · rw [← e]; exact htake
      · have : ((w.inp.map (resolve S)).reverse).count (.var o) = 0 := by rw [← e]; exact htake
        simpa [List.count_reverse] using this
    constructor
    · rw [hs']
      cases hout : w.out with
      | none => simpa using hdrop
      | some o' =>
        have hne' : (resolve S (.var o') == Atom.var o) = false := by
          apply Bool.eq_false_iff.mpr
          intro he
          have h3 := resolve_eq_var S _ _ (beq_iff_eq.mp he)
          cases h3
          exact hne ((huniq w hwm hout).symm.trans hwid)
        simp only [List.map_append, List.map_cons, List.map_nil, List.count_append, List.count_cons, hne', List.count_nil]
        simpa using hdrop
    · rw [hd]
      simp only [csOf, List.flatMap_append, List.count_append, List.flatMap_cons, List.flatMap_nil, hw, List.append_nil]
      simp only [csOf] at h2
      omega

theorem run_invU (S : Spec) (u : UInstr) (o : String)
    (huniq : ∀ w ∈ S.instrs, w.out = some o → w.id = u.id) :
    ∀ (ids : List String) (st st' : RunSt), runIds S ids st = .ok st' → InvU S u o st → InvU S u o st'
  | [], st, st', h, hi => by simp only [runIds] at h; cases h; exact hi
  | id :: ids, st, st', h, hi => by
    obtain ⟨st1, h1, h2⟩ := runIds_cons_ok S id ids st st' h
    exact run_invU S u o huniq ids st1 st' h2 (step_invU S u o huniq st st1 id (stepId_rel S st st1 id h1) hi)

theorem resolve_src (S : Spec) (hout : ∀ u ∈ S.instrs, ∀ o, u.out = some o → o ∉ S.src) (i : String) (hi : i ∈ S.src) :
    resolve S (.var i) = .var i := by
  have hnone : S.producer? i = none := by
    unfold Spec.producer?
    apply List.find?_eq_none.mpr
    intro u hu hb
    have : u.out = some i := by simpa using hb
    exact hout u hu i this hi
  simp [resolve, hnone]

/-- the initial state of `realizes` -/
def st0 (S : Spec) : RunSt := { stack := S.src.map .var, peak := S.src.length }

theorem invU_st0 (S : Spec) (u : UInstr) (o : String) (ho : o ∉ S.src) : InvU S u o (st0 S) := by
  intro _
  refine ⟨?_, by simp [st0, csOf]⟩
  apply List.count_eq_zero.mpr
  intro hm
  simp only [st0, List.map_map, List.mem_map, Function.comp] at hm
  obtain ⟨i, hi, he⟩ := hm
  have := resolve_eq_var S _ _ he
  cases this
  exact ho hi

/-- a value that is on the final stack or was consumed was computed -/
theorem exec_of_seen (S : Spec) (ids : List String) (st' : RunSt) (hrun : runIds S ids (st0 S) = .ok st')
    (hout : ∀ u ∈ S.instrs, ∀ o, u.out = some o → o ∉ S.src)
    (huniq : ∀ u ∈ S.instrs, ∀ w ∈ S.instrs, u.out.isSome → u.out = w.out → u.id = w.id)
    (u : UInstr) (hu : u ∈ S.instrs) (o : String) (huo : u.out = some o)
    (hseen : Atom.var o ∈ st'.stack.map (resolve S) ∨ Atom.var o ∈ csOf S st'.done) : u.id ∈ st'.done := by
  have hinv := run_invU S u o (fun w hw hwo => (huniq u hu w hw (by simp [huo]) (by rw [huo, hwo])).symm) ids (st0 S) st' hrun
    (invU_st0 S u o (hout u hu o huo))
  apply Classical.byContradiction
  intro hn
  obtain ⟨h1, h2⟩ := hinv hn
  rcases hseen with h | h
  · exact (List.count_eq_zero.mp h1) h
  · exact (List.count_eq_zero.mp h2) h

theorem mem_csOf (S : Spec) (done : List String) (id : String) (w : UInstr) (hid : id ∈ done) (hw : S.find? id = some w)
    (x : Atom) (hx : x ∈ w.inp.map (resolve S)) : x ∈ csOf S done := by
  simp only [csOf, List.mem_flatMap]
  exact ⟨id, hid, by simpa [hw] using hx⟩

theorem find?_of_mem (S : Spec) (w : UInstr) (hw : w ∈ S.instrs) : ∃ w', S.find? w.id = some w' := by
  unfold Spec.find?
  cases h : S.instrs.find? (·.id == w.id) with
  | some w' => exact ⟨w', rfl⟩
  | none =>
    have := List.find?_eq_none.mp h w hw
    simp at this

/-- the operands of an executed instruction of the specification were consumed -/
theorem consumed_of_done (S : Spec)
    (hsame : ∀ u ∈ S.instrs, ∀ w ∈ S.instrs, u.id = w.id → u.inp = w.inp)
    (done : List String) (w : UInstr) (hw : w ∈ S.instrs) (hid : w.id ∈ done) (x : Atom)
    (hx : x ∈ w.inp.map (resolve S)) : x ∈ csOf S done := by
  obtain ⟨w', hf⟩ := find?_of_mem S w hw
  obtain ⟨hm, hid'⟩ := find?_spec S _ _ hf
  have : w'.inp = w.inp := hsame w' hm w hw hid'
  exact mem_csOf S done w.id w' hid hf x (by rw [this]; exact hx)

/-- every needed operation whose result is not a pushed constant is executed, and what it refers to is seen -/
theorem needed_executed (S : Spec) (st' : RunSt)
    (hexec : ∀ u ∈ S.instrs, ∀ o, u.out = some o →
      (Atom.var o ∈ st'.stack.map (resolve S) ∨ Atom.var o ∈ csOf S st'.done) → u.id ∈ st'.done)
    (hsame : ∀ u ∈ S.instrs, ∀ w ∈ S.instrs, u.id = w.id → u.inp = w.inp) :
    ∀ (needed : List UInstr) (roots : List Atom),
      (∀ u ∈ needed, ∃ w ∈ S.instrs, w.id = u.id ∧ w.inp = u.inp ∧ w.out = u.out) →
      (∀ u ∈ needed, selfResolved S u = true ∨ u.inp = []) →
      justified S roots needed = true →
      (∀ x ∈ roots, x ∈ st'.stack.map (resolve S) ∨ x ∈ csOf S st'.done) →
      ∀ u ∈ needed, selfResolved S u = true → u.id ∈ st'.done
  | [], _, _, _, _, _ => by intro u hu; cases hu
  | v :: rest, roots, hin, hpush, hj, hroots => by
    simp only [justified, Bool.and_eq_true] at hj
    obtain ⟨hjv, hjr⟩ := hj
    obtain ⟨w, hw, hwid, hwinp, hwout⟩ := hin v (List.mem_cons_self)
    -- the head is executed when its result is a value of its own
    have hv : selfResolved S v = true → v.id ∈ st'.done := by
      intro hs
      cases hvo : v.out with
      | none => simp [selfResolved, hvo] at hs
      | some o =>
        rw [hvo] at hjv
        simp only [hs, Bool.not_true, Bool.false_or, List.contains_eq_mem, decide_eq_true_eq] at hjv
        have hr : S.R (.var o) = .var o := by simpa [selfResolved, hvo] using hs
        rw [hr] at hjv
        have := hexec w hw o (hwout.trans hvo) (hroots _ hjv)
        rw [hwid] at this
        exact this
    have hroots' : ∀ x ∈ roots ++ v.inp.map S.R, x ∈ st'.stack.map (resolve S) ∨ x ∈ csOf S st'.done := by
      intro x hx
      rcases List.mem_append.mp hx with h | h
      · exact hroots x h
      · rcases hpush v (List.mem_cons_self) with hs | he
        · right
          have hd := hv hs
          rw [← hwid] at hd
          exact consumed_of_done S hsame st'.done w hw hd x (by rw [hwinp]; exact h)
        · simp [he] at h
    have ih := needed_executed S st' hexec hsame rest (roots ++ v.inp.map S.R)
      (fun u hu => hin u (List.mem_cons_of_mem _ hu)) (fun u hu => hpush u (List.mem_cons_of_mem _ hu)) hjr hroots'
    intro u hu
    rcases List.mem_cons.mp hu with h | h
    · subst h; exact hv
    · exact ih u h

/-! ### list accounting -/

theorem nodup_subset_perm {α} [DecidableEq α] : ∀ (L done : List α), L.Nodup → (∀ a ∈ L, a ∈ done) →
    ∃ rest, done.Perm (L ++ rest)
  | [], done, _, _ => ⟨done, List.Perm.refl _⟩
  | a :: L, done, hn, hsub => by
    obtain ⟨ha, hn'⟩ := List.nodup_cons.mp hn
    have hmem : a ∈ done := hsub a (List.mem_cons_self)
    have hsub' : ∀ b ∈ L, b ∈ done.erase a := by
      intro b hb
      have hne : b ≠ a := fun e => ha (e ▸ hb)
      exact (List.mem_erase_of_ne hne).mpr (hsub b (List.mem_cons_of_mem _ hb))
    obtain ⟨rest, hp⟩ := nodup_subset_perm L (done.erase a) hn' hsub'
    exact ⟨rest, (List.perm_cons_erase hmem).trans (hp.cons a)⟩

theorem length_le_of_count_le {α} [DecidableEq α] : ∀ (A B : List α), (∀ x, A.count x ≤ B.count x) → A.length ≤ B.length
  | [], _, _ => by simp
  | a :: A, B, h => by
    have hmem : a ∈ B := by
      apply List.count_pos_iff.mp
      have := h a
      simp only [List.count_cons_self] at this
      omega
    have hp := List.perm_cons_erase hmem
    have ih := length_le_of_count_le A (B.erase a) (by
      intro x
      have hx := h x
      have hc := hp.count_eq x
      simp only [List.count_cons] at hx hc
      omega)
    have := hp.length_eq
    simp only [List.length_cons] at this ⊢
    omega

theorem count_flatMap_replicate {α} [DecidableEq α] (c : α → Nat) : ∀ (l : List α), l.Nodup → ∀ x,
    (l.flatMap fun i => List.replicate (c i) i).count x = if x ∈ l then c x else 0
  | [], _, x => by simp
  | a :: l, hn, x => by
    obtain ⟨ha, hn'⟩ := List.nodup_cons.mp hn
    simp only [List.flatMap_cons, List.count_append, List.count_replicate, count_flatMap_replicate c l hn' x, List.mem_cons]
    by_cases hxa : x = a
    · subst hxa; simp [ha]
    · have : (a == x) = false := by simp [Ne.symm hxa]
      simp [this, hxa]

/-! ### what `realizes` guarantees -/

theorem realizes_ok (S : Spec) (ids : List String) (st' : RunSt) (h : realizes S ids = .ok st') :
    runIds S ids (st0 S) = .ok st' ∧ st'.stack.map (resolve S) = S.tgt.map (resolve S)
      ∧ ∀ u ∈ S.stores, u.id ∈ st'.done := by
  unfold realizes at h
  split at h
  · cases h
  · rename_i st hrun
    split at h
    · cases h
    · rename_i hstack
      split at h
      · cases h
      · rename_i hstores
        split at h
        · cases h
        · cases h
          refine ⟨hrun, by simpa using hstack, ?_⟩
          intro u hu
          have := List.find?_eq_none.mp hstores u (by simpa [Spec.stores] using hu)
          simpa using this

theorem csOf_ids (S : Spec) : ∀ (l : List UInstr), (∀ u ∈ l, ∃ w', S.find? u.id = some w' ∧ w'.inp = u.inp) →
    csOf S (l.map (·.id)) = l.flatMap (fun u => u.inp.map (resolve S))
  | [], _ => rfl
  | u :: l, h => by
    obtain ⟨w', hf, hi⟩ := h u (List.mem_cons_self)
    have ih := csOf_ids S l (fun v hv => h v (List.mem_cons_of_mem _ hv))
    simp only [csOf, List.map_cons, List.flatMap_cons, hf, hi] at ih ⊢
    rw [ih]

theorem find_inp (S : Spec) (hsame : ∀ u ∈ S.instrs, ∀ w ∈ S.instrs, u.id = w.id → u.inp = w.inp ∧ u.out = w.out)
    (u : UInstr) (h : ∃ w ∈ S.instrs, w.id = u.id ∧ w.inp = u.inp ∧ w.out = u.out) :
    ∃ w', S.find? u.id = some w' ∧ w'.inp = u.inp ∧ w'.out = u.out := by
  obtain ⟨w, hw, hid, hinp, hout⟩ := h
  obtain ⟨w', hf⟩ := find?_of_mem S w hw
  obtain ⟨hm, hid'⟩ := find?_spec S _ _ hf
  obtain ⟨h1, h2⟩ := hsame w' hm w hw hid'
  exact ⟨w', by rw [← hid]; exact hf, h1.trans hinp, h2.trans hout⟩

/-- the executable premises, as propositions -/
structure Prem (S : Spec) (nd : List UInstr) : Prop where
  hsrc : S.src.Nodup
  hids : ((S.stores ++ nd).map (·.id)).Nodup
  hsame : ∀ u ∈ S.instrs, ∀ w ∈ S.instrs, u.id = w.id → u.inp = w.inp ∧ u.out = w.out
  huniq : ∀ u ∈ S.instrs, ∀ w ∈ S.instrs, u.out.isSome → u.out = w.out → u.id = w.id
  hout : ∀ u ∈ S.instrs, ∀ o, u.out = some o → o ∉ S.src
  hstores : ∀ u ∈ S.stores, u.out = none
  hall : ∀ u ∈ S.instrs, u.isStore = true ∨ ∃ w ∈ nd, w.id = u.id
  hneeded : ∀ u ∈ nd, ∃ w ∈ S.instrs, w.id = u.id ∧ w.inp = u.inp ∧ w.out = u.out
  hpush : ∀ u ∈ nd, selfResolved S u = true ∨ u.inp = []
  hjust : justified S ((S.tgt ++ S.stores.flatMap (·.inp)).map S.R) nd = true

theorem prem_of_ok (S : Spec) (nd : List UInstr) (h : minLenOk S nd = true) : Prem S nd := by
  simp only [minLenOk, Bool.and_eq_true, decide_eq_true_eq, List.all_eq_true, Bool.or_eq_true, bne_iff_ne, ne_eq,
    beq_iff_eq, Bool.not_eq_true', List.any_eq_true, Option.isNone_iff_eq_none, List.isEmpty_iff] at h
  obtain ⟨⟨⟨⟨⟨⟨⟨⟨⟨h1, h2⟩, h3⟩, h4⟩, h5⟩, h6⟩, h7⟩, h8⟩, h9⟩, h10⟩ := h
  refine ⟨h1, h2, ?_, ?_, ?_, h6, ?_, ?_, ?_, h10⟩
  · intro u hu w hw hid
    rcases h3 u hu w hw with hne | he
    · exact absurd hid hne
    · exact he
  · intro u hu w hw hs he
    rcases h4 u hu w hw with hne | he'
    · rw [he] at hs; simp [hs, he] at hne
    · exact he'
  · intro u hu o ho
    have := h5 u hu
    simp only [ho] at this
    simpa using this
  · intro u hu
    rcases h7 u hu with hs | ⟨w, hw, hid⟩
    · exact Or.inl hs
    · exact Or.inr ⟨w, hw, hid⟩
  · intro u hu
    obtain ⟨⟨w, hw, ⟨hid, hinp⟩, hout⟩, _⟩ := h8 u hu
    exact ⟨w, hw, hid, hinp, hout⟩
  · intro u hu
    rcases h9 u hu with hs | he
    · exact Or.inl hs
    · exact Or.inr he

/-! ### the three inequalities of the accounting -/

theorem flatMap_selfResolved (S : Spec) : ∀ (nd : List UInstr), (∀ u ∈ nd, selfResolved S u = true ∨ u.inp = []) →
    (nd.filter (selfResolved S)).flatMap (fun u => u.inp.map (resolve S)) = nd.flatMap (fun u => u.inp.map (resolve S))
  | [], _ => rfl
  | u :: nd, h => by
    have ih := flatMap_selfResolved S nd (fun v hv => h v (List.mem_cons_of_mem _ hv))
    rcases h u (List.mem_cons_self) with hs | he
    · simp [hs, ih]
    · cases hs : selfResolved S u
      · simp [hs, ih, he]
      · simp [hs, ih]

/-- every place that refers to a value keeps or consumes a cell of its own -/
theorem refs_le (S : Spec) (nd : List UInstr) (ids : List String) (st' : RunSt) (hp : Prem S nd)
    (hr : realizes S ids = .ok st') (x : Atom) :
    (refsOf S nd).count x ≤ (st'.stack.map (resolve S)).count x + (csOf S st'.done).count x := by
  obtain ⟨hrun, hfin, hst⟩ := realizes_ok S ids st' hr
  have hsameInp : ∀ u ∈ S.instrs, ∀ w ∈ S.instrs, u.id = w.id → u.inp = w.inp :=
    fun u hu w hw h => (hp.hsame u hu w hw h).1
  have hexec := fun u hu o huo hseen => exec_of_seen S ids st' hrun hp.hout hp.huniq u hu o huo hseen
  have hstoreMem : ∀ u ∈ S.stores, u ∈ S.instrs := fun u hu => (List.mem_filter.mp hu).1
  have hroots : ∀ y ∈ (S.tgt ++ S.stores.flatMap (·.inp)).map S.R,
      y ∈ st'.stack.map (resolve S) ∨ y ∈ csOf S st'.done := by
    intro y hy
    simp only [List.map_append, List.mem_append] at hy
    rcases hy with h | h
    · left; rw [hfin]; exact h
    · right
      simp only [List.mem_map, List.mem_flatMap] at h
      obtain ⟨a, ⟨s, hs, has⟩, hay⟩ := h
      exact consumed_of_done S hsameInp st'.done s (hstoreMem s hs) (hst s hs) y
        (List.mem_map.mpr ⟨a, has, hay⟩)
  have hnd := needed_executed S st' hexec hsameInp nd _ hp.hneeded hp.hpush hp.hjust hroots
  -- the executed instructions of the specification, each once
  let ex := S.stores ++ nd.filter (selfResolved S)
  have hexNodup : (ex.map (·.id)).Nodup :=
    List.Nodup.sublist (((List.Sublist.refl _).append (List.filter_sublist)).map _) hp.hids
  have hexDone : ∀ id ∈ ex.map (·.id), id ∈ st'.done := by
    intro id hid
    obtain ⟨u, hu, rfl⟩ := List.mem_map.mp hid
    rcases List.mem_append.mp hu with h | h
    · exact hst u h
    · obtain ⟨h1, h2⟩ := List.mem_filter.mp h
      exact hnd u h1 h2
  obtain ⟨rest, hperm⟩ := nodup_subset_perm (ex.map (·.id)) st'.done hexNodup hexDone
  have hfind : ∀ u ∈ ex, ∃ w', S.find? u.id = some w' ∧ w'.inp = u.inp := by
    intro u hu
    rcases List.mem_append.mp hu with h | h
    · obtain ⟨w', hf, hi, _⟩ := find_inp S hp.hsame u ⟨u, hstoreMem u h, rfl, rfl, rfl⟩
      exact ⟨w', hf, hi⟩
    · obtain ⟨w', hf, hi, _⟩ := find_inp S hp.hsame u (hp.hneeded u (List.mem_filter.mp h).1)
      exact ⟨w', hf, hi⟩
  have hcs : (csOf S st'.done).count x
      = (ex.flatMap (fun u => u.inp.map (resolve S))).count x + (csOf S rest).count x := by
    have h1 : (csOf S st'.done).count x = (csOf S (ex.map (·.id) ++ rest)).count x :=
      (List.Perm.flatMap_right _ hperm).count_eq x
    rw [h1]
    simp only [csOf, List.flatMap_append, List.count_append]
    have := csOf_ids S ex hfind
    simp only [csOf] at this
    rw [this]
  have hrefs : (refsOf S nd).count x
      = (S.tgt.map (resolve S)).count x + (ex.flatMap (fun u => u.inp.map (resolve S))).count x := by
    simp only [refsOf, ex, List.map_append, List.count_append, List.flatMap_append, List.map_flatMap,
      flatMap_selfResolved S nd hp.hpush, Nat.add_assoc]
  rw [hrefs, hcs, hfin]
  omega

/-- nothing else is consumed -/
theorem cs_sub_refs (S : Spec) (nd : List UInstr) (hp : Prem S nd) (done : List String) (x : Atom)
    (hx : x ∈ csOf S done) : x ∈ refsOf S nd := by
  simp only [csOf, List.mem_flatMap] at hx
  obtain ⟨id, _, hx⟩ := hx
  cases hf : S.find? id with
  | none => simp [hf] at hx
  | some w =>
    simp only [hf, List.mem_map] at hx
    obtain ⟨a, ha, hax⟩ := hx
    obtain ⟨hw, _⟩ := find?_spec S id w hf
    simp only [refsOf, List.map_append, List.mem_append, List.mem_map, List.mem_flatMap]
    rcases hp.hall w hw with hs | ⟨v, hv, hvid⟩
    · left; right
      exact ⟨a, ⟨w, List.mem_filter.mpr ⟨hw, hs⟩, ha⟩, hax⟩
    · right
      obtain ⟨w2, hw2, hid2, hinp2, _⟩ := hp.hneeded v hv
      have : w.inp = v.inp := ((hp.hsame w hw w2 hw2 (hvid.symm.trans hid2.symm)).1).trans hinp2
      exact ⟨a, ⟨v, hv, this ▸ ha⟩, hax⟩

/-- each store is an executed instruction without a result -/
theorem stores_le_noout (S : Spec) (nd : List UInstr) (ids : List String) (st' : RunSt) (hp : Prem S nd)
    (hr : realizes S ids = .ok st') : S.stores.length ≤ nooutOf S st'.done := by
  obtain ⟨_, _, hst⟩ := realizes_ok S ids st' hr
  have hstoreMem : ∀ u ∈ S.stores, u ∈ S.instrs := fun u hu => (List.mem_filter.mp hu).1
  have hnodup : (S.stores.map (·.id)).Nodup :=
    List.Nodup.sublist ((List.sublist_append_left _ _).map _) hp.hids
  obtain ⟨rest, hperm⟩ := nodup_subset_perm (S.stores.map (·.id)) st'.done hnodup (by
    intro id hid
    obtain ⟨u, hu, rfl⟩ := List.mem_map.mp hid
    exact hst u hu)
  have h1 : nooutOf S st'.done = nooutOf S (S.stores.map (·.id) ++ rest) := by
    unfold nooutOf; exact (hperm.filter _).length_eq
  rw [h1]
  unfold nooutOf
  rw [List.filter_append, List.length_append]
  have : (S.stores.map (·.id)).filter (fun id => match S.find? id with
      | some u => u.out.isNone
      | none => false) = S.stores.map (·.id) := by
    apply List.filter_eq_self.mpr
    intro id hid
    obtain ⟨u, hu, rfl⟩ := List.mem_map.mp hid
    obtain ⟨w', hf, _, ho⟩ := find_inp S hp.hsame u ⟨u, hstoreMem u hu, rfl, rfl, rfl⟩
    simp [hf, ho, hp.hstores u hu]
  rw [this, List.length_map]
  omega

/-! ### the theorem -/

theorem count_map_var (l : List String) (j : String) : (l.map Atom.var).count (Atom.var j) = l.count j := by
  induction l with
  | nil => rfl
  | cons a l ih =>
    simp only [List.map_cons, List.count_cons, ih]
    by_cases h : a = j
    · simp [h]
    · have : (Atom.var a == Atom.var j) = false := by simp [h]
      simp [this, h]

theorem count_var_replicates (c : String → Nat) : ∀ (l : List String), l.Nodup → ∀ j,
    (l.flatMap fun i => List.replicate (c i) (Atom.var i)).count (Atom.var j) = if j ∈ l then c j else 0
  | [], _, j => by simp
  | a :: l, hn, j => by
    obtain ⟨ha, hn'⟩ := List.nodup_cons.mp hn
    simp only [List.flatMap_cons, List.count_append, List.count_replicate, count_var_replicates c l hn' j, List.mem_cons]
    by_cases hja : j = a
    · subst hja; simp [ha]
    · have : (Atom.var a == Atom.var j) = false := by simp [Ne.symm hja]
      simp [this, hja]

theorem isSrcVar_var (S : Spec) (j : String) : isSrcVar S (.var j) = true ↔ j ∈ S.src := by
  simp [isSrcVar]

theorem st0_stack (S : Spec) (hp : ∀ u ∈ S.instrs, ∀ o, u.out = some o → o ∉ S.src) :
    (st0 S).stack.map (resolve S) = S.src.map Atom.var := by
  simp only [st0, List.map_map]
  apply List.map_congr_left
  intro i hi
  exact resolve_src S hp i hi

/-- **C16, published minimum length.**  Every instruction sequence that realizes the specification (C04's `realizes`)
    has at least `minInstrWith S nd` instructions, for every list `nd` of operations that meets the executable premises. -/
theorem min_length_with (S : Spec) (nd : List UInstr) (ids : List String) (st' : RunSt)
    (hok : minLenOk S nd = true) (hr : realizes S ids = .ok st') : minInstrWith S nd ≤ ids.length := by
  have hp := prem_of_ok S nd hok
  obtain ⟨hrun, hfin, _⟩ := realizes_ok S ids st' hr
  obtain ⟨cr, pp, hlen, hcons⟩ := run_conserve S ids (st0 S) st' hrun
  have hno := stores_le_noout S nd ids st' hp hr
  have h0 : nooutOf S (st0 S).done = 0 := by simp [st0, nooutOf]
  have hcs0 : ∀ x, (csOf S (st0 S).done).count x = 0 := by intro x; simp [st0, csOf]
  rw [st0_stack S hp.hout] at hcons
  -- demands on created cells and on popped cells
  let refs := refsOf S nd
  let c : String → Nat := fun i => refs.count (.var i) - 1
  let A1 := refs.filter (fun a => !isSrcVar S a) ++ S.src.flatMap (fun i => List.replicate (c i) (Atom.var i))
  let A2 := (S.src.filter fun i => refs.count (.var i) == 0).map Atom.var
  have hA1 : ∀ x, A1.count x ≤ cr.count x := by
    intro x
    have hle : refs.count x ≤ _ := refs_le S nd ids st' hp hr x
    have hc := hcons x
    have hz := hcs0 x
    cases x with
    | const n =>
      have e1 : (S.src.map Atom.var).count (Atom.const n) = 0 :=
        List.count_eq_zero_of_not_mem (by simp)
      have e2 : (S.src.flatMap fun i => List.replicate (c i) (Atom.var i)).count (Atom.const n) = 0 :=
        List.count_eq_zero_of_not_mem (by simp)
      have e3 : (refs.filter (fun a => !isSrcVar S a)).count (Atom.const n) = refs.count (Atom.const n) :=
        List.count_filter (by simp [isSrcVar])
      simp only [A1, List.count_append, e2, e3]
      omega
    | var j =>
      by_cases hj : j ∈ S.src
      · have e1 : (S.src.map Atom.var).count (Atom.var j) = 1 := by
          rw [count_map_var, hp.hsrc.count]; simp [hj]
        have e2 := count_var_replicates c S.src hp.hsrc j
        simp only [hj, if_true] at e2
        have e3 : (refs.filter (fun a => !isSrcVar S a)).count (Atom.var j) = 0 :=
          List.count_eq_zero_of_not_mem (by
            intro hm
            have := (List.mem_filter.mp hm).2
            simp [isSrcVar, hj] at this)
        have hcj : c j = refs.count (Atom.var j) - 1 := rfl
        simp only [A1, List.count_append, e2, e3]
        omega
      · have e1 : (S.src.map Atom.var).count (Atom.var j) = 0 := by
          rw [count_map_var]; exact List.count_eq_zero_of_not_mem hj
        have e2 := count_var_replicates c S.src hp.hsrc j
        simp only [hj, if_false] at e2
        have e3 : (refs.filter (fun a => !isSrcVar S a)).count (Atom.var j) = refs.count (Atom.var j) :=
          List.count_filter (by simp [isSrcVar, hj])
        simp only [A1, List.count_append, e2, e3]
        omega
  have hA2 : ∀ x, A2.count x ≤ pp.count x := by
    intro x
    by_cases hx : x ∈ A2
    · obtain ⟨i, hi, rfl⟩ := List.mem_map.mp hx
      obtain ⟨_, hzero⟩ := List.mem_filter.mp hi
      have hzero' : refs.count (Atom.var i) = 0 := by simpa using hzero
      have hsub : A2.count (Atom.var i) ≤ (S.src.map Atom.var).count (Atom.var i) :=
        ((List.filter_sublist).map Atom.var).count_le _
      have hc := hcons (Atom.var i)
      have hz := hcs0 (Atom.var i)
      have hfin0 : (st'.stack.map (resolve S)).count (Atom.var i) = 0 := by
        apply List.count_eq_zero_of_not_mem
        intro hm
        have hm' : Atom.var i ∈ refs := by
          simp only [refs, refsOf, List.map_append, List.mem_append]
          left; left; rw [← hfin]; exact hm
        exact (List.count_eq_zero.mp hzero') hm'
      have hcsz : (csOf S st'.done).count (Atom.var i) = 0 := by
        apply List.count_eq_zero_of_not_mem
        intro hm
        exact (List.count_eq_zero.mp hzero') (cs_sub_refs S nd hp st'.done _ hm)
      omega
    · rw [List.count_eq_zero_of_not_mem hx]; omega
  have hl1 := length_le_of_count_le A1 cr hA1
  have hl2 := length_le_of_count_le A2 pp hA2
  have hA1len : A1.length = (refs.filter (fun a => !isSrcVar S a)).length + (S.src.map c).sum := by
    simp only [A1, List.length_append, List.length_flatMap, List.length_replicate]
  have hA2len : A2.length = (S.src.filter fun i => refs.count (.var i) == 0).length := by
    simp only [A2, List.length_map]
  have hb : minInstrWith S nd = S.stores.length + (refs.filter (fun a => !isSrcVar S a)).length
      + (S.src.map c).sum + (S.src.filter fun i => refs.count (.var i) == 0).length := rfl
  rw [hb]
  omega

/-- the bound as the driver computes it, with the operations in the order `neededOf` reaches them -/
theorem min_length_le (S : Spec) (ids : List String) (st' : RunSt)
    (hok : minLenOk S (neededOf S) = true) (hr : realizes S ids = .ok st') : minInstr S ≤ ids.length :=
  min_length_with S (neededOf S) ids st' hok hr

/-! ### the premises are met by a specification the front end emits, and the bound is attained -/

/-- the specification of `PUSH 5 DUP2 ADD PUSH 5 SWAP2 MSTORE PUSH0 DUP1` as the front end emits it -/
def exSpec : Spec :=
  { src := ["s(0)"], tgt := [.var "s(4)", .var "s(4)", .var "s(5)"],
    instrs := [{ id := "ADD_0", op := "ADD", sym := "", inp := [.var "s(0)", .var "s(5)"], out := some "s(3)", comm := true },
               { id := "MSTORE_0", op := "MSTORE", sym := "", inp := [.var "s(0)", .var "s(3)"], out := none },
               { id := "PUSH0_0", op := "PUSH0", sym := "0", inp := [], out := some "s(4)" },
               { id := "PUSH_1", op := "PUSH", sym := "5", inp := [], out := some "s(5)" }],
    deps := [] }

example : minLenOk exSpec (neededOf exSpec) = true := by decide +kernel
example : minInstr exSpec = 7 := by decide +kernel
-- a realizing sequence exists (so the theorem's hypothesis is satisfiable); `realizes` works on identifier strings the
-- kernel does not reduce (`String.toNat?`), so this line is a test run by the evaluator, not a theorem
#guard (match realizes exSpec ["PUSH_1", "DUP2", "ADD_0", "SWAP1", "MSTORE_0", "PUSH_1", "PUSH0_0", "DUP1"] with
  | .ok _ => true | .error _ => false)

end GasolVerif.Spec
