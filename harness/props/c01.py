"""C01 — optimized blocks are observationally equivalent to the original."""
import random, time
from collections import Counter
import common, e2e, gen

THEOREMS = ["equiv_norm3_sound", "symExec_conc", "equivSeg_sound", "ObsEq.append", "norm3_sound"]


def run(tier):
    sd = common.seed()
    rng = random.Random(sd * 7919 + 1)
    po = common.proof_obligations("GasolVerif.Proofs.NormSound", THEOREMS)
    violations = []
    for b in po["broken"]:
        violations.append({"kind": "broken-proof-obligation", "what": b, "no_failing_input": True, "input": b})
    n = 420 if tier == "quick" else 6000
    blocks = gen.blocks(sd * 1000003 + 17, n)
    osets = e2e.OPTION_SETS_QUICK
    runs = e2e.run_optimize(blocks, osets, assign="rotate" if tier == "quick" else "all")
    # systematic streams: the neighbourhood of the rewrite rules and constant folding on boundary operands
    rc, fc, mc = gen.rule_corpus(), gen.fold_corpus(), gen.mem_pair_corpus()
    if tier == "quick":
        rc, fc, mc = rng.sample(rc, 250), rng.sample(fc, 300), rng.sample(mc, 300)
    runs += e2e.run_optimize(rc + fc + mc + gen.store_of_load_corpus() + gen.hash_pair_corpus() + gen.dead_load_corpus() + gen.overwritten_store_corpus() + gen.cross_region_corpus() + gen.deep_stack_blocks(sd * 23 + 2, 60 if tier == "quick" else 800), [["-greedy"]] if tier == "quick" else [["-greedy"], ["-greedy", "-size"]], assign="all")
    c = Counter()
    pairs = []
    lens = Counter()
    for text, opts, e, st in runs:
        if e is None:
            c["run:" + st.split(":")[0]] += 1
            if st in ("timeout", "worker-died"):
                c["tool-failures"] += 1
            continue
        c["blocks"] += 1
        if "unsupported" in e:
            c["unsupported-vocabulary"] += 1
            continue
        if "out_tokens" not in e:
            c["no-output"] += 1
            continue
        lens[min(len(e["in_items"]) // 5 * 5, 40)] += 1
        if e["out_tokens"] == e["in_tokens"]:
            c["unchanged"] += 1
            continue
        pairs.append({"text": text, "opts": opts, "in_tokens": e["in_tokens"], "out_tokens": e["out_tokens"],
                      "need": e["need"], "reverted": not e.get("eq", True)})
    e2e.judge_pairs(pairs, 24 if tier == "quick" else 48, rng)
    samples = []
    for p in pairs:
        c[p["verdict"]] += 1
        if p["verdict"] == "diff":
            violations.append({"kind": "emitted-block-differs", "input": p["text"], "options": p["opts"],
                               "what": "%s => %s: %s" % (p["text"], p["out_tokens"], p["detail"]),
                               "emitted": p["out_tokens"], "state": p["state"], "detail": p["detail"],
                               "how_to_replay": "./check C01 --replay <this file>"})
        elif p["verdict"] in ("inconsistent", "error"):
            raise common.MachineryError("validator/driver inconsistency on %s => %s: %s" % (p["text"], p["out_tokens"], p.get("detail")))
        if len(samples) < 5 and p["verdict"] == "proved":
            samples.append({"input": p["text"], "options": p["opts"], "emitted": p["out_tokens"], "verdict": p["verdict"]})
    cov = {
        "obligations": po["obligations"], "discharged": po["discharged"],
        "checker_cmd": "cd lean && lake build GasolVerif gvdrv && #print axioms on " + ", ".join(THEOREMS),
        "trusted_base": ["Lean 4.33 kernel", "axioms: propext, Classical.choice, Quot.sound",
                         "lean/GasolVerif/Evm.lean as EVM semantics (no gas, MSIZE, PC)",
                         "harness/vocab.py token glue", "compiled gvdrv runs the same definitions the theorems are about"],
        "axioms": po["axioms"],
        "programs": c["blocks"], "changed_by_optimizer": len(pairs),
        "validated_by_proved_validator": c["proved"], "validator_undecided_concretely_tested": c["tested"],
        "disagreements_checked": c["diff"],
        "evaluations": c["blocks"], "distinct_nontrivial": len({p["text"] for p in pairs}),
        "rule": "seeded block grammar (harness/gen.py, profiles mixed/mem/arith/stack) x option sets %s; "
                "non-trivial = the optimizer emitted a block different from its input" % osets,
        "samples": samples or [{"input": blocks[0]}],
        "counters": dict(c), "input_length_histogram": {str(k): v for k, v in sorted(lens.items())},
    }
    return {"level": "translation_validation", "coverage": cov, "violations": violations,
            "assumptions": ["EVM model without gas/MSIZE/PC; external operations are an uninterpreted oracle on the whole state",
                            "a pair the validator cannot decide is executed concretely from boundary states (search, not proof)"]}


def replay(v):
    import drv
    req = "EXEC2\t%d\t%s\t%s\t%s" % (v["state"]["seed"], v["state"]["stack"], None, None)
    runs = e2e.run_optimize([v["input"]], [v["options"]])
    for text, opts, e, st in runs:
        if e is None or "out_tokens" not in e:
            print("real code:", st)
            continue
        o = drv.batch(["EXEC2\t%d\t%s\t%s\t%s" % (v["state"]["seed"], v["state"]["stack"], e["in_tokens"], e["out_tokens"])])[0]
        print("input  :", e["in_tokens"])
        print("emitted:", e["out_tokens"])
        print("Lean EVM from recorded state:", o)
        return 1 if o.startswith("diff") else 0
    return 2
