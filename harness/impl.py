"""In-process adapters around the real gasol-optimizer code (runs under /venv/bin/python).

Everything here calls the code under /repo (or $GASOL_REPO) at the observation points
named in the properties; nothing is re-implemented.
"""
import os, sys, io, contextlib, argparse, importlib

REPO = os.environ.get("GASOL_REPO", "/repo")
if REPO not in sys.path:
    sys.path.insert(0, REPO)

# hook guard (reserved; the harness needs no source hooks)
os.environ.setdefault("GASOL_VERIF", "1")

_silent = io.StringIO()


@contextlib.contextmanager
def quiet():
    if os.environ.get("VERIF_DEBUG"):
        yield
        return
    old = sys.stdout
    sys.stdout = io.StringIO()
    try:
        yield
    finally:
        sys.stdout = old


with quiet():
    import gasol_asm
    import global_params.constants as constants
    import global_params.paths as paths
    from global_params.options import OptimizationParams
    from sfs_generator.parser_asm import parse_blocks_from_plain_instructions
    import sfs_generator.ir_block as ir_block
    import sfs_generator.gasol_optimization as gopt

# stand-in solver: the bundled bin/z3 is an emptied file in this sandbox
if os.path.exists("/usr/bin/z3"):
    paths.z3_exec = "/usr/bin/z3"
    try:
        import smt_encoding.solver.z3_executable as _z3e
        if hasattr(_z3e, "z3_exec"):
            _z3e.z3_exec = "/usr/bin/z3"
    except Exception:
        pass

_DEFAULT_SPLIT = set(constants.split_block)


def make_params(opts=(), input_file="verif_block.txt"):
    """Build OptimizationParams exactly as main_gasol does, from a CLI option list."""
    ap = argparse.ArgumentParser()
    gasol_asm.options_gasol(ap)
    args = ap.parse_args([input_file, "-bl"] + list(opts))
    p = OptimizationParams()
    p.parse_args(args)
    return p


def apply_globals(params):
    """The process-wide settings execute_gasol applies before any block is processed."""
    constants.split_block = set(_DEFAULT_SPLIT)
    if params.split_storage:
        constants.append_store_instructions_to_split()
    constants._set_push0(params.push0)
    gasol_asm.init()


def parse_block(text):
    with quiet():
        bs = parse_blocks_from_plain_instructions(text)
    return bs


def optimize_block(block, params):
    """optimize_asm_block_asm_format followed by the keep-or-revert decision of
    optimize_isolated_asm_block / optimize_asm_contract. Returns dict."""
    out = {}
    with quiet():
        new_block, log, stats = gasol_asm.optimize_asm_block_asm_format(block, params)
        out["candidate"] = new_block
        out["log"] = log
        out["stats"] = stats
        eq, reason = gasol_asm.compare_asm_block_asm_format(block, new_block, params)
    out["eq"] = eq
    out["reason"] = reason
    out["final"] = new_block if eq else block
    return out


def items(block):
    return [(i.disasm, i.value) for i in block.instructions]
