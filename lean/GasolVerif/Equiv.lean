/-
  (V) The equivalence validator: `equivBlock nf B B' = true → ObsEq B B'` for every normaliser `nf`
  that preserves evaluation.  Blocks are cut at external operations; the pure segments are compared
  through symbolic execution and normalisation, the external operations must coincide.
-/
import GasolVerif.SymExec
import GasolVerif.Norm
namespace GasolVerif

/-- a normaliser preserves the value of every term, at the sort it is used at, under well-formed
    environments -/
structure NormSound (nf : Normaliser) : Prop where
  w : ∀ (e : Env) (σ : St) (t : Tm), e.wf → evalW e σ (nf.w t) = evalW e σ t
  m : ∀ (e : Env) (σ : St) (t : Tm), e.wf → evalM e σ (nf.m t) = evalM e σ t
  s : ∀ (e : Env) (σ : St) (t : Tm), e.wf → evalS e σ (nf.s t) = evalS e σ t

def equivSeg (nf : Normaliser) (B B' : List Instr) : Bool :=
  match symExec B .init, symExec B' .init with
  | some S, some S' =>
    let S'' := S'.ensure (S'.stk.length + (S.base - S'.base))
    decide (S'.base ≤ S.base) && (S.stk.map nf.w == S''.stk.map nf.w) &&
      (nf.m S.mem == nf.m S'.mem) && (nf.s S.sto == nf.s S'.sto)
  | _, _ => false

def Instr.isExt : Instr → Bool
  | .ext _ _ _ => true
  | _ => false

def equivBlock (nf : Normaliser) : Nat → List Instr → List Instr → Bool
  | 0, _, _ => false
  | fuel + 1, B, B' =>
    let p := B.takeWhile (fun i => !i.isExt)
    let r := B.dropWhile (fun i => !i.isExt)
    let p' := B'.takeWhile (fun i => !i.isExt)
    let r' := B'.dropWhile (fun i => !i.isExt)
    equivSeg nf p p' &&
      match r, r' with
      | [], [] => true
      | x :: t, x' :: t' => x == x' && equivBlock nf fuel t t'
      | _, _ => false

/-- the validator: enough fuel for every cut -/
def equiv (nf : Normaliser) (B B' : List Instr) : Bool := equivBlock nf (B.length + 1) B B'

theorem map_eq_of_nf_eq {nf : Normaliser} (hn : NormSound nf) (e : Env) (we : e.wf) (σ : St) :
    ∀ (l₁ l₂ : List Tm), l₁.map nf.w = l₂.map nf.w → l₁.map (evalW e σ) = l₂.map (evalW e σ)
  | [], [], _ => rfl
  | [], _ :: _, h => by simp at h
  | _ :: _, [], h => by simp at h
  | a :: l₁, b :: l₂, h => by
    simp only [List.map_cons, List.cons.injEq] at h ⊢
    refine ⟨?_, map_eq_of_nf_eq hn e we σ l₁ l₂ h.2⟩
    rw [← hn.w e σ a we, ← hn.w e σ b we, h.1]

theorem equivSeg_sound {nf : Normaliser} (hn : NormSound nf) (B B' : List Instr)
    (h : equivSeg nf B B' = true) : ObsEq B B' := by
  intro e we σ σ' hx
  unfold equivSeg at h
  cases hS : symExec B .init with
  | none => simp [hS] at h
  | some S =>
    cases hS' : symExec B' .init with
    | none => simp [hS, hS'] at h
    | some S' =>
      simp only [hS, hS', Bool.and_eq_true, decide_eq_true_eq, beq_iff_eq] at h
      obtain ⟨⟨⟨hb, hstk⟩, hmem⟩, hsto⟩ := h
      have h0 : SymSt.init.base ≤ σ.stack.length := by simp [SymSt.init]
      have e1 := symExec_conc e σ B .init S h0 hS
      have e2 := symExec_conc e σ B' .init S' h0 hS'
      rw [conc_init] at e1 e2
      rw [e1] at hx
      by_cases hbase : S.base ≤ σ.stack.length
      · simp only [hbase, if_true, Option.some.injEq] at hx
        have hbase' : S'.base ≤ σ.stack.length := Nat.le_trans hb hbase
        rw [e2]
        simp only [hbase', if_true, Option.some.injEq]
        rw [← hx]
        have hens : (S'.ensure (S'.stk.length + (S.base - S'.base))).base = S.base := by
          simp [ensure_base]; omega
        have hc := ensure_conc e σ (S'.stk.length + (S.base - S'.base)) S' (by rw [hens]; exact hbase)
        rw [← hc]
        simp only [SymSt.conc, ensure_mem, ensure_sto, hens]
        have hm : evalM e σ S'.mem = evalM e σ S.mem := by
          rw [← hn.m e σ S'.mem we, ← hn.m e σ S.mem we, hmem]
        have hs : evalS e σ S'.sto = evalS e σ S.sto := by
          rw [← hn.s e σ S'.sto we, ← hn.s e σ S.sto we, hsto]
        rw [hm, hs, map_eq_of_nf_eq hn e we σ _ _ hstk]
      · simp [hbase] at hx

theorem equivBlock_sound {nf : Normaliser} (hn : NormSound nf) :
    ∀ (fuel : Nat) (B B' : List Instr), equivBlock nf fuel B B' = true → ObsEq B B'
  | 0, _, _, h => by simp [equivBlock] at h
  | fuel + 1, B, B', h => by
    simp only [equivBlock, Bool.and_eq_true] at h
    obtain ⟨hseg, hrest⟩ := h
    have hp := equivSeg_sound hn _ _ hseg
    rw [← List.takeWhile_append_dropWhile (p := fun i => !i.isExt) (l := B),
        ← List.takeWhile_append_dropWhile (p := fun i => !i.isExt) (l := B')]
    apply ObsEq.append hp
    generalize B.dropWhile (fun i => !i.isExt) = r at hrest
    generalize B'.dropWhile (fun i => !i.isExt) = r' at hrest
    match r, r', hrest with
    | [], [], _ => exact ObsEq.refl _
    | x :: t, x' :: t', hrest =>
      simp only [Bool.and_eq_true, beq_iff_eq] at hrest
      obtain ⟨hxx, ht⟩ := hrest
      subst hxx
      have := equivBlock_sound hn fuel t t' ht
      exact ObsEq.append (A := [x]) (A' := [x]) (ObsEq.refl _) this
    | [], _ :: _, hrest => simp at hrest
    | _ :: _, [], hrest => simp at hrest

theorem equiv_sound {nf : Normaliser} (hn : NormSound nf) (B B' : List Instr)
    (h : equiv nf B B' = true) : ObsEq B B' :=
  equivBlock_sound hn _ B B' h

end GasolVerif
