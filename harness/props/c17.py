"""C17 — instruction-set restrictions chosen by the user are honoured (PUSH0 flag, contract selection)."""
import json, random
from collections import Counter
import common, docrun, gen, pool, docs, e2e, drv

THEOREMS = ["Cost.costs_append", "Cost.costs_flag", "Cost.saving_flag", "Cost.selection_frame", "Cost.selection_names"]


def run(tier):
    sd = common.seed()
    rng = random.Random(sd * 389 + 29)
    po = common.proof_obligations("GasolVerif.Proofs.FlagSound", THEOREMS)
    violations = [{"kind": "broken-proof-obligation", "what": b, "no_failing_input": True, "input": b} for b in po["broken"]]
    c = Counter()
    # (a) documents with PUSH0 disabled / enabled
    dl = docs.handcrafted()[:4] + docrun.synthesized(sd + 31, 8 if tier == "quick" else 100, ncontracts=2, nblocks=5)
    full = {}
    for flag, opts in (("off", ["-greedy", "-push0"]), ("on", ["-greedy"])):
        for r in docrun.run_docs(dl, opts):
            res = r["res"]
            outname = r["name"].split(".")[0] + "_optimized.json_solc"
            if r["status"] != "ok" or not res or res.get("rc") != 0 or outname not in res["files"]:
                violations.append({"kind": "no-output-file", "input": r["name"], "options": opts, "what": "%s %s: rc %s" % (r["name"], opts, (res or {}).get("rc"))})
                continue
            c["documents"] += 1
            dout = json.loads(res["files"][outname])
            if flag == "on":
                full[r["name"]] = dout
            sin, sout = dict(docrun.code_sections(r["doc"])), dict(docrun.code_sections(dout))
            for path in sin:
                if path not in sout:
                    continue
                for x, y in zip(docrun.blocks_of(sin[path]), docrun.blocks_of(sout[path])):
                    c["blocks"] += 1
                    n_in = sum(1 for it in x if it["name"] == "PUSH0")
                    n_out = sum(1 for it in y if it["name"] == "PUSH0")
                    if flag == "off" and n_out > n_in:
                        violations.append({"kind": "push0-emitted-when-disabled", "input": r["name"], "options": opts,
                                           "what": "%s %s: block has %d PUSH0 items in the output and %d in the input with PUSH0 disabled" % (r["name"], path, n_out, n_in)})
    # (b) plain blocks: the emitted text must not contain PUSH0 when disabled; costs priced with the same flag on both sides
    blocks = gen.blocks(sd * 5 + 40, 200 if tier == "quick" else 3000) + ["PUSH1 0x0 PUSH1 0x0 ADD DUP1", "PUSH1 0x5 PUSH1 0x5 SUB", "DUP1 DUP1 XOR",
                                                                          "PUSH1 0x0 DUP2 MSTORE PUSH1 0x0 DUP1 SSTORE"]
    runs = e2e.run_optimize(blocks, [["-greedy", "-push0"], ["-greedy"]], assign="all")
    reqs, meta = [], []
    for text, opts, e, st in runs:
        if e is None or "out_items" not in e:
            continue
        c["plain-blocks"] += 1
        off = "-push0" in opts
        has_in = any(d == "PUSH0" for d, v in e["in_items"])
        has_out = any(d == "PUSH0" for d, v in e["out_items"])
        if off and (has_out or has_in):
            violations.append({"kind": "push0-emitted-when-disabled", "input": text, "options": opts,
                               "what": "with PUSH0 disabled %s is parsed/emitted with a PUSH0 item: %s" % (text, e["out_items"])})
        if "in_tokens" in e and "out_tokens" in e:
            reqs.append("COST\t%s\t%s" % ("0" if off else "1", e["in_tokens"])); meta.append((text, opts, e, "in"))
            reqs.append("COST\t%s\t%s" % ("0" if off else "1", e["out_tokens"])); meta.append((text, opts, e, "out"))
    for o, (text, opts, e, side) in zip(drv.batch(reqs), meta):
        tool = e["cost_in"] if side == "in" else e["cost_out"]
        c["cost-comparisons"] += 1
        toks = e["in_tokens"] if side == "in" else e["out_tokens"]
        ref = o.split()
        # the tool's block-level gas counts repeated storage/account accesses as warm: gas is compared only where that cannot matter
        if any(x in toks.split() for x in ("SLOAD", "SSTORE", "E1:BALANCE", "E1:EXTCODESIZE", "E1:EXTCODEHASH")) or "X:EXTCODECOPY" in toks:
            ref, toolv = ref[1:], [str(x) for x in tool][1:]
        else:
            toolv = [str(x) for x in tool]
        if ref != toolv:
            violations.append({"kind": "push0-pricing-inconsistent", "input": text, "options": opts,
                               "what": "%s side of %s under %s: tool prices (gas,bytes,len)=%s, reference with the same flag %s" % (side, text, opts, tool, o)})
    # (c) contract selection
    for name, d in dl[4:8]:
        for cname in [k for k, v in d["contracts"].items() if v.get("asm")][:2]:
            short = cname.split("/")[-1].split(":")[-1]
            r = docrun.run_docs([(name, d)], ["-greedy", "-c", short])[0]
            res = r["res"]
            outname = name.split(".")[0] + "_optimized.json_solc"
            c["contract-selections"] += 1
            if r["status"] != "ok" or not res or res.get("rc") != 0 or outname not in res["files"]:
                violations.append({"kind": "no-output-file", "input": name, "options": ["-c", short], "what": "-c %s on %s: rc %s %s" % (short, name, (res or {}).get("rc"), ((res or {}).get("stderr_tail") or "")[-200:])})
                continue
            single = json.loads(res["files"][outname])
            want = full.get(name, {}).get("contracts", {}).get(cname, {}).get("asm")
            if single != want:
                violations.append({"kind": "contract-selection-changes-result", "input": name, "options": ["-c", short],
                                   "what": "the output of -c %s on %s is not the selected contract's optimized assembly of the full run" % (short, name)})
    cov = {"evaluations": c["blocks"] + c["plain-blocks"] + c["contract-selections"], "distinct_nontrivial": c["blocks"] + c["plain-blocks"],
           "obligations": po["obligations"], "discharged": po["discharged"],
           "rule": "documents and plain blocks run with PUSH0 disabled and enabled: PUSH0 items may not appear when disabled; the tool's gas/bytes/"
                   "length of input and output are compared with the Lean reference computed with the same flag; -c <contract> must yield exactly "
                   "that contract's assembly of the full run",
           "samples": [{"document": dl[0][0]}], "counters": dict(c)}
    cov.update({"axioms": po["axioms"], "programs": c["plain-blocks"] + c["blocks"], "disagreements_checked": c["cost-comparisons"],
                "checker_cmd": "cd lean && lake build GasolVerif gvdrv; #print axioms " + ", ".join(THEOREMS),
                "trusted_base": ["Lean 4.33 kernel", "axioms: propext, Classical.choice, Quot.sound",
                                 "Models/Cost.lean as the reference price list (tied to the tool by the cost comparison on every input and output block, both flag values)",
                                 "emission of PUSH0 and the contract filter are observed on real runs, not modelled"]})
    return {"level": "translation_validation", "coverage": cov, "violations": violations,
            "assumptions": ["pricing clause: Cost.costs_flag / saving_flag (kernel-checked) say what the flag may change in the reference cost; the tool's "
                            "costs are compared with that reference under the same flag on every block; emission and contract selection are differential "
                            "observations of real runs (selection_frame states the contract on a model of the filter only)"]}


def replay(v):
    print(v.get("what"))
    return 1
