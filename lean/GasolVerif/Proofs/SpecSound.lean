/-
  C02: non-conflicting operations of a specification commute, hence (schedule_indep) every two
  admissible schedules of a specification whose conflicting operations are all ordered compute the
  same loaded values, memory and storage.
-/
import GasolVerif.Models.SpecSem
import GasolVerif.Proofs.Schedule
import GasolVerif.Proofs.NormSound
set_option linter.unusedSimpArgs false
set_option linter.unusedVariables false
namespace GasolVerif.Spec
open GasolVerif.Norm

variable (e : GasolVerif.Env) (σ₀ : St)

/-- a pure term that does not mention the load of `o` is not affected by that load -/
theorem evalW_setLv (lv : String → Option Word) (o : String) (w : Word) (t : Tm)
    (hp : isPure t = true) (hu : usesLoad o t = false) :
    evalW (withLoads e (setLv lv o w)) σ₀ t = evalW (withLoads e lv) σ₀ t := by
  induction t with
  | sym s =>
    simp only [usesLoad, beq_eq_false_iff_ne, ne_eq] at hu
    simp [evalW, withLoads, setLv, hu]
  | const w' => simp [evalW]
  | var i => simp [evalW]
  | env0 n => simp [evalW, withLoads]
  | env1 n a iha =>
    simp only [isPure] at hp; simp only [usesLoad] at hu
    have := iha hp hu
    simp only [evalW, this]
    rfl
  | un op a iha =>
    simp only [isPure] at hp; simp only [usesLoad] at hu
    simp [evalW, iha hp hu]
  | bin op a b iha ihb =>
    simp only [isPure, Bool.and_eq_true] at hp; simp only [usesLoad, Bool.or_eq_false_iff] at hu
    simp [evalW, iha hp.1 hu.1, ihb hp.2 hu.2]
  | ter op a b c iha ihb ihc =>
    simp only [isPure, Bool.and_eq_true] at hp; simp only [usesLoad, Bool.or_eq_false_iff] at hu
    simp [evalW, iha hp.1.1 hu.1.1, ihb hp.1.2 hu.1.2, ihc hp.2 hu.2]
  | _ => simp [isPure] at hp

/-- value of an argument term in a concrete scheduled state -/
abbrev ev (c : CSt) (t : Tm) : Word := evalW (withLoads e c.lv) σ₀ t

theorem ev_setLv (c : CSt) (o : String) (w : Word) (t : Tm) (hp : isPure t = true) (hu : usesLoad o t = false) :
    evalW (withLoads e (setLv c.lv o w)) σ₀ t = ev e σ₀ c t := evalW_setLv e σ₀ c.lv o w t hp hu

theorem setLv_comm (lv : String → Option Word) (o o' : String) (w w' : Word) (h : o ≠ o') :
    setLv (setLv lv o' w') o w = setLv (setLv lv o w) o' w' := by
  funext s
  simp only [setLv, loadSym]
  by_cases h1 : s = o <;> by_cases h2 : s = o'
  · subst h1; subst h2; exact absurd rfl h
  · have : ¬ o = o' := h
    simp [h1, h2, this]
  · have : ¬ o' = o := fun hh => h hh.symm
    simp [h1, h2, this]
  · simp [h1, h2]

theorem disj_symm {A sa B sb : Nat} (h : Disj A sa B sb) : Disj B sb A sa := by
  unfold Disj at *; omega

theorem disjoint_either (a : Tm) (sa : Nat) (b : Tm) (sb : Nat) (c : CSt)
    (h : (disjoint a sa b sb || disjoint b sb a sa) = true) :
    Disj (ev e σ₀ c a).toNat sa (ev e σ₀ c b).toNat sb := by
  simp only [Bool.or_eq_true] at h
  rcases h with h | h
  · exact disjoint_sound (withLoads e c.lv) σ₀ a sa b sb h
  · exact disj_symm (disjoint_sound (withLoads e c.lv) σ₀ b sb a sa h)

theorem readWord_writeWord_disj (m : Mem) (A B : Nat) (w : Word) (h : Disj A 32 B 32) :
    (m.writeWord B w).readWord A = m.readWord A := by
  apply Mem.readWord_congr
  intro i hi
  unfold Disj at h
  exact Mem.writeWord_out m B w (A + i) (by omega)

theorem readWord_writeByte_disj (m : Mem) (A B : Nat) (w : Word) (h : Disj A 32 B 1) :
    (m.writeByte B w).readWord A = m.readWord A := by
  apply Mem.readWord_congr
  intro i hi
  unfold Disj at h
  simp only [Mem.writeByte]
  split
  · omega
  · rfl

theorem keccak_writeWord_disj (we : e.wf) (m : Mem) (A n B : Nat) (w : Word) (h : Disj A n B 32) :
    e.keccak n (fun i => (m.writeWord B w) (A + i)) = e.keccak n (fun i => m (A + i)) := by
  apply we.keccak_ext
  intro i hi
  unfold Disj at h
  exact Mem.writeWord_out m B w (A + i) (by omega)

theorem keccak_writeByte_disj (we : e.wf) (m : Mem) (A n B : Nat) (w : Word) (h : Disj A n B 1) :
    e.keccak n (fun i => (m.writeByte B w) (A + i)) = e.keccak n (fun i => m (A + i)) := by
  apply we.keccak_ext
  intro i hi
  unfold Disj at h
  simp only [Mem.writeByte]
  split
  · omega
  · rfl

theorem constLen_eval (len : Tm) (n : Nat) (h : constLen? len = some n) (c : CSt) :
    (ev e σ₀ c len).toNat = n := by
  unfold constLen? at h
  split at h
  · simp at h; subst h; simp [ev, evalW]
  · simp at h

/-- **non-conflicting operations commute** in every concrete state -/
theorem actEff_comm_core (we : e.wf) (f g : Eff) (hf : f.wf = true) (hg : g.wf = true) (hc : conflCore f g = false) (c : CSt) :
    actEff e σ₀ f (actEff e σ₀ g c) = actEff e σ₀ g (actEff e σ₀ f c) := by
  cases f <;> cases g <;>
    simp only [conflCore, flows, Eff.out?, Eff.args, Eff.memAcc, Eff.stoAcc, Eff.wf, List.any_cons, List.any_nil,
      List.all_cons, List.all_nil, Bool.or_false, Bool.and_true, Bool.or_eq_false_iff, Bool.and_eq_true,
      Bool.false_or, Bool.true_and, Bool.not_eq_false', Bool.true_or, Bool.false_and, beq_eq_false_iff_ne, ne_eq] at hc hf hg <;>
    simp only [actEff]
  -- stores against stores
  case wmem.wmem a v b w =>
    have := disjoint_either e σ₀ a 32 b 32 c hc
    rw [writeWord_comm _ _ _ _ _ this]
  case wmem.bmem a v b w =>
    have := disjoint_either e σ₀ a 32 b 1 c hc
    rw [writeWord_writeByte_comm _ _ _ _ _ this]
  case bmem.wmem a v b w =>
    have := disj_symm (disjoint_either e σ₀ a 1 b 32 c hc)
    rw [writeWord_writeByte_comm _ _ _ _ _ this]
  case bmem.bmem a v b w =>
    have := disjoint_either e σ₀ a 1 b 1 c hc
    rw [writeByte_comm _ _ _ _ _ this]
  case wsto.wsto k v j w =>
    have := keysDiffer_sound (withLoads e c.lv) σ₀ k j hc
    rw [stoWrite_comm _ _ _ _ _ this]
  -- a store after / before a load of the same space
  case wmem.rmem a v o b =>
    obtain ⟨⟨h1, h2⟩, h3⟩ := hc
    have hd := disjoint_either e σ₀ a 32 b 32 c h3
    simp only [evalW_setLv e σ₀ c.lv o _ a hf.1 h1, evalW_setLv e σ₀ c.lv o _ v hf.2 h2]
    rw [readWord_writeWord_disj _ _ _ _ (disj_symm hd)]
  case rmem.wmem o b a v =>
    obtain ⟨⟨h1, h2⟩, h3⟩ := hc
    have hd := disjoint_either e σ₀ b 32 a 32 c h3
    simp only [evalW_setLv e σ₀ c.lv o _ a hg.1 h1, evalW_setLv e σ₀ c.lv o _ v hg.2 h2]
    rw [readWord_writeWord_disj _ _ _ _ hd]
  case bmem.rmem a v o b =>
    obtain ⟨⟨h1, h2⟩, h3⟩ := hc
    have hd := disjoint_either e σ₀ a 1 b 32 c h3
    simp only [evalW_setLv e σ₀ c.lv o _ a hf.1 h1, evalW_setLv e σ₀ c.lv o _ v hf.2 h2]
    rw [readWord_writeByte_disj _ _ _ _ (disj_symm hd)]
  case rmem.bmem o b a v =>
    obtain ⟨⟨h1, h2⟩, h3⟩ := hc
    have hd := disjoint_either e σ₀ b 32 a 1 c h3
    simp only [evalW_setLv e σ₀ c.lv o _ a hg.1 h1, evalW_setLv e σ₀ c.lv o _ v hg.2 h2]
    rw [readWord_writeByte_disj _ _ _ _ hd]
  case wsto.rsto k v o j =>
    obtain ⟨⟨h1, h2⟩, h3⟩ := hc
    have hd := keysDiffer_sound (withLoads e c.lv) σ₀ k j h3
    simp only [evalW_setLv e σ₀ c.lv o _ k hf.1 h1, evalW_setLv e σ₀ c.lv o _ v hf.2 h2]
    have : (c.sto.write (evalW (withLoads e c.lv) σ₀ k) (evalW (withLoads e c.lv) σ₀ v)) (evalW (withLoads e c.lv) σ₀ j)
        = c.sto (evalW (withLoads e c.lv) σ₀ j) := by
      simp only [Sto.write]; split
      · rename_i hh; exact absurd hh.symm hd
      · rfl
    rw [this]
  case rsto.wsto o j k v =>
    obtain ⟨⟨h1, h2⟩, h3⟩ := hc
    have hd := keysDiffer_sound (withLoads e c.lv) σ₀ j k h3
    simp only [evalW_setLv e σ₀ c.lv o _ k hg.1 h1, evalW_setLv e σ₀ c.lv o _ v hg.2 h2]
    have : (c.sto.write (evalW (withLoads e c.lv) σ₀ k) (evalW (withLoads e c.lv) σ₀ v)) (evalW (withLoads e c.lv) σ₀ j)
        = c.sto (evalW (withLoads e c.lv) σ₀ j) := by
      simp only [Sto.write]; split
      · rename_i hh; exact absurd hh hd
      · rfl
    rw [this]
  -- a store and a load of the other space: only the store's arguments have to ignore the load
  case wmem.rsto a v o k => simp only [evalW_setLv e σ₀ c.lv o _ a hf.1 hc.1, evalW_setLv e σ₀ c.lv o _ v hf.2 hc.2]
  case bmem.rsto a v o k => simp only [evalW_setLv e σ₀ c.lv o _ a hf.1 hc.1, evalW_setLv e σ₀ c.lv o _ v hf.2 hc.2]
  case wsto.rmem k v o a => simp only [evalW_setLv e σ₀ c.lv o _ k hf.1 hc.1, evalW_setLv e σ₀ c.lv o _ v hf.2 hc.2]
  case wsto.hmem k v o a l => simp only [evalW_setLv e σ₀ c.lv o _ k hf.1 hc.1, evalW_setLv e σ₀ c.lv o _ v hf.2 hc.2]
  case rsto.wmem o k a v => simp only [evalW_setLv e σ₀ c.lv o _ a hg.1 hc.1, evalW_setLv e σ₀ c.lv o _ v hg.2 hc.2]
  case rsto.bmem o k a v => simp only [evalW_setLv e σ₀ c.lv o _ a hg.1 hc.1, evalW_setLv e σ₀ c.lv o _ v hg.2 hc.2]
  case rmem.wsto o a k v => simp only [evalW_setLv e σ₀ c.lv o _ k hg.1 hc.1, evalW_setLv e σ₀ c.lv o _ v hg.2 hc.2]
  case hmem.wsto o a l k v => simp only [evalW_setLv e σ₀ c.lv o _ k hg.1 hc.1, evalW_setLv e σ₀ c.lv o _ v hg.2 hc.2]
  -- two loads into different variables, neither address using the other's result
  case rmem.rmem o a o' b =>
    obtain ⟨⟨h1, h2⟩, h3⟩ := hc
    simp only [evalW_setLv e σ₀ c.lv o' _ a hf h2, evalW_setLv e σ₀ c.lv o _ b hg h1]
    rw [setLv_comm _ _ _ _ _ h3]
  case rmem.rsto o a o' b =>
    obtain ⟨⟨h1, h2⟩, h3⟩ := hc
    simp only [evalW_setLv e σ₀ c.lv o' _ a hf h2, evalW_setLv e σ₀ c.lv o _ b hg h1]
    rw [setLv_comm _ _ _ _ _ h3]
  case rsto.rmem o a o' b =>
    obtain ⟨⟨h1, h2⟩, h3⟩ := hc
    simp only [evalW_setLv e σ₀ c.lv o' _ a hf h2, evalW_setLv e σ₀ c.lv o _ b hg h1]
    rw [setLv_comm _ _ _ _ _ h3]
  case rsto.rsto o a o' b =>
    obtain ⟨⟨h1, h2⟩, h3⟩ := hc
    simp only [evalW_setLv e σ₀ c.lv o' _ a hf h2, evalW_setLv e σ₀ c.lv o _ b hg h1]
    rw [setLv_comm _ _ _ _ _ h3]
  case rmem.hmem o a o' b l =>
    obtain ⟨⟨⟨h1, h1'⟩, h2⟩, h3⟩ := hc
    simp only [evalW_setLv e σ₀ c.lv o' _ a hf h2, evalW_setLv e σ₀ c.lv o _ b hg.1 h1, evalW_setLv e σ₀ c.lv o _ l hg.2 h1']
    rw [setLv_comm _ _ _ _ _ h3]
  case rsto.hmem o a o' b l =>
    obtain ⟨⟨⟨h1, h1'⟩, h2⟩, h3⟩ := hc
    simp only [evalW_setLv e σ₀ c.lv o' _ a hf h2, evalW_setLv e σ₀ c.lv o _ b hg.1 h1, evalW_setLv e σ₀ c.lv o _ l hg.2 h1']
    rw [setLv_comm _ _ _ _ _ h3]
  case hmem.rmem o a l o' b =>
    obtain ⟨⟨h1, ⟨h2, h2'⟩⟩, h3⟩ := hc
    simp only [evalW_setLv e σ₀ c.lv o' _ a hf.1 h2, evalW_setLv e σ₀ c.lv o' _ l hf.2 h2', evalW_setLv e σ₀ c.lv o _ b hg h1]
    rw [setLv_comm _ _ _ _ _ h3]
  case hmem.rsto o a l o' b =>
    obtain ⟨⟨h1, ⟨h2, h2'⟩⟩, h3⟩ := hc
    simp only [evalW_setLv e σ₀ c.lv o' _ a hf.1 h2, evalW_setLv e σ₀ c.lv o' _ l hf.2 h2', evalW_setLv e σ₀ c.lv o _ b hg h1]
    rw [setLv_comm _ _ _ _ _ h3]
  case hmem.hmem o a l o' b m =>
    obtain ⟨⟨⟨h1, h1'⟩, ⟨h2, h2'⟩⟩, h3⟩ := hc
    simp only [evalW_setLv e σ₀ c.lv o' _ a hf.1 h2, evalW_setLv e σ₀ c.lv o' _ l hf.2 h2', evalW_setLv e σ₀ c.lv o _ b hg.1 h1,
      evalW_setLv e σ₀ c.lv o _ m hg.2 h1']
    rw [setLv_comm _ _ _ _ _ h3]
  -- a hash of a constant-length range against a store that cannot touch it
  case wmem.hmem a v o off len =>
    obtain ⟨⟨h1, h2⟩, h3⟩ := hc
    cases hl : constLen? len with
    | none => simp [hl] at h3
    | some n =>
      simp only [hl, Bool.not_eq_false'] at h3
      have hd := disjoint_either e σ₀ a 32 off n c h3
      have hn := constLen_eval e σ₀ len n hl c
      simp only [evalW_setLv e σ₀ c.lv o _ a hf.1 h1, evalW_setLv e σ₀ c.lv o _ v hf.2 h2]
      simp only [ev] at hn hd
      rw [hn, keccak_writeWord_disj e we _ _ _ _ _ (disj_symm hd)]
  case hmem.wmem o off len a v =>
    obtain ⟨⟨h1, h2⟩, h3⟩ := hc
    cases hl : constLen? len with
    | none => simp [hl] at h3
    | some n =>
      simp only [hl, Bool.not_eq_false'] at h3
      have hd := disjoint_either e σ₀ off n a 32 c h3
      have hn := constLen_eval e σ₀ len n hl c
      simp only [evalW_setLv e σ₀ c.lv o _ a hg.1 h1, evalW_setLv e σ₀ c.lv o _ v hg.2 h2]
      simp only [ev] at hn hd
      rw [hn, keccak_writeWord_disj e we _ _ _ _ _ hd]
  case bmem.hmem a v o off len =>
    obtain ⟨⟨h1, h2⟩, h3⟩ := hc
    cases hl : constLen? len with
    | none => simp [hl] at h3
    | some n =>
      simp only [hl, Bool.not_eq_false'] at h3
      have hd := disjoint_either e σ₀ a 1 off n c h3
      have hn := constLen_eval e σ₀ len n hl c
      simp only [evalW_setLv e σ₀ c.lv o _ a hf.1 h1, evalW_setLv e σ₀ c.lv o _ v hf.2 h2]
      simp only [ev] at hn hd
      rw [hn, keccak_writeByte_disj e we _ _ _ _ _ (disj_symm hd)]
  case hmem.bmem o off len a v =>
    obtain ⟨⟨h1, h2⟩, h3⟩ := hc
    cases hl : constLen? len with
    | none => simp [hl] at h3
    | some n =>
      simp only [hl, Bool.not_eq_false'] at h3
      have hd := disjoint_either e σ₀ off n a 1 c h3
      have hn := constLen_eval e σ₀ len n hl c
      simp only [evalW_setLv e σ₀ c.lv o _ a hg.1 h1, evalW_setLv e σ₀ c.lv o _ v hg.2 h2]
      simp only [ev] at hn hd
      rw [hn, keccak_writeByte_disj e we _ _ _ _ _ hd]
  all_goals rfl

/-- **non-conflicting operations commute**: identical operations trivially, all others by `actEff_comm_core` -/
theorem actEff_comm (we : e.wf) (f g : Eff) (hf : f.wf = true) (hg : g.wf = true) (hc : confl f g = false) (c : CSt) :
    actEff e σ₀ f (actEff e σ₀ g c) = actEff e σ₀ g (actEff e σ₀ f c) := by
  by_cases h : f = g
  · subst h; rfl
  · have : conflCore f g = false := by simpa [confl, h] using hc
    exact actEff_comm_core e σ₀ we f g hf hg this c

/-! ### all admissible schedules agree -/

/-- run the operations of a schedule, in order -/
def runSched (S : Spec) (L : List String) (c : CSt) : CSt :=
  runActs (fun id => actEff e σ₀ (effId S id)) L c

/-- two duplicate-free schedules of the same operations that order every conflicting pair alike compute the
    same loaded values, memory and storage -/
theorem sched_indep_of_order (we : e.wf) (S : Spec) (L₁ L₂ : List String) (hnd : L₁.Nodup) (hp : L₁.Perm L₂)
    (hwf : ∀ a, a ∈ L₁ → (effId S a).wf = true)
    (hord : ∀ a b, a ∈ L₁ → b ∈ L₁ → confl (effId S a) (effId S b) = true →
      L₁.idxOf a < L₁.idxOf b → L₂.idxOf a < L₂.idxOf b)
    (c : CSt) : runSched e σ₀ S L₁ c = runSched e σ₀ S L₂ c := by
  unfold runSched
  apply schedule_indep (fun id => actEff e σ₀ (effId S id))
    (fun a b => confl (effId S a) (effId S b) = true ∨ (effId S a).wf = false ∨ (effId S b).wf = false)
  · intro a b hnc s
    have h1 : confl (effId S a) (effId S b) = false := by
      cases h : confl (effId S a) (effId S b) with
      | false => rfl
      | true => exact absurd (Or.inl h) hnc
    have h2 : (effId S a).wf = true := by
      cases h : (effId S a).wf with
      | true => rfl
      | false => exact absurd (Or.inr (Or.inl h)) hnc
    have h3 : (effId S b).wf = true := by
      cases h : (effId S b).wf with
      | true => rfl
      | false => exact absurd (Or.inr (Or.inr h)) hnc
    exact actEff_comm e σ₀ we _ _ h2 h3 h1 s
  · exact hnd
  · exact hp
  · intro a b ha hb hcf hlt
    rcases hcf with h | h | h
    · exact hord a b ha hb h hlt
    · rw [hwf a ha] at h; cases h
    · rw [hwf b hb] at h; cases h

/-- a schedule respects a set of ordering pairs -/
def Respects (L : List String) (edges : List (String × String)) : Prop :=
  ∀ x y, (x, y) ∈ edges → L.idxOf x < L.idxOf y

theorem reach_order (L : List String) (edges : List (String × String)) (hr : Respects L edges) :
    ∀ (fuel : Nat) (a b : String), reach edges fuel a b = true → L.idxOf a < L.idxOf b
  | 0, a, b, h => by simp [reach] at h
  | fuel + 1, a, b, h => by
    simp only [reach, List.any_eq_true, Bool.and_eq_true, beq_iff_eq, Bool.or_eq_true] at h
    obtain ⟨⟨x, y⟩, hmem, hx, hy⟩ := h
    simp only at hx hy
    subst hx
    have h1 := hr x y hmem
    rcases hy with rfl | hy
    · exact h1
    · exact Nat.lt_trans h1 (reach_order L edges hr fuel y b hy)

/-- **C02, schedules**: if every pair of conflicting operations of a specification is connected, one way or the
    other, by the declared dependences and data flow (`edges`), then any two schedules that respect those
    pairs compute the same loaded values, memory and storage from every state -/
theorem admissible_schedules_agree (we : e.wf) (S : Spec) (edges : List (String × String)) (fuel : Nat)
    (L₁ L₂ : List String) (hnd : L₁.Nodup) (hp : L₁.Perm L₂)
    (hwf : ∀ a, a ∈ L₁ → (effId S a).wf = true)
    (hr₁ : Respects L₁ edges) (hr₂ : Respects L₂ edges)
    (hoc : ∀ a b, a ∈ L₁ → b ∈ L₁ → a ≠ b → confl (effId S a) (effId S b) = true →
      reach edges fuel a b = true ∨ reach edges fuel b a = true)
    (c : CSt) : runSched e σ₀ S L₁ c = runSched e σ₀ S L₂ c := by
  apply sched_indep_of_order e σ₀ we S L₁ L₂ hnd hp hwf
  intro a b ha hb hcf hlt
  have hne : a ≠ b := by intro h; subst h; omega
  rcases hoc a b ha hb hne hcf with h | h
  · exact reach_order L₂ edges hr₂ fuel a b h
  · have := reach_order L₁ edges hr₁ fuel b a h
    omega

theorem respectsB_sound (L : List String) (edges : List (String × String)) (h : respectsB L edges = true) :
    Respects L edges := by
  intro x y hm
  simp only [respectsB, List.all_eq_true] at h
  have := h (x, y) hm
  simpa using this

/-- the executable check discharges the premises: **whenever `conflictsOrdered` and `respectsB` answer true,
    the two schedules compute the same state** -/
theorem checked_schedules_agree (we : e.wf) (S : Spec) (edges : List (String × String)) (fuel : Nat)
    (L₁ L₂ : List String) (hnd : L₁.Nodup) (hp : L₁.Perm L₂)
    (hco : conflictsOrdered S edges fuel L₁ = true)
    (hr₁ : respectsB L₁ edges = true) (hr₂ : respectsB L₂ edges = true) (c : CSt) :
    runSched e σ₀ S L₁ c = runSched e σ₀ S L₂ c := by
  simp only [conflictsOrdered, Bool.and_eq_true, List.all_eq_true, Bool.or_eq_true, Bool.not_eq_true'] at hco
  apply admissible_schedules_agree e σ₀ we S edges fuel L₁ L₂ hnd hp
  · intro a ha; exact hco.1 a ha
  · exact respectsB_sound L₁ edges hr₁
  · exact respectsB_sound L₂ edges hr₂
  · intro a b ha hb hne hcf
    rcases hco.2 a ha b hb with ((h | h) | h) | h
    · exact absurd (by simpa using h) hne
    · rw [hcf] at h; cases h
    · exact Or.inl h
    · exact Or.inr h

end GasolVerif.Spec
