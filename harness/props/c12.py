"""C12 — a block's result does not depend on what was processed before it."""
import random
from collections import Counter
import common, gen, pool

THEOREMS = ["Frame.frame", "Frame.generated_frame_ok_gasol_optimization", "Frame.generated_frame_ok_ir_block", "Frame.generated_class_state_ok",
            "Frame.generated_defaults_ok"]


def run(tier):
    sd = common.seed()
    rng = random.Random(sd * 443 + 41)
    po = common.proof_obligations("GasolVerif.Props.Frame", THEOREMS)
    violations = []
    broken = list(po["broken"])
    c = Counter()
    n = 16 if tier == "quick" else 60
    blocks = gen.blocks(sd * 29 + 12, n, profiles=("mixed", "mem", "arith")) + rng.sample(gen.mem_pair_corpus(), 6 if tier == "quick" else 40) + rng.sample(gen.rule_corpus(), 6 if tier == "quick" else 40)
    cse = gen.cse_corpus()
    blocks += rng.sample(cse, 10 if tier == "quick" else len(cse))
    blocks += rng.sample(gen.fold_corpus([1, 3, 4, 255]), 8 if tier == "quick" else 30) + ["PUSH1 0x3 PUSH1 0x4 ADD MLOAD", "PUSH1 0x1 PUSH1 0x3 SUB DUP1 SWAP2"]
    pool_h = gen.blocks(sd * 31 + 13, 200, profiles=("mixed", "mem", "arith", "stack")) + gen.mem_pair_corpus()[:60] + cse * 3
    samples = []
    for opts in ((["-greedy"], ["-greedy", "-storage", "-size"]) if tier == "quick" else (["-greedy"], ["-greedy", "-storage"], ["-greedy", "-size", "-partition"])):
        tasks = []
        for b in blocks:
            tasks.append({"kind": "history", "text": b, "opts": opts, "history": [], "fresh": True, "role": "fresh", "timeout": 60})
            # the block itself and a near copy as history: caches keyed by expressions or names of an earlier, similar block
            tasks.append({"kind": "history", "text": b, "opts": opts, "history": [b], "fresh": True, "role": "after-itself", "timeout": 120})
            toks = b.split()
            if len(toks) > 3:
                tasks.append({"kind": "history", "text": b, "opts": opts, "history": [" ".join(toks[:-1]) + " ISZERO", b + " PUSH1 0x1 ADD"], "fresh": True, "role": "after-twins", "timeout": 120})
            for k in ((1, 8) if tier == "quick" else (1, 5, 30)):
                tasks.append({"kind": "history", "text": b, "opts": opts, "history": rng.sample(pool_h, k), "fresh": True, "role": "after-%d" % k, "timeout": 120})
        # a value loaded before a store and needed after it (the back end has to keep it), then blocks in which the same specification
        # names stand for cheap values used more than once
        keepers = ["PUSH1 0x40 MLOAD SWAP1 DUP2 MSTORE PUSH1 0x20 ADD", "PUSH1 0x0 SLOAD DUP1 PUSH1 0x1 ADD PUSH1 0x0 SSTORE", "DUP1 MLOAD SWAP2 DUP3 MSTORE ADD"] + \
            rng.sample(gen.load_store_corpus(), 4)
        cheap = ["CALLER DUP1 SWAP2 SSTORE CALLER", "ADDRESS DUP1 SWAP2 SSTORE ADDRESS", "PUSH1 0x1 DUP1 SWAP2 SSTORE PUSH1 0x1", "CALLER DUP1 DUP3 MSTORE SWAP1 POP CALLER",
                 "CALLVALUE DUP1 SWAP2 MSTORE CALLVALUE DUP1 ADD", "PUSH1 0x5 CALLER DUP2 SWAP3 SSTORE CALLER ADD"]
        for q in cheap:
            tasks.append({"kind": "history", "text": q, "opts": opts, "history": [], "fresh": True, "role": "fresh", "timeout": 60})
            for kp in keepers:
                tasks.append({"kind": "history", "text": q, "opts": opts, "history": [kp], "fresh": True, "role": "after-keeper", "timeout": 120})
        res = pool.run_tasks(tasks, timeout=120)
        ref = {}
        for t, r, st in res:
            if st != "ok" or r is None or "harness_error" in (r or {}):
                c["run:" + st] += 1
                continue
            key = t["text"]
            val = r.get("result") or {"exception": r.get("exception")}
            if t["role"] == "fresh":
                ref[key] = val
        for t, r, st in res:
            if st != "ok" or r is None or t["role"] == "fresh" or t["text"] not in ref:
                continue
            c["histories"] += 1
            val = r.get("result") or {"exception": r.get("exception")}
            a = ref[t["text"]]
            if val != a:
                fields = [k for k in set(a) | set(val) if a.get(k) != val.get(k)]
                violations.append({"kind": "result-depends-on-history", "input": t["text"], "options": opts, "history": t["history"],
                                   "what": "fields %s of the result of %s (%s) differ between a fresh process and after %s" % (fields, t["text"], opts, t["history"][:3])})
            elif len(samples) < 3 and "result" in r:
                samples.append({"block": t["text"], "options": opts, "history_length": len(t["history"]), "identical_fields": sorted(val)})
    for b in broken:
        violations.append({"kind": "broken-proof-obligation", "what": b, "no_failing_input": not any(v["kind"] == "result-depends-on-history" for v in violations), "input": b})
    cov = {"obligations": po["obligations"], "discharged": po["discharged"],
           "checker_cmd": "harness/extract.py (ast) -> lean/GasolVerif/Generated/Globals.lean; lake build; #print axioms " + ", ".join(THEOREMS),
           "trusted_base": ["Lean 4.33 kernel", "axioms: propext, Classical.choice, Quot.sound",
                            "harness/extract.py: flow-insensitive read/write/reset sets of module globals (an over-approximation written by me)",
                            "the allow-list Frame.allowedGasolOptimization with its stated reasons"],
           "axioms": po["axioms"], "evaluations": c["histories"], "distinct_nontrivial": c["histories"],
           "rule": "each block is processed in a fresh process and, in other fresh processes, after 1/8 (thorough: 1/5/30) other blocks drawn from a "
                   "pool; specification dictionaries (identifiers included), sub-block lists, emitted block, log ids and statistics rows (without "
                   "times) must be identical; three option sets",
           "samples": samples or [{"n": 0}], "counters": dict(c)}
    return {"level": "proof", "coverage": cov, "violations": violations,
            "assumptions": ["partial: the read/reset tables are a static over-approximation; histories are sampled",
                            "histories with different options in one process are outside the property (a process has one option set)"]}


def replay(v):
    print(v.get("what"))
    return 1
