import GasolVerif.Concrete
import GasolVerif.Show
import GasolVerif.Models.FormulaIO
import GasolVerif.Models.Cost
import GasolVerif.Models.CostAcc
import GasolVerif.Models.Asm
import GasolVerif.Models.Spec
import GasolVerif.Models.SpecSem
import GasolVerif.Models.PlainIO
import GasolVerif.Models.EncodingIO
import GasolVerif.Models.Cmp
import GasolVerif.Models.MinLen
import GasolVerif.Models.Realize
import GasolVerif.Models.Prune
import GasolVerif.Models.JsonItem
open GasolVerif

def parseWords? (s : String) : Option (List Word) :=
  ((s.splitOn ",").filter (· ≠ "")).mapM fun h => (parseHex? h).map (BitVec.ofNat 256)

/-- one request line (tab separated) → one response line -/
def handle (line : String) : String :=
  match line.splitOn "\t" with
  | ["PING"] => "PONG"
  | ["PARSE", b] =>
    match parseBlock? b with
    | some is => "ok " ++ " ".intercalate (is.map Instr.toToken)
    | none => "error:parse"
  | ["EXEC2", seed, stack, b₁, b₂] =>
    match seed.toNat?, parseWords? stack, parseBlock? b₁, parseBlock? b₂ with
    | some sd, some st, some B, some B' => Concrete.compare sd st B B'
    | _, _, _, _ => "error:parse"
  | ["EQUIV", b₁, b₂] =>
    match parseBlock? b₁, parseBlock? b₂ with
    | some B, some B' => if equiv norm3 B B' then "equiv" else "unknown"
    | _, _ => "error:parse"
  | ["SYM", b] =>
    match parseBlock? b with
    | some B =>
      let segs := (B.splitBy fun x y => !x.isExt && !y.isExt)
      " ## ".intercalate (segs.map fun sg =>
        match symExec sg .init with
        | some S => S.toStr norm3
        | none => "ext:" ++ " ".intercalate (sg.map Instr.toToken))
    | none => "error:parse"
  | ["FORMULA", raw, built, text] => Formula.handleFormula raw built text
  | ["PYEQ", f, g, py] => Formula.handlePyEq f g py
  | ["COST", p0, b] =>
    match parseBlock? b with
    | some B => let c := Cost.costs (p0 == "1") B; s!"{c.gas} {c.bytes} {c.len} {Cost.gasAcc (p0 == "1") B}"
    | none => "error:parse"
  | ["ACCEPT", crit, p0, b₁, b₂] =>
    match parseBlock? b₁, parseBlock? b₂ with
    | some B, some B' =>
      let cr := if crit == "size" then Cost.Crit.size else if crit == "length" then Cost.Crit.length else Cost.Crit.gas
      let ci := Cost.costs (p0 == "1") B
      let co := Cost.costs (p0 == "1") B'
      (if Cost.acceptable cr ci co then "ok" else "bad") ++ s!" {ci.gas} {ci.bytes} {ci.len} -> {co.gas} {co.bytes} {co.len}"
    | _, _ => "error:parse"
  | ["IMPROVES", c, os] =>
    match c.toInt?, ((os.splitOn ",").filter (· ≠ "")).mapM String.toInt? with
    | some ci, some ol => if Cost.improves ci ol then "1" else "0"
    | _, _ => "error:parse"
  | ["SPLIT", body, flags, subs] =>
    let b := (body.splitOn ";").filter (· ≠ "")
    let f := flags.toList.map (· == '1')
    let real := (subs.splitOn "|").map fun p => (p.splitOn ";").filter (· ≠ "")
    if b.length ≠ f.length then "error:flags" else
    let model := Asm.subBlocks (b.zip f)
    if model == real then "same" else "diff:" ++ "|".intercalate (model.map (";".intercalate ·))
  | ["JOIN", body, subs] =>
    let b := (body.splitOn ";").filter (· ≠ "")
    let real := (subs.splitOn "|").map fun p => (p.splitOn ";").filter (· ≠ "")
    if Asm.joinShared real == b && Asm.sharedOk real then "ok" else "bad"
  | ["REBUILD", pre, subs, post, k, r] =>
    let sp := fun (x : String) => (x.splitOn ";").filter (· ≠ "")
    let real := (subs.splitOn "|").map sp
    let repl : Nat → Option (List String) := fun i => if some i == k.toNat? then some (sp r) else none
    ";".intercalate (Asm.rebuild (sp pre) real (sp post) repl)
  | ["NEED", b] =>
    match parseBlock? b with
    | some B =>
      match symExec B .init with
      | some S => s!"{S.base} {S.stk.length}"
      | none =>
        -- blocks with external operations: the stack need by counting operands and results
        let ar : Instr → Nat × Nat := fun i => match i with
          | .push _ | .pushSym _ | .env0 _ => (0, 1)
          | .dup k => (k, k + 1) | .swap k => (k + 1, k + 1) | .pop => (1, 0)
          | .un _ | .env1 _ | .mload | .sload => (1, 1)
          | .bin _ | .keccak => (2, 1) | .ter _ => (3, 1)
          | .mstore | .mstore8 | .sstore => (2, 0)
          | .ext _ n o => (n, if o then 1 else 0)
        let (need, _) := B.foldl (fun (acc : Nat × Nat) i =>
          let (need, cur) := acc
          let (c, p) := ar i
          if c > cur then (need + (c - cur), p) else (need, cur - c + p)) (0, 0)
        s!"{need} ext"
    | none => "error:parse"
  | ["SPECCHK", block, src, tgt, instrs, deps, scheds] => Spec.handleSpecChk2 norm3 block src tgt instrs deps scheds
  | ["SPECRUN", seed, stack, block, src, tgt, instrs, deps, sched] => Spec.handleSpecRun seed stack block src tgt instrs deps sched
  | ["REALIZES", src, tgt, instrs, deps, ids] => Spec.handleRealizes src tgt instrs deps ids
  | ["MINLEN", src, tgt, instrs, deps] => Spec.handleMinLen src tgt instrs deps
  | ["REALEXEC", block, src, tgt, instrs, deps, ids, sched] => Spec.handleRealExec norm3 block src tgt instrs deps ids sched
  | ["PLAINPARSE", text] => Plain.handlePlainParse text
  | ["PLAINPRINT", p0, items] => Plain.handlePlainPrint p0 items
  | ["ENC", bs, b0, lim, mode, term, instrs, src, tgt, terms, memenc, pairs, ls, ledges, wts, emp] =>
    Enc.handleEnc bs b0 lim mode term instrs src tgt terms memenc pairs ls ledges wts emp
  | ["CMP", so, sp, pairs] => Cmp.handleCmp so sp pairs
  | ["JSONITEMS", p0, items] => Json.handleItems p0 items
  | ["JSONBLOCKS", p0, items] => Json.handleBlocks p0 items
  | _ => "error:unknown-request"

partial def loop (h : IO.FS.Stream) (out : IO.FS.Stream) : IO Unit := do
  let line ← h.getLine
  if line.isEmpty then return ()
  let l := if line.endsWith "\n" then (line.dropEnd 1).toString else line
  out.putStrLn (handle l)
  loop h out

def main : IO Unit := do
  let out ← IO.getStdout
  loop (← IO.getStdin) out
  out.flush
