"""Synthesized solc assembly-JSON documents (combined-json 'asm' format) from generated blocks."""
import json, random, re
import gen

HASH64 = lambda rng: "%064x" % rng.getrandbits(256)


def item_of(tokens, i, rng, src):
    """one assembly item from plain tokens starting at i; returns (item, next i).  Every kind of item (pushes of every value, zero
    included, pseudo-pushes, tags) may carry modifierDepth"""
    it, j = _item_of(tokens, i, rng, src)
    if "modifierDepth" not in it and rng.random() < 0.08:
        it["modifierDepth"] = rng.randrange(1, 3)
    return it, j


def _item_of(tokens, i, rng, src):
    t = tokens[i]
    b = rng.choice([0, 0, -1]) if rng.random() < 0.15 else rng.randrange(0, 5000)
    base = {"begin": b, "end": b + rng.choice([0, 1, rng.randrange(1, 300)]) if b >= 0 else rng.choice([-1, 0]),
            "source": src if rng.random() < 0.9 else rng.choice([-1, 0, 1])}
    if re.fullmatch(r"PUSH\d+", t):
        v = int(tokens[i + 1], 16)
        return dict(base, name="PUSH", value="%X" % v if rng.random() < 0.5 else "%x" % v), i + 2
    if t == "PUSH":
        kind = tokens[i + 1]
        v = int(tokens[i + 2], 16)
        if kind == "[tag]":
            return dict(base, name="PUSH [tag]", value=str(v)), i + 3
        if kind in ("#[$]", "[$]"):
            return dict(base, name="PUSH " + kind, value="%064x" % (v % 4)), i + 3
        return dict(base, name="PUSH data", value=HASH64(random.Random(v))), i + 3
    if t == "PUSHLIB":
        return dict(base, name="PUSHLIB", value="%040x" % random.Random(int(tokens[i + 1], 16)).getrandbits(160)), i + 2
    if t == "PUSHIMMUTABLE":
        return dict(base, name="PUSHIMMUTABLE", value=HASH64(random.Random(int(tokens[i + 1], 16) + 7))), i + 2
    if t == "ASSIGNIMMUTABLE":
        return dict(base, name="ASSIGNIMMUTABLE", value=HASH64(random.Random(int(tokens[i + 1], 16) + 7))), i + 2
    if t == "tag":
        return dict(base, name="tag", value=str(int(tokens[i + 1]))), i + 2
    it = dict(base, name=t)
    if t == "JUMP" and rng.random() < 0.5:
        it["jumpType"] = rng.choice(["[in]", "[out]"])
    if rng.random() < 0.05:
        it["modifierDepth"] = rng.randrange(1, 3)
    return it, i + 1


def items_of_block(text, rng, src=0):
    toks = text.split()
    out, i = [], 0
    while i < len(toks):
        it, i = item_of(toks, i, rng, src)
        out.append(it)
    return out


def code_section(rng, nblocks, tagbase, profile_blocks, dup_prob=0.25):
    items = []
    used = []
    for k in range(nblocks):
        if used and rng.random() < dup_prob:
            b = rng.choice(used)          # solc output is full of repeated stubs: the same block text under another tag
        else:
            b = profile_blocks.pop() if profile_blocks else "PUSH1 0x0 DUP1 ADD"
        used.append(b)
        if rng.random() < 0.2:
            # blocks with nothing to optimize (labels only, a lone jump): they reach the output as copies of what was read; every field of
            # every item, the optional ones included, has to survive the copy
            md = rng.choice([None, 1, 2])
            lab = [{"begin": 3, "end": 9, "name": "tag", "source": 0, "value": str(tagbase + 50 + k)}, {"begin": 3, "end": 9, "name": "JUMPDEST", "source": 0}]
            if rng.random() < 0.4:
                lab.append({"begin": 4, "end": 8, "name": "JUMP", "source": 0, "jumpType": rng.choice(["[in]", "[out]"])})
            for it in lab:
                if md is not None:
                    it["modifierDepth"] = md
            items += lab
        if k > 0 or rng.random() < 0.5:
            b0 = rng.choice([0, 1, 17])
            items += [{"begin": b0, "end": b0 + rng.choice([0, 2]), "name": "tag", "source": 0, "value": str(tagbase + k)},
                      {"begin": b0, "end": b0 + rng.choice([0, 2]), "name": "JUMPDEST", "source": 0}]
        items += items_of_block(b, rng)
        if not re.search(r"(JUMP|JUMPI|STOP|RETURN|REVERT|INVALID)$", b):
            items += items_of_block(rng.choice(["JUMP", "STOP", "PUSH [tag] %x JUMPI" % (tagbase + k + 1), "PUSH1 0x0 DUP1 REVERT"]), rng)
    return items


RELATED = ["Math", "SafeMath", "MathX", "ERC20", "BurnableERC20", "ERC20Burnable"]


def contract_name(c, naming):
    """`related`: short names that are suffixes / prefixes of one another (a selection must be exact);
    `dup`: the same short name in different source files (block names then coincide across contracts)"""
    if naming == "related":
        n = RELATED[c % len(RELATED)]
        return "contracts/%s.sol:%s" % (n, n)
    if naming == "dup":
        return "%s.sol:Token" % ("lib/a", "b", "c/d")[c % 3]
    return "contracts/C%d.sol:C%d" % (c, c)


def make_doc(seed, ncontracts=2, nblocks=4, with_no_asm=True, version="0.8.15+commit.e14f2714.Linux.g++", naming="plain"):
    rng = random.Random(seed)
    pool = gen.blocks(seed * 13 + 1, ncontracts * nblocks * 4 + 8, split_prob=0.15, terminal_prob=0.3)
    pool = [b for b in pool if "PUSHLIB" not in b or rng.random() < 0.7]
    contracts = {}
    for c in range(ncontracts):
        name = contract_name(c, naming)
        data = {}
        sub = {".auxdata": "a264" + "%060x" % rng.getrandbits(240), ".code": code_section(rng, nblocks, 100, pool)}
        if rng.random() < 0.3:
            del sub[".auxdata"]          # compiled without metadata, Yul objects: a sub-assembly need not carry auxiliary data
        if rng.random() < 0.5:
            sub[".data"] = {"%064X" % rng.getrandbits(256): "6080%040x" % rng.getrandbits(160)}
            if rng.random() < 0.5:
                sub[".data"]["0"] = {".auxdata": "a264" + "%060x" % rng.getrandbits(240), ".code": code_section(rng, 2, 300, pool)}
        data["0"] = sub
        # further code-bearing sub-assemblies next to the runtime code (contracts created with `new`): sections must not be mixed up
        for extra in range(rng.choice([0, 0, 1, 2])):
            data[str(extra + 1)] = {".auxdata": "a264" + "%060x" % rng.getrandbits(240), ".code": code_section(rng, rng.randrange(1, 3), 500 + 100 * extra, pool)}
            if rng.random() < 0.5:
                del data[str(extra + 1)][".auxdata"]      # the creation code of a contract deployed with `new` has none of its own
        if rng.random() < 0.4:
            data["%064X" % rng.getrandbits(256)] = "%040x" % rng.getrandbits(160)
        asm = {".code": code_section(rng, max(1, nblocks // 2), 1, pool), ".data": data}
        if rng.random() < 0.7:
            asm["sourceList"] = ["contracts/C%d.sol" % c, "#utility.yul"]
        contracts[name] = {"asm": asm}
    if with_no_asm:
        # solc writes contracts without code (interfaces, abstract contracts) as an empty object
        contracts["contracts/I.sol:I"] = {}
    doc = {"contracts": contracts, "version": version}
    return doc


if __name__ == "__main__":
    print(json.dumps(make_doc(1), indent=1)[:1500])


def handcrafted():
    """documents whose optimizable blocks re-emit every pseudo-push kind (the optimizer removes `PUSH 0 ADD`)"""
    it = lambda n, v=None, **kw: dict({"begin": 1, "end": 2, "name": n, "source": 0}, **({"value": v} if v is not None else {}), **kw)
    kinds = [("PUSHLIB", "aa" * 20), ("PUSH [tag]", "37"), ("PUSH data", "%064x" % 0xabc), ("PUSHIMMUTABLE", "%064x" % 0x1234),
             ("PUSH #[$]", "%064x" % 0), ("PUSH [$]", "%064x" % 0), ("PUSHSIZE", None), ("PUSHDEPLOYADDRESS", None),
             ("PUSH #[$]", "%064x" % 0x12), ("PUSH [$]", "%064x" % 0x1b)]
    docs_ = []
    for k, (name, val) in enumerate(kinds):
        code = [it("tag", "1"), it("JUMPDEST"), it(name, val), it("PUSH", "0"), it("ADD"), it("PUSH", "1"), it("PUSH", "0"), it("ADD"),
                it("ADD"), it("PUSH [tag]", "1"), it("JUMP", None, jumpType="[in]")]
        docs_.append(("hand%d.json_solc" % k, {"contracts": {"a.sol:A": {"asm": {".code": code, ".data": {"0": {".auxdata": "a1", ".code": list(code)}}}},
                                                              "a.sol:I": {}}, "version": "0.8.15+commit.e14f2714"}))
    # every kind of item inside a modifier body: each one carries modifierDepth (and the jump its jumpType)
    md = [it("tag", "1", modifierDepth=1), it("JUMPDEST", modifierDepth=1), it("PUSH", "0", modifierDepth=1), it("PUSH", "5", modifierDepth=2),
          it("ADD", modifierDepth=1)] + [it(n, v, modifierDepth=1) for n, v in kinds] + [it("POP", modifierDepth=1) for _ in kinds] + \
         [it("PUSH", "0", modifierDepth=2), it("MSTORE", modifierDepth=1), it("PUSH [tag]", "1", modifierDepth=1), it("JUMP", None, jumpType="[out]", modifierDepth=1)]
    md = md[:2] + [it("tag", "5", modifierDepth=1), it("JUMPDEST", modifierDepth=1), it("tag", "4", modifierDepth=2), it("JUMPDEST", modifierDepth=2),
                   it("JUMP", None, jumpType="[in]", modifierDepth=1), it("tag", "6", modifierDepth=1), it("JUMPDEST", modifierDepth=1)] + md[2:]
    docs_.append(("handmod.json_solc", {"contracts": {"m.sol:M": {"asm": {".code": md, ".data": {"0": {".auxdata": "a2", ".code": list(md)}}}}},
                                        "version": "0.8.15+commit.e14f2714"}))
    # items the compiler generated itself carry no source location (-1/-1/-1): split instructions, tags, jumps and terminals of that kind
    # around sub-blocks that the optimizer does change
    nl = lambda n, v=None, **kw: dict({"begin": -1, "end": -1, "name": n, "source": -1}, **({"value": v} if v is not None else {}), **kw)
    loc = lambda n, v=None, b=30, **kw: dict({"begin": b, "end": b + 10, "name": n, "source": 0}, **({"value": v} if v is not None else {}), **kw)
    fold = lambda b: [loc("PUSH", "1", b), loc("PUSH", "2", b + 1), loc("ADD", None, b + 2), loc("PUSH", "80", b + 3), loc("MSTORE", None, b + 4)]
    code = [nl("tag", "1"), nl("JUMPDEST")] + fold(10) + [loc("PUSH", "20"), loc("PUSH", "40"), loc("PUSH", "60"), nl("LOG1")] + fold(50) + \
           [loc("PUSH", "0"), loc("PUSH", "0"), loc("PUSH", "4"), nl("CALLDATACOPY")] + fold(90) + [nl("GAS"), loc("POP")] + fold(130) + \
           [nl("PUSH [tag]", "2"), nl("JUMP", None, jumpType="[in]"), nl("tag", "2"), nl("JUMPDEST")] + fold(170) + [nl("STOP")]
    docs_.append(("handnoloc.json_solc", {"contracts": {"n.sol:N": {"asm": {".code": code, ".data": {"0": {".auxdata": "a3", ".code": [dict(i) for i in code]}}}}},
                                          "version": "0.8.15+commit.e14f2714"}))
    # a pseudo-push in a sub-block that the optimizer replaces, followed by a split instruction and a last sub-block that it keeps
    # (and the other way round): what is restored after rebuilding must not depend on which sub-block was replaced last
    code = []
    for k, (name, val) in enumerate(kinds):
        code += [it("tag", str(10 + 2 * k)), it("JUMPDEST"), it("PUSH", "4"), it("PUSH", "0"), it("ADD"), it(name, val), it("GAS"), it("DELEGATECALL"),
                 it("ISZERO"), it("PUSH [tag]", str(10 + 2 * k)), it("JUMPI"),
                 it("tag", str(11 + 2 * k)), it("JUMPDEST"), it("DUP1"), it(name, val), it("GAS"), it("PUSH", "4"), it("PUSH", "0"), it("ADD"), it("ADD"),
                 it("PUSH [tag]", str(11 + 2 * k)), it("JUMPI")]
    # a block whose first instruction (after tag/JUMPDEST, or at the very start of a section) is a split instruction, with and without a value
    for k, sp in enumerate([("ASSIGNIMMUTABLE", "%064x" % 0x1234), ("LOG1", None), ("CALLDATACOPY", None), ("GAS", None), ("ASSIGNIMMUTABLE", "%064x" % 7)]):
        code += [it("tag", str(60 + k)), it("JUMPDEST"), it(*sp), it("PUSH", "1"), it("PUSH", "0"), it("ADD"), it("PUSH", "40"), it("MSTORE"),
                 it("PUSH [tag]", str(60 + k)), it("JUMP", None, jumpType="[in]")]
    code = [it("ASSIGNIMMUTABLE", "%064x" % 9), it("PUSH", "2"), it("PUSH", "0"), it("ADD"), it("POP"), it("PUSH [tag]", "10"), it("JUMP")] + code
    code += [it("STOP")]
    docs_.append(("handsplit.json_solc", {"contracts": {"s.sol:S": {"asm": {".code": code, ".data": {"0": {".auxdata": "a4", ".code": [dict(i) for i in code]}}}}},
                                          "version": "0.8.15+commit.e14f2714"}))
    return docs_


def analysis_failing():
    """a document with one block on which the front end's analysis raises (MLOAD of a folded NOT before REVERT) next to
    optimizable blocks: the run keeps that block as it is, and so must the replay of the run's own log"""
    it = lambda n, v=None, **kw: dict({"begin": 1, "end": 2, "name": n, "source": 0}, **({"value": v} if v is not None else {}), **kw)
    bad = [it("tag", "100"), it("JUMPDEST"), it("PUSH", "FA"), it("PUSH", "21"), it("MSTORE"),
           it("PUSH", "8E7D1E3A35DAD0AE92E6C0FE76CA091F90735F1E10675861FF6B98D06AC2BA47"), it("NOT"), it("PUSH", "FF"), it("DUP2"), it("PUSH", "60"),
           it("ADD"), it("MSTORE"), it("DUP1"), it("MLOAD"), it("REVERT")]
    good = [it("tag", "1"), it("JUMPDEST"), it("PUSH", "1"), it("PUSH", "0"), it("ADD"), it("DUP2"), it("PUSH", "0"), it("ADD"), it("ADD"),
            it("PUSH [tag]", "100"), it("JUMP", None, jumpType="[in]")]
    code = good + bad
    return [("failing0.json_solc", {"contracts": {"a.sol:A": {"asm": {".code": code, ".data": {"0": {".auxdata": "a1", ".code": list(bad) + [it("tag", "2"), it("JUMPDEST")] + list(good[2:])}}}}},
                                   "version": "0.8.15+commit.e14f2714"})]



def dup_named():
    """two contracts with the same short name in different source files (their block names coincide): the first one has a block on which
    the analysis raises, the second one an optimizable block at the same position.  Returns the document and, per contract, the document
    that holds this contract alone (the reference: a failure costs at most that block, and nothing in another contract)"""
    it = lambda n, v=None, **kw: dict({"begin": 1, "end": 2, "name": n, "source": 0}, **({"value": v} if v is not None else {}), **kw)
    bad = [it("tag", "100"), it("JUMPDEST"), it("PUSH", "FA"), it("PUSH", "21"), it("MSTORE"),
           it("PUSH", "8E7D1E3A35DAD0AE92E6C0FE76CA091F90735F1E10675861FF6B98D06AC2BA47"), it("NOT"), it("PUSH", "FF"), it("DUP2"), it("PUSH", "60"),
           it("ADD"), it("MSTORE"), it("DUP1"), it("MLOAD"), it("REVERT")]
    bad2 = [it("tag", "100"), it("JUMPDEST"), it("PUSH", "1"), it("MSIZE"), it("ADD"), it("PUSH", "0"), it("ADD"), it("PUSH", "40"), it("MSTORE"), it("STOP")]
    good = [it("tag", "1"), it("JUMPDEST"), it("PUSH", "1"), it("PUSH", "0"), it("ADD"), it("DUP2"), it("PUSH", "0"), it("ADD"), it("ADD"),
            it("PUSH [tag]", "100"), it("JUMP", None, jumpType="[in]")]
    fine = [it("tag", "100"), it("JUMPDEST"), it("PUSH", "1"), it("PUSH", "2"), it("ADD"), it("PUSH", "0"), it("ADD"), it("PUSH", "40"), it("MSTORE"), it("STOP")]
    out = []
    for k, b in enumerate((bad, bad2)):
        mk = lambda blk: {"asm": {".code": [dict(i) for i in good + blk], ".data": {"0": {".auxdata": "a1", ".code": [dict(i) for i in blk + [it("tag", "2"), it("JUMPDEST")] + good[2:]]}}}}
        cs = {"lib/a.sol:Token": mk(b), "b.sol:Token": mk(fine), "c/d.sol:Token": mk(fine)}
        doc = ("dup%d.json_solc" % k, {"contracts": cs, "version": "0.8.15+commit.e14f2714"})
        singles = [(cn, ("dup%d_%d.json_solc" % (k, j), {"contracts": {cn: cs[cn]}, "version": "0.8.15+commit.e14f2714"})) for j, cn in enumerate(cs)]
        out.append((doc, singles))
    return out


def reorder_doc():
    """blocks with two storage accesses whose keys come from the stack, and for each a hand-made log entry that performs the same
    accesses in the opposite order with the stack shuffled so that every operation still gets its own operands (a tampered log that
    is correct as far as the stack goes): (document, [(honest id sequence, tampered id sequence)])"""
    it = lambda n, v=None, **kw: dict({"begin": 1, "end": 2, "name": n, "source": 0}, **({"value": v} if v is not None else {}), **kw)
    run = [it("tag", "1"), it("JUMPDEST"), it("SSTORE"), it("SLOAD"), it("PUSH", "0"), it("ADD"), it("SWAP1"), it("JUMP", None, jumpType="[out]"),
           it("tag", "2"), it("JUMPDEST"), it("SSTORE"), it("SSTORE"), it("PUSH", "0"), it("ADD"), it("SWAP1"), it("JUMP", None, jumpType="[out]")]
    top = [it("PUSH", "80"), it("PUSH", "40"), it("MSTORE"), it("PUSH", "0"), it("DUP1"), it("REVERT")]
    doc = {"contracts": {"r.sol:R": {"asm": {".code": top, ".data": {"0": {".auxdata": "a1", ".code": run}}}}}, "version": "0.8.15+commit.e14f2714"}
    edits = [(["SSTORE_0", "SLOAD_0", "SWAP1"], ["SWAP2", "SLOAD_0", "SWAP2", "SSTORE_0", "SWAP1"]),
             (["SSTORE_0", "SSTORE_1", "SWAP1"], ["SWAP2", "SWAP1", "SWAP3", "SWAP1", "SSTORE_0", "SSTORE_1", "SWAP1"])]
    return ("reorder0.json_solc", doc), edits


def many_subblocks_doc():
    """runtime blocks cut into more than ten sub-blocks by split instructions, where only a sub-block with a two-digit index can be improved
    (log keys end in the sub-block index)"""
    it = lambda n, v=None, **kw: dict({"begin": 1, "end": 2, "name": n, "source": 0}, **({"value": v} if v is not None else {}), **kw)
    def blk(tag, nsplit):
        code = [it("tag", str(tag)), it("JUMPDEST")]
        for _ in range(nsplit):
            code += [it("DUP3"), it("DUP3"), it("DUP3"), it("LOG1")]
        code += [it("PUSH", "3"), it("PUSH", "4"), it("ADD"), it("SWAP1"), it("POP"), it("SWAP1"), it("POP"), it("PUSH [tag]", str(tag + 1)), it("JUMP", None, jumpType="[in]")]
        return code
    run = blk(1, 9) + blk(2, 10) + blk(3, 12) + [it("tag", "4"), it("JUMPDEST"), it("STOP")]
    top = [it("PUSH", "80"), it("PUSH", "40"), it("MSTORE"), it("PUSH", "0"), it("DUP1"), it("REVERT")]
    return ("manysub0.json_solc", {"contracts": {"e.sol:Emitter": {"asm": {".code": top, ".data": {"0": {".auxdata": "a1", ".code": run}}}}}, "version": "0.8.15+commit.e14f2714"})


def multi_section():
    """a contract whose `.data` holds two code-bearing sub-assemblies ("0" runtime, "1" the creation code of a contract deployed with `new`)
    and a second contract with an empty `.data`: every section keeps its own instruction stream"""
    it = lambda n, v=None, **kw: dict({"begin": 1, "end": 2, "name": n, "source": 0}, **({"value": v} if v is not None else {}), **kw)
    sec0 = [it("tag", "1"), it("JUMPDEST"), it("PUSH", "1"), it("PUSH", "0"), it("ADD"), it("DUP2"), it("ADD"), it("PUSH", "40"), it("MSTORE"),
            it("PUSH", "20"), it("PUSH", "0"), it("LOG1"), it("PUSH [tag]", "2"), it("JUMP", None, jumpType="[in]"), it("tag", "2"), it("JUMPDEST"), it("STOP")]
    sec1 = [it("tag", "7", source=1), it("JUMPDEST", source=1), it("PUSH", "3", source=1), it("PUSH", "0", source=1), it("ADD", source=1), it("GAS", source=1),
            it("ADD", source=1), it("PUSH [tag]", "7", source=1), it("JUMP", None, jumpType="[out]", source=1)]
    top = [it("PUSH", "80"), it("PUSH", "40"), it("MSTORE"), it("PUSH", "0"), it("DUP1"), it("REVERT")]
    return [("multi0.json_solc", {"contracts": {"f.sol:Factory": {"asm": {".code": top, ".data": {"0": {".auxdata": "a1", ".code": sec0,
                                                                                                          ".data": {"0": {".auxdata": "a2", ".code": list(sec1)}}},
                                                                                                    "1": {".auxdata": "a3", ".code": sec1}},
                                                                          "sourceList": ["f.sol", "#utility.yul"]}},
                                                "f.sol:L": {"asm": {".code": list(top), ".data": {}}}}, "version": "0.8.15+commit.e14f2714"})]
