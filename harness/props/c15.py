"""C15 — parsing and serialization round-trip."""
import json, random, glob, os
from collections import Counter
import common, docrun, gen, pool, docs

M = 2 ** 256


def spellings(c):
    n = max(1, (c.bit_length() + 7) // 8)
    out = [("PUSH %x" % c, c), ("PUSH%d 0x%x" % (n, c), c), ("PUSH%d %d" % (n, c), c), ("PUSH%d 0x%s%x" % (min(32, n + 1), "00", c), c),
           ("PUSH 0%x" % c, c), ("PUSH32 0x%064x" % c, c), ("PUSH %X" % c, c), ("PUSH%d 0%d" % (n, c), c), ("PUSH%d 000%d" % (min(32, n + 2), c), c)]
    return out


def run(tier):
    sd = common.seed()
    rng = random.Random(sd * 97 + 23)
    violations = []
    c = Counter()
    # (a) JSON documents
    dl = docrun.synthesized(sd + 7, 12 if tier == "quick" else 150, ncontracts=2, nblocks=4) + docs.handcrafted()
    for f in sorted(glob.glob(os.path.join(common.REPO, "examples", "jsons-solc", "*.json_solc")) +
                    glob.glob(os.path.join(common.REPO, "tests", "files", "solc_v_0_8_15", "*.json_solc"))):
        if tier != "quick" or os.path.getsize(f) < 400000:
            dl.append((os.path.basename(f), open(f).read()))
    tasks = []
    for name, d in dl:
        text = d if isinstance(d, str) else json.dumps(d)
        for p0 in (True, False):
            tasks.append({"kind": "json_roundtrip", "text": text, "push0": p0, "name": name, "timeout": 200})
    # (b)/(c) plain text
    blocks = gen.blocks(sd * 19 + 8, 300 if tier == "quick" else 5000, split_prob=0.2, terminal_prob=0.2)
    consts = gen.BOUNDARY + [rng.randrange(0, M) for _ in range(40 if tier == "quick" else 2000)] + list(range(0, 40)) + [255, 256, 65535, 65536]
    sp = [s for v in consts for s in spellings(v)]
    for p0 in (True, False):
        tasks.append({"kind": "plain_roundtrip", "texts": blocks, "push0": p0, "timeout": 200})
        tasks.append({"kind": "plain_roundtrip", "texts": [t for t, _ in sp], "push0": p0, "spell": True, "timeout": 200})
    res = pool.run_tasks(tasks, timeout=200)
    samples = []
    for t, r, st in res:
        if st != "ok" or r is None or "harness_error" in (r or {}):
            raise common.MachineryError("worker failed on %s: %s %s" % (t["kind"], st, (r or {}).get("harness_error")))
        if t["kind"] == "json_roundtrip":
            c["documents"] += 1
            if "exception" in r:
                violations.append({"kind": "parser-raises", "input": t["name"], "what": "parse_asm raised %s on %s" % (r["exception"], t["name"])})
            elif not r["same"]:
                violations.append({"kind": "json-round-trip-differs", "input": t["name"],
                                   "what": "to_json(parse(%s)) differs (push0=%s) at %s" % (t["name"], t["push0"], r["diff"])})
            elif len(samples) < 2:
                samples.append({"document": t["name"], "push0": t["push0"], "round_trip": "identical"})
            continue
        for i, row in enumerate(r["rows"]):
            c["plain-texts"] += 1
            if "exception" in row:
                violations.append({"kind": "plain-parser-raises", "input": row["text"], "what": "parsing %r raised %s" % (row["text"], row["exception"])})
                continue
            def nrm(blocks_):
                # constants are compared by numeric value, everything else textually
                def one(d, v):
                    if d == "PUSH0" or (d == "PUSH" and v is not None and int(v, 16) == 0):
                        return ("PUSH", 0)           # a zero push, however it is spelled
                    return (d, int(v, 16) if d == "PUSH" and v is not None else v)
                return [[one(d, v) for d, v in b] for b in blocks_]
            row["again"], row["again_bytes"], row["items"] = nrm(row["again"]), nrm(row["again_bytes"]), nrm(row["items"])
            if row["again"] != row["items"]:
                violations.append({"kind": "plain-round-trip-differs", "input": row["text"],
                                   "what": "parse(to_plain(B)) != B for %r (push0=%s): %r" % (row["text"], t["push0"], row["plain"])})
            if row["again_bytes"] != row["items"]:
                violations.append({"kind": "plain-round-trip-differs", "input": row["text"],
                                   "what": "parse(to_plain_with_byte_number(B)) != B for %r (push0=%s): %r" % (row["text"], t["push0"], row["plain_bytes"])})
            if t.get("spell"):
                want = sp[i][1]
                got = row["items"][0][0] if row["items"] and row["items"][0] else None
                val = None
                if got:
                    val = got[1] if got[0] == "PUSH" and got[1] is not None else None
                c["spellings"] += 1
                if val != want:
                    violations.append({"kind": "constant-spelling-changes-value", "input": row["text"],
                                       "what": "%r parses to %r, expected the constant %#x" % (row["text"], got, want)})
    cov = {"evaluations": c["documents"] + c["plain-texts"], "distinct_nontrivial": c["documents"] + c["plain-texts"],
           "rule": "all shipped and test documents (size-limited in quick), synthesized documents with nested data, contracts without asm, every "
                   "pseudo-push kind and optional fields, each under PUSH0 on/off: to_json(parse(D)) = D modulo the PUSH0 spelling; generated "
                   "blocks: parse(to_plain(B)) = B and parse(to_plain_with_byte_number(B)) = B; seven spellings of each constant",
           "samples": samples or [{"n": 0}], "counters": dict(c)}
    return {"level": "exploration", "coverage": cov, "violations": violations,
            "assumptions": ["no Lean theorem backs this check: it is a differential round-trip (see DESIGN.md, C15)"]}


def replay(v):
    print(v.get("what"))
    return 1
