"""C07 — the Max-SMT problem keeps an optimal program and prices it correctly (exhaustive on small instances)."""
import random, re, itertools
from collections import Counter
import common, drv
from props import c06

THEOREMS = ["Enc.penalty_affine", "Enc.penalty_difference", "Enc.layer_cake", "Enc.telescope", "Enc.term_miss", "Enc.decoded_decodeAt", "Cost.improves_spec"]
OSETS = [[], ["-order-bounds"], ["-order-conflicts"], ["-at-most"], ["-pushed-once"], ["-no-output-before-pop"],
         ["-size"], ["-length"], ["-size", "-order-bounds"], ["-length", "-at-most", "-pushed-once"], ["-memory-encoding", "l_vars"],
         ["-direct-inequalities"], ["-term-encoding", "int"]]


def crit_of(opts):
    return "size" if "-size" in opts else "length" if "-length" in opts else "gas"


def cost(e, seq, crit, cap=None):
    tot = 0
    for i in seq:
        if i == "NOP":
            continue
        if crit == "length":
            tot += 1
        elif i in e["costs"]:
            v = e["costs"][i][0 if crit == "gas" else 1]
            tot += min(v, cap) if cap is not None and crit == "size" else v
        elif i == "POP":
            tot += 2 if crit == "gas" else 1
        else:
            tot += 3 if crit == "gas" else 1
    return tot


def soft_cost(e, seq, tfirst):
    """sum of the weights of the soft constraints a model violates; None if some constraint has an unknown shape"""
    tot = 0
    for l in e.get("soft", []):
        m = re.match(r"\(assert-soft (.*) :weight (\d+)", l)
        if not m:
            return None
        body, w = m.group(1), int(m.group(2))
        atoms = re.findall(r"\(=\s+t_(\d+)\s+(?:theta_)?(\d+)\)", body)
        rest = re.sub(r"\(=\s+t_\d+\s+(?:theta_)?\d+\)", "", body).replace("or", "").replace("(", "").replace(")", "").strip()
        if rest or not atoms:
            return None
        sat = any(0 <= int(j) - tfirst < len(seq) and e["theta"].get(k) == seq[int(j) - tfirst] for j, k in atoms)
        if not sat:
            tot += w
    return tot


def run(tier):
    sd = common.seed()
    rng = random.Random(sd * 2741 + 53)
    po = common.proof_obligations("GasolVerif.Proofs.EncodingSoftSound,GasolVerif.Proofs.CostSound", THEOREMS)
    violations = [{"kind": "broken-proof-obligation", "what": b, "no_failing_input": True, "input": b} for b in po["broken"]]
    c = Counter()
    # pricing: the soft clauses Models/EncodingSoft.lean generates from the encoder's own weight table must be exactly the emitted ones
    # (premise of Enc.penalty_affine); hard-constraint differences found on the way belong to C06 and are not reported here
    c06.enc_correspondence(tier, random.Random(sd * 613 + 11), c, [], soft_out=violations)
    maxlen = 4 if tier == "quick" else 5
    res = c06.collect(tier, sd + 5, rng, maxlen, 6, osets=OSETS)
    inst = []
    for t, r, st in res:
        if st != "ok" or r is None or "harness_error" in (r or {}) or "exception" in (r or {}):
            c["run:" + st] += 1
            continue
        for e in r["subs"]:
            if "unsupported" in e or "exception" in e or e.get("z3errors"):
                c["skipped"] += 1
                continue
            inst.append((t, e))
    # brute force: all sequences up to b0 over the instruction ids and the stack operations that fit the stack bound
    reqs, meta = [], []
    for n, (t, e) in enumerate(inst):
        k = max(1, min(e["max_sk_sz"], 4))
        vocab = e["ids"] + ["POP"] + ["DUP%d" % i for i in range(1, k + 1)] + ["SWAP%d" % i for i in range(1, k)]
        if len(vocab) ** e["b0"] > (40000 if tier == "quick" else 400000):
            c["too-large-for-enumeration"] += 1
            continue
        for L in range(0, e["b0"] + 1):
            for seq in itertools.product(vocab, repeat=L):
                reqs.append("REALIZES\t%s\t%s" % ("\t".join(e["spec"]), ",".join(seq)))
                meta.append((n, seq))
    c["sequences-enumerated"] = len(reqs)
    outs = drv.batch(reqs)
    best = {}
    for o, (n, seq) in zip(outs, meta):
        if o.startswith("ok"):
            t, e = inst[n]
            if int(o[3:]) <= e["max_sk_sz"]:
                cst = cost(e, seq, crit_of(t["opts"]))
                if n not in best or cst < best[n][0]:
                    best[n] = (cst, seq)
                c["realizing-sequences"] += 1
    enumerated = {n for n, _ in meta}
    samples = []
    optimum_by_spec = {}
    for n, (t, e) in enumerate(inst):
        if n not in enumerated:
            continue
        c["instances"] += 1
        crit = crit_of(t["opts"])
        plain = " ".join(e["plain"])
        if n in best:
            if e.get("outcome") in ("unsat", "no_model") and e.get("hard_status") == "unsat":
                violations.append({"kind": "hard-constraints-unsatisfiable-though-realizable", "input": plain, "options": t["opts"],
                                   "what": "%s with %s: hard constraints are unsat but %s realizes the specification within the bounds" % (plain, t["opts"], list(best[n][1]))})
            elif e.get("outcome") == "optimal" and e.get("opt_ids"):
                oc = cost(e, e["opt_ids"], crit)
                c["optima-compared"] += 1
                if oc != best[n][0]:
                    violations.append({"kind": "optimum-differs-from-true-minimum", "input": plain, "options": t["opts"],
                                       "what": "%s with %s: solver optimum %s costs %d (%s) but %s costs %d" % (plain, t["opts"], e["opt_ids"], oc, crit, list(best[n][1]), best[n][0])})
                elif len(samples) < 4:
                    samples.append({"block": plain, "options": t["opts"], "optimum": e["opt_ids"], "cost": oc, "true_minimum_by_enumeration": best[n][0]})
                optimum_by_spec.setdefault((plain, crit, tuple(x for x in t["opts"] if x in ("-storage", "-no-simplification"))), set()).add(oc)
        # pricing: soft cost minus true cost is the same for every model
        first = 0
        ds = []
        for m in e.get("models", []) + ([e["opt_ids"]] if e.get("opt_ids") and e.get("outcome") == "optimal" else []):
            if any(x is None for x in m):
                continue
            sc = soft_cost(e, m, first)
            if sc is None:
                c["soft-constraints-of-unknown-shape"] += 1
                ds = []
                break
            ds.append((sc - cost(e, m, crit), m, sc, sc - cost(e, m, crit, cap=5)))
        if len(ds) > 1:
            c["pricing-instances"] += 1
            if len({d[0] for d in ds}) > 1 and len({d[3] for d in ds}) == 1:
                # exactly the cap of the size weights at 5 bytes (synthesis_full_encoding: min(size_cost, 5))
                violations.append({"kind": "size-weights-capped-at-5", "input": plain, "options": t["opts"],
                                   "what": "%s with %s: under -size a PUSH wider than 4 bytes is priced 5; soft cost minus byte size differs between models %s" % (plain, t["opts"], [(d[0], list(d[1])) for d in ds][:3])})
            elif len({d[0] for d in ds}) > 1:
                violations.append({"kind": "soft-constraints-misprice-a-model", "input": plain, "options": t["opts"],
                                   "what": "%s with %s (%s): soft cost minus true cost is not constant over models: %s" % (plain, t["opts"], crit, [(d[0], list(d[1])) for d in ds][:4])})
    for key, vals in optimum_by_spec.items():
        if len(vals) > 1:
            violations.append({"kind": "optimum-depends-on-pruning-options", "input": key[0], "what": "optimal %s cost of %s differs across option sets: %s" % (key[1], key[0], sorted(vals))})
    cov = {"states": max(1, c["sequences-enumerated"]), "transitions": max(1, c["realizing-sequences"]), "traces_validated_against_impl": c["optima-compared"],
           "evaluations": c["sequences-enumerated"], "distinct_nontrivial": c["optima-compared"] + c["pricing-instances"],
           "obligations": po["obligations"], "discharged": po["discharged"],
           "rule": "specifications with init_progr_len <= %d from small generated blocks x %d option sets (criteria, bounds, ordering and pruning "
                   "constraints on/off, memory/term encodings): all instruction-id sequences up to the bound are enumerated and checked with "
                   "Spec.realizes (exhaustive per instance); the solver's optimum must cost the true minimum, unsat may not coincide with a "
                   "realizable specification, optima must agree across option sets, and soft cost minus true cost must be constant over the "
                   "enumerated models" % (maxlen, len(OSETS)),
           "samples": samples or [{"n": 0}], "counters": dict(c), "exhaustive": True}
    cov["obligations"], cov["discharged"], cov["axioms"] = po["obligations"], po["discharged"], po["axioms"]
    cov["rule"] += ("; pricing: Enc.penalty_affine (all valuations) for the soft clauses generated from the encoder's own weight table, which must equal the "
                    "emitted weighted clauses as multisets on every instance (grouped mode)")
    return {"level": "model_checking", "coverage": cov, "violations": violations,
            "assumptions": ["pricing clause: proved for the model's clauses (penalty_affine), tied by exact comparison with the emitted soft constraints; weights are the "
                            "encoder's own table (captured at the call) - that they are the true gas/bytes is C08's reference cost and the open finding on -size",
                            "bounded enumeration (labelled as such): exhaustive only for instances with init_progr_len <= %d and small vocabularies" % maxlen,
                            "z3 as stand-in for the Max-SMT solver; 'optimal' is z3's claim"]}


def replay(v):
    print(v.get("what"))
    return 1
