/-
  Line-protocol glue for Models/Plain.lean (unverified): text ↔ tokens, canonical rendering of the result.
-/
import GasolVerif.Models.Plain
namespace GasolVerif.Plain

/-- tokens of a text: split at blanks and at the line separator (sent as U+0001), empty pieces dropped -/
def tokenize (s : String) : List Tok :=
  ((s.toList.splitBy fun a b => !(a == ' ' || a == '\x01') && !(b == ' ' || b == '\x01')).filter
    fun t => !(t.all fun c => c == ' ' || c == '\x01'))

def showVal : Val → String
  | .none => "-"
  | .str s => "s:" ++ String.ofList s
  | .idx n => s!"i:{n}"

def showOps (ops : List Op) : String :=
  "|".intercalate (ops.map fun o => String.ofList o.name ++ "~" ++ showVal o.value)

def handlePlainParse (text : String) : String :=
  match parse (tokenize text) with
  | some ops => showOps ops
  | none => "error"

def parseItems (s : String) : List Item :=
  ((s.splitOn "|").filter (· ≠ "")).map fun p =>
    match p.splitOn "~" with
    | [d, v] => ⟨d.toList, if v == "-" then none else some ((v.drop 2).toString.toList)⟩
    | _ => ⟨p.toList, none⟩

/-- PLAINPRINT: the printed text, how many items the round-trip theorem covers, and whether reading the printed
    text back gives `opOf` of every item (the theorem says it must when all are covered) -/
def handlePlainPrint (p0 items : String) : String :=
  let B := parseItems items
  let toks := printBlock (p0 == "1") B
  let cov := (B.filter fun i => (classOf i).isSome).length
  let rt := if covered B then (if parse toks == some (B.map opOf) then "roundtrip-ok" else "roundtrip-BROKEN") else "not-covered"
  " ".intercalate (toks.map String.ofList) ++ "\t" ++ s!"{cov}/{B.length}" ++ "\t" ++ rt

end GasolVerif.Plain
