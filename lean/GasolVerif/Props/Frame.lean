/-
  C12: a block's result does not depend on what was processed before it.
  `frame` is the abstract reason; `generated_frame_ok_*` instantiate its premise on the tables that
  harness/extract.py regenerates from /repo on every run (kernel-decided on what the code says now).
-/
import GasolVerif.Generated.Globals
namespace GasolVerif.Frame

abbrev Store (V : Type) := String → V

/-- re-initialisation at block entry: the names in `Z` get their initial values -/
def reset {V : Type} (Z : List String) (init : Store V) (s : Store V) : Store V :=
  fun n => if n ∈ Z then init n else s n

/-- **frame theorem**: if the block pipeline reads only names that are re-initialised at entry (`Z`) or
    that every history leaves alike (`P`: constants, option-determined or defined-before-use names),
    its result is the same after any two histories -/
theorem frame {V R : Type} (Z P Rd : List String) (init : Store V) (process : Store V → R)
    (hdep : ∀ s₁ s₂ : Store V, (∀ n ∈ Rd, s₁ n = s₂ n) → process s₁ = process s₂)
    (hsub : ∀ n ∈ Rd, n ∈ Z ∨ n ∈ P)
    (h₁ h₂ : Store V) (hP : ∀ n ∈ P, h₁ n = h₂ n) :
    process (reset Z init h₁) = process (reset Z init h₂) := by
  apply hdep
  intro n hn
  unfold reset
  rcases hsub n hn with hz | hp
  · simp [hz]
  · by_cases hz : n ∈ Z
    · simp [hz]
    · simp [hz, hP n hp]

/-- names read by the block pipeline of gasol_optimization.py that are neither re-initialised at entry
    nor constants, each with the reason why no history can reach a block through it -/
def allowedGasolOptimization : List (String × String) :=
  [ ("memory_order", "assigned by generate_storage_info / generate_encoding before its first read in every block"),
    ("storage_order", "assigned by generate_storage_info / generate_encoding before its first read in every block"),
    ("original_opcodes", "assigned by translate_block before its first read in every block"),
    ("compute_gast", "statistics flag, constant True"),
    ("push_rebuilt", "write-only dictionary (subscript stores only)") ]

open Generated in
theorem generated_frame_ok_gasol_optimization :
    gasolOptimizationRead.all (fun n => gasolOptimizationReset.contains n || gasolOptimizationConst.contains n ||
      (allowedGasolOptimization.map (·.1)).contains n) = true := by decide +kernel

open Generated in
theorem generated_frame_ok_ir_block :
    irBlockRead.all (fun n => irBlockReset.contains n || irBlockConst.contains n) = true := by decide +kernel

/-- class-level containers that are mutated in place and shared by all instances, with the reason why no history reaches a block
    through them -/
def allowedClassShared : List (String × String) :=
  [ ("smt_encoding/singleton.py:Singleton._instances", "registry of the metaclass: holds the one stateless Connectors object") ]

open Generated in
/-- state that outlives an object: every class-level container that some method mutates in place is rebound per instance in
    `__init__` (then the class-level binding is only a default that is never shared), or is on the allow-list -/
theorem generated_class_state_ok :
    classShared.all (fun e => !e.2.2 || e.2.1 || (allowedClassShared.map (·.1)).contains e.1) = true := by decide +kernel

open Generated in
/-- state that outlives a call: no parameter with a mutable default value is mutated in place -/
theorem generated_defaults_ok : mutableDefaults.all (fun e => !e.2) = true := by decide +kernel

end GasolVerif.Frame
