"""C13 — specification generation and greedy search are deterministic."""
import json, random
from collections import Counter
import common, gen, pool, docrun

THEOREMS = ["Determinism.sort_perm_invariant", "Determinism.numbering_perm_invariant", "Determinism.foldMax_perm_invariant",
            "Iteration.generated_iteration_sites_ok", "Iteration.generated_env_sources_ok"]


def run(tier):
    sd = common.seed()
    rng = random.Random(sd * 881 + 43)
    po = common.proof_obligations("GasolVerif.Proofs.Determinism,GasolVerif.Props.Iteration", THEOREMS)
    violations = [{"kind": "broken-proof-obligation", "what": b, "no_failing_input": True, "input": b} for b in po["broken"]]
    c = Counter()
    seeds = ["0", "1", "2", "3", "random"] if tier == "quick" else ["0", "1", "2", "3", "4", "7", "random", "random"]
    blocks = gen.blocks(sd * 37 + 14, 50 if tier == "quick" else 1000, profiles=("mixed", "mem", "arith", "stack")) + \
        rng.sample(gen.mem_pair_corpus(), 30) + rng.sample(gen.rule_corpus(), 30) + gen.load_store_corpus() + rng.sample(gen.cse_corpus(), 20) + \
        gen.ordering_corpus(sd * 53 + 5, 40 if tier == "quick" else 600) + \
        ["PUSH1 0x1 PUSH1 0x0 MSTORE PUSH1 0x2 PUSH1 0x40 MSTORE8 PUSH1 0x5 POP", "PUSH1 0x0 MSTORE PUSH1 0x40 MSTORE8 PUSH1 0x5 POP",
         "PUSH1 0x0 MLOAD PUSH1 0x20 PUSH1 0x40 KECCAK256 SWAP3 SWAP1 SWAP2 MSTORE", "PUSH1 0x0 SLOAD PUSH1 0x0 MLOAD SWAP3 SSTORE PUSH1 0x5 POP",
         "PUSH1 0x1 PUSH1 0x0 SSTORE PUSH1 0x2 PUSH1 0x0 MSTORE PUSH1 0x3 PUSH1 0x40 MSTORE8 PUSH1 0x5 POP"]   # operations of different kinds with the same number
    samples = []
    for opts in (["-greedy"], ["-greedy", "-storage", "-size"]):
        per_seed = {}
        for hs in seeds:
            tasks = [{"kind": "history", "text": b, "opts": opts, "history": [], "timeout": 60} for b in blocks]
            res = pool.run_tasks(tasks, timeout=60, env_extra={"PYTHONHASHSEED": hs, "TMPDIR": "/tmp"})
            per_seed[hs + str(len(per_seed))] = [(r.get("result") or {"exception": r.get("exception")}) if st == "ok" and r else {"status": st} for t, r, st in res]
        keys = list(per_seed)
        for i, b in enumerate(blocks):
            c["blocks"] += 1
            base = per_seed[keys[0]][i]
            for k in keys[1:]:
                c["comparisons"] += 1
                if per_seed[k][i] != base:
                    fields = [f for f in set(base) | set(per_seed[k][i]) if base.get(f) != per_seed[k][i].get(f)]
                    violations.append({"kind": "result-depends-on-hash-seed", "input": b, "options": opts,
                                       "what": "fields %s of the result of %s (%s) differ between PYTHONHASHSEED=%s and %s" % (fields, b, opts, keys[0][:-1], k[:-1])})
                    break
        if len(samples) < 2:
            samples.append({"block": blocks[0], "options": opts, "hash_seeds": seeds, "identical": True})
    # emitted files of the command line under different hash seeds
    dl = docrun.synthesized(sd + 91, 3 if tier == "quick" else 20, ncontracts=2, nblocks=5)
    outs = {}
    for hs in seeds[:3] + ["random"]:
        for (name, d), r in zip(dl, docrun.run_docs(dl, ["-greedy", "-log"], env={"PYTHONHASHSEED": hs})):
            res = r["res"] or {}
            files = res.get("files", {})
            base = name.split(".")[0]
            outs.setdefault(name, []).append((hs, files.get(base + "_optimized.json_solc"), files.get(base + ".log")))
    for name, runs in outs.items():
        c["documents"] += 1
        for hs, o, l in runs[1:]:
            if (o, l) != (runs[0][1], runs[0][2]) or o is None:
                violations.append({"kind": "emitted-file-depends-on-hash-seed", "input": name,
                                   "what": "optimized file / log of %s differ between PYTHONHASHSEED=%s and %s" % (name, runs[0][0], hs)})
                break
    cov = {"obligations": po["obligations"], "discharged": po["discharged"],
           "checker_cmd": "cd lean && lake build; #print axioms " + ", ".join(THEOREMS),
           "trusted_base": ["Lean 4.33 kernel", "axioms: propext, Classical.choice, Quot.sound",
                            "CPython's dict insertion order and sort stability are assumed; the lemmas cover sorted()/max/len/membership consumers"],
           "axioms": po["axioms"], "evaluations": c["comparisons"] + c["documents"], "distinct_nontrivial": c["blocks"],
           "rule": "every block's specification (identifiers included), sub-blocks, emitted block, log ids and statistics are computed in worker "
                   "processes started with PYTHONHASHSEED in %s and compared field by field; synthesized documents are run through the command "
                   "line under different hash seeds and the optimized file and log compared byte for byte" % seeds,
           "samples": samples or [{"n": 0}], "counters": dict(c)}
    return {"level": "proof", "coverage": cov, "violations": violations,
            "assumptions": ["the places where a set is visited in its own order are extracted from the source on every run (syntactic, function-local: a set reached "
                            "through a parameter, a return value or a container is not seen) and must feed an order-insensitive consumer or be allow-listed "
                            "(Iteration.generated_iteration_sites_ok); the lemmas justify the order-insensitive consumers",
                            "machine load and temporary-directory names are varied only through separate processes"]}


def replay(v):
    print(v.get("what"))
    return 1
