/-
  Line-protocol glue for Models/Encoding.lean (unverified): reads an instance as the harness extracts it from a
  `FullEncoding` object, prints the generated core constraints in the S-expression form of FormulaIO.
-/
import GasolVerif.Models.Encoding
import GasolVerif.Models.EncodingOrder
import GasolVerif.Models.EncodingSoft
import GasolVerif.Models.EncodingEmpty
import GasolVerif.Models.FormulaIO
namespace GasolVerif.Enc
open GasolVerif.Formula

def parseSV (t : String) : SV :=
  if t.startsWith "#" then .num ((t.drop 1).toString.toInt?.getD 0) else .var t

def splitNE' (s : String) (sep : String) : List String := (s.splitOn sep).filter (· ≠ "")

def parseKind (s : String) : Option Kind :=
  match s.splitOn ":" with
  | ["nop"] => some .nop
  | ["pop"] => some .pop
  | ["push"] => some .pushBasic
  | ["dup", k] => k.toNat?.map .dup
  | ["swap", k] => k.toNat?.map .swap
  | ["nc", o, r] => some (.nonComm ((splitNE' o ",").map parseSV) (parseSV r))
  | ["cm", o, r] =>
    match (splitNE' o ",").map parseSV with
    | [o0, o1] => some (.comm o0 o1 (parseSV r))
    | _ => none
  | ["st", o] =>
    match (splitNE' o ",").map parseSV with
    | [o0, o1] => some (.store o0 o1)
    | _ => none
  | ["pu", o] => some (.popU (parseSV o))
  | _ => none

def parseInstr (s : String) : Option Instr :=
  match s.splitOn "~" with
  | [th, id, k, lb, ub] => do
    let th ← th.toNat?
    let k ← parseKind k
    let lb ← lb.toNat?
    let ub ← ub.toNat?
    some { theta := th, id := id, kind := k, lb := lb, ub := ub }
  | _ => none

def parseTerms (s : String) : Option (List (String × F)) :=
  (splitNE' s ";").mapM fun p =>
    match p.splitOn "=" with
    | [n, t] => (parse? t).map fun f => (n, f)
    | _ => none

def parseInst (bs b0 lim uf term instrs src tgt terms : String) : Option Inst := do
  let bs ← bs.toNat?
  let b0 ← b0.toNat?
  let lim ← lim.toInt?
  let ins ← (splitNE' instrs ";").mapM parseInstr
  let tm ← parseTerms terms
  some { bs := bs, b0 := b0, intLimit := lim, thetaUF := uf == "1", terminal := term == "1", instrs := ins,
         src := (splitNE' src ",").map parseSV, tgt := (splitNE' tgt ",").map parseSV, term := tm }

def isAtomF : F → Bool
  | .atom _ _ _ => true
  | _ => false

/-- the constraints that make values identify stack variables, per term encoding, and the executable premises of
    the matching theorem (`inj_uf`, `inj_stackVars`, `inj_int`) -/
def injPart (I : Inst) (mode : String) : List F × Bool :=
  if mode == "uf" || mode == "ui" then
    ((if I.term.length > 1 then [distinctRaw I] else []),
      svsOk I && !hasPushBasic I && I.term.all (fun p => isAtomF p.2))
  else if mode == "sv" then
    let initial : Int := if hasPushBasic I then I.intLimit else 0
    (initVarsRaw I initial, svsOk I && I.term.all (fun p => !p.2.isBoolSorted && isAtomF p.2))
  else
    ([], svsOk I && intTermsOk I)

def parsePairs (s : String) : Option (List OrderPair) :=
  (splitNE' s ";").mapM fun p =>
    match p.splitOn "," with
    | [b, a, bs, as] => do
      let b ← b.toNat?
      let a ← a.toNat?
      some { bef := b, aft := a, befStore := bs == "1", aftStore := as == "1" }
    | _ => none

/-- ENC: `ok <instOk> <all raw trees well sorted> <premises of the injectivity theorem> <premises of the order theorems>`,
    then the built core constraints, `#inj` and the injectivity constraints, `#order` and the order constraints
    (direct memory encoding only; with uninterpreted theta values also their `distinct` constraint); tab separated -/
def handleEnc (bs b0 lim mode term instrs src tgt terms memenc pairs ls ledges wts emp : String) : String :=
  match parseInst bs b0 lim (if mode == "uf" then "1" else "0") term instrs src tgt terms with
  | none => "error:parse"
  | some I =>
    match (if emp == "1" then coreRawE I else coreRaw I), (if emp == "1" then (coreRawE I).bind buildAll else coreBuilt I), parsePairs pairs with
    | some raws, some built, some ps =>
      let (injRaws, injOk) := injPart I mode
      let lsN := (splitNE' ls ",").filterMap String.toNat?
      let le := (splitNE' ledges ";").filterMap fun p => match p.splitOn "," with
        | [a, b] => match a.toNat?, b.toNat? with
          | some x, some y => some (x, y)
          | _, _ => none
        | _ => none
      let ordRaws := (if memenc == "direct" then orderRaw I ps else lRaw I lsN le) ++ (if I.thetaUF && I.instrs.length > 1 then [thetaDistinctRaw I] else [])
      let ordOk := orderOk I && thetasOk I
      let ws := raws.all F.ws && injRaws.all F.ws && ordRaws.all F.ws
      -- soft constraints grouped by weight: `theta:weight` in the order of the encoder's weight table; `-` = not grouped mode
      let wl : List (Nat × Nat) := (splitNE' wts ",").filterMap fun p => match p.splitOn ":" with
        | [a, b] => match a.toNat?, b.toNat? with
          | some x, some y => some (x, y)
          | _, _ => none
        | _ => none
      let softs := if wts == "-" then [] else softGrouped I wl
      let softOkB := wts != "-" && softOk I wl && orderOk I && thetasOk I
      match buildAll injRaws, buildAll ordRaws, buildAll (softs.map (·.1)) with
      | some injBuilt, some ordBuilt, some softBuilt =>
        s!"ok {if instOk I && decide (1 ≤ I.bs) && (emp != "1" || ((emptyF I).isSome && (allSVs I).all (fun x => x != .var "empty"))) then 1 else 0} {if ws && (softs.map (·.1)).all F.ws then 1 else 0} {if injOk then 1 else 0} {if ordOk then 1 else 0} {if softOkB then 1 else 0}" ++ "\t" ++
          "\t".intercalate (built.map showF ++ ["#inj"] ++ injBuilt.map showF ++ ["#order"] ++ ordBuilt.map showF ++ ["#soft"] ++
            (softBuilt.zip (softs.map (·.2))).map fun (f, w) => s!"{w}@" ++ showF f)
      | _, _, _ => "error:constructor-raises"
    | none, _, _ => "error:stack-variable-without-term"
    | _, none, _ => "error:constructor-raises"
    | _, _, none => "error:parse-pairs"

end GasolVerif.Enc
