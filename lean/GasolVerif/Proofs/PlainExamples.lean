import GasolVerif.Proofs.PlainSound
namespace GasolVerif.Plain

/-! non-vacuity: concrete items and mnemonics meet the premises of `parse_print` and `spelling_value` -/
def exPUSH1 : Tok := ['P', 'U', 'S', 'H', '1']
def exPUSH32 : Tok := ['P', 'U', 'S', 'H', '3', '2']
def exBlock : List Item :=
  [⟨sPUSH, some ['f', 'f']⟩, ⟨['A', 'D', 'D'], none⟩, ⟨sPUSH ++ ' ' :: ['[', 't', 'a', 'g', ']'], some ['1', '2']⟩,
   ⟨sTag, some ['7']⟩, ⟨sPUSH, some ['0']⟩, ⟨['J', 'U', 'M', 'P'], none⟩, ⟨sPUSH0, none⟩]

example : mnemOk exPUSH1 = true ∧ mnemOk exPUSH32 = true := by decide
example : covered exBlock = true := by decide
example : parse (printBlock true exBlock) = some (exBlock.map opOf) := parse_print true exBlock (by decide)
example : ∃ v, parse [exPUSH1, List.replicate 2 '0' ++ decStr 12] = some [⟨sPUSH, .str v⟩] ∧ hexVal? v = some 12 :=
  spelling_value 12 _ (Spelling.pushNdec exPUSH1 (by decide) 2)
example : hexVal? ['0', 'x', '0', '0', 'F', 'f'] = some 255 := by decide

end GasolVerif.Plain
