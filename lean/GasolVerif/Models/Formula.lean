/-
  (M) Model of the constraint-construction interface
  (smt_encoding/constraints/connector_factory.py, connector.py, function.py) and of the SMT-LIB
  rendering (solver_from_executable.translate_formula).  No Mathlib.
-/
namespace GasolVerif.Formula

inductive Conn | imp | and | or | not | eq | lt | le | distinct
  deriving DecidableEq, Repr, Inhabited, Ord

def Conn.name : Conn → String
  | .imp => "=>" | .and => "and" | .or => "or" | .not => "not" | .eq => "=" | .lt => "<" | .le => "<="
  | .distinct => "distinct"

def Conn.all : List Conn := [.imp, .and, .or, .not, .eq, .lt, .le, .distinct]
def Conn.ofName? (s : String) : Option Conn := Conn.all.find? (·.name == s)

/-- the `is_commutative` flag of the registered connectors -/
def Conn.comm : Conn → Bool
  | .and | .or | .not | .eq | .distinct => true
  | _ => false

/-- formulas: literals, integer constants, atoms (`ExpressionReference`: a declared function applied
    to arguments; `isBool` is the sort of its range) and connectors -/
inductive F
  | lit (b : Bool)
  | num (n : Int)
  | atom (name : String) (isBool : Bool) (args : List F)
  | conn (c : Conn) (args : List F)
  deriving Repr, Inhabited

mutual
def F.beq : F → F → Bool
  | .lit a, .lit b => a == b
  | .num a, .num b => a == b
  | .atom n s as, .atom n' s' as' => n == n' && s == s' && F.beqList as as'
  | .conn c as, .conn c' as' => c == c' && F.beqList as as'
  | _, _ => false
def F.beqList : List F → List F → Bool
  | [], [] => true
  | a :: as, b :: bs => F.beq a b && F.beqList as bs
  | _, _ => false
end

instance : BEq F := ⟨F.beq⟩

def F.isBoolSorted : F → Bool
  | .lit _ => true
  | .num _ => false
  | .atom _ s _ => s
  | .conn _ _ => true

/-- a valuation gives every atom (as a syntactic object) a boolean and an integer value -/
structure Val where
  b : String → List Int → Bool
  i : String → List Int → Int

def pairwiseDistinct : List Int → Bool
  | [] => true
  | x :: xs => !xs.contains x && pairwiseDistinct xs

mutual
/-- truth value; junk (`false`) on integer-sorted formulas -/
def evalB (v : Val) : F → Bool
  | .lit b => b
  | .num _ => false
  | .atom n _ args => v.b n (evalIs v args)
  | .conn .imp [a, b] => !evalB v a || evalB v b
  | .conn .and as => evalAll v as
  | .conn .or as => evalAny v as
  | .conn .not [a] => !evalB v a
  | .conn .eq [a, b] => if a.isBoolSorted then evalB v a == evalB v b else evalI v a == evalI v b
  | .conn .lt [a, b] => decide (evalI v a < evalI v b)
  | .conn .le [a, b] => decide (evalI v a ≤ evalI v b)
  | .conn .distinct as => pairwiseDistinct (evalIs v as)
  | .conn _ _ => false
/-- integer value; booleans count as 0/1 (as arguments of atoms) -/
def evalI (v : Val) : F → Int
  | .num n => n
  | .lit b => if b then 1 else 0
  | .atom n _ args => v.i n (evalIs v args)
  | .conn _ _ => 0
def evalIs (v : Val) : List F → List Int
  | [] => []
  | a :: as => evalI v a :: evalIs v as
def evalAll (v : Val) : List F → Bool
  | [] => true
  | a :: as => evalB v a && evalAll v as
def evalAny (v : Val) : List F → Bool
  | [] => false
  | a :: as => evalB v a || evalAny v as
end

inductive Err | emptyArgs | arity
  deriving DecidableEq, Repr

/-! ### the constructors, as `connector_factory` defines them -/

def isLit (b : Bool) : F → Bool
  | .lit x => x == b
  | _ => false

def isLitAny : F → Bool
  | .lit _ => true
  | _ => false

/-- drop literals, flatten nested connectors of the same kind (one level, as the code does) -/
def flatten (c : Conn) : List F → List F
  | [] => []
  | .lit _ :: as => flatten c as
  | .conn c' xs :: as => if c' = c then xs ++ flatten c as else .conn c' xs :: flatten c as
  | a :: as => a :: flatten c as

def mkAnd (args : List F) : Except Err F :=
  if args.isEmpty then .error .emptyArgs
  else if args.any (isLit false) then .ok (.lit false)
  else
    match flatten .and args with
    | [x] => .ok x
    | [] => .error .emptyArgs
    | xs => .ok (.conn .and xs)

def mkOr (args : List F) : Except Err F :=
  if args.isEmpty then .error .emptyArgs
  else if args.any (isLit true) then .ok (.lit true)
  else
    match flatten .or args with
    | [x] => .ok x
    | [] => .error .emptyArgs
    | xs => .ok (.conn .or xs)

def mkNot (a : F) : F :=
  match a with
  | .conn .not [x] => x
  | .lit b => .lit (!b)
  | _ => .conn .not [a]

def mkImplies (l r : F) : F :=
  match l, r with
  | .lit false, _ => .lit true
  | .lit true, r => r
  | _, .lit true => .lit true
  | l, .lit false => mkNot l
  | l, r => .conn .imp [l, r]

/-- Python `==` between two literals / integers (`True == 1`) -/
def pyLitEq : F → F → Option Bool
  | .lit a, .lit b => some (a == b)
  | .num a, .num b => some (a == b)
  | .lit a, .num b => some ((if a then 1 else 0) == b)
  | .num a, .lit b => some (a == (if b then 1 else 0))
  | _, _ => none

mutual
/-- canonical form: arguments of commutative connectors sorted; decides `Connector.__eq__` -/
def canon : F → F
  | .atom n s args => .atom n s (canonList args)
  | .conn c args =>
    let as := canonList args
    .conn c (if c.comm then as.mergeSort (fun x y => fLe x y) else as)
  | f => f
def canonList : List F → List F
  | [] => []
  | a :: as => canon a :: canonList as
/-- a total preorder on formulas (any would do; soundness does not depend on it) -/
def fLe : F → F → Bool
  | .lit a, .lit b => a ≤ b
  | .lit _, _ => true
  | .num _, .lit _ => false
  | .num a, .num b => a ≤ b
  | .num _, _ => true
  | .atom _ _ _, .lit _ => false
  | .atom _ _ _, .num _ => false
  | .atom n s as, .atom n' s' as' =>
    if n < n' then true else if n' < n then false
    else if s != s' then !s
    else fLeList as as'
  | .atom _ _ _, .conn _ _ => true
  | .conn c as, .conn c' as' =>
    if compare c c' == .lt then true else if compare c c' == .gt then false else fLeList as as'
  | .conn _ _, _ => false
def fLeList : List F → List F → Bool
  | [], _ => true
  | _ :: _, [] => false
  | a :: as, b :: bs => if F.beq a b then fLeList as bs else fLe a b
end

/-- the model of Python's `f == g` on formulas -/
def pyEq (f g : F) : Bool := canon f == canon g

def mkEq (l r : F) : F :=
  match pyLitEq l r with
  | some b => .lit b
  | none => if pyEq l r then .lit true else .conn .eq [l, r]

def mkLt (l r : F) : F := .conn .lt [l, r]
def mkLe (l r : F) : F := .conn .le [l, r]
def mkDistinct (args : List F) : Except Err F :=
  if args.isEmpty then .error .emptyArgs else .ok (.conn .distinct args)

/-- build a raw tree bottom-up through the constructors (what the encoder does) -/
def build1 (c : Conn) (args : List F) : Except Err F :=
  match c, args with
  | .and, as => mkAnd as
  | .or, as => mkOr as
  | .not, [a] => .ok (mkNot a)
  | .imp, [a, b] => .ok (mkImplies a b)
  | .eq, [a, b] => .ok (mkEq a b)
  | .lt, [a, b] => .ok (mkLt a b)
  | .le, [a, b] => .ok (mkLe a b)
  | .distinct, as => mkDistinct as
  | _, _ => .error .arity

mutual
def build : F → Except Err F
  | .conn c args => do
    let as ← buildList args
    build1 c as
  | f => .ok f
def buildList : List F → Except Err (List F)
  | [] => .ok []
  | a :: as => do
    let x ← build a
    let xs ← buildList as
    .ok (x :: xs)
end

def allBool : List F → Bool
  | [] => true
  | a :: as => a.isBoolSorted && allBool as

def noneBool : List F → Bool
  | [] => true
  | a :: as => !a.isBoolSorted && noneBool as

mutual
/-- well-sortedness: connectors applied at their arity, boolean connectives to boolean arguments, both
    sides of `=` of the same sort, order and distinctness to integer-sorted arguments -/
def F.ws : F → Bool
  | .lit _ => true
  | .num _ => true
  | .atom _ _ args => F.wsList args
  | .conn .imp [a, b] => F.ws a && F.ws b && a.isBoolSorted && b.isBoolSorted
  | .conn .and as => F.wsList as && !as.isEmpty && allBool as
  | .conn .or as => F.wsList as && !as.isEmpty && allBool as
  | .conn .not [a] => F.ws a && a.isBoolSorted
  | .conn .eq [a, b] => F.ws a && F.ws b && (a.isBoolSorted == b.isBoolSorted)
  | .conn .lt [a, b] => F.ws a && F.ws b && !a.isBoolSorted && !b.isBoolSorted
  | .conn .le [a, b] => F.ws a && F.ws b && !a.isBoolSorted && !b.isBoolSorted
  | .conn .distinct as => F.wsList as && !as.isEmpty && noneBool as
  | .conn _ _ => false
def F.wsList : List F → Bool
  | [] => true
  | a :: as => F.ws a && F.wsList as
end

/-! ### rendering (translate_formula) -/
mutual
def render : F → String
  | .lit true => "true"
  | .lit false => "false"
  | .num n => toString n
  | .atom n _ [] => n
  | .atom n _ args => "(" ++ n ++ " " ++ " ".intercalate (renderList args) ++ ")"
  | .conn c args => "(" ++ c.name ++ "  " ++ " ".intercalate (renderList args) ++ ")"
def renderList : List F → List String
  | [] => []
  | a :: as => render a :: renderList as
end

end GasolVerif.Formula
