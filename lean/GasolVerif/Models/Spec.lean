/-
  (V) C02 / C04: stack functional specifications (SFS) as the front end emits them, their symbolic
  evaluation under a schedule of the memory/storage operations, the "conflicting accesses are ordered"
  check and the "realizes" check for instruction-id sequences.   No Mathlib.
-/
import GasolVerif.Equiv
import GasolVerif.Parse
namespace GasolVerif.Spec

inductive Atom | const (n : Nat) | var (s : String)
  deriving DecidableEq, Repr, Inhabited

structure UInstr where
  id : String
  op : String                 -- disasm
  sym : String                -- token text for pseudo-pushes, hex value for PUSH
  inp : List Atom
  out : Option String
  comm : Bool := false
  deriving DecidableEq, Repr, Inhabited

structure Spec where
  src : List String
  tgt : List Atom
  instrs : List UInstr
  deps : List (String × String)
  deriving Repr, Inhabited

def memOps : List String := ["MSTORE", "MSTORE8", "MLOAD", "KECCAK256", "SHA3"]
def stoOps : List String := ["SSTORE", "SLOAD"]
def UInstr.isMem (u : UInstr) : Bool := memOps.contains u.op
def UInstr.isSto (u : UInstr) : Bool := stoOps.contains u.op
def UInstr.isStore (u : UInstr) : Bool := u.op == "MSTORE" || u.op == "MSTORE8" || u.op == "SSTORE"
def UInstr.isEffect (u : UInstr) : Bool := u.isMem || u.isSto

def Spec.find? (S : Spec) (id : String) : Option UInstr := S.instrs.find? (·.id == id)
def Spec.producer? (S : Spec) (v : String) : Option UInstr := S.instrs.find? (·.out == some v)

abbrev Env := List (String × Tm)

/-- term of a pure (non memory/storage) instruction applied to argument terms -/
def pureTm (u : UInstr) (args : List Tm) : Option Tm :=
  match args with
  | [] =>
    if u.op == "PUSH" || u.op == "PUSH0" then (parseHex? u.sym).map fun n => .const (BitVec.ofNat 256 n)
    else if u.op.startsWith "PUSH" then some (.sym u.sym)
    else some (.env0 (if u.op == "DIFFICULTY" then "PREVRANDAO" else u.op))
  | [a] =>
    match UnOp.ofName? u.op with
    | some o => some (.un o a)
    | none => some (.env1 u.op a)
  | [a, b] => (BinOp.ofName? u.op).map fun o => .bin o a b
  | [a, b, c] => (TerOp.ofName? u.op).map fun o => .ter o a b c
  | _ => none

mutual
/-- the term a variable stands for: an initial stack word, a bound load result, or a pure instruction -/
def termOfVar (S : Spec) (env : Env) : Nat → String → Option Tm
  | 0, _ => none
  | fuel + 1, v =>
    match env.lookup v with
    | some t => some t
    | none =>
      match S.src.idxOf? v with
      | some i => some (.var i)
      | none =>
        match S.producer? v with
        | some u =>
          if u.isEffect then none     -- a load that has not been scheduled yet
          else (termsOf S env fuel u.inp).bind (pureTm u)
        | none => none
def termOfAtom (S : Spec) (env : Env) : Nat → Atom → Option Tm
  | _, .const n => some (.const (BitVec.ofNat 256 n))
  | fuel, .var v => termOfVar S env fuel v
def termsOf (S : Spec) (env : Env) : Nat → List Atom → Option (List Tm)
  | _, [] => some []
  | fuel, a :: as =>
    match termOfAtom S env fuel a, termsOf S env fuel as with
    | some t, some ts => some (t :: ts)
    | _, _ => none
end

structure EvalSt where
  env : Env := []
  mem : Tm := .mem0
  sto : Tm := .sto0
  /-- address (and size) of every effect executed, in order, for the conflict check -/
  log : List (String × Tm × Option Tm) := []

def fuelOf (S : Spec) : Nat := S.instrs.length + 2

def stepEffect (S : Spec) (st : EvalSt) (u : UInstr) : Option EvalSt := do
  let args ← termsOf S st.env (fuelOf S) u.inp
  match u.op, args, u.out with
  | "MSTORE", [a, v], _ => some { st with mem := .mstore st.mem a v, log := st.log ++ [(u.id, a, some v)] }
  | "MSTORE8", [a, v], _ => some { st with mem := .mstore8 st.mem a v, log := st.log ++ [(u.id, a, some v)] }
  | "SSTORE", [k, v], _ => some { st with sto := .sstore st.sto k v, log := st.log ++ [(u.id, k, some v)] }
  | "MLOAD", [a], some o => some { st with env := (o, .mload st.mem a) :: st.env, log := st.log ++ [(u.id, a, none)] }
  | "SLOAD", [k], some o => some { st with env := (o, .sload st.sto k) :: st.env, log := st.log ++ [(u.id, k, none)] }
  | "KECCAK256", [off, len], some o =>
    some { st with env := (o, .keccak st.mem off len) :: st.env, log := st.log ++ [(u.id, off, some len)] }
  | "SHA3", [off, len], some o =>
    some { st with env := (o, .keccak st.mem off len) :: st.env, log := st.log ++ [(u.id, off, some len)] }
  | _, _, _ => none

def runSchedule (S : Spec) : List String → EvalSt → Option EvalSt
  | [], st => some st
  | id :: ids, st =>
    match S.find? id with
    | some u => (stepEffect S st u).bind (runSchedule S ids)
    | none => none

/-- the symbolic state a specification denotes under a schedule of its memory/storage operations -/
def evalSpec (S : Spec) (L : List String) : Option SymSt := do
  let st ← runSchedule S L {}
  let stk ← termsOf S st.env (fuelOf S) S.tgt
  some { stk := stk, base := S.src.length, mem := st.mem, sto := st.sto }

def effectIds (S : Spec) : List String := (S.instrs.filter (·.isEffect)).map (·.id)

/-- `L` runs every memory/storage operation exactly once and respects every declared dependence pair -/
def respectsDeps (S : Spec) (L : List String) : Bool :=
  L.length == (effectIds S).length && (effectIds S).all (L.contains ·) &&
  S.deps.all fun (a, b) =>
    match L.idxOf? a, L.idxOf? b with
    | some i, some j => i < j
    | _, _ => true      -- a pair naming a pure instruction constrains nothing here

/-- the specification under schedule `L` and the block are the same function of the initial state -/
def scheduleMatches (nf : Normaliser) (S : Spec) (L : List String) (B : List Instr) : Bool :=
  match evalSpec S L, symExec B .init with
  | some X, some Y =>
    -- compare at the deeper of the two stack depths
    let d := max X.base Y.base
    let X' := X.ensure (X.stk.length + (d - X.base))
    let Y' := Y.ensure (Y.stk.length + (d - Y.base))
    (X'.stk.map nf.w == Y'.stk.map nf.w) && nf.m X.mem == nf.m Y.mem && nf.s X.sto == nf.s Y.sto
  | _, _ => false

/-! ### conflicting accesses must be ordered -/

def reach (edges : List (String × String)) (fuel : Nat) (a b : String) : Bool :=
  match fuel with
  | 0 => false
  | fuel + 1 => edges.any fun (x, y) => x == a && (y == b || reach edges fuel y b)

/-- effects whose arguments (transitively through pure instructions) use the result of load `v` -/
partial def usesVar (S : Spec) (v : String) : Atom → Bool
  | .const _ => false
  | .var x =>
    x == v ||
      match S.producer? x with
      | some u => !u.isEffect && u.inp.any (usesVar S v)
      | none => false

def dataEdges (S : Spec) : List (String × String) :=
  (S.instrs.filter (·.isEffect)).flatMap fun p =>
    match p.out with
    | some v => ((S.instrs.filter (·.isEffect)).filter fun c => c.inp.any (usesVar S v)).map fun c => (p.id, c.id)
    | none => []

def sizeOfAccess (nf : Normaliser) (u : UInstr) (extra : Option Tm) : Option Nat :=
  if u.op == "MSTORE" || u.op == "MLOAD" then some 32
  else if u.op == "MSTORE8" then some 1
  else match extra with
    | some len => Norm.constLen? (nf.w len)
    | none => none

/-- first pair of conflicting, unordered operations under the addresses computed along `L` -/
def firstConflict (nf : Normaliser) (S : Spec) (L : List String) : Option (String × String) := do
  let st ← runSchedule S L {}
  let edges := S.deps ++ dataEdges S
  let n := edges.length + 1
  let log := st.log
  let pairs := log.flatMap fun x => log.map fun y => (x, y)
  let bad := pairs.find? fun ((ia, aa, va), (ib, ab, vb)) =>
    match S.find? ia, S.find? ib with
    | some ua, some ub =>
      ia < ib && (ua.isStore || ub.isStore) && (ua.isMem == ub.isMem) &&
      !(reach edges n ia ib || reach edges n ib ia) &&
      (if ua.isMem then
        match sizeOfAccess nf ua va, sizeOfAccess nf ub vb with
        | some sa, some sb => !(Norm.disjoint (nf.w aa) sa (nf.w ab) sb || Norm.disjoint (nf.w ab) sb (nf.w aa) sa)
        | _, _ => true
       else !(Norm.keysDiffer (nf.w aa) (nf.w ab))) &&
      -- two stores of the same value to the same place commute
      !(ua.op == ub.op && ua.isStore && nf.w aa == nf.w ab && (va.map nf.w) == (vb.map nf.w))
    | _, _ => false
  bad.map fun ((ia, _, _), (ib, _, _)) => (ia, ib)

/-! ### C04: an instruction-id sequence realizes a specification -/

/-- a PUSH-produced variable is the constant it pushes -/
def resolve (S : Spec) : Atom → Atom
  | .const n => .const n
  | .var v =>
    match S.producer? v with
    | some u => if u.op == "PUSH" || u.op == "PUSH0" then
        match parseHex? u.sym with
        | some n => .const n
        | none => .var v
      else .var v
    | none => .var v

def stackIdx? (pre : String) (id : String) : Option Nat :=
  if id.startsWith pre then (id.drop pre.length).toString.toNat? else none

structure RunSt where
  stack : List Atom
  done : List String := []      -- ids executed so far, in order
  peak : Nat := 0

def stepId (S : Spec) (st : RunSt) (id : String) : Except String RunSt :=
  if id == "NOP" then .ok st
  else if id.startsWith "PUSH#" then
    -- the basic PUSH of the `-push-basic` encoding, with the constant the model assigns to `a_j`
    match (id.drop 5).toString.toNat? with
    | some n => .ok { st with stack := .const n :: st.stack, peak := max st.peak (st.stack.length + 1) }
    | none => .error s!"{id}: pushed constant is not a natural number"
  else if id == "POP" then
    match st.stack with
    | _ :: r => .ok { st with stack := r }
    | [] => .error "POP on an empty stack"
  else match stackIdx? "DUP" id with
  | some k =>
    if k = 0 || k > 16 then .error s!"{id}: depth out of 1..16" else
    match st.stack[k - 1]? with
    | some a => .ok { st with stack := a :: st.stack, peak := max st.peak (st.stack.length + 1) }
    | none => .error s!"{id}: stack underflow"
  | none =>
  match stackIdx? "SWAP" id with
  | some k =>
    if k = 0 || k > 16 then .error s!"{id}: depth out of 1..16" else
    match st.stack with
    | top :: rest =>
      match rest[k - 1]? with
      | some a => .ok { st with stack := a :: rest.set (k - 1) top }
      | none => .error s!"{id}: stack underflow"
    | [] => .error s!"{id}: stack underflow"
  | none =>
  match S.find? id with
  | none => .error s!"unknown instruction id {id}"
  | some u =>
    let n := u.inp.length
    if st.stack.length < n then .error s!"{id}: stack underflow" else
    let args := (st.stack.take n).map (resolve S)
    let want := u.inp.map (resolve S)
    -- reversed operands only for an operation that *is* commutative, whatever the specification's flag says
    if !(args == want || ((u.comm && (BinOp.ofName? u.op).any (·.comm)) && args == want.reverse)) then
      .error s!"{id}: applied to operands other than the ones the specification names"
    else if u.isStore && st.done.contains id then .error s!"{id}: store performed twice"
    else
      let rest := st.stack.drop n
      let stack := match u.out with
        | some o => .var o :: rest
        | none => rest
      .ok { stack := stack, done := st.done ++ [id], peak := max st.peak stack.length }

def runIds (S : Spec) : List String → RunSt → Except String RunSt
  | [], st => .ok st
  | id :: ids, st =>
    match stepId S st id with
    | .ok st' => runIds S ids st'
    | .error e => .error e

/-- C04's list: no underflow, DUP/SWAP 1..16, every store exactly once, dependences respected, each
    operation applied to the operands the specification names, final stack as specified -/
def realizes (S : Spec) (ids : List String) : Except String RunSt :=
  match runIds S ids { stack := S.src.map .var, peak := S.src.length } with
  | .error e => .error e
  | .ok st =>
    if st.stack.map (resolve S) != S.tgt.map (resolve S) then .error "final stack differs from the specified one"
    else
      match (S.instrs.filter (·.isStore)).find? (fun u => !st.done.contains u.id) with
      | some u => .error s!"store {u.id} never performed"
      | none =>
        match S.deps.find? (fun (a, b) =>
            match st.done.idxOf? a, st.done.idxOf? b with
            | some i, some j =>
              -- every occurrence of `a` before every occurrence of `b`
              !(i < j) || (st.done.zipIdx.any fun (x, p) => x == a && st.done.zipIdx.any fun (y, q) => y == b && q < p)
            | _, _ => false) with
        | some (a, b) => .error s!"dependence {a} before {b} not respected"
        | none => .ok st

/-! ### wire format -/
def parseAtom (t : String) : Atom :=
  if t.startsWith "#" then .const ((t.drop 1).toString.toNat?.getD 0) else .var t

def splitNE (s : String) (sep : String) : List String := (s.splitOn sep).filter (· ≠ "")

def parseSpec (src tgt instrs deps : String) : Option Spec := do
  let us ← (splitNE instrs ";").mapM fun r =>
    match r.splitOn "~" with
    | [id, op, sym, inp, out, comm] =>
      some { id := id, op := op, sym := sym, inp := (splitNE inp ",").map parseAtom,
             out := if out.isEmpty then none else some out, comm := comm == "1" : UInstr }
    | _ => none
  let ds ← (splitNE deps ",").mapM fun d =>
    match d.splitOn ">" with
    | [a, b] => some (a, b)
    | _ => none
  some { src := splitNE src ",", tgt := (splitNE tgt ",").map parseAtom, instrs := us, deps := ds }

def handleRealizes (src tgt instrs deps ids : String) : String :=
  match parseSpec src tgt instrs deps with
  | some S =>
    match realizes S (splitNE ids ",") with
    | .ok st => s!"ok:{st.peak}"
    | .error e => "no:" ++ e
  | none => "error:parse"

end GasolVerif.Spec
