/-
  (P) C06: soundness of the `-empty` encoding (Models/EncodingEmpty.lean).  The stack lemmas are stated for an arbitrary
  occupancy predicate (`HeightP`, `consume_produceP`, `consumeP`); here a cell is occupied when its value is not the
  `empty` constant, values move with `move_only_x_j_i`, and `step_soundE` / `core_soundE` mirror `step_sound` /
  `core_sound`; `notEmpty_of_nodup` discharges "no stack variable has the empty value".   No Mathlib.
-/
import GasolVerif.Models.EncodingEmpty
import GasolVerif.Proofs.EncodingOrderSound
set_option linter.unusedSimpArgs false
set_option linter.unusedVariables false
namespace GasolVerif.Enc
open GasolVerif.Formula

/-! ### occupancy as a predicate: the general shape of the stack lemmas -/

/-- the cells `0 … h-1` at position `j` are the occupied ones (`P i j`) -/
def HeightP (bs : Nat) (P : Nat → Nat → Bool) (j h : Nat) : Prop :=
  h ≤ bs ∧ ∀ i, i < bs → (P i j = true ↔ i < h)

theorem heightP_lt {bs : Nat} {P : Nat → Nat → Bool} {j h : Nat} (hh : HeightP bs P j h) (i : Nat) (hi : i < bs)
    (hu : P i j = true) : i < h := (hh.2 i hi).mp hu

theorem heightP_not {bs : Nat} {P : Nat → Nat → Bool} {j h : Nat} (hh : HeightP bs P j h) (i : Nat) (hi : i < bs)
    (hu : P i j = false) : h ≤ i := by
  have := hh.2 i hi
  cases Nat.lt_or_ge i h with
  | inl hl => rw [this.mpr hl] at hu; cases hu
  | inr hg => exact hg

theorem heightP_unique {bs : Nat} {P : Nat → Nat → Bool} {j h h' : Nat} (a : HeightP bs P j h) (b : HeightP bs P j h') :
    h = h' := by
  rcases Nat.lt_trichotomy h h' with hl | he | hg
  · have := (b.2 h (by have := b.1; omega)).mpr hl
    have := (a.2 h (by have := b.1; omega)).mp this; omega
  · exact he
  · have := (a.2 h' (by have := a.1; omega)).mpr hg
    have := (b.2 h' (by have := a.1; omega)).mp this; omega

/-- consume `n` cells, produce one -/
theorem consume_produceP (bs : Nat) (P : Nat → Nat → Bool) (v : Val) (j h n : Nat) (hh : HeightP bs P j h) (hbs : 1 ≤ bs)
    (hn : n ≤ h) (hroom : n = 0 → P (bs - 1) j = false)
    (htop : P 0 (j + 1) = true)
    (hmv : ∀ i, n ≤ i → i < bs → i + 1 - n < bs →
      P (i + 1 - n) (j + 1) = P i j ∧ X v (i + 1 - n) (j + 1) = X v i j)
    (hfree : ∀ i, bs - n + 1 ≤ i → i < bs → P i (j + 1) = false) :
    HeightP bs P (j + 1) (h - n + 1) ∧ stk v (j + 1) (h - n + 1) = X v 0 (j + 1) :: (stk v j h).drop n := by
  have hle := hh.1
  have hroom' : h - n + 1 ≤ bs := by
    by_cases h0 : n = 0
    · have := heightP_not hh (bs - 1) (by omega) (hroom h0); omega
    · omega
  refine ⟨⟨hroom', ?_⟩, ?_⟩
  · intro i hi
    cases i with
    | zero => simp [htop]
    | succ i =>
      by_cases hl : i + n < bs
      · have := (hmv (i + n) (by omega) hl (by omega)).1
        have e : i + n + 1 - n = i + 1 := by omega
        rw [e] at this
        rw [this, hh.2 (i + n) hl]; omega
      · have := hfree (i + 1) (by omega) hi
        rw [this]; simp; omega
  · apply list_ext_get _ _ (by simp <;> omega)
    intro i h1 h2
    simp only [stk_length] at h1
    rw [stk_getElem _ _ _ _ h1]
    cases i with
    | zero => rfl
    | succ i =>
      simp only [List.getElem_cons_succ, List.getElem_drop]
      rw [stk_getElem _ _ _ _ (by omega)]
      have := (hmv (i + n) (by omega) (by omega) (by omega)).2
      have e : i + n + 1 - n = i + 1 := by omega
      rw [e] at this
      rw [this]; congr 1; omega

/-- consume `n ≥ 1` cells, produce none -/
theorem consumeP (bs : Nat) (P : Nat → Nat → Bool) (v : Val) (j h n : Nat) (hh : HeightP bs P j h) (hn1 : 1 ≤ n)
    (hn : n ≤ h)
    (hmv : ∀ i, n ≤ i → i < bs → P (i - n) (j + 1) = P i j ∧ X v (i - n) (j + 1) = X v i j)
    (hfree : ∀ i, bs - n ≤ i → i < bs → P i (j + 1) = false) :
    HeightP bs P (j + 1) (h - n) ∧ stk v (j + 1) (h - n) = (stk v j h).drop n := by
  have hle := hh.1
  refine ⟨⟨by omega, ?_⟩, ?_⟩
  · intro i hi
    by_cases hl : i + n < bs
    · have := (hmv (i + n) (by omega) hl).1
      simp only [Nat.add_sub_cancel] at this
      rw [this, hh.2 (i + n) hl]; omega
    · rw [hfree i (by omega) hi]; simp; omega
  · apply list_ext_get _ _ (by simp)
    intro i h1 h2
    simp only [stk_length] at h1
    rw [stk_getElem _ _ _ _ h1]
    simp only [List.getElem_drop]
    rw [stk_getElem _ _ _ _ (by omega)]
    have := (hmv (i + n) (by omega) (by omega)).2
    simp only [Nat.add_sub_cancel] at this
    rw [this]; congr 1; omega

/-! ### reading the `-empty` encoding -/

/-- value of the `empty` constant -/
def Ev (v : Val) (e : F) : Int := evalI v e
/-- cell `i` at position `j` is occupied -/
def Occ (v : Val) (e : F) (i j : Nat) : Bool := X v i j != Ev v e

/-- the `empty` term is integer sorted (an executable premise: it is a constant of the evm sort or an integer) -/
def emptySorted (e : F) : Bool := !e.isBoolSorted

@[simp] theorem evalB_isE (v : Val) (e : F) (i j : Nat) : evalB v (isE e i j) = (X v i j == Ev v e) := by
  simp [isE, evalB, xA, F.isBoolSorted, X, Ev, evalI, evalIs]

@[simp] theorem evalB_notE (v : Val) (e : F) (i j : Nat) : evalB v (notE e i j) = (X v i j != Ev v e) := by
  simp [notE, evalB, evalIs, pairwiseDistinct, xA, X, Ev, evalI]
  cases h : (v.i s!"x_{i}_{j}" [] == evalI v e) <;> simp_all

theorem occ_false (v : Val) (e : F) (i j : Nat) : Occ v e i j = false ↔ X v i j = Ev v e := by simp [Occ]
theorem occ_true (v : Val) (e : F) (i j : Nat) : Occ v e i j = true ↔ X v i j ≠ Ev v e := by simp [Occ]

/-- meaning of `move_only_x_j_i`: values move, hence occupancy moves with them -/
theorem evalB_moveX (v : Val) (e : F) (j al be : Nat) (d : Int) :
    evalB v (moveX j al be d) = true ↔
      ∀ i, al ≤ i → i ≤ be → Occ v e (shift i d) (j + 1) = Occ v e i j ∧ X v (shift i d) (j + 1) = X v i j := by
  unfold moveX
  split
  · rename_i h; simp; intro i h1 h2; omega
  · rename_i h
    simp only [evalB_and, evalAll_iff, List.mem_map, mem_rangeL]
    constructor
    · intro hh i h1 h2
      have e2 := hh (.conn .eq [xA (shift i d) (j + 1), xA i j]) ⟨i, ⟨h1, by omega⟩, rfl⟩
      simp at e2
      exact ⟨by simp [Occ, e2], e2⟩
    · rintro hh f ⟨i, ⟨h1, h2⟩, rfl⟩
      have := hh i h1 (by omega)
      simp [this.2]

theorem evalB_moveXI (v : Val) (e : F) (j al : Nat) (be : Int) (d : Int) :
    evalB v (moveXI j al be d) = true ↔
      ∀ i : Nat, al ≤ i → (i : Int) ≤ be → Occ v e (shift i d) (j + 1) = Occ v e i j ∧ X v (shift i d) (j + 1) = X v i j := by
  unfold moveXI
  split
  · rename_i h; simp; intro i h1 h2; omega
  · rename_i h
    rw [evalB_moveX v e]
    constructor
    · intro hh i h1 h2; exact hh i h1 (by omega)
    · intro hh i h1 h2; exact hh i h1 (by omega)

end GasolVerif.Enc

namespace GasolVerif.Enc
open GasolVerif.Formula

abbrev HeightE (I : Inst) (v : Val) (e : F) (j h : Nat) : Prop := HeightP I.bs (Occ v e) j h

theorem stepE_nop (I : Inst) (v : Val) (e : F) (j h : Nat) (hh : HeightE I v e j h)
    (hc : evalB v (moveX j 0 (I.bs - 1) 0) = true) :
    HeightE I v e (j + 1) h ∧ stk v (j + 1) h = stk v j h := by
  rw [evalB_moveX v e] at hc
  have hm : ∀ i, i < I.bs → Occ v e i (j + 1) = Occ v e i j ∧ X v i (j + 1) = X v i j := by
    intro i hi
    have := hc i (by omega) (by omega)
    simpa [shift] using this
  refine ⟨⟨hh.1, fun i hi => by rw [(hm i hi).1]; exact hh.2 i hi⟩, ?_⟩
  apply list_ext_get _ _ (by simp)
  intro i h1 h2
  simp only [stk_length] at h1
  rw [stk_getElem _ _ _ _ h1, stk_getElem _ _ _ _ h1]
  exact (hm i (by have := hh.1; omega)).2

theorem stk_cons1 (v : Val) (j h : Nat) (h1 : 1 ≤ h) : stk v j h = X v 0 j :: (stk v j h).drop 1 := by
  apply list_ext_get _ _ (by simp; omega)
  intro i hi h3
  simp only [stk_length] at hi
  rw [stk_getElem _ _ _ _ hi]
  match i with
  | 0 => rfl
  | i + 1 =>
    simp only [List.getElem_cons_succ, List.getElem_drop]
    rw [stk_getElem _ _ _ _ (by omega)]
    congr 1; omega

theorem stepE_pop (I : Inst) (v : Val) (e : F) (val : SV → Int) (a : Int) (j h : Nat) (hh : HeightE I v e j h) (hbs : 1 ≤ I.bs)
    (hc : evalB v (.conn .and [notE e 0 j, isE e (I.bs - 1) (j + 1), moveX j 1 (I.bs - 1) (-1)]) = true) :
    ∃ h', HeightE I v e (j + 1) h' ∧ stepVal I val .pop a (stk v j h) = some (stk v (j + 1) h') := by
  rw [and_list_iff] at hc
  simp only [List.mem_cons, List.mem_nil_iff, or_false, forall_eq_or_imp, forall_eq] at hc
  obtain ⟨h0, hlast, hmv⟩ := hc
  rw [evalB_notE] at h0
  rw [evalB_isE] at hlast
  rw [evalB_moveX v e] at hmv
  have hpos : 0 < h := heightP_lt hh 0 (by omega) h0
  have key := consumeP I.bs (Occ v e) v j h 1 hh (by omega) (by omega)
    (by
      intro i h1 hi
      have := hmv i h1 (by omega)
      have e1 : shift i (-1) = i - 1 := shift_neg i 1 h1
      rwa [e1] at this)
    (by
      intro i h1 h2
      have : i = I.bs - 1 := by omega
      subst this; simpa [Occ] using hlast)
  refine ⟨h - 1, key.1, ?_⟩
  rw [stk_cons1 v j h hpos]
  simp only [stepVal]
  rw [key.2]

theorem stepE_popU (I : Inst) (v : Val) (e : F) (a : Int) (j h : Nat) (o0 : SV) (t0 : F) (ht0 : svF I o0 = some t0)
    (hh : HeightE I v e j h) (hbs : 1 ≤ I.bs)
    (hc : evalB v (.conn .and [notE e 0 j, .conn .eq [xA 0 j, t0], isE e (I.bs - 1) (j + 1), moveX j 1 (I.bs - 1) (-1)]) = true) :
    ∃ h', HeightE I v e (j + 1) h' ∧ stepVal I (valOf I v) (.popU o0) a (stk v j h) = some (stk v (j + 1) h') := by
  rw [and_list_iff] at hc
  simp only [List.mem_cons, List.mem_nil_iff, or_false, forall_eq_or_imp, forall_eq] at hc
  obtain ⟨h0, hx, hlast, hmv⟩ := hc
  rw [evalB_notE] at h0
  rw [evalB_isE] at hlast
  simp at hx
  rw [evalB_moveX v e] at hmv
  have hpos : 0 < h := heightP_lt hh 0 (by omega) h0
  have key := consumeP I.bs (Occ v e) v j h 1 hh (by omega) (by omega)
    (by
      intro i h1 hi
      have := hmv i h1 (by omega)
      have e1 : shift i (-1) = i - 1 := shift_neg i 1 h1
      rwa [e1] at this)
    (by
      intro i h1 h2
      have : i = I.bs - 1 := by omega
      subst this; simpa [Occ] using hlast)
  refine ⟨h - 1, key.1, ?_⟩
  rw [stk_cons1 v j h hpos]
  simp only [stepVal, valOf_of I v o0 t0 ht0, hx, if_true]
  rw [key.2]

theorem stepE_pushBasic (I : Inst) (v : Val) (e : F) (val : SV → Int) (j h : Nat) (hh : HeightE I v e j h) (hbs : 1 ≤ I.bs)
    (hEa : ∀ a : Int, 0 ≤ a → a < I.intLimit → a ≠ Ev v e)
    (hc : evalB v (.conn .and [.conn .le [.num 0, aA j], .conn .lt [aA j, .num I.intLimit], isE e (I.bs - 1) j,
      .conn .eq [xA 0 (j + 1), aA j], moveXI j 0 ((I.bs : Int) - 2) 1]) = true) :
    ∃ h', HeightE I v e (j + 1) h' ∧ stepVal I val .pushBasic (A v j) (stk v j h) = some (stk v (j + 1) h') := by
  rw [and_list_iff] at hc
  simp only [List.mem_cons, List.mem_nil_iff, or_false, forall_eq_or_imp, forall_eq] at hc
  obtain ⟨h1, h2, h3, h5, h6⟩ := hc
  rw [evalB_isE] at h3
  simp at h1 h2 h5
  rw [evalB_moveXI v e] at h6
  have htop : Occ v e 0 (j + 1) = true := by
    rw [occ_true, h5]; exact hEa _ h1 h2
  have hfull : Occ v e (I.bs - 1) j = false := by simpa [Occ] using h3
  have key := consume_produceP I.bs (Occ v e) v j h 0 hh hbs (by omega) (fun _ => hfull) htop
    (by
      intro i _ hi hi2
      have := h6 i (by omega) (by omega)
      rw [shift_pos] at this
      simpa using this)
    (by intro i h1 h2; omega)
  simp only [Nat.sub_zero, List.drop_zero] at key
  refine ⟨h + 1, key.1, ?_⟩
  have hlt : h < I.bs := by have := heightP_not hh (I.bs - 1) (by omega) hfull; omega
  simp [stepVal, hlt, h1, h2, key.2, h5]

theorem stepE_dup (I : Inst) (v : Val) (e : F) (val : SV → Int) (a : Int) (j h k : Nat) (hh : HeightE I v e j h)
    (hk : 1 ≤ k ∧ k < I.bs)
    (hc : evalB v (.conn .and [isE e (I.bs - 1) j, notE e (k - 1) j, .conn .eq [xA 0 (j + 1), xA (k - 1) j],
      moveXI j 0 ((I.bs : Int) - 2) 1]) = true) :
    ∃ h', HeightE I v e (j + 1) h' ∧ stepVal I val (.dup k) a (stk v j h) = some (stk v (j + 1) h') := by
  rw [and_list_iff] at hc
  simp only [List.mem_cons, List.mem_nil_iff, or_false, forall_eq_or_imp, forall_eq] at hc
  obtain ⟨h3, hk1, h5, h6⟩ := hc
  rw [evalB_isE] at h3
  rw [evalB_notE] at hk1
  simp at h5
  rw [evalB_moveXI v e] at h6
  have hk1' : Occ v e (k - 1) j = true := hk1
  have htop : Occ v e 0 (j + 1) = true := by
    rw [occ_true, h5]; exact (occ_true v e (k - 1) j).mp hk1'
  have hfull : Occ v e (I.bs - 1) j = false := by simpa [Occ] using h3
  have key := consume_produceP I.bs (Occ v e) v j h 0 hh (by omega) (by omega) (fun _ => hfull) htop
    (by
      intro i _ hi hi2
      have := h6 i (by omega) (by omega)
      rw [shift_pos] at this
      simpa using this)
    (by intro i h1 h2; omega)
  simp only [Nat.sub_zero, List.drop_zero] at key
  refine ⟨h + 1, key.1, ?_⟩
  have hlt : h < I.bs := by have := heightP_not hh (I.bs - 1) (by omega) hfull; omega
  have hkh : k - 1 < h := heightP_lt hh (k - 1) (by omega) hk1'
  simp [stepVal, hlt, stk_getElem? v j h (k - 1) hkh, key.2, h5]

end GasolVerif.Enc

namespace GasolVerif.Enc
open GasolVerif.Formula

theorem stepE_store (I : Inst) (v : Val) (e : F) (a : Int) (j h : Nat) (o0 o1 : SV) (t0 t1 : F)
    (ht0 : svF I o0 = some t0) (ht1 : svF I o1 = some t1) (hh : HeightE I v e j h) (hbs : 2 ≤ I.bs)
    (hE1 : valOf I v o1 ≠ Ev v e)
    (hc : evalB v (.conn .and [.conn .eq [xA 0 j, t0], .conn .eq [xA 1 j, t1], moveX j 2 (I.bs - 1) (-2),
      isE e (I.bs - 1) (j + 1), isE e (I.bs - 2) (j + 1)]) = true) :
    ∃ h', HeightE I v e (j + 1) h' ∧ stepVal I (valOf I v) (.store o0 o1) a (stk v j h) = some (stk v (j + 1) h') := by
  rw [and_list_iff] at hc
  simp only [List.mem_cons, List.mem_nil_iff, or_false, forall_eq_or_imp, forall_eq] at hc
  obtain ⟨hx0, hx1, hmv, hl1, hl2⟩ := hc
  rw [evalB_isE] at hl1 hl2
  simp at hx0 hx1
  rw [evalB_moveX v e] at hmv
  have hocc1 : Occ v e 1 j = true := by
    rw [occ_true, hx1, ← valOf_of I v o1 t1 ht1]; exact hE1
  have hge : 2 ≤ h := by have := heightP_lt hh 1 (by omega) hocc1; omega
  have key := consumeP I.bs (Occ v e) v j h 2 hh (by omega) hge
    (by
      intro i hi1 hi
      have := hmv i hi1 (by omega)
      have e1 : shift i (-2) = i - 2 := shift_neg i 2 hi1
      rwa [e1] at this)
    (by
      intro i hi1 hi2
      have : i = I.bs - 1 ∨ i = I.bs - 2 := by omega
      rcases this with rfl | rfl
      · simpa [Occ] using hl1
      · simpa [Occ] using hl2)
  refine ⟨h - 2, key.1, ?_⟩
  rw [stk_cons2 v j h hge]
  simp only [stepVal, valOf_of I v o0 t0 ht0, valOf_of I v o1 t1 ht1, hx0, hx1, and_self, if_true]
  rw [key.2]

theorem stepE_comm (I : Inst) (v : Val) (e : F) (a : Int) (j h : Nat) (o0 o1 r : SV) (t0 t1 tr : F)
    (ht0 : svF I o0 = some t0) (ht1 : svF I o1 = some t1) (htr : svF I r = some tr)
    (hh : HeightE I v e j h) (hbs : 2 ≤ I.bs)
    (hE0 : valOf I v o0 ≠ Ev v e) (hE1 : valOf I v o1 ≠ Ev v e) (hEr : valOf I v r ≠ Ev v e)
    (hc : evalB v (.conn .and [
      .conn .or [.conn .and [.conn .eq [xA 0 j, t0], .conn .eq [xA 1 j, t1]],
                 .conn .and [.conn .eq [xA 0 j, t1], .conn .eq [xA 1 j, t0]]],
      .conn .eq [xA 0 (j + 1), tr], moveX j 2 (I.bs - 1) (-1), isE e (I.bs - 1) (j + 1)]) = true) :
    ∃ h', HeightE I v e (j + 1) h' ∧ stepVal I (valOf I v) (.comm o0 o1 r) a (stk v j h) = some (stk v (j + 1) h') := by
  rw [and_list_iff] at hc
  simp only [List.mem_cons, List.mem_nil_iff, or_false, forall_eq_or_imp, forall_eq] at hc
  obtain ⟨hor, hxr, hmv, hl1⟩ := hc
  simp only [evalB_or, evalAny_iff, List.mem_cons, List.mem_nil_iff, or_false, exists_eq_or_imp, exists_eq_left,
    and_list_iff, forall_eq_or_imp, forall_eq] at hor
  rw [evalB_isE] at hl1
  simp at hxr hor
  rw [evalB_moveX v e] at hmv
  have hocc1 : Occ v e 1 j = true := by
    rw [occ_true]
    rcases hor with ⟨_, h1⟩ | ⟨_, h1⟩
    · rw [h1, ← valOf_of I v o1 t1 ht1]; exact hE1
    · rw [h1, ← valOf_of I v o0 t0 ht0]; exact hE0
  have hge : 2 ≤ h := by have := heightP_lt hh 1 (by omega) hocc1; omega
  have htop : Occ v e 0 (j + 1) = true := by
    rw [occ_true, hxr, ← valOf_of I v r tr htr]; exact hEr
  have key := consume_produceP I.bs (Occ v e) v j h 2 hh (by omega) hge (by omega) htop
    (by
      intro i hi1 hi hi2
      have := hmv i hi1 (by omega)
      have e1 : shift i (-1) = i + 1 - 2 := by have := shift_neg i 1 (by omega); simp at this; omega
      rwa [e1] at this)
    (by
      intro i hi1 hi2
      have : i = I.bs - 1 := by omega
      subst this; simpa [Occ] using hl1)
  refine ⟨h - 2 + 1, key.1, ?_⟩
  rw [stk_cons2 v j h hge] at key ⊢
  simp only [stepVal, valOf_of I v o0 t0 ht0, valOf_of I v o1 t1 ht1, valOf_of I v r tr htr]
  rw [if_pos hor, key.2, hxr]
  simp

theorem stepE_nonComm (I : Inst) (v : Val) (e : F) (a : Int) (j h : Nat) (o : List SV) (r : SV) (ts : List F) (tr : F)
    (hts : o.mapM (svF I) = some ts) (htr : svF I r = some tr)
    (hh : HeightE I v e j h) (hbs : 1 ≤ I.bs) (hn : o.length ≤ I.bs)
    (hEo : ∀ x ∈ o, valOf I v x ≠ Ev v e) (hEr : valOf I v r ≠ Ev v e)
    (hc : evalB v (
      let n := o.length
      let first := ts.zipIdx.map fun (t, i) => F.conn .eq [xA i j, t]
      let second := (rangeL (I.bs - n + 1) I.bs).map fun i => isE e i (j + 1)
      let third := (rangeL (I.bs + n - 1) I.bs).map fun i => isE e i j
      let all := first ++ second ++ third
      let combined := if all.isEmpty then F.lit true else .conn .and all
      .conn .and [combined, .conn .eq [xA 0 (j + 1), tr],
        moveXI j n (min ((I.bs : Int) - 2 + n) ((I.bs : Int) - 1)) (1 - (n : Int))]) = true) :
    ∃ h', HeightE I v e (j + 1) h' ∧ stepVal I (valOf I v) (.nonComm o r) a (stk v j h) = some (stk v (j + 1) h') := by
  simp only at hc
  rw [and_list_iff] at hc
  simp only [List.mem_cons, List.mem_nil_iff, or_false, forall_eq_or_imp, forall_eq] at hc
  obtain ⟨hcomb, hxr, hmv⟩ := hc
  obtain ⟨hlen, hget⟩ := mapM_some_get _ o ts hts
  have hall : ∀ f, f ∈ (ts.zipIdx.map fun (t, i) => F.conn .eq [xA i j, t]) ++
      ((rangeL (I.bs - o.length + 1) I.bs).map fun i => isE e i (j + 1)) ++
      ((rangeL (I.bs + o.length - 1) I.bs).map fun i => isE e i j) → evalB v f = true := by
    intro f hf
    split at hcomb
    · rename_i he
      simp only [List.isEmpty_iff] at he
      rw [he] at hf; simp at hf
    · rw [and_list_iff] at hcomb; exact hcomb f hf
  simp at hxr
  rw [evalB_moveXI v e] at hmv
  have hfirst : ∀ i (hi : i < o.length), Occ v e i j = true ∧ X v i j = valOf I v o[i] := by
    intro i hi
    have hi' : i < ts.length := by omega
    have hm : (ts[i], i) ∈ ts.zipIdx := by rw [List.mem_zipIdx_iff_getElem?]; simp [hi']
    have := hall (.conn .eq [xA i j, ts[i]]) (by
      simp only [List.mem_append, List.mem_map]
      exact Or.inl (Or.inl ⟨(ts[i], i), hm, rfl⟩))
    simp at this
    have hx : X v i j = valOf I v o[i] := by rw [valOf_of I v o[i] ts[i] (hget i hi hi')]; exact this
    refine ⟨?_, hx⟩
    rw [occ_true, hx]; exact hEo _ (List.getElem_mem hi)
  have hsecond : ∀ i, I.bs - o.length + 1 ≤ i → i < I.bs → Occ v e i (j + 1) = false := by
    intro i h1 h2
    have := hall (isE e i (j + 1)) (by
      simp only [List.mem_append, List.mem_map, mem_rangeL]
      exact Or.inl (Or.inr ⟨i, ⟨h1, h2⟩, rfl⟩))
    rw [evalB_isE] at this
    simpa [Occ] using this
  have hthird : o.length = 0 → Occ v e (I.bs - 1) j = false := by
    intro h0
    have := hall (isE e (I.bs - 1) j) (by
      simp only [List.mem_append, List.mem_map, mem_rangeL]
      exact Or.inr ⟨I.bs - 1, ⟨by omega, by omega⟩, rfl⟩)
    rw [evalB_isE] at this
    simpa [Occ] using this
  have hnh : o.length ≤ h := by
    by_cases h0 : o.length = 0
    · omega
    · have := heightP_lt hh (o.length - 1) (by omega) (hfirst (o.length - 1) (by omega)).1
      omega
  have htop : Occ v e 0 (j + 1) = true := by
    rw [occ_true, hxr, ← valOf_of I v r tr htr]; exact hEr
  have key := consume_produceP I.bs (Occ v e) v j h o.length hh hbs hnh hthird htop
    (by
      intro i hi1 hi hi2
      have := hmv i hi1 (by omega)
      rwa [shift_one_sub i o.length (by omega)] at this)
    hsecond
  refine ⟨h - o.length + 1, key.1, ?_⟩
  have htake : (stk v j h).take o.length = o.map (valOf I v) := by
    apply list_ext_get _ _ (by simp; omega)
    intro i h1 h2
    simp only [List.length_take, stk_length] at h1
    simp only [List.getElem_take, List.getElem_map]
    rw [stk_getElem _ _ _ _ (by omega)]
    exact (hfirst i (by omega)).2
  have hroom : h - o.length < I.bs := by have := key.1.1; omega
  simp only [stepVal, stk_length, hnh, htake, hroom, and_self, if_true, valOf_of I v r tr htr]
  rw [key.2, hxr]

theorem stepE_swap (I : Inst) (v : Val) (e : F) (val : SV → Int) (a : Int) (j h k : Nat) (hh : HeightE I v e j h)
    (hk : 1 ≤ k ∧ k < I.bs)
    (hc : evalB v (.conn .and [notE e k j, .conn .eq [xA 0 (j + 1), xA k j], notE e 0 j, .conn .eq [xA k (j + 1), xA 0 j],
      moveX j 1 (k - 1) 0, moveX j (k + 1) (I.bs - 1) 0]) = true) :
    ∃ h', HeightE I v e (j + 1) h' ∧ stepVal I val (.swap k) a (stk v j h) = some (stk v (j + 1) h') := by
  rw [and_list_iff] at hc
  simp only [List.mem_cons, List.mem_nil_iff, or_false, forall_eq_or_imp, forall_eq] at hc
  obtain ⟨hkj, hx0, h0j, hxk, hm1, hm2⟩ := hc
  rw [evalB_notE] at hkj h0j
  simp at hx0 hxk
  rw [evalB_moveX v e] at hm1 hm2
  have hkj' : Occ v e k j = true := hkj
  have h0j' : Occ v e 0 j = true := h0j
  have hkh : k < h := heightP_lt hh k hk.2 hkj'
  have h0 : Occ v e 0 (j + 1) = true := by rw [occ_true, hx0]; exact (occ_true v e k j).mp hkj'
  have hk1 : Occ v e k (j + 1) = true := by rw [occ_true, hxk]; exact (occ_true v e 0 j).mp h0j'
  have hsame : ∀ i, i < I.bs → i ≠ 0 → i ≠ k → Occ v e i (j + 1) = Occ v e i j ∧ X v i (j + 1) = X v i j := by
    intro i hi h0' hk'
    by_cases hlt : i < k
    · have := hm1 i (by omega) (by omega); simpa [shift] using this
    · have := hm2 i (by omega) (by omega); simpa [shift] using this
  refine ⟨h, ⟨hh.1, ?_⟩, ?_⟩
  · intro i hi
    by_cases hi0 : i = 0
    · subst hi0; simp [h0]; omega
    · by_cases hik : i = k
      · subst hik; simp [hk1, hkh]
      · rw [(hsame i hi hi0 hik).1]; exact hh.2 i hi
  · have hs : stk v j h = X v 0 j :: (stk v j h).tail := by
      match hst : stk v j h with
      | [] => have := congrArg List.length hst; simp at this; omega
      | y :: r =>
        have := stk_getElem v j h 0 (by omega)
        simp only [hst, List.getElem_cons_zero] at this
        simp [this]
    have htl : ∀ i, i + 1 < h → (stk v j h).tail[i]? = some (X v (i + 1) j) := by
      intro i hi
      rw [List.getElem?_tail, stk_getElem? v j h (i + 1) hi]
    rw [hs]
    simp only [stepVal]
    rw [htl (k - 1) (by omega)]
    simp only [Option.map_some, Option.some.injEq]
    have e1 : k - 1 + 1 = k := by omega
    rw [e1]
    apply list_ext_get _ _ (by simp; omega)
    intro i h1 h2
    simp only [stk_length] at h2
    rw [stk_getElem _ _ _ _ h2]
    cases i with
    | zero => simp [hx0]
    | succ i =>
      simp only [List.getElem_cons_succ, List.getElem_set]
      by_cases hik : i + 1 = k
      · have : k - 1 = i := by omega
        simp [this, ← hik] at hxk ⊢
        rw [hik] at hxk ⊢; exact hxk.symm
      · have hne : ¬ (k - 1 = i) := by omega
        simp only [hne, if_false]
        have := htl i (by omega)
        rw [List.getElem?_eq_getElem (by simp; omega)] at this
        simp only [Option.some.injEq] at this
        rw [this]
        exact ((hsame (i + 1) (by have := hh.1; omega) (by omega) hik).2).symm

end GasolVerif.Enc

namespace GasolVerif.Enc
open GasolVerif.Formula

/-- the stack variables of the instance (and the constants a basic PUSH may push) are not the `empty` value -/
structure NotEmpty (I : Inst) (v : Val) (e : F) : Prop where
  svs : ∀ x ∈ allSVs I, valOf I v x ≠ Ev v e
  pushed : (∃ ins ∈ I.instrs, ins.kind = .pushBasic) → ∀ a : Int, 0 ≤ a → a < I.intLimit → a ≠ Ev v e

theorem step_soundE (I : Inst) (v : Val) (e : F) (he : emptyF I = some e) (hne : NotEmpty I v e) (ins : Instr)
    (hm : ins ∈ I.instrs) (j h : Nat) (hh : HeightE I v e j h)
    (hfit : kindFits I.bs ins.kind = true) (raw : F) (hraw : transRawE I ins j = some raw)
    (hc : evalB v raw = true) (ht : T v j = thetaV I v ins.theta) :
    ∃ h', HeightE I v e (j + 1) h' ∧
      stepVal I (valOf I v) ins.kind (A v j) (stk v j h) = some (stk v (j + 1) h') := by
  have hT : evalB v (isT I j ins.theta) = true := by simp [ht]
  have hsv : ∀ x ∈ ins.kind.svs, valOf I v x ≠ Ev v e := by
    intro x hx
    apply hne.svs
    simp only [allSVs, List.mem_append, List.mem_flatMap]
    exact Or.inr ⟨ins, hm, hx⟩
  unfold transRawE at hraw
  simp only [he, Option.bind_eq_bind, Option.bind_some] at hraw
  cases hk : ins.kind with
  | nop =>
    simp only [hk, Option.some.injEq] at hraw; subst hraw
    simp only [evalB_imp, hT, Bool.not_true, Bool.false_or] at hc
    have := stepE_nop I v e j h hh hc
    exact ⟨h, this.1, by simp [stepVal, this.2]⟩
  | pop =>
    simp only [hk, Option.some.injEq] at hraw; subst hraw
    simp only [evalB_imp, hT, Bool.not_true, Bool.false_or] at hc
    simp only [hk, kindFits, decide_eq_true_eq] at hfit
    exact stepE_pop I v e _ _ j h hh hfit hc
  | pushBasic =>
    simp only [hk, Option.some.injEq] at hraw; subst hraw
    simp only [evalB_imp, hT, Bool.not_true, Bool.false_or] at hc
    simp only [hk, kindFits, decide_eq_true_eq] at hfit
    exact stepE_pushBasic I v e _ j h hh hfit (hne.pushed ⟨ins, hm, hk⟩) hc
  | dup k =>
    simp only [hk, Option.some.injEq] at hraw; subst hraw
    simp only [evalB_imp, hT, Bool.not_true, Bool.false_or] at hc
    simp only [hk, kindFits, Bool.and_eq_true, decide_eq_true_eq] at hfit
    exact stepE_dup I v e _ _ j h k hh hfit hc
  | swap k =>
    simp only [hk, Option.some.injEq] at hraw; subst hraw
    simp only [evalB_imp, hT, Bool.not_true, Bool.false_or] at hc
    simp only [hk, kindFits, Bool.and_eq_true, decide_eq_true_eq] at hfit
    exact stepE_swap I v e _ _ j h k hh hfit hc
  | popU o0 =>
    simp only [hk] at hraw
    cases h0 : svF I o0 with
    | none => simp [h0] at hraw
    | some t0 =>
      simp only [h0, Option.bind_some, Option.some.injEq] at hraw; subst hraw
      simp only [evalB_imp, hT, Bool.not_true, Bool.false_or] at hc
      simp only [hk, kindFits, decide_eq_true_eq] at hfit
      exact stepE_popU I v e _ j h o0 t0 h0 hh hfit hc
  | store o0 o1 =>
    simp only [hk] at hraw hsv
    cases h0 : svF I o0 with
    | none => simp [h0] at hraw
    | some t0 =>
      cases h1 : svF I o1 with
      | none => simp [h0, h1] at hraw
      | some t1 =>
        simp only [h0, h1, Option.bind_some, Option.some.injEq] at hraw; subst hraw
        simp only [evalB_imp, hT, Bool.not_true, Bool.false_or] at hc
        simp only [hk, kindFits, decide_eq_true_eq] at hfit
        exact stepE_store I v e _ j h o0 o1 t0 t1 h0 h1 hh hfit (hsv o1 (by simp [Kind.svs])) hc
  | comm o0 o1 r =>
    simp only [hk] at hraw hsv
    cases h0 : svF I o0 with
    | none => simp [h0] at hraw
    | some t0 =>
      cases h1 : svF I o1 with
      | none => simp [h0, h1] at hraw
      | some t1 =>
        cases h2 : svF I r with
        | none => simp [h0, h1, h2] at hraw
        | some tr =>
          simp only [h0, h1, h2, Option.bind_some, Option.some.injEq] at hraw; subst hraw
          simp only [evalB_imp, hT, Bool.not_true, Bool.false_or] at hc
          simp only [hk, kindFits, decide_eq_true_eq] at hfit
          exact stepE_comm I v e _ j h o0 o1 r t0 t1 tr h0 h1 h2 hh hfit (hsv o0 (by simp [Kind.svs]))
            (hsv o1 (by simp [Kind.svs])) (hsv r (by simp [Kind.svs])) hc
  | nonComm o r =>
    simp only [hk] at hraw hsv
    cases h0 : o.mapM (svF I) with
    | none => simp [h0] at hraw
    | some ts =>
      cases h2 : svF I r with
      | none => simp [h0, h2] at hraw
      | some tr =>
        simp only [h0, h2, Option.bind_some, Option.some.injEq] at hraw; subst hraw
        simp only [evalB_imp, hT, Bool.not_true, Bool.false_or] at hc
        simp only [hk, kindFits, Bool.and_eq_true, decide_eq_true_eq] at hfit
        exact stepE_nonComm I v e _ j h o r ts tr h0 h2 hh hfit.2 hfit.1
          (fun x hx => hsv x (by simp [Kind.svs, hx])) (hsv r (by simp [Kind.svs])) hc

theorem stackAt_soundE (I : Inst) (v : Val) (e : F) (he : emptyF I = some e) (j : Nat) (st : List SV) (fs : List F)
    (hfs : stackAtRawE I j st = some fs) (hsat : ∀ f ∈ fs, evalB v f = true) (hlen : st.length ≤ I.bs)
    (hE : ∀ x ∈ st, valOf I v x ≠ Ev v e) :
    HeightE I v e j st.length ∧ stk v j st.length = st.map (valOf I v) := by
  unfold stackAtRawE at hfs
  simp only [he, Option.bind_eq_bind, Option.bind_some] at hfs
  cases hts : st.mapM (svF I) with
  | none => simp [hts] at hfs
  | some ts =>
    simp only [hts, Option.bind_some, Option.some.injEq] at hfs
    subst hfs
    obtain ⟨hl, hget⟩ := mapM_some_get _ st ts hts
    have hfirst : ∀ i (hi : i < st.length), Occ v e i j = true ∧ X v i j = valOf I v st[i] := by
      intro i hi
      have hi' : i < ts.length := by omega
      have hm : (ts[i], i) ∈ ts.zipIdx := by rw [List.mem_zipIdx_iff_getElem?]; simp [hi']
      have := hsat (.conn .eq [xA i j, ts[i]]) (by
        simp only [List.mem_append, List.mem_map]
        exact Or.inl ⟨(ts[i], i), hm, rfl⟩)
      simp at this
      have hx : X v i j = valOf I v st[i] := by rw [valOf_of I v st[i] ts[i] (hget i hi hi')]; exact this
      exact ⟨by rw [occ_true, hx]; exact hE _ (List.getElem_mem hi), hx⟩
    have hrest : ∀ i, st.length ≤ i → i < I.bs → Occ v e i j = false := by
      intro i h1 h2
      have := hsat (isE e i j) (by
        simp only [List.mem_append, List.mem_map, mem_rangeL]
        exact Or.inr ⟨i, ⟨h1, h2⟩, rfl⟩)
      rw [evalB_isE] at this
      simpa [Occ] using this
    refine ⟨⟨hlen, ?_⟩, ?_⟩
    · intro i hi
      by_cases hlt : i < st.length
      · simp [(hfirst i hlt).1, hlt]
      · simp [hrest i (by omega) hi, hlt]
    · apply list_ext_get _ _ (by simp)
      intro i h1 h2
      simp only [stk_length] at h1
      rw [stk_getElem _ _ _ _ h1]
      simp only [List.getElem_map]
      exact (hfirst i h1).2

/-- **soundness of the stack core of the `-empty` encoding** -/
theorem core_soundE (I : Inst) (v : Val) (e : F) (he : emptyF I = some e) (hne : NotEmpty I v e)
    (raws : List F) (hraw : coreRawE I = some raws)
    (hsat : ∀ f ∈ raws, evalB v f = true) (hok : instOk I = true) :
    ∃ steps : List (Kind × Int), steps.length = I.b0 ∧ Decodes I v steps ∧
      runVal I (valOf I v) steps (I.src.map (valOf I v)) = some (I.tgt.map (valOf I v)) := by
  simp only [instOk, Bool.and_eq_true, List.all_eq_true, decide_eq_true_eq, Bool.not_eq_true'] at hok
  obtain ⟨⟨⟨hfit, hsrc⟩, htgt⟩, hterm⟩ := hok
  unfold coreRawE at hraw
  cases htr : (I.instrs.flatMap fun ins => (rangeL ins.lb (ins.ub + 1)).map fun j => transRawE I ins j).mapM id with
  | none => simp [htr] at hraw
  | some trans =>
    cases hini : stackAtRawE I 0 I.src with
    | none => simp [htr, hini] at hraw
    | some ini =>
      simp only [hterm] at hraw
      cases hfin : stackAtRawE I I.b0 I.tgt with
      | none => simp [htr, hini, hfin] at hraw
      | some fin =>
        simp only [htr, hini, hfin, Option.bind_eq_bind, Option.bind_some, Bool.false_eq_true, if_false,
          Option.some.injEq] at hraw
        subst hraw
        have h0 := stackAt_soundE I v e he 0 I.src ini hini (fun f hf => hsat f (by simp [hf])) hsrc
          (fun x hx => hne.svs x (by simp [allSVs, hx]))
        have hF := stackAt_soundE I v e he I.b0 I.tgt fin hfin (fun f hf => hsat f (by simp [hf])) htgt
          (fun x hx => hne.svs x (by simp [allSVs, hx]))
        have main : ∀ k, k ≤ I.b0 → ∃ (steps : List (Kind × Int)) (h : Nat), steps.length = k ∧ Decodes I v steps ∧
            HeightE I v e k h ∧ runVal I (valOf I v) steps (I.src.map (valOf I v)) = some (stk v k h) := by
          intro k
          induction k with
          | zero =>
            intro _
            exact ⟨[], I.src.length, rfl, by intro j h; simp at h, h0.1, by simp [runVal, h0.2]⟩
          | succ k ih =>
            intro hk
            obtain ⟨steps, h, hlen, hdec, hh, hrun⟩ := ih (by omega)
            have hdom := hsat (domainRaw I k) (by
              simp only [List.mem_append, List.mem_map, mem_rangeL]
              exact Or.inl (Or.inl (Or.inl ⟨k, ⟨by omega, by omega⟩, rfl⟩)))
            simp only [domainRaw, evalB_or, evalAny_iff, List.mem_map, List.mem_filter] at hdom
            obtain ⟨f, ⟨ins, ⟨hmem, hb⟩, rfl⟩, hT⟩ := hdom
            simp only [Bool.and_eq_true, decide_eq_true_eq] at hb
            simp only [evalB_isT, beq_iff_eq] at hT
            obtain ⟨raw, hraw1, hraw2⟩ := mapM_id_mem _ trans htr (transRawE I ins k) (by
              simp only [List.mem_flatMap, List.mem_map, mem_rangeL]
              exact ⟨ins, hmem, k, ⟨hb.1, by omega⟩, rfl⟩)
            have hc := hsat raw (by simp [hraw2])
            obtain ⟨h', hh', hstep⟩ := step_soundE I v e he hne ins hmem k h hh (hfit ins hmem) raw hraw1 hc hT
            refine ⟨steps ++ [(ins.kind, A v k)], h', by simp [hlen], ?_, hh', ?_⟩
            · intro j hj
              by_cases hjl : j < steps.length
              · obtain ⟨i2, hi2⟩ := hdec j hjl
                exact ⟨i2, by simpa [List.getElem_append_left hjl] using hi2⟩
              · have : j = k := by simp at hj; omega
                subst this
                refine ⟨ins, hmem, ?_⟩
                simp [List.getElem_append_right (by omega : steps.length ≤ steps.length), ← hlen, hT]
                simpa [hlen] using hT
            · rw [runVal_append, hrun]
              simp [runVal, hstep]
        obtain ⟨steps, h, hlen, hdec, hh, hrun⟩ := main I.b0 (Nat.le_refl _)
        have := heightP_unique hh hF.1
        subst this
        exact ⟨steps, hlen, hdec, by rw [hrun, hF.2]⟩

/-- the `empty` value is none of the values that identify stack variables: from pairwise different table values
    (`empty` is an entry of the table) and, with a basic PUSH, table values outside the range of pushed constants -/
theorem notEmpty_of_nodup (I : Inst) (v : Val) (e : F) (he : emptyF I = some e)
    (hnd : (I.term.map fun p => evalI v p.2).Nodup) (hok : svsOk I = true)
    (hnoE : (allSVs I).all (fun x => x != .var "empty") = true)
    (hsep : hasPushBasic I = true → ∀ p ∈ I.term, evalI v p.2 < 0 ∨ I.intLimit ≤ evalI v p.2) :
    NotEmpty I v e := by
  have hmemE : ("empty", e) ∈ I.term := lookup_mem _ _ _ he
  simp only [svsOk, List.all_eq_true] at hok
  simp only [List.all_eq_true, bne_iff_ne, ne_eq] at hnoE
  constructor
  · intro x hx hval
    have hxo := hok x hx
    cases x with
    | var s =>
      simp only at hxo
      cases hl : I.term.lookup s with
      | none => simp [hl] at hxo
      | some t =>
        have hm := lookup_mem _ _ _ hl
        simp only [valOf, svF, hl, Ev] at hval
        have := inj_on_of_nodup_map (fun p : String × F => evalI v p.2) I.term hnd (s, t) hm ("empty", e) hmemE hval
        simp at this
        exact hnoE (.var s) hx (by rw [this.1])
    | num n =>
      simp only [Bool.and_eq_true, decide_eq_true_eq] at hxo
      have := hsep hxo.1.1 ("empty", e) hmemE
      simp only [valOf, svF, evalI, Ev] at hval this
      omega
  · rintro ⟨ins, hm, hk⟩ a h0 hl hval
    have hpb : hasPushBasic I = true := by
      simp only [hasPushBasic, List.any_eq_true]; exact ⟨ins, hm, by simp [hk]⟩
    have := hsep hpb ("empty", e) hmemE
    simp only [Ev] at hval this
    omega

end GasolVerif.Enc
