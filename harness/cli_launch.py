"""Runs the real gasol_asm.py unchanged as __main__, after recording the scratch directory the tool picked
(global_params/paths.py: /tmp/gasol_<uuid>) in the file named by GV_PATHFILE, so the harness can remove it when
the run is killed or crashes (the tool removes it itself only on a normal exit)."""
import os, runpy, sys
REPO = os.environ.get("GASOL_REPO", "/repo")
sys.path.insert(0, REPO)
import global_params.paths as paths
pf = os.environ.get("GV_PATHFILE")
if pf:
    with open(pf, "w") as f:
        f.write(paths.gasol_path)
sys.argv = [os.path.join(REPO, "gasol_asm.py")] + sys.argv[1:]
runpy.run_path(sys.argv[0], run_name="__main__")
