/-
  (P) C02: the symbolic evaluation of a specification under a schedule (`evalSpec`, load results bound to
  `mload/sload/keccak` terms) is simulated by the concrete scheduled run with opaque load symbols (`runSched`);
  with `checked_schedules_agree` this gives `spec_schedule_independent`.   No Mathlib.
-/
import GasolVerif.Proofs.SpecSound
set_option linter.unusedSimpArgs false
set_option linter.unusedVariables false
namespace GasolVerif.Spec

variable (e : GasolVerif.Env) (σ₀ : St)

/-- the symbolic environment and the concrete loaded values agree -/
def Agree (env : Env) (lv : String → Option Word) : Prop :=
  ∀ o t, env.lookup o = some t → lv o = some (evalW e σ₀ t)

theorem lookup_outs (us : List UInstr) (o : String) (h : o ∈ us.filterMap (·.out)) :
    (us.filterMap fun u => u.out.map fun o => (o, Tm.sym (loadSym o))).lookup o = some (Tm.sym (loadSym o)) := by
  induction us with
  | nil => simp at h
  | cons u us ih =>
    simp only [List.filterMap_cons] at h ⊢
    cases hu : u.out with
    | none => rw [hu] at h; simp only [Option.map_none]; exact ih h
    | some o' =>
      rw [hu] at h
      simp only [Option.map_some, List.mem_cons] at h ⊢
      by_cases heq : o = o'
      · subst heq; simp [List.lookup]
      · rcases h with h | h
        · exact absurd h heq
        · have : (o == o') = false := by simp [heq]
          simp only [List.lookup, this]
          exact ih h

theorem lookup_outs_none (us : List UInstr) (o : String) (h : o ∉ us.filterMap (·.out)) :
    (us.filterMap fun u => u.out.map fun o => (o, Tm.sym (loadSym o))).lookup o = none := by
  induction us with
  | nil => simp [List.lookup]
  | cons u us ih =>
    simp only [List.filterMap_cons] at h ⊢
    cases hu : u.out with
    | none => rw [hu] at h; simp only [Option.map_none]; exact ih h
    | some o' =>
      rw [hu] at h
      simp only [Option.map_some, List.mem_cons, not_or] at h ⊢
      have : (o == o') = false := by simp [h.1]
      simp only [List.lookup, this]
      exact ih h.2

theorem lookup_opaqueEnv (S : Spec) (o : String) (h : o ∈ loadOuts S) :
    (opaqueEnv S).lookup o = some (Tm.sym (loadSym o)) := lookup_outs _ o h

theorem lookup_opaqueEnv_none (S : Spec) (o : String) (h : o ∉ loadOuts S) : (opaqueEnv S).lookup o = none :=
  lookup_outs_none _ o h

/-- value of a pure instruction on argument values -/
def pureVal (e : GasolVerif.Env) (tr : List Event) (u : UInstr) : List Word → Option Word
  | [] =>
    if u.op == "PUSH" || u.op == "PUSH0" then (parseHex? u.sym).map fun n => BitVec.ofNat 256 n
    else if u.op.startsWith "PUSH" then some (e.sym u.sym)
    else some (e.env0 (if u.op == "DIFFICULTY" then "PREVRANDAO" else u.op) tr)
  | [a] =>
    match UnOp.ofName? u.op with
    | some o => some (o.sem a)
    | none => some (e.env1 u.op tr a)
  | [a, b] => (BinOp.ofName? u.op).map fun o => o.sem a b
  | [a, b, c] => (TerOp.ofName? u.op).map fun o => o.sem a b c
  | _ => none

omit σ₀ in
theorem pureTm_val (σ : St) (u : UInstr) (ts : List Tm) (t : Tm) (h : pureTm u ts = some t) :
    pureVal e σ.trace u (ts.map (evalW e σ)) = some (evalW e σ t) ∧ (ts.all isPure = true → isPure t = true) := by
  unfold pureTm at h
  unfold pureVal
  split at h
  · split at h
    · cases hx : parseHex? u.sym with
      | none => simp [hx] at h
      | some n => simp [hx] at h; subst h; simp [*, evalW, isPure]
    · split at h
      · simp at h; subst h; simp [*, evalW, isPure]
      · simp at h; subst h; simp [*, evalW, isPure]
  · split at h
    · simp at h; subst h; simp [*, evalW, isPure]
    · simp at h; subst h; simp [*, evalW, isPure]
  · cases ho : BinOp.ofName? u.op with
    | none => simp [ho] at h
    | some o => simp [ho] at h; subst h; simp [*, evalW, isPure]
  · cases ho : TerOp.ofName? u.op with
    | none => simp [ho] at h
    | some o => simp [ho] at h; subst h; simp [*, evalW, isPure]; intro h1 h2 h3; simp [h1, h2, h3]
  · simp at h

omit σ₀ in
theorem pureTm_of_val (σ : St) (u : UInstr) (ts : List Tm) (w : Word)
    (h : pureVal e σ.trace u (ts.map (evalW e σ)) = some w) : ∃ t, pureTm u ts = some t := by
  unfold pureVal at h
  unfold pureTm
  match ts, h with
  | [], h =>
    simp only [List.map_nil] at h
    split at h
    · cases hx : parseHex? u.sym with
      | none => simp [hx] at h
      | some n => simp [*]
    · split at h <;> simp [*]
  | [a], h =>
    simp only [List.map_cons, List.map_nil] at h
    cases ho : UnOp.ofName? u.op <;> simp [ho]
  | [a, b], h =>
    simp only [List.map_cons, List.map_nil] at h
    cases ho : BinOp.ofName? u.op with
    | none => simp [ho] at h
    | some o => simp [ho]
  | [a, b, c], h =>
    simp only [List.map_cons, List.map_nil] at h
    cases ho : TerOp.ofName? u.op with
    | none => simp [ho] at h
    | some o => simp [ho]
  | _ :: _ :: _ :: _ :: _, h => simp at h

omit σ₀ in
theorem pureVal_withLoads (tr : List Event) (lv : String → Option Word) (u : UInstr) (hu : lv u.sym = none) (ws : List Word) :
    pureVal (withLoads e lv) tr u ws = pureVal e tr u ws := by
  unfold pureVal
  split <;> simp [withLoads, hu]

/-- hypotheses relating a symbolic environment (scheduled loads bound to their terms) to the loaded values -/
structure Sim (S : Spec) (env : Env) (lv : String → Option Word) : Prop where
  agree : Agree e σ₀ env lv
  dom : ∀ o t, env.lookup o = some t → o ∈ loadOuts S
  lvdom : ∀ s w, lv s = some w → s ∈ loadOuts S

theorem lv_sym_none (S : Spec) (hn : namesOk S = true) (env : Env) (lv : String → Option Word)
    (hs : Sim e σ₀ S env lv) (u : UInstr) (hu : u ∈ S.instrs) : lv u.sym = none := by
  cases h : lv u.sym with
  | none => rfl
  | some w =>
    have := hs.lvdom _ _ h
    simp only [namesOk, Bool.and_eq_true, List.all_eq_true] at hn
    have h2 := hn.1.2 u hu
    simp at h2
    exact absurd this h2

/-- **substitution**: a term built with the scheduled loads bound to their symbolic values evaluates like the
    term built with opaque load symbols, in the environment that reads the loaded values -/
theorem termOf_sim (S : Spec) (hn : namesOk S = true) (env : Env) (lv : String → Option Word) (hs : Sim e σ₀ S env lv) :
    ∀ fuel : Nat,
      (∀ v t, termOfVar S env fuel v = some t →
        ∃ t', termOfVar S (opaqueEnv S) fuel v = some t' ∧ isPure t' = true ∧
          evalW (withLoads e lv) σ₀ t' = evalW e σ₀ t) ∧
      (∀ as ts, termsOf S env fuel as = some ts →
        ∃ ts', termsOf S (opaqueEnv S) fuel as = some ts' ∧ ts'.all isPure = true ∧
          ts'.map (evalW (withLoads e lv) σ₀) = ts.map (evalW e σ₀)) := by
  intro fuel
  induction fuel with
  | zero =>
    refine ⟨by intro v t h; simp [termOfVar] at h, ?_⟩
    intro as
    induction as with
    | nil => intro ts h; simp [termsOf] at h; subst h; exact ⟨[], by simp [termsOf], rfl, rfl⟩
    | cons a as ih =>
      intro ts h
      simp only [termsOf] at h
      cases a with
      | const n =>
        simp only [termOfAtom] at h
        cases hr : termsOf S env 0 as with
        | none => simp [hr] at h
        | some rs =>
          simp [hr] at h; subst h
          obtain ⟨rs', h1, h2, h3⟩ := ih rs hr
          exact ⟨Tm.const (BitVec.ofNat 256 n) :: rs', by simp [termsOf, termOfAtom, h1], by simp [isPure, h2], by simp [evalW, h3]⟩
      | var v => simp [termOfAtom, termOfVar] at h
  | succ fuel ih =>
    have hV : ∀ v t, termOfVar S env (fuel + 1) v = some t →
        ∃ t', termOfVar S (opaqueEnv S) (fuel + 1) v = some t' ∧ isPure t' = true ∧
          evalW (withLoads e lv) σ₀ t' = evalW e σ₀ t := by
      intro v t h
      simp only [termOfVar] at h ⊢
      cases hl : env.lookup v with
      | some t0 =>
        simp only [hl, Option.some.injEq] at h; subst h
        have hv := hs.dom v _ hl
        rw [lookup_opaqueEnv S v hv]
        refine ⟨_, rfl, rfl, ?_⟩
        simp [evalW, withLoads, loadSym, hs.agree v _ hl]
      | none =>
        simp only [hl] at h
        by_cases hv : v ∈ loadOuts S
        · -- an unscheduled load: the symbolic side cannot produce a term
          simp only [namesOk, Bool.and_eq_true, List.all_eq_true] at hn
          have h1 := hn.1.1 v hv
          have h2 := hn.2 v hv
          have hsrc : S.src.idxOf? v = none := by
            simp at h1
            simp only [List.idxOf?, List.findIdx?_eq_none_iff, beq_iff_eq]
            intro x hx; simp only [beq_eq_false_iff_ne, ne_eq]; intro hxv; subst hxv; exact h1 hx
          simp only [hsrc] at h
          cases hp : S.producer? v with
          | none => simp [hp] at h
          | some u => simp only [hp] at h2 h; simp [h2] at h
        · rw [lookup_opaqueEnv_none S v hv]
          simp only
          cases hsrc : S.src.idxOf? v with
          | some i => simp only [hsrc, Option.some.injEq] at h ⊢; subst h; exact ⟨_, rfl, rfl, by simp [evalW]⟩
          | none =>
            simp only [hsrc] at h ⊢
            cases hp : S.producer? v with
            | none => simp [hp] at h
            | some u =>
              simp only [hp] at h ⊢
              split at h
              · simp at h
              · rename_i hne
                simp only [hne, Bool.false_eq_true, if_false]
                cases hr : termsOf S env fuel u.inp with
                | none => simp [hr] at h
                | some rs =>
                  simp only [hr, Option.bind_some] at h
                  obtain ⟨rs', h1, h2, h3⟩ := ih.2 u.inp rs hr
                  have humem : u ∈ S.instrs := by
                    unfold Spec.producer? at hp
                    exact List.mem_of_find?_eq_some hp
                  have hlvn := lv_sym_none e σ₀ S hn env lv hs u humem
                  have hv1 := pureTm_val e σ₀ u rs t h
                  have hval : pureVal (withLoads e lv) σ₀.trace u (rs'.map (evalW (withLoads e lv) σ₀)) = some (evalW e σ₀ t) := by
                    rw [pureVal_withLoads e σ₀.trace lv u hlvn, h3]; exact hv1.1
                  obtain ⟨t', ht'⟩ := pureTm_of_val (withLoads e lv) σ₀ u rs' _ hval
                  have hv2 := pureTm_val (withLoads e lv) σ₀ u rs' t' ht'
                  refine ⟨t', by simp [h1, ht'], hv2.2 h2, ?_⟩
                  have := hv2.1
                  rw [hval] at this
                  exact (Option.some.inj this).symm
    refine ⟨hV, ?_⟩
    intro as
    induction as with
    | nil => intro ts h; simp [termsOf] at h; subst h; exact ⟨[], by simp [termsOf], rfl, rfl⟩
    | cons a as iha =>
      intro ts h
      simp only [termsOf] at h
      cases ha : termOfAtom S env (fuel + 1) a with
      | none => simp [ha] at h
      | some t =>
        cases hr : termsOf S env (fuel + 1) as with
        | none => simp [ha, hr] at h
        | some rs =>
          simp [ha, hr] at h; subst h
          obtain ⟨rs', h1, h2, h3⟩ := iha rs hr
          cases a with
          | const n =>
            simp only [termOfAtom, Option.some.injEq] at ha; subst ha
            exact ⟨Tm.const (BitVec.ofNat 256 n) :: rs', by simp [termsOf, termOfAtom, h1], by simp [isPure, h2], by simp [evalW, h3]⟩
          | var v =>
            simp only [termOfAtom] at ha
            obtain ⟨t', g1, g2, g3⟩ := hV v t ha
            exact ⟨t' :: rs', by simp [termsOf, termOfAtom, g1, h1], by simp [g2, h2], by simp [g3, h3]⟩

/-- the simulation invariant between the symbolic evaluation state and the concrete scheduled state -/
structure Inv (S : Spec) (st : EvalSt) (c : CSt) : Prop where
  mem : evalM e σ₀ st.mem = c.mem
  sto : evalS e σ₀ st.sto = c.sto
  sim : Sim e σ₀ S st.env c.lv

theorem map_eq_two {α β} (f : α → β) (g : α → β) (xs : List α) (a b : α) (h : xs.map f = [a, b].map g) :
    ∃ a' b', xs = [a', b'] ∧ f a' = g a ∧ f b' = g b := by
  match xs, h with
  | [a', b'], h => simp at h; exact ⟨a', b', rfl, h.1, h.2⟩
  | [], h => simp at h
  | [_], h => simp at h
  | _ :: _ :: _ :: _, h => simp at h

theorem map_eq_one {α β} (f : α → β) (g : α → β) (xs : List α) (a : α) (h : xs.map f = [a].map g) :
    ∃ a', xs = [a'] ∧ f a' = g a := by
  match xs, h with
  | [a'], h => simp at h; exact ⟨a', rfl, h⟩
  | [], h => simp at h
  | _ :: _ :: _, h => simp at h

theorem sim_setLv (S : Spec) (env : Env) (lv : String → Option Word) (hs : Sim e σ₀ S env lv)
    (o : String) (t : Tm) (w : Word) (ho : o ∈ loadOuts S) (hw : evalW e σ₀ t = w) :
    Sim e σ₀ S ((o, t) :: env) (setLv lv o w) := by
  constructor
  · intro o' t' h
    simp only [List.lookup] at h
    by_cases heq : o' = o
    · subst heq; simp at h; subst h; simp [setLv, loadSym, hw]
    · have : (o' == o) = false := by simp [heq]
      simp only [this] at h
      simp only [setLv, loadSym, heq, if_false]
      exact hs.agree o' t' h
  · intro o' t' h
    simp only [List.lookup] at h
    by_cases heq : o' = o
    · subst heq; exact ho
    · have : (o' == o) = false := by simp [heq]
      simp only [this] at h
      exact hs.dom o' t' h
  · intro s w' h
    simp only [setLv, loadSym] at h
    by_cases heq : s = o
    · subst heq; exact ho
    · simp only [heq, if_false] at h; exact hs.lvdom s w' h

theorem out_mem_loadOuts (S : Spec) (u : UInstr) (o : String) (hu : u ∈ S.instrs) (he : u.isEffect = true)
    (ho : u.out = some o) : o ∈ loadOuts S := by
  simp only [loadOuts, List.mem_filterMap, List.mem_filter]
  exact ⟨u, ⟨hu, he⟩, ho⟩

/-- **one step of the simulation** -/
theorem stepEffect_sim (S : Spec) (hn : namesOk S = true) (st st' : EvalSt) (c : CSt) (u : UInstr)
    (hu : u ∈ S.instrs) (hi : Inv e σ₀ S st c) (h : stepEffect S st u = some st') :
    Inv e σ₀ S st' (actEff e σ₀ (effOf S u) c) := by
  unfold stepEffect at h
  cases ha : termsOf S st.env (fuelOf S) u.inp with
  | none => simp [ha] at h
  | some args =>
    simp only [ha, Option.bind_eq_bind, Option.bind_some] at h
    obtain ⟨args', g1, g2, g3⟩ := (termOf_sim e σ₀ S hn st.env c.lv hi.sim (fuelOf S)).2 u.inp args ha
    split at h
    all_goals first | (simp at h; done) | skip
    all_goals (simp only [Option.some.injEq] at h; subst h)
    · rename_i a v hop
      obtain ⟨a', v', rfl, ea, ev⟩ := map_eq_two _ _ args' a v g3
      have : effOf S u = .wmem a' v' := by simp [effOf, argsTm, g1, hop]
      rw [this]
      exact ⟨by simp [actEff, evalM, hi.mem, ea, ev], hi.sto, hi.sim⟩
    · rename_i a v hop
      obtain ⟨a', v', rfl, ea, ev⟩ := map_eq_two _ _ args' a v g3
      have : effOf S u = .bmem a' v' := by simp [effOf, argsTm, g1, hop]
      rw [this]
      exact ⟨by simp [actEff, evalM, hi.mem, ea, ev], hi.sto, hi.sim⟩
    · rename_i a v hop
      obtain ⟨a', v', rfl, ea, ev⟩ := map_eq_two _ _ args' a v g3
      have : effOf S u = .wsto a' v' := by simp [effOf, argsTm, g1, hop]
      rw [this]
      exact ⟨hi.mem, by simp [actEff, evalS, hi.sto, ea, ev], hi.sim⟩
    · rename_i a o hop hout
      obtain ⟨a', rfl, ea⟩ := map_eq_one _ _ args' a g3
      have : effOf S u = .rmem o a' := by simp [effOf, argsTm, g1, hop, hout]
      rw [this]
      have ho := out_mem_loadOuts S u o hu (by simp [UInstr.isEffect, UInstr.isMem, memOps, hop]) hout
      exact ⟨hi.mem, hi.sto, sim_setLv e σ₀ S _ _ hi.sim o _ _ ho (by simp [evalW, hi.mem, ea])⟩
    · rename_i a o hop hout
      obtain ⟨a', rfl, ea⟩ := map_eq_one _ _ args' a g3
      have : effOf S u = .rsto o a' := by simp [effOf, argsTm, g1, hop, hout]
      rw [this]
      have ho := out_mem_loadOuts S u o hu (by simp [UInstr.isEffect, UInstr.isSto, stoOps, hop]) hout
      exact ⟨hi.mem, hi.sto, sim_setLv e σ₀ S _ _ hi.sim o _ _ ho (by simp [evalW, hi.sto, ea])⟩
    · rename_i a l o hop hout
      obtain ⟨a', l', rfl, ea, el⟩ := map_eq_two _ _ args' a l g3
      have : effOf S u = .hmem o a' l' := by simp [effOf, argsTm, g1, hop, hout]
      rw [this]
      have ho := out_mem_loadOuts S u o hu (by simp [UInstr.isEffect, UInstr.isMem, memOps, hop]) hout
      exact ⟨hi.mem, hi.sto, sim_setLv e σ₀ S _ _ hi.sim o _ _ ho (by simp [evalW, hi.mem, ea, el])⟩
    · rename_i a l o hop hout
      obtain ⟨a', l', rfl, ea, el⟩ := map_eq_two _ _ args' a l g3
      have : effOf S u = .hmem o a' l' := by simp [effOf, argsTm, g1, hop, hout]
      rw [this]
      have ho := out_mem_loadOuts S u o hu (by simp [UInstr.isEffect, UInstr.isMem, memOps, hop]) hout
      exact ⟨hi.mem, hi.sto, sim_setLv e σ₀ S _ _ hi.sim o _ _ ho (by simp [evalW, hi.mem, ea, el])⟩

/-- **simulation**: the symbolic evaluation of the operations under a schedule is the concrete scheduled run -/
theorem runSchedule_sim (S : Spec) (hn : namesOk S = true) :
    ∀ (L : List String) (st st' : EvalSt) (c : CSt), Inv e σ₀ S st c → runSchedule S L st = some st' →
      Inv e σ₀ S st' (runSched e σ₀ S L c)
  | [], st, st', c, hi, h => by
    simp only [runSchedule, Option.some.injEq] at h; subst h; exact hi
  | id :: ids, st, st', c, hi, h => by
    simp only [runSchedule] at h
    cases hf : S.find? id with
    | none => simp [hf] at h
    | some u =>
      simp only [hf] at h
      cases hs : stepEffect S st u with
      | none => simp [hs] at h
      | some st1 =>
        simp only [hs, Option.bind_some] at h
        have hu : u ∈ S.instrs := List.mem_of_find?_eq_some hf
        have h1 := stepEffect_sim e σ₀ S hn st st1 c u hu hi hs
        have : runSched e σ₀ S (id :: ids) c = runSched e σ₀ S ids (actEff e σ₀ (effOf S u) c) := by
          simp [runSched, runActs, effId, hf]
        rw [this]
        exact runSchedule_sim S hn ids st1 st' _ h1 h

/-- the concrete state the evaluation starts from: nothing loaded, the memory and storage of `σ₀` -/
def initC : CSt := { lv := fun _ => none, mem := σ₀.mem, sto := σ₀.sto }

theorem inv_init (S : Spec) : Inv e σ₀ S {} (initC σ₀) := by
  refine ⟨by simp [evalM, initC], by simp [evalS, initC], ?_, ?_, ?_⟩
  · intro o t h; simp [List.lookup] at h
  · intro o t h; simp [List.lookup] at h
  · intro s w h; simp [initC] at h

/-- what a symbolic state denotes on `σ₀`: stack words (top first), memory, storage -/
def denote (X : SymSt) : List Word × Mem × Sto :=
  (X.stk.map (evalW e σ₀), evalM e σ₀ X.mem, evalS e σ₀ X.sto)

/-- **the symbolic evaluation of a specification is a function of the concrete scheduled run**: stack words are
    the schedule-independent opaque terms read in the final loaded values; memory and storage are the final ones -/
theorem evalSpec_denote (S : Spec) (hn : namesOk S = true) (L : List String) (X : SymSt)
    (h : evalSpec S L = some X) :
    ∃ stk', termsOf S (opaqueEnv S) (fuelOf S) S.tgt = some stk' ∧
      denote e σ₀ X =
        (stk'.map (evalW (withLoads e (runSched e σ₀ S L (initC σ₀)).lv) σ₀),
         (runSched e σ₀ S L (initC σ₀)).mem, (runSched e σ₀ S L (initC σ₀)).sto) := by
  unfold evalSpec at h
  cases hr : runSchedule S L {} with
  | none => simp [hr] at h
  | some st =>
    simp only [hr, Option.bind_eq_bind, Option.bind_some] at h
    cases ht : termsOf S st.env (fuelOf S) S.tgt with
    | none => simp [ht] at h
    | some stk =>
      simp only [ht, Option.bind_some, Option.some.injEq] at h
      subst h
      have hi := runSchedule_sim e σ₀ S hn L {} st (initC σ₀) (inv_init e σ₀ S) hr
      obtain ⟨stk', g1, _, g3⟩ := (termOf_sim e σ₀ S hn st.env _ hi.sim (fuelOf S)).2 S.tgt stk ht
      exact ⟨stk', g1, by simp [denote, g3, hi.mem, hi.sto]⟩

/-- **C02, end to end on the model**: if the conflicting operations of a specification are ordered by `edges`
    (`conflictsOrdered`, run by the check on every specification the front end emits), then any two schedules that
    run the same operations once and respect `edges` give symbolic states with the same meaning on every initial
    state and every well-formed environment. -/
theorem spec_schedule_independent (we : e.wf) (S : Spec) (hn : namesOk S = true)
    (edges : List (String × String)) (fuel : Nat) (L₁ L₂ : List String) (hnd : L₁.Nodup) (hp : L₁.Perm L₂)
    (hco : conflictsOrdered S edges fuel L₁ = true)
    (hr₁ : respectsB L₁ edges = true) (hr₂ : respectsB L₂ edges = true)
    (X₁ X₂ : SymSt) (h₁ : evalSpec S L₁ = some X₁) (h₂ : evalSpec S L₂ = some X₂) :
    denote e σ₀ X₁ = denote e σ₀ X₂ := by
  obtain ⟨s1, a1, b1⟩ := evalSpec_denote e σ₀ S hn L₁ X₁ h₁
  obtain ⟨s2, a2, b2⟩ := evalSpec_denote e σ₀ S hn L₂ X₂ h₂
  rw [a1] at a2
  cases a2
  rw [b1, b2, checked_schedules_agree e σ₀ we S edges fuel L₁ L₂ hnd hp hco hr₁ hr₂ (initC σ₀)]

omit e σ₀ in
/-- `scheduleMatches` is a sound validator: a specification that matches the block under schedule `L` concretises,
    on every state deep enough, to exactly the state the block produces -/
theorem scheduleMatches_sound {nf : Normaliser} (hn : NormSound nf) (S : Spec) (L : List String) (B : List Instr)
    (X : SymSt) (hX : evalSpec S L = some X) (h : scheduleMatches nf S L B = true)
    (e : GasolVerif.Env) (we : e.wf) (σ : St) :
    ∃ Y, symExec B .init = some Y ∧
      (max X.base Y.base ≤ σ.stack.length → exec e B σ = some (X.conc e σ)) := by
  unfold scheduleMatches at h
  rw [hX] at h
  cases hY : symExec B .init with
  | none => simp [hY] at h
  | some Y =>
    refine ⟨Y, rfl, ?_⟩
    intro hd
    simp only [hY, Bool.and_eq_true, beq_iff_eq] at h
    obtain ⟨⟨hstk, hmem⟩, hsto⟩ := h
    have h0 : SymSt.init.base ≤ σ.stack.length := by simp [SymSt.init]
    have e2 := symExec_conc e σ B .init Y h0 hY
    rw [conc_init] at e2
    have hYb : Y.base ≤ σ.stack.length := by omega
    rw [e2]; simp only [hYb, if_true, Option.some.injEq]
    have hXe : (X.ensure (X.stk.length + (max X.base Y.base - X.base))).base = max X.base Y.base := by
      simp [ensure_base]; omega
    have hYe : (Y.ensure (Y.stk.length + (max X.base Y.base - Y.base))).base = max X.base Y.base := by
      simp [ensure_base]; omega
    rw [← ensure_conc e σ _ X (by rw [hXe]; exact hd), ← ensure_conc e σ _ Y (by rw [hYe]; exact hd)]
    simp only [SymSt.conc, ensure_mem, ensure_sto, hXe, hYe]
    have hm : evalM e σ Y.mem = evalM e σ X.mem := by
      rw [← hn.m e σ Y.mem we, ← hn.m e σ X.mem we, hmem]
    have hs : evalS e σ Y.sto = evalS e σ X.sto := by
      rw [← hn.s e σ Y.sto we, ← hn.s e σ X.sto we, hsto]
    rw [hm, hs, map_eq_of_nf_eq hn e we σ _ _ hstk]

omit e σ₀ in
theorem evalSpec_base (S : Spec) (L : List String) (X : SymSt) (h : evalSpec S L = some X) :
    X.base = S.src.length := by
  unfold evalSpec at h
  cases hr : runSchedule S L {} with
  | none => simp [hr] at h
  | some st =>
    simp only [hr, Option.bind_eq_bind, Option.bind_some] at h
    cases ht : termsOf S st.env (fuelOf S) S.tgt with
    | none => simp [ht] at h
    | some stk => simp only [ht, Option.bind_some, Option.some.injEq] at h; subst h; rfl

omit e σ₀ in
/-- **C02 on the model, stated as the property reads**: let the conflicting operations of `S` be ordered by `edges`
    and let ONE schedule `L₁` respecting `edges` match the block (`scheduleMatches`, the proved validator).  Then for
    EVERY schedule `L₂` of the same operations respecting `edges`, every well-formed environment and every state
    deep enough, running the block gives exactly the state the specification evaluated under `L₂` denotes. -/
theorem spec_denotes_block_under_every_schedule (S : Spec) (hn : namesOk S = true)
    (edges : List (String × String)) (fuel : Nat) (L₁ L₂ : List String) (B : List Instr)
    (hnd : L₁.Nodup) (hp : L₁.Perm L₂)
    (hco : conflictsOrdered S edges fuel L₁ = true)
    (hr₁ : respectsB L₁ edges = true) (hr₂ : respectsB L₂ edges = true)
    (hm : scheduleMatches norm3 S L₁ B = true)
    (X₂ : SymSt) (h₂ : evalSpec S L₂ = some X₂)
    (e : GasolVerif.Env) (we : e.wf) (σ : St) :
    ∃ Y, symExec B .init = some Y ∧
      (max S.src.length Y.base ≤ σ.stack.length → exec e B σ = some (X₂.conc e σ)) := by
  cases h₁ : evalSpec S L₁ with
  | none => simp [scheduleMatches, h₁] at hm
  | some X₁ =>
    obtain ⟨Y, hY, hx⟩ := scheduleMatches_sound norm3_sound S L₁ B X₁ h₁ hm e we σ
    refine ⟨Y, hY, ?_⟩
    intro hd
    have b1 := evalSpec_base S L₁ X₁ h₁
    have b2 := evalSpec_base S L₂ X₂ h₂
    rw [hx (by rw [b1]; exact hd)]
    have hden := spec_schedule_independent e σ we S hn edges fuel L₁ L₂ hnd hp hco hr₁ hr₂ X₁ X₂ h₁ h₂
    simp only [denote, Prod.mk.injEq] at hden
    simp only [SymSt.conc, hden.1, hden.2.1, hden.2.2, b1, b2]

end GasolVerif.Spec
