"""Runs the real gasol_asm main with faults injected into the per-block oracles (C10).
GV_INJECT = {"analysis": [block-name substrings], "greedy_calls": [k...], "checker_calls": [k...]}"""
import json, os, sys
REPO = os.environ.get("GASOL_REPO", "/repo")
sys.path.insert(0, REPO)
spec = json.loads(os.environ.get("GV_INJECT", "{}"))
import gasol_asm
import global_params.paths as _paths
if os.environ.get("GV_PATHFILE"):
    with open(os.environ["GV_PATHFILE"], "w") as _f:
        _f.write(_paths.gasol_path)
import sfs_generator.ir_block as ir_block

_real_compile = ir_block.evm2rbr_compiler
_cnt = {"greedy": 0, "checker": 0}


def compile_wrap(*a, **kw):
    name = kw.get("block_name", "")
    for s in spec.get("analysis", []):
        if name == s or name == "alreadyOptimized_" + s:
            raise Exception("injected analysis fault", 4)
    return _real_compile(*a, **kw)


ir_block.evm2rbr_compiler = compile_wrap
_real_greedy = gasol_asm.greedy_standalone


def greedy_wrap(sms):
    _cnt["greedy"] += 1
    if _cnt["greedy"] in spec.get("greedy_calls", []):
        return "error", 0.0, []
    return _real_greedy(sms)


gasol_asm.greedy_standalone = greedy_wrap
_real_verify = gasol_asm.verify_block_from_list_of_sfs


def verify_wrap(a, b):
    _cnt["checker"] += 1
    if _cnt["checker"] in spec.get("checker_calls", []):
        return False, "injected checker rejection"
    return _real_verify(a, b)


gasol_asm.verify_block_from_list_of_sfs = verify_wrap
sys.argv = [os.path.join(REPO, "gasol_asm.py")] + sys.argv[1:]
gasol_asm.main_gasol()
