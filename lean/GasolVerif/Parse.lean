/-
  Token syntax of the line protocol → `Instr`.  Glue (trusted, unverified); no Mathlib.
  One instruction per token:
    PUSH:<hex>  SYM:<text>  DUP<k> SWAP<k> POP  <OPNAME>  E0:<name>  E1:<name>
    MLOAD MSTORE MSTORE8 SLOAD SSTORE KECCAK256  X:<name>:<nin>:<0|1>
-/
import GasolVerif.Evm
namespace GasolVerif

def hexDigit? (c : Char) : Option Nat :=
  if '0' ≤ c ∧ c ≤ '9' then some (c.toNat - '0'.toNat)
  else if 'a' ≤ c ∧ c ≤ 'f' then some (c.toNat - 'a'.toNat + 10)
  else if 'A' ≤ c ∧ c ≤ 'F' then some (c.toNat - 'A'.toNat + 10)
  else none

def parseHex? (s : String) : Option Nat :=
  if s.isEmpty then none else
  s.toList.foldl (fun acc c => match acc, hexDigit? c with
    | some n, some d => some (n * 16 + d)
    | _, _ => none) (some 0)

def hexOfNat (n : Nat) : String := String.ofList (Nat.toDigits 16 n)

def Instr.ofToken? (t : String) : Option Instr :=
  match t.splitOn ":" with
  | ["PUSH", h] => (parseHex? h).bind fun n => if n < 2 ^ 256 then some (.push (BitVec.ofNat 256 n)) else none
  | "SYM" :: rest => some (.pushSym (":".intercalate rest))
  | ["E0", n] => some (.env0 n)
  | ["E1", n] => some (.env1 n)
  | ["X", n, a, o] => (a.toNat?).map fun k => .ext n k (o == "1")
  | [n] =>
    if n == "POP" then some .pop
    else if n == "MLOAD" then some .mload
    else if n == "MSTORE" then some .mstore
    else if n == "MSTORE8" then some .mstore8
    else if n == "SLOAD" then some .sload
    else if n == "SSTORE" then some .sstore
    else if n == "KECCAK256" || n == "SHA3" then some .keccak
    else if n.startsWith "DUP" then ((n.drop 3).toString.toNat?).map .dup
    else if n.startsWith "SWAP" then ((n.drop 4).toString.toNat?).map .swap
    else match UnOp.ofName? n with
      | some o => some (.un o)
      | none => match BinOp.ofName? n with
        | some o => some (.bin o)
        | none => (TerOp.ofName? n).map .ter
  | _ => none

def parseBlock? (s : String) : Option (List Instr) :=
  (s.splitOn " ").filter (· ≠ "") |>.mapM Instr.ofToken?

def Instr.toToken : Instr → String
  | .push w => "PUSH:" ++ hexOfNat w.toNat
  | .pushSym s => "SYM:" ++ s
  | .dup k => s!"DUP{k}" | .swap k => s!"SWAP{k}" | .pop => "POP"
  | .un o => o.name | .bin o => o.name | .ter o => o.name
  | .env0 n => "E0:" ++ n | .env1 n => "E1:" ++ n
  | .mload => "MLOAD" | .mstore => "MSTORE" | .mstore8 => "MSTORE8"
  | .sload => "SLOAD" | .sstore => "SSTORE" | .keccak => "KECCAK256"
  | .ext n a o => s!"X:{n}:{a}:{if o then 1 else 0}"

end GasolVerif
