"""End-to-end runs of the real optimizer on generated blocks, judged by the Lean machinery:
the proved validator (`EQUIV`, theorem equiv_norm3_sound) and, where it cannot decide, concrete
execution of both blocks in the Lean EVM from boundary states (`EXEC2`, the failing-input search)."""
import random
import pool, gen, drv

OPTION_SETS_QUICK = [["-greedy"], ["-greedy", "-storage"], ["-greedy", "-partition"], ["-greedy", "-size"],
                     ["-greedy", "-length"], ["-greedy", "-push0"], ["-greedy", "-no-simplification"]]


def run_optimize(blocks, option_sets, timeout=25, assign="rotate"):
    """blocks: list of plain-text blocks. Returns list of (text, opts, block-entry, status)."""
    tasks = []
    for i, b in enumerate(blocks):
        if assign == "rotate":
            tasks.append({"kind": "optimize", "text": b, "opts": option_sets[i % len(option_sets)]})
        else:
            for o in option_sets:
                tasks.append({"kind": "optimize", "text": b, "opts": o})
    # one worker pool per option set: the tool keeps option-dependent state in module globals
    # (split_sto, constants.split_block), and a real process only ever sees one option set
    groups = {}
    for t in tasks:
        groups.setdefault(tuple(t["opts"]), []).append(t)
    res = []
    for key in groups:
        res.extend(pool.run_tasks(groups[key], timeout=timeout, nproc=max(2, 16 // max(1, min(len(groups), 4)))))
    out = []
    for t, r, st in res:
        if st != "ok" or r is None or "harness_error" in (r or {}):
            out.append((t["text"], t["opts"], None, st if st != "ok" else "harness:" + r["harness_error"]))
            continue
        if "parse_exception" in r:
            out.append((t["text"], t["opts"], None, "parse:" + r["parse_exception"]))
            continue
        for e in r["blocks"]:
            e["wall"] = r.get("wall")
            out.append((t["text"], t["opts"], e, "ok"))
    return out


def judge_pairs(pairs, nstates, rng, check_proved=2):
    """pairs: list of dict(in_tokens, out_tokens, need). Adds 'verdict' in
    {'proved','tested','diff'} plus 'detail'/'state' for diffs."""
    eq = drv.batch(["EQUIV\t%s\t%s" % (p["in_tokens"], p["out_tokens"]) for p in pairs])
    reqs, idx = [], []
    for i, (p, o) in enumerate(zip(pairs, eq)):
        if o.startswith("error"):
            p["verdict"] = "error"
            p["detail"] = o
            continue
        p["verdict"] = "proved" if o == "equiv" else "tested"
        n = check_proved if o == "equiv" else nstates
        p["states"] = gen.states(rng, p.get("need", 0), n)
        for sd, stk in p["states"]:
            reqs.append("EXEC2\t%d\t%s\t%s\t%s" % (sd, stk, p["in_tokens"], p["out_tokens"]))
            idx.append((i, sd, stk))
    outs = drv.batch(reqs)
    for (i, sd, stk), o in zip(idx, outs):
        p = pairs[i]
        if o.startswith("diff"):
            if p["verdict"] == "proved":
                p["verdict"] = "inconsistent"      # validator says equivalent, execution differs: machinery bug
            elif p["verdict"] != "inconsistent":
                p["verdict"] = "diff"
            p.setdefault("detail", o)
            p.setdefault("state", {"seed": sd, "stack": stk})
        elif o.startswith("error"):
            p["verdict"] = "error"
            p["detail"] = o
    return pairs
