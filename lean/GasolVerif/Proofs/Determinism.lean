/-
  C13: consumers of hash-ordered collections that do not depend on the iteration order.
  `sort_perm_invariant`: sorting (as `sorted(u_dict.keys())` does before identifiers are numbered)
  yields the same list for every iteration order of the same set of keys.
-/
namespace GasolVerif.Determinism

theorem sort_perm_invariant {α : Type} (le : α → α → Bool)
    (trans : ∀ a b c : α, le a b → le b c → le a c)
    (total : ∀ a b : α, le a b || le b a)
    (antisymm : ∀ a b : α, le a b → le b a → a = b)
    (l₁ l₂ : List α) (h : l₁.Perm l₂) : l₁.mergeSort le = l₂.mergeSort le := by
  apply List.Perm.eq_of_pairwise (le := fun a b => le a b = true)
  · intro a b _ _ hab hba; exact antisymm a b hab hba
  · exact List.pairwise_mergeSort trans total l₁
  · exact List.pairwise_mergeSort trans total l₂
  · exact (List.mergeSort_perm l₁ le).trans (h.trans (List.mergeSort_perm l₂ le).symm)

/-- numbering identifiers by position in the sorted key table does not depend on the iteration order -/
theorem numbering_perm_invariant {α : Type} [DecidableEq α] (le : α → α → Bool)
    (trans : ∀ a b c : α, le a b → le b c → le a c)
    (total : ∀ a b : α, le a b || le b a)
    (antisymm : ∀ a b : α, le a b → le b a → a = b)
    (l₁ l₂ : List α) (h : l₁.Perm l₂) (x : α) :
    (l₁.mergeSort le).idxOf x = (l₂.mergeSort le).idxOf x := by
  rw [sort_perm_invariant le trans total antisymm l₁ l₂ h]

/-- membership, size and maximum of a collection do not depend on the iteration order -/
theorem mem_perm_invariant {α : Type} (l₁ l₂ : List α) (h : l₁.Perm l₂) (x : α) : x ∈ l₁ ↔ x ∈ l₂ := h.mem_iff

theorem length_perm_invariant {α : Type} (l₁ l₂ : List α) (h : l₁.Perm l₂) : l₁.length = l₂.length := h.length_eq

theorem foldMax_perm_invariant (l₁ l₂ : List Nat) (h : l₁.Perm l₂) (b : Nat) :
    l₁.foldl max b = l₂.foldl max b := by
  induction h generalizing b with
  | nil => rfl
  | cons a _ ih => simp [List.foldl, ih]
  | swap a c l => simp only [List.foldl]; congr 1; omega
  | trans _ _ ih1 ih2 => rw [ih1, ih2]

end GasolVerif.Determinism
