/-
  (V) Symbolic execution of straight-line blocks (no external operations) and its exactness:
  running a block concretely from `σ₀` is the same as evaluating its symbolic result in `σ₀`,
  including *when* the block runs (stack depth).
-/
import GasolVerif.Term
namespace GasolVerif

structure SymSt where
  stk : List Tm
  base : Nat          -- number of words of the initial stack already consumed
  mem : Tm
  sto : Tm
  deriving DecidableEq, Repr, Inhabited

def SymSt.init : SymSt := ⟨[], 0, .mem0, .sto0⟩

/-- make the symbolic stack at least `n` deep by naming further words of the initial stack -/
def SymSt.ensure (n : Nat) (S : SymSt) : SymSt :=
  { S with stk := S.stk ++ (List.range (n - S.stk.length)).map (fun j => Tm.var (S.base + j)),
           base := S.base + (n - S.stk.length) }

def symStep : Instr → SymSt → Option SymSt
  | .push w, S => some { S with stk := .const w :: S.stk }
  | .pushSym x, S => some { S with stk := .sym x :: S.stk }
  | .dup k, S =>
    if k = 0 then none else
    let S := S.ensure k
    match S.stk[k - 1]? with
    | some t => some { S with stk := t :: S.stk }
    | none => none
  | .swap k, S =>
    if k = 0 then none else
    let S := S.ensure (k + 1)
    match S.stk with
    | [] => none
    | top :: rest =>
      match rest[k - 1]? with
      | some t => some { S with stk := t :: rest.set (k - 1) top }
      | none => none
  | .pop, S =>
    let S := S.ensure 1
    match S.stk with
    | _ :: r => some { S with stk := r }
    | [] => none
  | .un op, S =>
    let S := S.ensure 1
    match S.stk with
    | a :: r => some { S with stk := .un op a :: r }
    | _ => none
  | .bin op, S =>
    let S := S.ensure 2
    match S.stk with
    | a :: b :: r => some { S with stk := .bin op a b :: r }
    | _ => none
  | .ter op, S =>
    let S := S.ensure 3
    match S.stk with
    | a :: b :: c :: r => some { S with stk := .ter op a b c :: r }
    | _ => none
  | .env0 n, S => some { S with stk := .env0 n :: S.stk }
  | .env1 n, S =>
    let S := S.ensure 1
    match S.stk with
    | a :: r => some { S with stk := .env1 n a :: r }
    | _ => none
  | .mload, S =>
    let S := S.ensure 1
    match S.stk with
    | a :: r => some { S with stk := .mload S.mem a :: r }
    | _ => none
  | .mstore, S =>
    let S := S.ensure 2
    match S.stk with
    | a :: v :: r => some { S with stk := r, mem := .mstore S.mem a v }
    | _ => none
  | .mstore8, S =>
    let S := S.ensure 2
    match S.stk with
    | a :: v :: r => some { S with stk := r, mem := .mstore8 S.mem a v }
    | _ => none
  | .sload, S =>
    let S := S.ensure 1
    match S.stk with
    | k :: r => some { S with stk := .sload S.sto k :: r }
    | _ => none
  | .sstore, S =>
    let S := S.ensure 2
    match S.stk with
    | k :: v :: r => some { S with stk := r, sto := .sstore S.sto k v }
    | _ => none
  | .keccak, S =>
    let S := S.ensure 2
    match S.stk with
    | off :: len :: r => some { S with stk := .keccak S.mem off len :: r }
    | _ => none
  | .ext _ _ _, _ => none

def symExec : List Instr → SymSt → Option SymSt
  | [], S => some S
  | i :: is, S => (symStep i S).bind (symExec is)

/-- the concrete state a symbolic state stands for, relative to the initial state `σ₀` -/
def SymSt.conc (e : Env) (σ₀ : St) (S : SymSt) : St :=
  { stack := S.stk.map (evalW e σ₀) ++ σ₀.stack.drop S.base
    mem := evalM e σ₀ S.mem
    sto := evalS e σ₀ S.sto
    trace := σ₀.trace }

theorem conc_init (e : Env) (σ₀ : St) : SymSt.init.conc e σ₀ = σ₀ := by
  simp [SymSt.conc, SymSt.init, evalM, evalS]

section ensure
variable (e : Env) (σ₀ : St)

theorem map_var_range (b k : Nat) (h : b + k ≤ σ₀.stack.length) :
    ((List.range k).map (fun j => Tm.var (b + j))).map (evalW e σ₀) = (σ₀.stack.drop b).take k := by
  apply List.ext_getElem
  · simp; omega
  · intro i h1 h2
    simp at h1
    simp [evalW, List.getD_eq_getElem?_getD]
    rw [List.getElem?_eq_getElem (by omega)]
    simp

theorem ensure_base (n : Nat) (S : SymSt) : (S.ensure n).base = S.base + (n - S.stk.length) := rfl

theorem ensure_len (n : Nat) (S : SymSt) : n ≤ (S.ensure n).stk.length := by
  simp [SymSt.ensure]; omega

theorem ensure_mem (n : Nat) (S : SymSt) : (S.ensure n).mem = S.mem := rfl
theorem ensure_sto (n : Nat) (S : SymSt) : (S.ensure n).sto = S.sto := rfl

theorem ensure_conc (n : Nat) (S : SymSt) (h : (S.ensure n).base ≤ σ₀.stack.length) :
    (S.ensure n).conc e σ₀ = S.conc e σ₀ := by
  have hb := ensure_base n S
  simp only [SymSt.conc, ensure_mem, ensure_sto]
  congr 1
  simp only [SymSt.ensure, List.map_append]
  rw [map_var_range e σ₀ S.base (n - S.stk.length) (by rw [hb] at h; exact h)]
  rw [List.append_assoc]
  congr 1
  rw [← List.drop_drop]
  exact List.take_append_drop _ _

theorem ensure_fail (n : Nat) (S : SymSt) (hS : S.base ≤ σ₀.stack.length)
    (h : ¬ (S.ensure n).base ≤ σ₀.stack.length) : (S.conc e σ₀).stack.length < n := by
  have hb := ensure_base n S
  simp [SymSt.conc]
  omega

end ensure

section stepLemmas
variable (e : Env) (σ₀ : St)

theorem step_short1 (i : Instr) (σ : St) (h : σ.stack.length < 1)
    (hi : i = .pop ∨ (∃ o, i = .un o) ∨ (∃ n, i = .env1 n) ∨ i = .mload ∨ i = .sload) :
    step e i σ = none := by
  obtain ⟨st, m, s, t⟩ := σ
  cases st with
  | nil => rcases hi with rfl | ⟨o, rfl⟩ | ⟨n, rfl⟩ | rfl | rfl <;> simp [step]
  | cons a r => simp at h

theorem step_short2 (i : Instr) (σ : St) (h : σ.stack.length < 2)
    (hi : (∃ o, i = .bin o) ∨ i = .mstore ∨ i = .mstore8 ∨ i = .sstore ∨ i = .keccak) :
    step e i σ = none := by
  obtain ⟨st, m, s, t⟩ := σ
  rcases st with _ | ⟨a, _ | ⟨b, r⟩⟩
  · rcases hi with ⟨o, rfl⟩ | rfl | rfl | rfl | rfl <;> simp [step]
  · rcases hi with ⟨o, rfl⟩ | rfl | rfl | rfl | rfl <;> simp [step]
  · simp at h; omega

theorem step_short3 (o : TerOp) (σ : St) (h : σ.stack.length < 3) : step e (.ter o) σ = none := by
  obtain ⟨st, m, s, t⟩ := σ
  rcases st with _ | ⟨a, _ | ⟨b, _ | ⟨c, r⟩⟩⟩ <;> simp [step] at h ⊢
  omega

theorem step_dup_short (k : Nat) (σ : St) (h : σ.stack.length < k) : step e (.dup k) σ = none := by
  simp only [step]
  split
  · rfl
  · rw [List.getElem?_eq_none (by omega)]

theorem step_swap_short (k : Nat) (σ : St) (h : σ.stack.length < k + 1) : step e (.swap k) σ = none := by
  simp only [step]
  split
  · rfl
  · obtain ⟨st, m, s, t⟩ := σ
    cases st with
    | nil => rfl
    | cons a r =>
      simp at h
      simp only
      rw [List.getElem?_eq_none (by omega)]

set_option hygiene false in
/-- one macro for all "ensure `n`, then match" instructions -/
local macro "sym_case" n:term "," short:term : tactic => `(tactic| (
  have hlen := ensure_len $n S
  by_cases hb : (S.ensure $n).base ≤ σ₀.stack.length
  · rw [← ensure_conc e σ₀ $n S hb]
    generalize S.ensure $n = S1 at *
    obtain ⟨stk, b, m, s⟩ := S1
    rcases stk with _ | ⟨a, _ | ⟨b', _ | ⟨c, r⟩⟩⟩ <;> simp at hlen h <;> subst h <;> simp at hb <;>
      simp [SymSt.conc, step, evalW, evalM, evalS, hb]
  · have := ensure_fail e σ₀ $n S hS hb
    rw [$short:term]
    generalize S.ensure $n = S1 at *
    obtain ⟨stk, b, m, s⟩ := S1
    rcases stk with _ | ⟨a, _ | ⟨b', _ | ⟨c, r⟩⟩⟩ <;> simp at hlen h <;> subst h <;> simp at hb ⊢ <;> omega))

theorem symStep_conc (i : Instr) (S S' : SymSt) (hS : S.base ≤ σ₀.stack.length)
    (h : symStep i S = some S') :
    step e i (S.conc e σ₀) =
      if S'.base ≤ σ₀.stack.length then some (S'.conc e σ₀) else none := by
  cases i with
  | push w => simp [symStep] at h; subst h; simp [SymSt.conc, step, evalW, hS]
  | pushSym x => simp [symStep] at h; subst h; simp [SymSt.conc, step, evalW, hS]
  | env0 n => simp [symStep] at h; subst h; simp [SymSt.conc, step, evalW, hS]
  | ext n a o => simp [symStep] at h
  | pop => simp only [symStep] at h; sym_case 1, step_short1 e _ _ this (by simp)
  | un op => simp only [symStep] at h; sym_case 1, step_short1 e _ _ this (by simp)
  | env1 n => simp only [symStep] at h; sym_case 1, step_short1 e _ _ this (by simp)
  | mload => simp only [symStep] at h; sym_case 1, step_short1 e _ _ this (by simp)
  | sload => simp only [symStep] at h; sym_case 1, step_short1 e _ _ this (by simp)
  | bin op => simp only [symStep] at h; sym_case 2, step_short2 e _ _ this (by simp)
  | mstore => simp only [symStep] at h; sym_case 2, step_short2 e _ _ this (by simp)
  | mstore8 => simp only [symStep] at h; sym_case 2, step_short2 e _ _ this (by simp)
  | sstore => simp only [symStep] at h; sym_case 2, step_short2 e _ _ this (by simp)
  | keccak => simp only [symStep] at h; sym_case 2, step_short2 e _ _ this (by simp)
  | ter op => simp only [symStep] at h; sym_case 3, step_short3 e _ _ this
  | dup k =>
    simp only [symStep] at h
    split at h
    · simp at h
    · rename_i hk
      have hlen := ensure_len k S
      by_cases hb : (S.ensure k).base ≤ σ₀.stack.length
      · rw [← ensure_conc e σ₀ k S hb]
        generalize S.ensure k = S1 at *
        have hk1 : k - 1 < S1.stk.length := by omega
        rw [List.getElem?_eq_getElem hk1] at h
        simp at h; subst h
        simp only [SymSt.conc, step, hk, if_false]
        rw [List.getElem?_append_left (by simp; omega)]
        simp [hb, List.getElem?_eq_getElem hk1]
      · have := ensure_fail e σ₀ k S hS hb
        rw [step_dup_short e k _ this]
        generalize S.ensure k = S1 at *
        have hk1 : k - 1 < S1.stk.length := by omega
        rw [List.getElem?_eq_getElem hk1] at h
        simp at h; subst h
        simp [hb]
  | swap k =>
    simp only [symStep] at h
    split at h
    · simp at h
    · rename_i hk
      have hlen := ensure_len (k + 1) S
      by_cases hb : (S.ensure (k + 1)).base ≤ σ₀.stack.length
      · rw [← ensure_conc e σ₀ (k + 1) S hb]
        generalize S.ensure (k + 1) = S1 at *
        obtain ⟨stk, b, m, s⟩ := S1
        cases stk with
        | nil => simp at hlen
        | cons top rest =>
          simp at hlen
          have hk1 : k - 1 < rest.length := by omega
          simp only [List.getElem?_eq_getElem hk1] at h
          simp at h; subst h
          simp at hb
          simp only [SymSt.conc, step, hk, if_false, List.map_cons, List.cons_append]
          rw [List.getElem?_append_left (by simp; omega)]
          simp [hb, List.set_append_left, hk1, List.map_set]
      · have := ensure_fail e σ₀ (k + 1) S hS hb
        rw [step_swap_short e k _ this]
        generalize S.ensure (k + 1) = S1 at *
        obtain ⟨stk, b, m, s⟩ := S1
        cases stk with
        | nil => simp at hlen
        | cons top rest =>
          simp at hlen
          have hk1 : k - 1 < rest.length := by omega
          simp only [List.getElem?_eq_getElem hk1] at h
          simp at h; subst h
          simp at hb ⊢
          omega

theorem symStep_base (i : Instr) (S S' : SymSt) (h : symStep i S = some S') : S.base ≤ S'.base := by
  cases i <;> simp only [symStep] at h
  all_goals
    first
    | (simp at h; subst h; simp; done)
    | (simp at h; done)
    | (split at h
       · simp at h
       · split at h <;> simp at h <;> subst h <;> simp [ensure_base])
    | (split at h <;> simp at h <;> subst h <;> simp [ensure_base])
    | (split at h
       · simp at h
       · split at h
         · simp at h
         · split at h <;> simp at h <;> subst h <;> simp [ensure_base])

theorem symExec_base (B : List Instr) (S S' : SymSt) (h : symExec B S = some S') : S.base ≤ S'.base := by
  induction B generalizing S with
  | nil => simp [symExec] at h; subst h; exact Nat.le_refl _
  | cons i is ih =>
    simp only [symExec] at h
    cases h1 : symStep i S with
    | none => simp [h1] at h
    | some S1 =>
      rw [h1] at h
      exact Nat.le_trans (symStep_base i S S1 h1) (ih S1 h)

/-- exactness of symbolic execution: the block runs from `S.conc` iff the initial stack is as deep
    as the symbolic run needs, and then ends in the concretisation of the symbolic result -/
theorem symExec_conc (B : List Instr) (S S' : SymSt) (hS : S.base ≤ σ₀.stack.length)
    (h : symExec B S = some S') :
    exec e B (S.conc e σ₀) =
      if S'.base ≤ σ₀.stack.length then some (S'.conc e σ₀) else none := by
  induction B generalizing S with
  | nil => simp [symExec] at h; subst h; simp [exec, hS]
  | cons i is ih =>
    simp only [symExec] at h
    cases h1 : symStep i S with
    | none => simp [h1] at h
    | some S1 =>
      rw [h1] at h
      simp only [Option.bind_some] at h
      simp only [exec, symStep_conc e σ₀ i S S1 hS h1]
      by_cases hb : S1.base ≤ σ₀.stack.length
      · simp only [hb, if_true, Option.bind_some]
        exact ih S1 hb h
      · have := symExec_base is S1 S' h
        have hb' : ¬ S'.base ≤ σ₀.stack.length := by omega
        simp [hb, hb']

end stepLemmas

end GasolVerif
