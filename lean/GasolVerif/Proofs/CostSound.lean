import GasolVerif.Models.Cost
import GasolVerif.Models.CostAcc
set_option linter.unusedSimpArgs false
namespace GasolVerif.Cost

theorem go_spec (others : List Int) (any : Bool) :
    improves.go others any = true ↔ (∀ o ∈ others, o ≥ 0) ∧ (any = true ∨ ∃ o ∈ others, o > 0) := by
  induction others generalizing any with
  | nil => simp [improves.go]
  | cons o os ih =>
    simp only [improves.go]
    split
    · rename_i h
      rw [ih]
      simp only [List.mem_cons, forall_eq_or_imp, exists_eq_or_imp]
      constructor
      · rintro ⟨h1, _⟩; exact ⟨⟨by omega, h1⟩, Or.inr (Or.inl h)⟩
      · rintro ⟨⟨_, h1⟩, _⟩; exact ⟨h1, by simp⟩
    · split
      · rename_i h1 h2
        simp only [List.mem_cons, forall_eq_or_imp]
        constructor
        · intro h; cases h
        · rintro ⟨⟨h3, _⟩, _⟩; omega
      · rename_i h1 h2
        rw [ih]
        have ho : o = 0 := by omega
        subst ho
        simp

/-- the acceptance test is exactly: strictly better in the criterion, or equal in it, worse in no
    other measure and strictly better in at least one -/
theorem improves_spec (c : Int) (others : List Int) :
    improves c others = true ↔
      c > 0 ∨ (c = 0 ∧ (∀ o ∈ others, o ≥ 0) ∧ ∃ o ∈ others, o > 0) := by
  unfold improves
  split
  · rename_i h; simp [h]
  · split
    · rename_i h1 h2
      rw [go_spec]
      simp [h2]
    · rename_i h1 h2
      constructor
      · intro h; cases h
      · rintro (h | ⟨h, _⟩) <;> omega

/-- a sub-block replacement that passes the tool's test, *measured by the costs it was given*, never
    costs more in the chosen criterion, and ties are broken only by improvements elsewhere -/
theorem accepted_not_worse (crit : Crit) (ss sg sl : Int) (h : hasBeenOptimized crit ss sg sl = true) :
    match crit with
    | .gas => sg > 0 ∨ (sg = 0 ∧ ss > 0)
    | .size => ss > 0 ∨ (ss = 0 ∧ sg > 0)
    | .length => sl > 0 ∨ (sl = 0 ∧ sg ≥ 0 ∧ ss ≥ 0 ∧ (sg > 0 ∨ ss > 0)) := by
  cases crit <;> simp only [hasBeenOptimized, improves_spec] at h <;> simp only
  · rcases h with h | ⟨h1, h2, o, ho, hp⟩
    · exact Or.inl h
    · simp at ho h2; subst ho; exact Or.inr ⟨h1, hp⟩
  · rcases h with h | ⟨h1, h2, o, ho, hp⟩
    · exact Or.inl h
    · simp at ho h2; subst ho; exact Or.inr ⟨h1, hp⟩
  · rcases h with h | ⟨h1, h2, o, ho, hp⟩
    · exact Or.inl h
    · simp at ho h2
      refine Or.inr ⟨h1, h2.1, h2.2, ?_⟩
      rcases ho with rfl | rfl
      · exact Or.inl hp
      · exact Or.inr hp

/-- costs are additive over concatenation (sub-block replacement changes a block's size and length
    by exactly the saving of the replaced segment) -/
theorem costs_append (p : Bool) (A B : List Instr) :
    costs p (A ++ B) = ⟨(costs p A).gas + (costs p B).gas, (costs p A).bytes + (costs p B).bytes,
      (costs p A).len + (costs p B).len⟩ := by
  simp [costs, List.map_append, List.sum_append]

end GasolVerif.Cost

/-! ### the tool's warm/cold accounting against the static price -/
namespace GasolVerif.Cost

theorem gasOf_extcodecopy (p0 : Bool) (a : Nat) (o : Bool) : gasOf p0 (.ext "EXTCODECOPY" a o) = 2600 := by
  simp [gasOf]

theorem gasOf_account (p0 : Bool) (n : String) (h : isAccountRead n = true) : gasOf p0 (.env1 n) = 2600 := by
  simp only [isAccountRead, Bool.or_eq_true, beq_iff_eq] at h
  rcases h with (h | h) | h <;> subst h <;> simp [gasOf] <;> decide

/-- one instruction never costs more than its static price, and exactly that when it is not a storage/account access -/
theorem accStep_gas (p0 : Bool) (st : AccSt) (i : Instr) :
    (accStep p0 st i).gas ≤ st.gas + gasOf p0 i ∧ (isAccess i = false → (accStep p0 st i).gas = st.gas + gasOf p0 i) := by
  cases i with
  | sload =>
    simp only [accStep, isAccess, sloadGas, gasOf]
    constructor
    · split <;> omega
    · intro h; cases h
  | sstore =>
    simp only [accStep, isAccess, sstoreGas, gasOf]
    constructor
    · split <;> omega
    · intro h; cases h
  | env1 n =>
    simp only [accStep, isAccess]
    by_cases h : isAccountRead n = true
    · simp only [h, if_true, accountGas, gasOf_account p0 n h]
      constructor
      · split <;> omega
      · intro h'; cases h'
    · simp only [h, Bool.false_eq_true, if_false]
      simp
  | ext n a o =>
    simp only [accStep, isAccess]
    by_cases h : (n == "EXTCODECOPY") = true
    · have hn : n = "EXTCODECOPY" := by simpa using h
      subst hn
      simp only [beq_self_eq_true, if_true, accountGas, gasOf_extcodecopy]
      constructor
      · cases o <;> simp <;> split <;> omega
      · intro h'; cases h'
    · simp only [h, Bool.false_eq_true, if_false]
      cases o <;> simp
  | dup k => simp [accStep, isAccess]
  | swap k =>
    simp only [accStep, isAccess]
    split <;> simp
  | _ => simp [accStep, isAccess]

theorem foldl_acc_gas (p0 : Bool) (B : List Instr) (st : AccSt) :
    (B.foldl (accStep p0) st).gas ≤ st.gas + (B.map (gasOf p0)).sum ∧
    ((∀ i ∈ B, isAccess i = false) → (B.foldl (accStep p0) st).gas = st.gas + (B.map (gasOf p0)).sum) := by
  induction B generalizing st with
  | nil => simp
  | cons i B ih =>
    simp only [List.foldl_cons, List.map_cons, List.sum_cons]
    obtain ⟨h1, h2⟩ := accStep_gas p0 st i
    obtain ⟨g1, g2⟩ := ih (accStep p0 st i)
    constructor
    · omega
    · intro hall
      have hi := h2 (hall i (by simp))
      have hr := g2 (fun j hj => hall j (by simp [hj]))
      omega

/-- **the tool's gas of a block never exceeds the static price** (a warm access is never dearer than a cold one) -/
theorem gasAcc_le_static (p0 : Bool) (B : List Instr) : gasAcc p0 B ≤ (costs p0 B).gas := by
  have := (foldl_acc_gas p0 B {}).1
  simpa [gasAcc, costs] using this

/-- on a block without storage or account accesses the tool's gas is the static price -/
theorem gasAcc_eq_static (p0 : Bool) (B : List Instr) (h : ∀ i ∈ B, isAccess i = false) : gasAcc p0 B = (costs p0 B).gas := by
  have := (foldl_acc_gas p0 B {}).2 h
  simpa [gasAcc, costs] using this

end GasolVerif.Cost
