"""./check <Cxx> [--tier quick|thorough] [--replay file]"""
import argparse, importlib, json, os, re, sys, time, traceback

sys.path.insert(0, os.path.dirname(os.path.abspath(__file__)))
import common


def matches(entry, v):
    m = entry.get("match", {})
    if m.get("kind") and m["kind"] != v.get("kind"):
        return False
    if m.get("input_regex") and not re.search(m["input_regex"], str(v.get("input", ""))):
        return False
    if m.get("what_regex") and not re.search(m["what_regex"], str(v.get("what", ""))):
        return False
    return True


def main():
    ap = argparse.ArgumentParser()
    ap.add_argument("prop")
    ap.add_argument("--tier", default=os.environ.get("VERIF_TIER", "quick"), choices=["quick", "thorough"])
    ap.add_argument("--replay")
    a = ap.parse_args()
    prop = a.prop.upper()
    t0 = time.time()
    try:
        mod = importlib.import_module("props." + prop.lower())
    except ImportError as e:
        print("no check for %s: %s" % (prop, e))
        sys.exit(2)
    try:
        if a.replay:
            sys.exit(mod.replay(json.load(open(a.replay))))
        res = mod.run(a.tier)
    except common.MachineryError as e:
        print("MACHINERY-ERROR: %s" % e)
        sys.exit(2)
    except Exception:
        traceback.print_exc()
        print("MACHINERY-ERROR: unexpected exception in the check")
        sys.exit(2)
    kf = [e for e in common.known_findings().get("open", []) if e.get("property") == prop]
    new, known_hit = [], {}
    for v in res["violations"]:
        hit = next((e for e in kf if matches(e, v)), None)
        if hit is not None:
            known_hit.setdefault(hit["id"], (hit, 0))
            known_hit[hit["id"]] = (hit, known_hit[hit["id"]][1] + 1)
        else:
            new.append(v)
    for hid, (hit, n) in sorted(known_hit.items()):
        print("KNOWN-FINDING: property=%s %s (%s; reproduced %d times in this run)" % (prop, hit["what"], hid, n))
    # one VIOLATION line per distinct signature
    seen = set()
    nviol = 0
    per_kind = {}
    for v in new:
        sig = (v.get("kind"), v.get("what"))
        if sig in seen:
            continue
        seen.add(sig)
        nviol += 1
        per_kind[v.get("kind")] = per_kind.get(v.get("kind"), 0) + 1
        if per_kind[v.get("kind")] > 4:
            continue                  # at most four replays per kind of failure; the count is in the summary
        path = common.write_replay(prop, v)
        tail = " no-failing-input-found" if v.get("no_failing_input") else ""
        print("VIOLATION property=%s replay=%s%s" % (prop, path, tail))
        print("   %s: %s" % (v.get("kind"), str(v.get("what"))[:300]))
    for k, n in per_kind.items():
        if n > 4:
            print("   ... %d more distinct failures of kind %s" % (n - 4, k))
    cov = res["coverage"]
    cov.setdefault("known_findings_reproduced", {k: n for k, (h, n) in known_hit.items()})
    if not os.environ.get("GV_NO_EVIDENCE"):      # set when a check is run against a seeded scratch tree (GASOL_REPO): evidence is about /repo only
        common.write_evidence(prop, a.tier, res["level"], cov, time.time() - t0, nviol, res.get("assumptions", []))
    print("%s %s: %s in %.1fs" % (prop, a.tier, "OK" if nviol == 0 else "%d violation(s)" % nviol, time.time() - t0))
    sys.exit(1 if nviol else 0)


main()
