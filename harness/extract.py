"""(G) Translator: regenerates lean/GasolVerif/Generated/*.lean from /repo sources with `ast`.
Globals.lean: for sfs_generator/gasol_optimization.py and ir_block.py, the module-level state, which names are
(re)initialised at the entry of a block (init_globals and the prologue of smt_translate_block) and which are
read by the block pipeline."""
import ast, os, sys, warnings

REPO = os.environ.get("GASOL_REPO", "/repo")
ROOT = os.path.dirname(os.path.dirname(os.path.abspath(__file__)))


def module_info(path, entry_funcs, reset_funcs):
    src = open(path).read()
    import warnings
    with warnings.catch_warnings():
        warnings.simplefilter("ignore", SyntaxWarning)   # the repo's own regex literals
        tree = ast.parse(src)
    module_globals = set()
    for node in tree.body:
        if isinstance(node, (ast.Assign, ast.AnnAssign, ast.AugAssign)):
            targets = node.targets if isinstance(node, ast.Assign) else [node.target]
            for t in targets:
                for n in ast.walk(t):
                    if isinstance(n, ast.Name):
                        module_globals.add(n.id)
        elif isinstance(node, ast.Global):
            module_globals.update(node.names)
    funcs = {n.name: n for n in tree.body if isinstance(n, ast.FunctionDef)}
    for f in funcs.values():
        for n in ast.walk(f):
            if isinstance(n, ast.Global):
                module_globals.update(n.names)
    module_globals -= set(funcs)
    info = {}
    for name, f in funcs.items():
        declared = set()
        for n in ast.walk(f):
            if isinstance(n, ast.Global):
                declared.update(n.names)
        local = {a.arg for a in f.args.args + f.args.kwonlyargs}
        if f.args.vararg:
            local.add(f.args.vararg.arg)
        if f.args.kwarg:
            local.add(f.args.kwarg.arg)
        writes, reads, calls, mutates = set(), set(), set(), set()
        for n in ast.walk(f):
            if isinstance(n, ast.Name):
                if isinstance(n.ctx, ast.Store):
                    if n.id in declared:
                        writes.add(n.id)
                    else:
                        local.add(n.id)
            if isinstance(n, ast.Call) and isinstance(n.func, ast.Name):
                calls.add(n.func.id)
        for n in ast.walk(f):
            if isinstance(n, ast.Name) and isinstance(n.ctx, ast.Load) and n.id in module_globals and (n.id in declared or n.id not in local):
                reads.add(n.id)
        # in-place mutation of a module global: subscript/attribute stores, augmented assignment, mutating methods, del
        MUT = {"append", "extend", "update", "pop", "add", "remove", "clear", "insert", "setdefault", "sort", "discard", "popitem", "reverse"}
        for n in ast.walk(f):
            tgt = None
            if isinstance(n, (ast.Subscript, ast.Attribute)) and isinstance(n.ctx, (ast.Store, ast.Del)):
                tgt = n.value
            elif isinstance(n, ast.AugAssign):
                tgt = n.target
            elif isinstance(n, ast.Call) and isinstance(n.func, ast.Attribute) and n.func.attr in MUT:
                tgt = n.func.value
            while isinstance(tgt, (ast.Subscript, ast.Attribute)):
                tgt = tgt.value
            if isinstance(tgt, ast.Name) and tgt.id in module_globals and (tgt.id in declared or tgt.id not in local):
                mutates.add(tgt.id)
        # names assigned (as globals) by the leading simple statements of the function, before any call that could read them
        info[name] = {"writes": writes, "reads": reads, "calls": calls & set(funcs), "mutates": mutates}
    # reachability from the entry points
    seen, todo = set(), [e for e in entry_funcs if e in info]
    while todo:
        x = todo.pop()
        if x in seen:
            continue
        seen.add(x)
        todo += list(info[x]["calls"])
    reads = set()
    for x in seen:
        reads |= info[x]["reads"]
    resets = set()
    for r in reset_funcs:
        if r in info:
            resets |= info[r]["writes"]
    written = set()
    for x in info.values():
        written |= x["writes"] | x["mutates"]
    consts = module_globals - written
    return sorted(module_globals), sorted(reads & module_globals), sorted(resets), len(funcs), len(seen), sorted(consts)


MUTCTOR = ("set", "list", "dict", "defaultdict", "OrderedDict", "Counter", "deque")
MUTMETH = {"append", "extend", "update", "pop", "add", "remove", "clear", "insert", "setdefault", "sort", "discard", "popitem", "reverse",
           "difference_update", "intersection_update", "symmetric_difference_update", "appendleft", "extendleft"}


def _mutable_ctor(v):
    if isinstance(v, (ast.List, ast.Dict, ast.Set, ast.ListComp, ast.DictComp, ast.SetComp)):
        return True
    return isinstance(v, ast.Call) and isinstance(v.func, ast.Name) and v.func.id in MUTCTOR


def _mutation_targets(f):
    """expressions mutated in place inside function `f` (subscript/attribute stores, augmented assignment, mutating methods, del)"""
    for n in ast.walk(f):
        if isinstance(n, (ast.Subscript, ast.Attribute)) and isinstance(n.ctx, (ast.Store, ast.Del)):
            yield n.value
        elif isinstance(n, ast.AugAssign):
            yield n.target
        elif isinstance(n, ast.Call) and isinstance(n.func, ast.Attribute) and n.func.attr in MUTMETH:
            yield n.func.value


def shared_state():
    """state that outlives an object or a call, over the whole pipeline (not only module globals):
    (a) class-level attributes bound to a mutable container: [name, rebound per instance in __init__, mutated in place through self/cls/Class];
    (b) parameters with a mutable default value: [name, mutated in place in the function]"""
    import warnings
    cls_rows, def_rows = [], []
    files = []
    for d, _, fs in os.walk(REPO):
        if any(x in d for x in ("/tests", "/.git", "/examples", "/scripts", "/bin")):
            continue
        files += [os.path.join(d, f) for f in fs if f.endswith(".py")]
    for path in sorted(files):
        with warnings.catch_warnings():
            warnings.simplefilter("ignore", SyntaxWarning)
            try:
                tree = ast.parse(open(path).read())
            except SyntaxError:
                continue
        rel = os.path.relpath(path, REPO)
        for cls in [n for n in ast.walk(tree) if isinstance(n, ast.ClassDef)]:
            cattrs = []
            for n in cls.body:
                if isinstance(n, (ast.Assign, ast.AnnAssign)) and n.value is not None and _mutable_ctor(n.value):
                    cattrs += [t.id for t in (n.targets if isinstance(n, ast.Assign) else [n.target]) if isinstance(t, ast.Name)]
            if not cattrs:
                continue
            rebound, mutated = set(), set()
            for f in [n for n in ast.walk(cls) if isinstance(n, ast.FunctionDef)]:
                if f.name == "__init__":
                    for n in ast.walk(f):
                        if isinstance(n, (ast.Assign, ast.AnnAssign)):
                            for t in (n.targets if isinstance(n, ast.Assign) else [n.target]):
                                if isinstance(t, ast.Attribute) and isinstance(t.value, ast.Name) and t.value.id == "self":
                                    rebound.add(t.attr)
                for tgt in _mutation_targets(f):
                    chain = []
                    while isinstance(tgt, (ast.Attribute, ast.Subscript)):
                        if isinstance(tgt, ast.Attribute):
                            chain.append(tgt.attr)
                        tgt = tgt.value
                    if isinstance(tgt, ast.Name) and chain and tgt.id in ("self", "cls", cls.name) and chain[-1] in cattrs:
                        mutated.add(chain[-1])
            for a in cattrs:
                cls_rows.append(("%s:%s.%s" % (rel, cls.name, a), a in rebound, a in mutated))
        for f in [n for n in ast.walk(tree) if isinstance(n, ast.FunctionDef)]:
            pos = f.args.posonlyargs + f.args.args
            pairs = list(zip(pos[len(pos) - len(f.args.defaults):], f.args.defaults)) + \
                [(a, d) for a, d in zip(f.args.kwonlyargs, f.args.kw_defaults) if d is not None]
            for a, dv in pairs:
                if _mutable_ctor(dv):
                    mut = False
                    for tgt in _mutation_targets(f):
                        while isinstance(tgt, (ast.Subscript, ast.Attribute)):
                            tgt = tgt.value
                        if isinstance(tgt, ast.Name) and tgt.id == a.arg:
                            mut = True
                    def_rows.append(("%s:%s.%s" % (rel, f.name, a.arg), mut))
    return cls_rows, def_rows


SETMETH = {"difference", "union", "intersection", "symmetric_difference"}
INSENS = {"sorted", "set", "frozenset", "len", "sum", "min", "max", "any", "all"}

def _scan_set_iteration(path, rel):
    with warnings.catch_warnings():
        warnings.simplefilter("ignore")
        try: tree = ast.parse(open(path).read())
        except SyntaxError: return []
    parents = {}
    for n in ast.walk(tree):
        for c in ast.iter_child_nodes(n):
            parents[c] = n
    out = []
    # class attributes that hold sets
    set_attrs = set()
    def is_set_expr(e, names):
        if isinstance(e, (ast.Set, ast.SetComp)): return True
        if isinstance(e, ast.Call):
            if isinstance(e.func, ast.Name) and e.func.id in ("set", "frozenset"): return True
            if isinstance(e.func, ast.Attribute) and e.func.attr in SETMETH: return True
            if isinstance(e.func, ast.Attribute) and e.func.attr == "copy" and is_set_expr(e.func.value, names): return True
        if isinstance(e, ast.BinOp) and isinstance(e.op, (ast.Sub, ast.BitOr, ast.BitAnd, ast.BitXor)):
            return is_set_expr(e.left, names) or is_set_expr(e.right, names)
        if isinstance(e, ast.Name): return e.id in names
        if isinstance(e, ast.Attribute) and isinstance(e.value, ast.Name) and e.value.id == "self": return e.attr in set_attrs
        if isinstance(e, ast.IfExp): return is_set_expr(e.body, names) or is_set_expr(e.orelse, names)
        return False
    # fixpoint for self attributes
    for _ in range(3):
        for n in ast.walk(tree):
            if isinstance(n, (ast.Assign, ast.AnnAssign)) and n.value is not None:
                for t in (n.targets if isinstance(n, ast.Assign) else [n.target]):
                    if isinstance(t, ast.Attribute) and isinstance(t.value, ast.Name) and t.value.id == "self" and is_set_expr(n.value, set()):
                        set_attrs.add(t.attr)
    funcs = [n for n in ast.walk(tree) if isinstance(n, (ast.FunctionDef, ast.Lambda))] + [tree]
    seen = set()
    for f in funcs:
        names = set()
        body_nodes = list(ast.walk(f))
        for _ in range(3):
            for n in body_nodes:
                if isinstance(n, (ast.Assign, ast.AnnAssign)) and n.value is not None and is_set_expr(n.value, names):
                    for t in (n.targets if isinstance(n, ast.Assign) else [n.target]):
                        if isinstance(t, ast.Name): names.add(t.id)
                # parameters annotated Set[...]
            if isinstance(f, ast.FunctionDef):
                for a in f.args.args:
                    if a.annotation is not None and "Set" in ast.unparse(a.annotation): names.add(a.arg)
        def insensitive_ctx(node):
            # node is the iteration expression or a comprehension; climb: directly an argument of an insensitive call?
            p = parents.get(node)
            while isinstance(p, (ast.GeneratorExp, ast.ListComp, ast.comprehension, ast.Starred)):
                node, p = p, parents.get(p)
            if isinstance(p, ast.Call) and isinstance(p.func, ast.Name) and p.func.id in INSENS and node in p.args:
                # a sort / minimum / maximum by a key resolves ties by the order it is given
                return not any(k.arg == "key" for k in p.keywords)
            if isinstance(p, ast.Compare) and any(isinstance(o, (ast.In, ast.NotIn)) for o in p.ops): return True
            return False
        for n in body_nodes:
            site = None
            if isinstance(n, ast.For) and is_set_expr(n.iter, names): site = ("for", n.iter, n)
            elif isinstance(n, ast.comprehension) and is_set_expr(n.iter, names):
                comp = parents.get(n)
                if isinstance(comp, ast.SetComp): continue
                site = ("comprehension", n.iter, comp)
            elif isinstance(n, ast.Call) and isinstance(n.func, ast.Name) and n.func.id in ("list", "tuple", "enumerate", "zip", "map", "filter", "iter", "next") and n.args and is_set_expr(n.args[-1] if n.func.id in ("map","filter") else n.args[0], names):
                site = (n.func.id, n.args[0], n)
            elif isinstance(n, ast.Call) and isinstance(n.func, ast.Name) and n.func.id in ("sorted", "min", "max") and n.args and is_set_expr(n.args[0], names) \
                    and any(k.arg == "key" for k in n.keywords):
                site = (n.func.id + "-by-key", n.args[0], n)
            elif isinstance(n, ast.Call) and isinstance(n.func, ast.Attribute) and n.func.attr == "join" and n.args and is_set_expr(n.args[0], names):
                site = ("join", n.args[0], n)
            elif isinstance(n, ast.Call) and isinstance(n.func, ast.Attribute) and n.func.attr == "pop" and not n.args and is_set_expr(n.func.value, names):
                site = ("pop", n.func.value, n)
            if site is None: continue
            kind, it, node = site
            key = (getattr(node, "lineno", getattr(it, "lineno", 0)), kind)
            if key in seen: continue
            seen.add(key)
            ins = insensitive_ctx(node if kind != "for" else it) if kind != "for" else False
            fname = getattr(f, "name", "<module>")
            out.append((rel, fname, kind, ast.unparse(it)[:60], ins, getattr(it, "lineno", 0)))
    return out



def iteration_sites():
    """places where the elements of a set are visited in the set's own order (for loops, comprehensions that do not build a set,
    list()/tuple()/enumerate()/zip()/map()/filter()/iter()/next()/join() over a set, set.pop()): [site, the consumer is insensitive to
    the order (sorted/set/len/sum/min/max/any/all/membership)].  A site is file:function:kind:expression (no line numbers)."""
    rows = []
    for d, _, fs in os.walk(REPO):
        if any(x in d for x in ("/tests", "/.git", "/examples", "/scripts", "/bin")):
            continue
        for f in fs:
            if f.endswith(".py"):
                path = os.path.join(d, f)
                for rel, fname, kind, expr, ins, _line in _scan_set_iteration(path, os.path.relpath(path, REPO)):
                    rows.append(("%s:%s:%s:%s" % (rel, fname, kind, expr.replace('"', "'").replace("\\", "/")), ins))
    return sorted(set(rows))


ENV_WATCH = {("time", "time"), ("time", "perf_counter"), ("time", "process_time"), ("time", "monotonic"), ("signal", "alarm"), ("signal", "setitimer"),
             ("signal", "signal"), ("os", "getpid"), ("os", "listdir"), ("os", "scandir"), ("os", "urandom"), ("glob", "glob"), ("uuid", "uuid1"), ("uuid", "uuid4"),
             ("random", "random"), ("random", "choice"), ("random", "shuffle"), ("random", "randint"), ("random", "seed"), ("datetime", "now"),
             ("tempfile", "mkdtemp"), ("tempfile", "mkstemp"), ("tempfile", "gettempdir"), ("resource", "getrusage"), ("threading", "Timer")}


def env_sources():
    """calls through which the clock, the load of the machine, the process or the file system can reach a result: file:function:call"""
    rows = set()
    for d, _, fs in os.walk(REPO):
        if any(x in d for x in ("/tests", "/.git", "/examples", "/scripts", "/bin")):
            continue
        for f in fs:
            if not f.endswith(".py"):
                continue
            path = os.path.join(d, f)
            rel = os.path.relpath(path, REPO)
            with warnings.catch_warnings():
                warnings.simplefilter("ignore")
                try:
                    tree = ast.parse(open(path).read())
                except SyntaxError:
                    continue
            funcs = [n for n in ast.walk(tree) if isinstance(n, ast.FunctionDef)]

            def owner(node):
                best = "<module>"
                for fn in funcs:
                    if fn.lineno <= node.lineno <= getattr(fn, "end_lineno", fn.lineno):
                        best = fn.name
                return best
            for n in ast.walk(tree):
                if isinstance(n, ast.Call):
                    fn = n.func
                    if isinstance(fn, ast.Attribute) and isinstance(fn.value, ast.Name) and (fn.value.id, fn.attr) in ENV_WATCH:
                        rows.add("%s:%s:%s.%s" % (rel, owner(n), fn.value.id, fn.attr))
                    elif isinstance(fn, ast.Name) and fn.id in ("id", "hash"):
                        rows.add("%s:%s:%s()" % (rel, owner(n), fn.id))
    return sorted(rows)


def rule_names():
    """the names the front end gives its simplification rules: string values assigned to `rule` in apply_transform and to `msg` in
    apply_cond_transformation (f-strings and concatenations keep their holes as {name})"""
    path = os.path.join(REPO, "sfs_generator", "gasol_optimization.py")
    with warnings.catch_warnings():
        warnings.simplefilter("ignore", SyntaxWarning)
        tree = ast.parse(open(path).read())

    def norm(v):
        if isinstance(v, ast.Constant) and isinstance(v.value, str):
            return v.value
        if isinstance(v, ast.JoinedStr):
            return "".join(p.value if isinstance(p, ast.Constant) else "{" + ast.unparse(p.value) + "}" for p in v.values)
        if isinstance(v, ast.BinOp) and isinstance(v.op, ast.Add):
            return norm(v.left) + norm(v.right)
        if isinstance(v, ast.Call) and isinstance(v.func, ast.Name) and v.func.id == "str":
            return "{" + ast.unparse(v.args[0]) + "}"
        if isinstance(v, ast.Name):
            return "{" + v.id + "}"
        return "{?}"
    names = set()
    for f in tree.body:
        if isinstance(f, ast.FunctionDef) and f.name in ("apply_transform", "apply_cond_transformation"):
            var = "rule" if f.name == "apply_transform" else "msg"
            for n in ast.walk(f):
                if isinstance(n, ast.Assign) and len(n.targets) == 1 and isinstance(n.targets[0], ast.Name) and n.targets[0].id == var:
                    names.add(norm(n.value).replace('"', "'"))
    return sorted(names)


def lean_list(xs):
    return "[" + ", ".join('"%s"' % x for x in xs) + "]"


def generate():
    out = ["/-", "  GENERATED by harness/extract.py from /repo sources on every run. Do not edit.", "-/", "namespace GasolVerif.Generated", ""]
    specs = [("gasolOptimization", "sfs_generator/gasol_optimization.py", ["smt_translate_block"], ["init_globals", "smt_translate_block"]),
             ("irBlock", "sfs_generator/ir_block.py", ["evm2rbr_compiler", "get_subblocks"], ["init_globals"])]
    summary = {}
    for lname, rel, entries, resets in specs:
        g, r, z, nf, nr, k = module_info(os.path.join(REPO, rel), entries, resets)
        summary[lname] = {"globals": len(g), "read": len(r), "reset": len(z), "functions": nf, "reachable": nr}
        out.append("def %sGlobals : List String := %s" % (lname, lean_list(g)))
        out.append("def %sRead : List String := %s" % (lname, lean_list(r)))
        out.append("def %sReset : List String := %s" % (lname, lean_list(z)))
        out.append("def %sConst : List String := %s" % (lname, lean_list(k)))
        out.append("")
    cls_rows, def_rows = shared_state()
    b = lambda x: "true" if x else "false"
    out.append("/-- class-level attributes bound to a mutable container: (file:Class.attr, rebound per instance in __init__, mutated in place) -/")
    out.append("def classShared : List (String × Bool × Bool) := [" + ", ".join('("%s", %s, %s)' % (n, b(r), b(m)) for n, r, m in cls_rows) + "]")
    out.append("/-- parameters whose default value is a mutable container: (file:function.parameter, mutated in place in the function) -/")
    out.append("def mutableDefaults : List (String × Bool) := [" + ", ".join('("%s", %s)' % (n, b(m)) for n, m in def_rows) + "]")
    out.append("")
    summary["shared"] = {"class_attributes": len(cls_rows), "mutable_defaults": len(def_rows)}
    sites = iteration_sites()
    out.append("/-- places where a set is visited in its own order: (file:function:kind:expression, consumer insensitive to the order) -/")
    out.append("def setIterationSites : List (String × Bool) := [" + ", ".join('("%s", %s)' % (n, b(i)) for n, i in sites) + "]")
    out.append("")
    summary["set_iteration_sites"] = len(sites)
    envs = env_sources()
    out.append("/-- calls through which clock, load, process identity or directory order can reach a result: file:function:call -/")
    out.append("def envSources : List String := " + lean_list(envs))
    out.append("")
    summary["env_sources"] = len(envs)
    rn = rule_names()
    out.append("/-- the names the front end gives its simplification rules (apply_transform, apply_cond_transformation) -/")
    out.append("def ruleNames : List String := " + lean_list(rn))
    out.append("")
    summary["rule_names"] = len(rn)
    out.append("end GasolVerif.Generated")
    path = os.path.join(ROOT, "lean", "GasolVerif", "Generated", "Globals.lean")
    os.makedirs(os.path.dirname(path), exist_ok=True)
    text = "\n".join(out) + "\n"
    old = open(path).read() if os.path.exists(path) else None
    if old != text:
        open(path, "w").write(text)
    return summary


if __name__ == "__main__":
    print(generate())
