import GasolVerif.Proofs.EncodingSoftSound
namespace GasolVerif.Enc
open GasolVerif.Formula

/-! non-vacuity: a small instance (block `SWAP1 POP`: src [a, b], tgt [a]) meets the executable premises -/
def exI : Inst :=
  { bs := 2, b0 := 2, intLimit := 256, thetaUF := false,
    instrs := [⟨0, "NOP", .nop, 0, 1⟩, ⟨1, "POP", .pop, 0, 1⟩, ⟨2, "SWAP1", .swap 1, 0, 1⟩, ⟨3, "DUP1", .dup 1, 0, 1⟩],
    src := [.var "a", .var "b"], tgt := [.var "a"], terminal := false,
    term := [("a", .num 0), ("b", .num 1)] }

example : instOk exI = true ∧ orderOk exI = true ∧ thetasOk exI = true ∧ svsOk exI = true ∧ intTermsOk exI = true := by
  decide +kernel
example : (coreRaw exI).isSome = true ∧ ((coreRaw exI).getD []).all F.ws = true ∧ (coreBuilt exI).isSome = true := by
  decide +kernel

end GasolVerif.Enc
