"""C04 — the greedy back end returns a sequence that realizes the specification."""
import random
from collections import Counter
import common, drv
from props import c02

THEOREMS = ["equiv_norm3_sound", "symExec_conc"]


def run(tier):
    sd = common.seed()
    rng = random.Random(sd * 1237 + 17)
    po = common.proof_obligations("GasolVerif.Proofs.NormSound", THEOREMS)
    violations = [{"kind": "broken-proof-obligation", "what": b, "no_failing_input": True, "input": b} for b in po["broken"]]
    import gen
    extra = gen.stack_corpus() + gen.deep_operand_corpus() + gen.deep_same_operand_corpus() + gen.cross_region_corpus() + gen.deep_stack_blocks(sd * 19 + 1, 120 if tier == 'quick' else 1500) + gen.blocks(sd * 17 + 3, 150 if tier == 'quick' else 2000, profiles=('stack',))
    res = c02.collect(tier, sd + 1000, rng, greedy=True, extra=extra)
    c = Counter()
    reqs, meta = [], []
    for t, r, st in res:
        if st != "ok" or r is None or "harness_error" in (r or {}) or "parse_exception" in (r or {}):
            c["run:" + st] += 1
            if st == "timeout":
                violations.append({"kind": "greedy-does-not-terminate", "input": t["text"], "what": "greedy/spec generation timed out on " + t["text"]})
            continue
        for e in r["subs"]:
            c["specs"] += 1
            g = e.get("greedy")
            if "unsupported" in e or g is None:
                c["skipped"] += 1
                continue
            if "exception" in g:
                c["greedy-exception"] += 1
                violations.append({"kind": "greedy-raises", "input": " ".join(e["plain"]), "options": t["opts"],
                                   "what": "greedy_from_json raised %s on the specification of %s" % (g["exception"], " ".join(e["plain"]))})
                continue
            if g["error"] != 0 or g["ids"] is None:
                c["greedy-reports-failure"] += 1
                continue
            c["greedy-success"] += 1
            reqs.append("REALIZES\t%s\t%s" % ("\t".join(e["spec"]), ",".join(g["ids"])))
            meta.append((t, e, g))
    outs = drv.batch(reqs)
    samples = []
    deep = 0
    for o, (t, e, g) in zip(outs, meta):
        if o.startswith("ok"):
            c["realizes"] += 1
            if int(o[3:]) > 16:
                deep += 1
            if len(samples) < 4 and len(g["ids"]) > 4:
                samples.append({"block": " ".join(e["plain"]), "ids": g["ids"], "peak_stack": int(o[3:])})
        elif o.startswith("no:"):
            violations.append({"kind": "greedy-sequence-does-not-realize", "input": " ".join(e["plain"]), "options": t["opts"],
                               "what": "greedy reports success on %s with %s, but: %s" % (" ".join(e["plain"]), g["ids"], o[3:]),
                               "spec": e["spec"], "ids": g["ids"]})
        else:
            raise common.MachineryError("driver: %s" % o)
    c["sequences-with-stack-deeper-than-16"] = deep
    cov = {"programs": c["greedy-success"], "disagreements_checked": len([o for o in outs if o.startswith("no:")]),
           "evaluations": c["specs"], "distinct_nontrivial": c["greedy-success"],
           "obligations": po["obligations"], "discharged": po["discharged"],
           "rule": "specifications from the real front end (generated blocks incl. memory corpus, all split modes, rules on/off); every "
                   "sequence greedy_from_json returns with error == 0 is run through Spec.realizes (the executable statement of C04: no "
                   "underflow, DUP/SWAP 1..16, stores once, dependences, named operands, final stack)",
           "samples": samples or [{"n": 0}], "counters": dict(c),
           "checker_cmd": "gvdrv REALIZES (lean/GasolVerif/Models/Spec.lean realizes)",
           "trusted_base": ["Spec.realizes is the formal statement of the property, executed by the compiled driver", "spec serialisation in harness/tasks.py"]}
    return {"level": "translation_validation", "coverage": cov, "violations": violations,
            "assumptions": ["the greedy algorithm itself is not modelled: every output on every explored specification is checked",
                            "hand-built specifications outside the front end's image are not generated yet"]}


def replay(v):
    import drv as d
    print(v.get("what"))
    if "spec" in v:
        print(d.batch(["REALIZES\t%s\t%s" % ("\t".join(v["spec"]), ",".join(v["ids"]))])[0])
    return 1
