/-
  (M) C15: the plain-text reader of `sfs_generator/parser_asm.py`
  (`plain_instructions_to_asm_representation`) and the printers `AsmBytecode.to_plain` /
  `to_plain_with_byte_number`, as functions over tokens (lists of characters).  Splitting a text into tokens
  at white space is glue (done by the driver, validated by the correspondence run).   No Mathlib.
-/
namespace GasolVerif.Plain

abbrev Tok := List Char

/-- `s.find(p) != -1` -/
def hasSub (p : Tok) : Tok → Bool
  | [] => p.isEmpty
  | c :: cs => p.isPrefixOf (c :: cs) || hasSub p cs

def hexDigit? (c : Char) : Option Nat :=
  if '0' ≤ c ∧ c ≤ '9' then some (c.toNat - 48)
  else if 'a' ≤ c ∧ c ≤ 'f' then some (c.toNat - 87)
  else if 'A' ≤ c ∧ c ≤ 'F' then some (c.toNat - 55)
  else none

def decDigit? (c : Char) : Option Nat :=
  if '0' ≤ c ∧ c ≤ '9' then some (c.toNat - 48) else none

/-- value of a digit string in base `b`, most significant digit first (`none`: a character that is not a digit) -/
def digitsVal (dig : Char → Option Nat) (b : Nat) : Tok → Nat → Option Nat
  | [], acc => some acc
  | c :: cs, acc =>
    match dig c with
    | some d => digitsVal dig b cs (acc * b + d)
    | none => none

def strip0x (s : Tok) : Tok :=
  match s with
  | '0' :: 'x' :: r => r
  | '0' :: 'X' :: r => r
  | _ => s

/-- Python `int(s, 16)` on the spellings the model accepts: optional `0x`, then at least one hex digit
    (signs, underscores and surrounding blanks, which Python also accepts, are outside the model) -/
def hexVal? (s : Tok) : Option Nat :=
  let r := strip0x s
  if r.isEmpty then none else digitsVal hexDigit? 16 r 0

/-- Python `int(s)`: at least one decimal digit -/
def decVal? (s : Tok) : Option Nat :=
  if s.isEmpty then none else digitsVal decDigit? 10 s 0

/-- Python `hex(n)[2:]` -/
def hexStr (n : Nat) : Tok := Nat.toDigits 16 n
def decStr (n : Nat) : Tok := Nat.toDigits 10 n

inductive Val
  | none
  | str (s : Tok)
  | idx (n : Nat)      -- PUSHLIB: position of the library in order of first appearance
  deriving DecidableEq, Repr, Inhabited

structure Op where
  name : Tok
  value : Val
  deriving DecidableEq, Repr, Inhabited

def sPUSH : Tok := ['P', 'U', 'S', 'H']
def sPUSH0 : Tok := ['P', 'U', 'S', 'H', '0']
def sPUSHLIB : Tok := ['P', 'U', 'S', 'H', 'L', 'I', 'B']
def sTag : Tok := ['t', 'a', 'g']
def sAssign : Tok := ['A', 'S', 'S', 'I', 'G', 'N', 'I', 'M', 'M', 'U', 'T', 'A', 'B', 'L', 'E']
def sDeploy : Tok := ['D', 'E', 'P', 'L', 'O', 'Y', 'A', 'D', 'D', 'R', 'E', 'S', 'S']
def sSize : Tok := ['S', 'I', 'Z', 'E']
def sJump : Tok := ['J', 'U', 'M', 'P']
def sData : Tok := ['d', 'a', 't', 'a']

def tagLike (op : Tok) : Bool := sAssign.isPrefixOf op || sTag.isPrefixOf op
def isPush (op : Tok) : Bool := sPUSH.isPrefixOf op
/-- `re.fullmatch("PUSH([0-9]+)", op)` -/
def isPushN (op : Tok) : Bool :=
  sPUSH.isPrefixOf op && !(op.drop 4).isEmpty && (op.drop 4).all fun c => decide ('0' ≤ c ∧ c ≤ '9')
def isYul (k : Tok) : Bool := hasSub sTag k || k.contains '#' || k.contains '$' || hasSub sData k

/-- library table: value ↦ index in order of first appearance -/
def libIndex (tbl : List Tok) (v : Tok) : Nat × List Tok :=
  match tbl.idxOf? v with
  | some i => (i, tbl)
  | none => (tbl.length, tbl ++ [v])

/-- the reader; `none` = the Python function raises (missing operand, operand that is not a number) -/
def parseOps : Nat → List Tok → List Tok → Option (List Op)
  | _, [], _ => some []
  | 0, _ :: _, _ => none
  | fuel + 1, op :: rest, tbl =>
    if tagLike op then
      match rest with
      | v :: r => (parseOps fuel r tbl).map (⟨op, .str v⟩ :: ·)
      | [] => none
    else if sPUSHLIB.isPrefixOf op then
      match rest with
      | v :: r =>
        let (i, tbl') := libIndex tbl v
        (parseOps fuel r tbl').map (⟨op, .idx i⟩ :: ·)
      | [] => none
    else if !isPush op then (parseOps fuel rest tbl).map (⟨op, .none⟩ :: ·)
    else if hasSub sDeploy op then (parseOps fuel rest tbl).map (⟨op, .none⟩ :: ·)
    else if hasSub sSize op then (parseOps fuel rest tbl).map (⟨op, .none⟩ :: ·)
    else if sPUSH0.isPrefixOf op then (parseOps fuel rest tbl).map (⟨sPUSH, .str ['0']⟩ :: ·)
    else if isPushN op then
      match rest with
      | v :: r =>
        let rep : Option Tok :=
          if ['0', 'x'].isPrefixOf v then (hexVal? v).map hexStr else (decVal? v).map hexStr
        rep.bind fun x => (parseOps fuel r tbl).map (⟨sPUSH, .str x⟩ :: ·)
      | [] => none
    else
      match rest with
      | [] => none
      | k :: r =>
        if !isYul k then
          (hexVal? k).bind fun n => (parseOps fuel r tbl).map (⟨op, .str (hexStr n)⟩ :: ·)
        else
          match r with
          | v :: r' =>
            (hexVal? v).bind fun n => (parseOps fuel r' tbl).map (⟨op ++ ' ' :: k, .str (hexStr n)⟩ :: ·)
          | [] => none

def parse (toks : List Tok) : Option (List Op) := parseOps toks.length toks []

/-- an assembly item as the printers see it: mnemonic (possibly `PUSH [tag]`, with a blank), value -/
structure Item where
  disasm : Tok
  value : Option Tok
  deriving DecidableEq, Repr, Inhabited

/-- split at blanks (a mnemonic such as `PUSH [tag]` is printed as two tokens) -/
def splitBlank : Tok → List Tok
  | [] => [[]]
  | c :: cs =>
    if c = ' ' then [] :: splitBlank cs
    else match splitBlank cs with
      | h :: t => (c :: h) :: t
      | [] => [[c]]

/-- `AsmBytecode.to_plain`, split into tokens -/
def toPlain (push0 : Bool) (i : Item) : List Tok :=
  if push0 && i.disasm == sPUSH && i.value == some ['0'] then [sPUSH0]
  else
    match i.value with
    | some v => if hasSub sJump i.disasm then [i.disasm] else splitBlank i.disasm ++ [v]
    | none => [i.disasm]

def allHex (s : Tok) : Bool := s.all fun c => (hexDigit? c).isSome
def allDec (s : Tok) : Bool := s.all fun c => (decDigit? c).isSome

def upperHex (c : Char) : Char := if 'a' ≤ c ∧ c ≤ 'f' then Char.ofNat (c.toNat - 32) else c

/-- `'%X' % n` -/
def hexStrU (n : Nat) : Tok := (hexStr n).map upperHex

/-- a numbered mnemonic `PUSHk` (k ≥ 1 written without a leading zero) -/
def mnemOk (m : Tok) : Bool := isPushN m && !sPUSH0.isPrefixOf m

/-- the ways a constant `c` may be written in the plain-text format -/
inductive Spelling (c : Nat) : List Tok → Prop
  | hex (k : Nat) : Spelling c [sPUSH, List.replicate k '0' ++ hexStr c]
  | hexUpper (k : Nat) : Spelling c [sPUSH, List.replicate k '0' ++ hexStrU c]
  | hex0x (k : Nat) : Spelling c [sPUSH, '0' :: 'x' :: (List.replicate k '0' ++ hexStr c)]
  | pushN0x (m : Tok) (hm : mnemOk m = true) (k : Nat) : Spelling c [m, '0' :: 'x' :: (List.replicate k '0' ++ hexStr c)]
  | pushN0xUpper (m : Tok) (hm : mnemOk m = true) (k : Nat) : Spelling c [m, '0' :: 'x' :: (List.replicate k '0' ++ hexStrU c)]
  | pushNdec (m : Tok) (hm : mnemOk m = true) (k : Nat) : Spelling c [m, List.replicate k '0' ++ decStr c]

def noBlank (t : Tok) : Bool := !t.contains ' '

def joinBlank : List Tok → Tok
  | [] => []
  | [a] => a
  | a :: b :: r => a ++ ' ' :: joinBlank (b :: r)

/-- the classes of assembly items the round-trip theorem covers (library pushes, whose value is an index assigned
    in order of appearance, and `JUMP` items that carry a value are outside it) -/
inductive Cls | bare | zero | num | kw | tagged
  deriving DecidableEq, Repr

def simple (d : Tok) : Bool := noBlank d && !d.isEmpty

def classOf (i : Item) : Option Cls :=
  match i.value with
  | none =>
    if i.disasm == sPUSH0 then some .zero
    else if simple i.disasm && !tagLike i.disasm && !sPUSHLIB.isPrefixOf i.disasm &&
        (!isPush i.disasm || hasSub sDeploy i.disasm || hasSub sSize i.disasm) then some .bare
    else none
  | some v =>
    if hasSub sJump i.disasm then none
    else if tagLike i.disasm then (if simple i.disasm && simple v then some .tagged else none)
    else if !(allHex v && !v.isEmpty) then none
    else if simple i.disasm && isPush i.disasm && !sPUSHLIB.isPrefixOf i.disasm && !hasSub sDeploy i.disasm &&
        !hasSub sSize i.disasm && !sPUSH0.isPrefixOf i.disasm && !isPushN i.disasm then some .num
    else
      match splitBlank i.disasm with
      | [p, k] => if p == sPUSH && simple k && isYul k then some .kw else none
      | _ => none

/-- what the reader is expected to return for a printed item -/
def opOf (i : Item) : Op :=
  match classOf i, i.value with
  | some .zero, _ => ⟨sPUSH, .str ['0']⟩
  | some .tagged, some v => ⟨i.disasm, .str v⟩
  | some .num, some v | some .kw, some v => ⟨i.disasm, .str (hexStr ((hexVal? v).getD 0))⟩
  | _, _ => ⟨i.disasm, .none⟩

def printBlock (p0 : Bool) (B : List Item) : List Tok := B.flatMap (toPlain p0)

def covered (B : List Item) : Bool := B.all fun i => (classOf i).isSome

end GasolVerif.Plain
