"""C10 — every block is processed to completion; a failure costs at most that block."""
import json, random, re
from collections import Counter
import common, docrun, gen, e2e, docs

THEOREMS = ["Pipeline.contract_total", "Pipeline.failed_block_unchanged", "Pipeline.fault_local", "Word.wpow_eq"]
BUDGET_S = 10.0


def block_map(doc):
    """blocks of every code section, with the zero push in its PUSH0 spelling and without source locations of emitted items"""
    out = {}
    for path, items in docrun.code_sections(doc):
        for k, b in enumerate(docrun.blocks_of(items)):
            nb = []
            for it in b:
                if it.get("name") == "PUSH" and it.get("value") == "0":
                    it = {kk: v for kk, v in it.items() if kk != "value"}
                    it["name"] = "PUSH0"
                nb.append(it)
            out[(path, k)] = nb
    return out


def tokens(b):
    return " ".join(docrun.item_token(it) for it in b)


def term_tree_size(text):
    """size of the largest value of the block written as a tree (a duplicated value counted at every use): the tool works on
    such trees, so this - not the number of instructions - is the size of what it traverses"""
    import vocab
    toks = text.split()
    st, big, i = [1] * 40, 1, 0
    while i < len(toks):
        t = toks[i]
        i += 1
        if t.startswith("PUSH"):
            if t != "PUSH0" and i < len(toks) and not toks[i].isupper():
                i += 1
            if t == "PUSH" and i < len(toks) and toks[i - 1] in ("[tag]", "data", "#[$]", "[$]"):
                i += 1
            st.append(1)
            continue
        if t.startswith("DUP") and t[3:].isdigit():
            st.append(st[-int(t[3:])] if int(t[3:]) <= len(st) else 1)
            continue
        if t.startswith("SWAP") and t[4:].isdigit():
            k = int(t[4:])
            if k < len(st):
                st[-1], st[-1 - k] = st[-1 - k], st[-1]
            continue
        if t == "POP":
            ar, out = 1, 0
        elif t in vocab.UN or t in vocab.ENV1 or t in ("MLOAD", "SLOAD"):
            ar, out = 1, 1
        elif t in vocab.BIN or t in ("KECCAK256", "SHA3"):
            ar, out = 2, 1
        elif t in vocab.TER:
            ar, out = 3, 1
        elif t in ("MSTORE", "MSTORE8", "SSTORE"):
            ar, out = 2, 0
        elif t in vocab.EXT:
            ar, out = vocab.EXT[t]
        else:
            ar, out = 0, 1
        args = [st.pop() if st else 1 for _ in range(ar)]
        if out:
            st.append(1 + sum(args))
        big = max([big, 1 + sum(args)] + st[-1:])
    return big


def over_budget_kind(text):
    """a block whose values, written as trees, are far larger than the block (one value duplicated and combined with itself again
    and again) is the recorded limitation of the tree-based traversals; anything else over the budget is a violation of its own"""
    n = max(1, len(text.split()))
    return "time-exponential-in-duplication-depth" if term_tree_size(text) > 1000 * n else "block-exceeds-time-budget"


def run(tier):
    sd = common.seed()
    rng = random.Random(sd * 577 + 31)
    po = common.proof_obligations("GasolVerif.Pipeline,GasolVerif.Proofs.WordLemmas", THEOREMS)
    violations = [{"kind": "broken-proof-obligation", "what": b, "no_failing_input": True, "input": b} for b in po["broken"]]
    c = Counter()
    # ---- (1) runtime: every block of the supported vocabulary terminates within the budget, without an exception
    blocks = gen.blocks(sd * 71 + 9, 300 if tier == "quick" else 5000)
    fc = gen.fold_corpus([0, 1, 2, 255, 256, 2 ** 255, 2 ** 256 - 1])
    if tier == "quick":
        fc = rng.sample(fc, 250)
    extreme = fc + gen.stack_corpus() + gen.deep_same_operand_corpus() + \
        ["NOT NOT", "DUP1 NOT NOT ADD", " ".join(["ISZERO"] * 40), " ".join(["DUP1"] * 20 + ["ADD"] * 19), "PUSH1 0x0 PUSH1 0x5 DIV",
         "PUSH1 0x0 PUSH1 0x5 MOD", "PUSH32 0x" + "f" * 64 + " PUSH1 0x3 EXP", "PUSH32 0x" + "f" * 64 + " PUSH32 0x" + "f" * 64 + " EXP",
         "PUSH32 0x" + "f" * 64 + " DUP1 SHL", "PUSH1 0x5 PUSH1 0x3 PUSH1 0x4 ADDMOD", "PUSH1 0x0 PUSH1 0x3 PUSH1 0x4 MULMOD",
         " ".join("SWAP%d" % k for k in range(1, 17)), " ".join(["DUP16"] * 3 + ["POP"] * 3),
         # a value combined with its own copy again and again: linear as a graph, exponential as a tree
         "CALLER " + " ".join(["DUP1 ADD"] * 10), "CALLER " + " ".join(["DUP1 ADD"] * 19), "DUP1 " + " ".join(["DUP1 MUL"] * 8),
         # two loads between consecutive stores: the number of dependence paths doubles per store
         " ".join(["DUP2 SLOAD DUP4 SLOAD ADD DUP2 SSTORE"] * 26), " ".join(["DUP2 MLOAD DUP4 MLOAD ADD DUP2 MSTORE"] * 26),
         " ".join(["DUP2 SLOAD DUP4 SLOAD DUP6 SLOAD ADD ADD DUP2 SSTORE"] * 16),
         # blocks that reach the 16th and 17th stack word
         "DUP16 DUP2 ADD SWAP16 POP PUSH1 0x1 ADD", "SWAP16 DUP16 SWAP16 POP", "DUP16 DUP16 ADD SWAP16 SWAP1 SWAP16 POP"]
    osets = [["-greedy"], ["-greedy", "-size"], ["-greedy", "-storage"]]
    runs = e2e.run_optimize(blocks, osets, assign="rotate", timeout=BUDGET_S + 10) + e2e.run_optimize(extreme, [["-greedy"]], assign="all", timeout=BUDGET_S + 10)
    for text, opts, e, st in runs:
        c["blocks"] += 1
        if e is None:
            kind = {"timeout": over_budget_kind(text), "worker-died": "worker-killed-(memory-or-crash)"}.get(st, "run-failure:" + st.split(":")[0])
            violations.append({"kind": kind, "input": text, "options": opts, "what": "%s on %s with %s (budget %ss, 3 GiB)" % (st, text, opts, BUDGET_S)})
            continue
        if e.get("wall") and e["wall"] > BUDGET_S:
            violations.append({"kind": over_budget_kind(text), "input": text, "options": opts, "what": "%.1fs on %s" % (e["wall"], text)})
        for k in ("optimize_exception", "compare_exception"):
            if k in e:
                violations.append({"kind": "exception-escapes-the-block-pipeline", "input": text, "options": opts,
                                   "what": "%s: %s on %s with %s" % (k, e[k], text, opts)})
        if "out_items" in e:
            c["completed"] += 1
    # ---- (2) fault containment at document level, against Pipeline.fault_local
    dl = docrun.synthesized(sd + 51, 4 if tier == "quick" else 30, ncontracts=2, nblocks=5)
    free = docrun.run_docs(dl, ["-greedy"])
    samples = []
    for (name, d), r0 in zip(dl, free):
        res0 = r0["res"]
        outname = name.split(".")[0] + "_optimized.json_solc"
        if r0["status"] != "ok" or not res0 or res0.get("rc") != 0 or outname not in res0["files"]:
            violations.append({"kind": "no-output-file", "input": name, "what": "fault-free run of %s: rc %s %s" % (name, (res0 or {}).get("rc"), ((res0 or {}).get("stderr_tail") or "")[-300:])})
            continue
        out0 = block_map(json.loads(res0["files"][outname]))
        inp = block_map(d)
        names = sorted(set(re.findall(r"Optimizing (\S+)_\d+\.\.\.", res0["stdout_tail"] + "")))
        # names seen in the (truncated) stdout tail; pick a few and also k-th-call faults
        injections = [{"analysis": [n]} for n in rng.sample(names, min(2, len(names)))] + \
                     [{"greedy_calls": [rng.randrange(1, 8)]}, {"checker_calls": [rng.randrange(1, 6)]},
                      {"greedy_calls": [1, 2, 3], "checker_calls": [2]}]
        for inj in injections:
            r = docrun.run_docs([(name, d)], ["-greedy"], inject=inj)[0]
            res = r["res"]
            c["fault-runs"] += 1
            if r["status"] != "ok" or not res or res.get("rc") != 0 or outname not in res.get("files", {}):
                violations.append({"kind": "fault-aborts-the-run", "input": name, "options": inj,
                                   "what": "with injected fault %s the run of %s ended rc=%s without output: %s" % (inj, name, (res or {}).get("rc"), ((res or {}).get("stderr_tail") or "")[-300:])})
                continue
            out1 = block_map(json.loads(res["files"][outname]))
            nf = sum(len(v) for v in inj.values())
            changed = [k for k in out0 if out1.get(k) != out0[k]]
            c["blocks-compared"] += len(out0)
            if "analysis" in inj:
                # the block whose analysis fails is emitted unchanged
                bad = [k for k in changed if out1.get(k) != inp.get(k)]
            else:
                # a failing search or re-check may leave some sub-blocks of the block optimized: it must still be equivalent to the input
                import drv, vocab
                bad = []
                for k in changed:
                    try:
                        if drv.batch(["EQUIV\t%s\t%s" % (tokens(inp[k]), tokens(out1[k]))])[0] != "equiv":
                            bad.append(k)
                    except vocab.Unsupported:
                        pass
            if bad:
                violations.append({"kind": "fault-not-contained", "input": name, "options": inj,
                                   "what": "with fault %s block %s of %s is neither the fault-free result nor (equivalent to) the input block" % (inj, bad[0], name)})
            elif len(changed) > nf:
                violations.append({"kind": "fault-not-contained", "input": name, "options": inj,
                                   "what": "%d injected faults changed %d blocks of %s" % (nf, len(changed), name)})
            elif len(samples) < 3:
                samples.append({"document": name, "injected": inj, "blocks_reverted_to_input": len(changed), "other_blocks_identical": len(out0) - len(changed)})
    # ---- (3) a real analysis failure in one contract next to contracts with the same short name (coinciding block names): every
    # contract's result must be what the run on that contract alone gives
    import docs as _docs
    for (dname, ddoc), singles in _docs.dup_named():
        r = docrun.run_docs([(dname, ddoc)], ["-greedy"])[0]
        on = dname.split(".")[0] + "_optimized.json_solc"
        c["dup-name-runs"] += 1
        if r["status"] != "ok" or not r["res"] or r["res"].get("rc") != 0 or on not in r["res"].get("files", {}):
            violations.append({"kind": "no-output-file", "input": dname, "what": "run of %s (a contract with a block the analysis raises on): rc %s %s"
                               % (dname, (r["res"] or {}).get("rc"), ((r["res"] or {}).get("stderr_tail") or "")[-300:])})
            continue
        multi = json.loads(r["res"]["files"][on])
        for cn, (sname, sdoc) in singles:
            rs = docrun.run_docs([(sname, sdoc)], ["-greedy"])[0]
            son = sname.split(".")[0] + "_optimized.json_solc"
            if rs["status"] != "ok" or not rs["res"] or son not in rs["res"].get("files", {}):
                continue
            alone = json.loads(rs["res"]["files"][son])
            c["dup-name-contracts"] += 1
            if multi.get("contracts", {}).get(cn) != alone.get("contracts", {}).get(cn):
                violations.append({"kind": "failure-in-one-contract-changes-another", "input": dname, "options": ["-greedy"],
                                   "what": "contract %s of %s (next to a same-named contract with a block the analysis raises on) is not what the run on "
                                           "that contract alone emits" % (cn, dname)})
    cov = {"obligations": po["obligations"], "discharged": po["discharged"],
           "checker_cmd": "cd lean && lake build; #print axioms " + ", ".join(THEOREMS),
           "trusted_base": ["Lean 4.33 kernel", "axioms: propext, Classical.choice, Quot.sound", "Pipeline.lean as the model of the keep-or-revert loop",
                            "harness/cli_inject.py wraps evm2rbr_compiler, greedy_standalone and verify_block_from_list_of_sfs of the real tool"],
           "axioms": po["axioms"], "evaluations": c["blocks"] + c["fault-runs"], "distinct_nontrivial": c["completed"] + c["fault-runs"],
           "rule": "generated blocks and an extreme-operand corpus (division/modulo by 0, 2^256-1 exponents and shifts, NOT NOT, ISZERO chains, "
                   "17+ live values) under a %ss / 3 GiB budget per block; synthesized documents re-run with faults injected into the analysis "
                   "of a named block, into the k-th greedy call and into the k-th checker call: every block must be the fault-free result or "
                   "the input block, and at most one block per fault may differ" % BUDGET_S,
           "samples": samples or [{"n": 0}], "counters": dict(c)}
    return {"level": "proof", "coverage": cov, "violations": violations,
            "assumptions": ["partial: time and memory are runtime facts, validated per explored block, not proved",
                            "what is proved is totality and fault locality of the pipeline model (fault_local), and boundedness of EXP folding (wpow_eq: 256 squarings)"]}


def replay(v):
    print(v.get("what"))
    return 1
