/-
  (P) C05: `cmp_sound` — where `compare_variables` answers equal, the two variables have the same value under every
  interpretation of the specifications' symbols that is symmetric on the operations flagged commutative (initial
  stack words by name, integers, valued records by operation and value, everything else by operation and operands).
  No Mathlib.
-/
import GasolVerif.Models.Cmp
set_option linter.unusedSimpArgs false
set_option linter.unusedVariables false
namespace GasolVerif.Cmp
open GasolVerif.Spec

theorem defsOf_mem (S : CSpec) (x : Atom) (a : CInstr) (r : List CInstr) (h : defsOf S x = a :: r) :
    a ∈ S.instrs ∧ ∃ v, x = .var v ∧ v ∈ a.out := by
  cases x with
  | const n => simp [defsOf] at h
  | var v =>
    have hm : a ∈ S.instrs.filter fun u => u.out.contains v := by simp only [defsOf] at h; rw [h]; simp
    rw [List.mem_filter] at hm
    exact ⟨hm.1, v, rfl, by simpa using hm.2⟩

theorem cmp_sound (O P : CSpec) (ι : Interp) (hok : pairOk O P = true) (hcomm : ι.CommOk O) :
    ∀ fuel : Nat,
      (∀ x y, cmpVar O P fuel x y = some true →
        ∀ f1 f2 vo vp, den ι O f1 x = some vo → den ι P f2 y = some vp → vo = vp) ∧
      (∀ xs ys, cmpArgs O P fuel xs ys = some true → xs.length = ys.length →
        ∀ f1 f2 vos vps, denArgs ι O f1 xs = some vos → denArgs ι P f2 ys = some vps → vos = vps) ∧
      (∀ xs ys, cmpRev O P fuel xs ys = some true → xs.length = ys.length →
        ∀ f1 f2 vos vps, denArgs ι O f1 xs = some vos → denArgs ι P f2 ys = some vps → vos = vps) := by
  simp only [pairOk, Bool.and_eq_true, beq_iff_eq, List.all_eq_true, Bool.or_eq_true, Bool.not_eq_true',
    bne_iff_ne, ne_eq, decide_eq_true_eq] at hok
  obtain ⟨⟨⟨⟨hsrc, hclO⟩, hclP⟩, hsame⟩, hbin⟩ := hok
  intro fuel
  induction fuel with
  | zero =>
    refine ⟨by intro x y h; simp [cmpVar] at h, ?_, ?_⟩
    · intro xs ys h hl f1 f2 vos vps h1 h2
      match xs, ys, h, hl with
      | [], [], _, _ => simp [denArgs] at h1 h2; rw [h1, h2]
      | x :: xs, y :: ys, h, _ => simp [cmpArgs, cmpVar] at h
    · intro xs ys h hl f1 f2 vos vps h1 h2
      match xs, ys, h, hl with
      | [], [], _, _ => simp [denArgs] at h1 h2; rw [h1, h2]
      | x :: xs, y :: ys, h, _ => simp [cmpRev, cmpVar] at h
  | succ fuel ih =>
    obtain ⟨ihV, ihA, ihR⟩ := ih
    have argsStep : ∀ (cmp : Nat → List Atom → List Atom → Option Bool), True → True := fun _ _ => trivial
    have hV : ∀ x y, cmpVar O P (fuel + 1) x y = some true →
        ∀ f1 f2 vo vp, den ι O f1 x = some vo → den ι P f2 y = some vp → vo = vp := by
      intro x y h f1 f2 vo vp h1 h2
      simp only [cmpVar] at h
      split at h
      · simp at h
      · rename_i hA
        split at h
        · simp at h
        · rename_i hB
          split at h
          · rename_i hC
            simp only [Bool.and_eq_true, Bool.not_eq_true'] at hC
            split at h
            · simp at h
            · rename_i hlen
              split at h
              · rename_i a ra b rb heo hep
                obtain ⟨haO, v, rfl, hva⟩ := defsOf_mem O x a ra heo
                obtain ⟨hbP, w, rfl, hwb⟩ := defsOf_mem P y b rb hep
                have hvsrc : O.src.contains v = false := by simpa [inSrc] using hC.1
                have hwsrc : P.src.contains w = false := by
                  have := hclP b hbP w (by simpa using hwb)
                  simpa using this
                cases f1 with
                | zero => simp [den] at h1
                | succ f1 =>
                cases f2 with
                | zero => simp [den] at h2
                | succ f2 =>
                simp only [den, hvsrc, hwsrc, Bool.false_eq_true, if_false, heo, hep] at h1 h2
                split at h
                · simp at h
                · rename_i hop
                  have hop' : a.op = b.op := by simpa using hop
                  have hs := hsame a haO b hbP
                  rcases hs with hs | hs
                  · exact absurd hop' hs
                  · split at h
                    · rename_i hval
                      simp only [Bool.and_eq_true] at hval
                      simp only [Option.some.injEq, beq_iff_eq] at h
                      cases hav : a.value with
                      | none => simp [hav] at hval
                      | some t =>
                        cases hbv : b.value with
                        | none => simp [hbv] at hval
                        | some t' =>
                          simp only [hav, hbv] at h h1 h2
                          simp only [Option.some.injEq] at h1 h2
                          have : t = t' := by simpa using h
                          rw [← h1, ← h2, hop', this]
                    · rename_i hval
                      -- neither carries a value
                      have hnone : a.value = none ∧ b.value = none := by
                        have e := hs.2
                        cases hav : a.value <;> cases hbv : b.value <;> simp [hav, hbv] at hval e ⊢
                      simp only [hnone.1, hnone.2] at h1 h2
                      cases hao : denArgs ι O f1 a.inp with
                      | none => simp [hao] at h1
                      | some vos =>
                        cases hap : denArgs ι P f2 b.inp with
                        | none => simp [hap] at h2
                        | some vps =>
                          simp only [hao, hap, Option.map_some, Option.some.injEq] at h1 h2
                          have hl : a.inp.length = b.inp.length := by simpa using hs.1
                          split at h
                          · simp at h
                          · rename_i hargs
                            have := ihA a.inp b.inp hargs hl f1 f2 vos vps hao hap
                            rw [← h1, ← h2, hop', this]
                          · rename_i hargs
                            split at h
                            · simp at h
                            · rename_i hcm
                              have hcm' : a.comm = true := by simpa using hcm
                              have hrev := ihR a.inp b.inp.reverse h (by simp [hl])
                              have h2len : a.inp.length = 2 := by
                                rcases hbin a haO with hb | hb
                                · rw [hcm'] at hb; cases hb
                                · exact hb
                              -- two operands: [x0, x1] against [y1, y0]
                              match hai : a.inp, hbi : b.inp, h2len, hl with
                              | [x0, x1], [y0, y1], _, _ =>
                                rw [hai] at hao; rw [hbi] at hap
                                rw [hai, hbi] at hrev
                                simp only [List.reverse_cons, List.reverse_nil, List.nil_append, List.cons_append] at hrev
                                simp only [denArgs] at hao hap
                                cases d0 : den ι O f1 x0 with
                                | none => simp [d0] at hao
                                | some a0 =>
                                cases d1 : den ι O f1 x1 with
                                | none => simp [d0, d1] at hao
                                | some a1 =>
                                cases e0 : den ι P f2 y0 with
                                | none => simp [e0] at hap
                                | some b0 =>
                                cases e1 : den ι P f2 y1 with
                                | none => simp [e0, e1] at hap
                                | some b1 =>
                                simp [d0, d1] at hao
                                simp [e0, e1] at hap
                                have hP : denArgs ι P f2 [y1, y0] = some [b1, b0] := by simp [denArgs, e0, e1]
                                have hO : denArgs ι O f1 [x0, x1] = some [a0, a1] := by simp [denArgs, d0, d1]
                                have := hrev f1 f2 [a0, a1] [b1, b0] hO hP
                                simp only [List.cons.injEq, and_true] at this
                                rw [← h1, ← h2, ← hao, ← hap, hop', this.1, this.2]
                                rw [← hop']
                                exact hcomm a haO hcm' b1 b0
              · simp at h
          · -- x is an initial stack variable or an integer, and y is the same atom
            rename_i hC
            have hxy : x = y := by
              by_cases hs : inSrc O x = true
              · simp [hs] at hA; exact hA
              · by_cases hi : isInt x = true
                · simp [hi] at hB; exact hB
                · simp [hs, hi] at hC
            subst hxy
            cases f1 with
            | zero => simp [den] at h1
            | succ f1 =>
            cases f2 with
            | zero => simp [den] at h2
            | succ f2 =>
            cases x with
            | const n => simp [den] at h1 h2; rw [← h1, ← h2]
            | var v =>
              have hs : O.src.contains v = true := by
                by_cases hs : inSrc O (.var v) = true
                · simpa [inSrc] using hs
                · simp [hs, isInt] at hC
              have hs' : P.src.contains v = true := by rw [← hsrc]; exact hs
              have hm : v ∈ O.src := by simpa using hs
              have hm' : v ∈ P.src := by simpa using hs'
              simp [den, hm, hm'] at h1 h2
              rw [← h1, ← h2]
    refine ⟨hV, ?_, ?_⟩
    · -- cmpArgs
      intro xs
      induction xs with
      | nil =>
        intro ys h hl f1 f2 vos vps h1 h2
        cases ys with
        | nil => simp [denArgs] at h1 h2; rw [h1, h2]
        | cons y ys => simp at hl
      | cons x xs ihx =>
        intro ys h hl f1 f2 vos vps h1 h2
        cases ys with
        | nil => simp at hl
        | cons y ys =>
          simp only [cmpArgs] at h
          cases hv : cmpVar O P (fuel + 1) x y with
          | none => simp [hv] at h
          | some r =>
            cases hr : cmpArgs O P (fuel + 1) xs ys with
            | none => simp [hv, hr] at h
            | some rs =>
              simp [hv, hr] at h
              obtain ⟨rfl, rfl⟩ := h
              simp only [denArgs] at h1 h2
              cases d0 : den ι O f1 x with
              | none => simp [d0] at h1
              | some a0 =>
              cases dr : denArgs ι O f1 xs with
              | none => simp [d0, dr] at h1
              | some ar =>
              cases e0 : den ι P f2 y with
              | none => simp [e0] at h2
              | some b0 =>
              cases er : denArgs ι P f2 ys with
              | none => simp [e0, er] at h2
              | some br =>
              simp [d0, dr] at h1
              simp [e0, er] at h2
              have e1 := hV x y hv f1 f2 a0 b0 d0 e0
              have e2 := ihx ys hr (by simpa using hl) f1 f2 ar br dr er
              rw [← h1, ← h2, e1, e2]
    · -- cmpRev
      intro xs
      induction xs with
      | nil =>
        intro ys h hl f1 f2 vos vps h1 h2
        cases ys with
        | nil => simp [denArgs] at h1 h2; rw [h1, h2]
        | cons y ys => simp at hl
      | cons x xs ihx =>
        intro ys h hl f1 f2 vos vps h1 h2
        cases ys with
        | nil => simp at hl
        | cons y ys =>
          simp only [cmpRev] at h
          cases hv : cmpVar O P (fuel + 1) x y with
          | none => simp [hv] at h
          | some r =>
            cases r with
            | false => simp [hv] at h
            | true =>
              simp only [hv] at h
              simp only [denArgs] at h1 h2
              cases d0 : den ι O f1 x with
              | none => simp [d0] at h1
              | some a0 =>
              cases dr : denArgs ι O f1 xs with
              | none => simp [d0, dr] at h1
              | some ar =>
              cases e0 : den ι P f2 y with
              | none => simp [e0] at h2
              | some b0 =>
              cases er : denArgs ι P f2 ys with
              | none => simp [e0, er] at h2
              | some br =>
              simp [d0, dr] at h1
              simp [e0, er] at h2
              have e1 := hV x y hv f1 f2 a0 b0 d0 e0
              have e2 := ihx ys h (by simpa using hl) f1 f2 ar br dr er
              rw [← h1, ← h2, e1, e2]

/-- what `searchVal` returns is a candidate with the same opcode whose operands compare equal -/
theorem searchVal_spec (O P : CSpec) (ins : CInstr) : ∀ (cands : List CInstr) (c : CInstr),
    searchVal O P ins cands = some (some c) → c ∈ cands ∧ ins.op = c.op ∧ cmpArgs O P (fuelC O P) ins.inp c.inp = some true
  | [], c, h => by simp [searchVal] at h
  | d :: ds, c, h => by
    simp only [searchVal] at h
    split at h
    · rename_i hop
      split at h
      · simp at h
      · rename_i hcmp
        simp at h; subst h
        exact ⟨by simp, by simpa using hop, hcmp⟩
      · obtain ⟨h1, h2, h3⟩ := searchVal_spec O P ins ds c h
        exact ⟨List.mem_cons_of_mem _ h1, h2, h3⟩
    · obtain ⟨h1, h2, h3⟩ := searchVal_spec O P ins ds c h
      exact ⟨List.mem_cons_of_mem _ h1, h2, h3⟩

/-- **the accepted matching is one-to-one**: there is a list of distinct-identifier records of the optimized
    specification, one per record of the original one and in its order, each with the same opcode and operands that
    compare equal -/
theorem matchAll_spec (O P : CSpec) : ∀ (os remaining : List CInstr), matchAll O P os remaining = some true →
    ∃ ms : List CInstr, ms.length = os.length ∧ (∀ m ∈ ms, m ∈ remaining) ∧ (ms.map (·.id)).Nodup ∧
      ∀ i (h1 : i < os.length) (h2 : i < ms.length),
        os[i].op = ms[i].op ∧ cmpArgs O P (fuelC O P) os[i].inp ms[i].inp = some true
  | [], remaining, _ => ⟨[], rfl, by simp, by simp, by intro i h1; simp at h1⟩
  | ins :: rest, remaining, h => by
    simp only [matchAll] at h
    cases hs : searchVal O P ins remaining with
    | none => simp [hs] at h
    | some r =>
      cases r with
      | none => simp [hs] at h
      | some c =>
        simp only [hs] at h
        obtain ⟨hc1, hc2, hc3⟩ := searchVal_spec O P ins remaining c hs
        obtain ⟨ms, hl, hmem, hnd, hall⟩ := matchAll_spec O P rest (remaining.filter fun x => x.id != c.id) h
        refine ⟨c :: ms, by simp [hl], ?_, ?_, ?_⟩
        · intro m hm
          rcases List.mem_cons.mp hm with rfl | hm
          · exact hc1
          · exact (List.mem_filter.mp (hmem m hm)).1
        · simp only [List.map_cons, List.nodup_cons]
          refine ⟨?_, hnd⟩
          intro hin
          obtain ⟨m, hm, hid⟩ := List.mem_map.mp hin
          have := (List.mem_filter.mp (hmem m hm)).2
          simp at this
          exact this hid
        · intro i h1 h2
          cases i with
          | zero => exact ⟨hc2, hc3⟩
          | succ i => simpa using hall i (by simpa using h1) (by simpa using h2)

end GasolVerif.Cmp
