/-
  (P) C15: theorems about Models/Plain.lean — numerals (`int(hex(n)[2:],16) = n`, leading zeros, `0x`, upper case,
  decimal), every spelling of a constant is read as that constant (`spelling_value`), and printing a block then
  reading it back yields the block (`parse_print`).   No Mathlib.
-/
import GasolVerif.Models.Plain
set_option linter.unusedSimpArgs false
set_option linter.unusedVariables false
namespace GasolVerif.Plain

/-! ### numerals -/

theorem digitsVal_append (dig : Char → Option Nat) (b : Nat) (xs ys : Tok) (acc : Nat) :
    digitsVal dig b (xs ++ ys) acc = (digitsVal dig b xs acc).bind (digitsVal dig b ys) := by
  induction xs generalizing acc with
  | nil => simp [digitsVal]
  | cons c cs ih =>
    simp only [List.cons_append, digitsVal]
    cases dig c with
    | none => simp
    | some d => simp [ih]

theorem digitsVal_all (dig : Char → Option Nat) (b : Nat) (ds : Tok) (acc v : Nat)
    (h : digitsVal dig b ds acc = some v) : ∀ c ∈ ds, (dig c).isSome = true := by
  induction ds generalizing acc with
  | nil => simp
  | cons c cs ih =>
    simp only [digitsVal] at h
    cases hc : dig c with
    | none => simp [hc] at h
    | some d =>
      simp only [hc] at h
      intro x hx
      rcases List.mem_cons.mp hx with rfl | hx
      · simp [hc]
      · exact ih _ h x hx

theorem hexDigit_digitChar : ∀ d : Fin 16, hexDigit? (Nat.digitChar d.val) = some d.val := by decide
theorem decDigit_digitChar : ∀ d : Fin 10, decDigit? (Nat.digitChar d.val) = some d.val := by decide

theorem digitsVal_hexStr (n : Nat) : digitsVal hexDigit? 16 (hexStr n) 0 = some n := by
  induction n using Nat.strongRecOn with
  | _ n ih =>
    unfold hexStr at *
    rw [Nat.toDigits_eq_if (by decide)]
    split
    · rename_i h
      have := hexDigit_digitChar ⟨n, h⟩
      simp only at this
      simp [digitsVal, this]
    · rename_i h
      rw [digitsVal_append, ih (n / 16) (by omega)]
      have := hexDigit_digitChar ⟨n % 16, Nat.mod_lt _ (by decide)⟩
      simp only at this
      simp only [Option.bind_some, digitsVal, this, Option.some.injEq]
      omega

theorem digitsVal_decStr (n : Nat) : digitsVal decDigit? 10 (decStr n) 0 = some n := by
  induction n using Nat.strongRecOn with
  | _ n ih =>
    unfold decStr at *
    rw [Nat.toDigits_eq_if (by decide)]
    split
    · rename_i h
      have := decDigit_digitChar ⟨n, h⟩
      simp only at this
      simp [digitsVal, this]
    · rename_i h
      rw [digitsVal_append, ih (n / 10) (by omega)]
      have := decDigit_digitChar ⟨n % 10, Nat.mod_lt _ (by decide)⟩
      simp only at this
      simp only [Option.bind_some, digitsVal, this, Option.some.injEq]
      omega

theorem strip0x_allHex (s : Tok) (h : allHex s = true) : strip0x s = s := by
  unfold strip0x
  split
  · simp [allHex, hexDigit?] at h
  · simp [allHex, hexDigit?] at h
  · rfl

theorem hexVal_allHex (s : Tok) (h : allHex s = true) (hne : s ≠ []) :
    hexVal? s = digitsVal hexDigit? 16 s 0 := by
  simp [hexVal?, strip0x_allHex s h, hne]

theorem allHex_hexStr (n : Nat) : allHex (hexStr n) = true := by
  simp only [allHex, List.all_eq_true]
  exact digitsVal_all _ _ _ _ _ (digitsVal_hexStr n)

theorem allDec_decStr (n : Nat) : allDec (decStr n) = true := by
  simp only [allDec, List.all_eq_true]
  exact digitsVal_all _ _ _ _ _ (digitsVal_decStr n)

theorem hexStr_ne_nil (n : Nat) : hexStr n ≠ [] := Nat.toDigits_ne_nil
theorem decStr_ne_nil (n : Nat) : decStr n ≠ [] := Nat.toDigits_ne_nil

/-- **`int(hex(n)[2:], 16) = n`** -/
theorem hexVal_hexStr (n : Nat) : hexVal? (hexStr n) = some n := by
  rw [hexVal_allHex _ (allHex_hexStr n) (hexStr_ne_nil n), digitsVal_hexStr]

/-- **`int(str(n)) = n`** -/
theorem decVal_decStr (n : Nat) : decVal? (decStr n) = some n := by
  simp [decVal?, decStr_ne_nil, digitsVal_decStr]

theorem digitsVal_zeros (dig : Char → Option Nat) (b : Nat) (h0 : dig '0' = some 0) (k : Nat) (ds : Tok) :
    digitsVal dig b (List.replicate k '0' ++ ds) 0 = digitsVal dig b ds 0 := by
  induction k with
  | zero => simp
  | succ k ih => simp [List.replicate_succ, digitsVal, h0, ih]

theorem allHex_append (a b : Tok) : allHex (a ++ b) = (allHex a && allHex b) := by simp [allHex]
theorem allDec_append (a b : Tok) : allDec (a ++ b) = (allDec a && allDec b) := by simp [allDec]
theorem allHex_zeros (k : Nat) : allHex (List.replicate k '0') = true := by
  simp [allHex, List.all_replicate]; right; decide
theorem allDec_zeros (k : Nat) : allDec (List.replicate k '0') = true := by
  simp [allDec, List.all_replicate]; right; decide

/-- leading zeros do not change a hexadecimal value -/
theorem hexVal_zeros (k : Nat) (s : Tok) (h : allHex s = true) (hne : s ≠ []) :
    hexVal? (List.replicate k '0' ++ s) = hexVal? s := by
  rw [hexVal_allHex _ (by rw [allHex_append, allHex_zeros, h]; rfl) (by simp [hne]), hexVal_allHex _ h hne]
  exact digitsVal_zeros _ _ (by decide) k s

/-- leading zeros do not change a decimal value -/
theorem decVal_zeros (k : Nat) (s : Tok) (hne : s ≠ []) :
    decVal? (List.replicate k '0' ++ s) = decVal? s := by
  simp [decVal?, hne, digitsVal_zeros _ _ (show decDigit? '0' = some 0 by decide)]

/-- a `0x` prefix does not change a hexadecimal value -/
theorem hexVal_0x (s : Tok) (h : allHex s = true) : hexVal? ('0' :: 'x' :: s) = hexVal? s := by
  have h1 : strip0x ('0' :: 'x' :: s) = s := rfl
  simp only [hexVal?, h1, strip0x_allHex s h]

theorem hexDigit_upper_digitChar : ∀ d : Fin 16, hexDigit? (upperHex (Nat.digitChar d.val)) = some d.val := by decide

theorem digitsVal_hexStrU (n : Nat) : digitsVal hexDigit? 16 (hexStrU n) 0 = some n := by
  induction n using Nat.strongRecOn with
  | _ n ih =>
    unfold hexStrU hexStr at *
    rw [Nat.toDigits_eq_if (by decide)]
    split
    · rename_i h
      have := hexDigit_upper_digitChar ⟨n, h⟩
      simp only at this
      simp [digitsVal, this]
    · rename_i h
      rw [List.map_append, digitsVal_append, ih (n / 16) (by omega)]
      have := hexDigit_upper_digitChar ⟨n % 16, Nat.mod_lt _ (by decide)⟩
      simp only at this
      simp only [Option.bind_some, digitsVal, this, Option.some.injEq, List.map_cons, List.map_nil]
      omega

theorem allHex_hexStrU (n : Nat) : allHex (hexStrU n) = true := by
  simp only [allHex, List.all_eq_true]
  exact digitsVal_all _ _ _ _ _ (digitsVal_hexStrU n)

/-- upper-case digits denote the same number -/
theorem hexVal_hexStrU (n : Nat) : hexVal? (hexStrU n) = some n := by
  rw [hexVal_allHex _ (allHex_hexStrU n) (by simp [hexStrU, hexStr_ne_nil]), digitsVal_hexStrU]

/-! ### spellings of a constant -/

theorem isPrefixOf_mem (p t : Tok) (h : p.isPrefixOf t = true) : ∀ c ∈ p, c ∈ t := by
  have := List.isPrefixOf_iff_prefix.mp h
  intro c hc
  exact this.subset hc

theorem hasSub_mem (p s : Tok) (h : hasSub p s = true) : ∀ c ∈ p, c ∈ s := by
  induction s with
  | nil => simp [hasSub] at h; subst h; simp
  | cons x xs ih =>
    simp only [hasSub, Bool.or_eq_true] at h
    rcases h with h | h
    · exact isPrefixOf_mem _ _ h
    · intro c hc; exact List.mem_cons_of_mem _ (ih h c hc)

theorem hasSub_false_of_not_mem (p s : Tok) (c : Char) (hc : c ∈ p) (hs : c ∉ s) : hasSub p s = false := by
  cases h : hasSub p s with
  | false => rfl
  | true => exact absurd (hasSub_mem p s h c hc) hs

theorem allHex_mem (s : Tok) (h : allHex s = true) (c : Char) (hc : c ∈ s) : (hexDigit? c).isSome = true := by
  simp only [allHex, List.all_eq_true] at h; exact h c hc

theorem not_yul_of_allHex (s : Tok) (h : allHex s = true) : isYul s = false := by
  have nt : 't' ∉ s := fun hc => by have := allHex_mem s h _ hc; revert this; decide
  have nh : '#' ∉ s := fun hc => by have := allHex_mem s h _ hc; revert this; decide
  have nd : '$' ∉ s := fun hc => by have := allHex_mem s h _ hc; revert this; decide
  simp [isYul, hasSub_false_of_not_mem sTag s 't' (by decide) nt, hasSub_false_of_not_mem sData s 't' (by decide) nt, nh, nd]

/-- the bare `PUSH` mnemonic reads the next token as a hexadecimal number -/
theorem parse_push_hex (s : Tok) (hy : isYul s = false) (n : Nat) (hv : hexVal? s = some n) :
    parse [sPUSH, s] = some [⟨sPUSH, .str (hexStr n)⟩] := by
  simp only [parse, List.length_cons, List.length_nil, parseOps]
  have h1 : tagLike sPUSH = false := by decide
  have h2 : sPUSHLIB.isPrefixOf sPUSH = false := by decide
  have h3 : isPush sPUSH = true := by decide
  have h4 : hasSub sDeploy sPUSH = false := by decide
  have h5 : hasSub sSize sPUSH = false := by decide
  have h6 : sPUSH0.isPrefixOf sPUSH = false := by decide
  have h7 : isPushN sPUSH = false := by decide
  simp [h1, h2, h3, h4, h5, h6, h7, hy, hv, parseOps]

theorem mnem_shape (m : Tok) (h : isPushN m = true) :
    ∃ r, m = 'P' :: 'U' :: 'S' :: 'H' :: r ∧ r ≠ [] ∧ ∀ c ∈ r, '0' ≤ c ∧ c ≤ '9' := by
  simp only [isPushN, Bool.and_eq_true, Bool.not_eq_true', List.all_eq_true, decide_eq_true_eq] at h
  obtain ⟨⟨hp, hne⟩, hall⟩ := h
  obtain ⟨r, hr⟩ := List.isPrefixOf_iff_prefix.mp hp
  refine ⟨r, by rw [← hr]; rfl, ?_, ?_⟩
  · intro hr0; subst hr0; rw [← hr] at hne; simp [sPUSH] at hne
  · intro c hc; apply hall; rw [← hr]; simpa [sPUSH] using hc

theorem digit_facts (c : Char) (h : '0' ≤ c ∧ c ≤ '9') :
    c ≠ 'L' ∧ c ≠ 'D' ∧ c ≠ 'I' ∧ c ≠ 'A' ∧ c ≠ 't' := by
  obtain ⟨h1, h2⟩ := h
  have h1' : 48 ≤ c.toNat := h1
  have h2' : c.toNat ≤ 57 := h2
  refine ⟨?_, ?_, ?_, ?_, ?_⟩ <;> (intro hc; subst hc; revert h2'; decide)

theorem mnem_class (m : Tok) (h : mnemOk m = true) :
    tagLike m = false ∧ sPUSHLIB.isPrefixOf m = false ∧ isPush m = true ∧ hasSub sDeploy m = false ∧
      hasSub sSize m = false ∧ sPUSH0.isPrefixOf m = false ∧ isPushN m = true := by
  simp only [mnemOk, Bool.and_eq_true, Bool.not_eq_true'] at h
  obtain ⟨hN, h0⟩ := h
  obtain ⟨r, rfl, hne, hall⟩ := mnem_shape m hN
  have nD : 'D' ∉ ('P' :: 'U' :: 'S' :: 'H' :: r) := by
    simp only [List.mem_cons, not_or]; refine ⟨by decide, by decide, by decide, by decide, ?_⟩
    intro hc; exact (digit_facts _ (hall _ hc)).2.1 rfl
  have nI : 'I' ∉ ('P' :: 'U' :: 'S' :: 'H' :: r) := by
    simp only [List.mem_cons, not_or]; refine ⟨by decide, by decide, by decide, by decide, ?_⟩
    intro hc; exact (digit_facts _ (hall _ hc)).2.2.1 rfl
  refine ⟨by simp [tagLike, sAssign, sTag, List.isPrefixOf], ?_, by simp [isPush, sPUSH, List.isPrefixOf], 
    hasSub_false_of_not_mem _ _ 'D' (by decide) nD, hasSub_false_of_not_mem _ _ 'I' (by decide) nI, h0, hN⟩
  match r, hne, hall with
  | c :: r', _, hall =>
    have := (digit_facts c (hall c (by simp))).1
    simp [sPUSHLIB, List.isPrefixOf, Ne.symm this]

/-- `PUSHk 0x<digits>` reads a hexadecimal number and keeps it in canonical form (no leading zeros, lower case) -/
theorem parse_pushN_0x (m s : Tok) (hm : mnemOk m = true) (n : Nat) (hv : hexVal? ('0' :: 'x' :: s) = some n) :
    parse [m, '0' :: 'x' :: s] = some [⟨sPUSH, .str (hexStr n)⟩] := by
  obtain ⟨h1, h2, h3, h4, h5, h6, h7⟩ := mnem_class m hm
  simp [parse, parseOps, h1, h2, h3, h4, h5, h6, h7, List.isPrefixOf, hv]

/-- `PUSHk <decimal>` reads a decimal number -/
theorem parse_pushN_dec (m s : Tok) (hm : mnemOk m = true) (hs : allDec s = true) (n : Nat)
    (hv : decVal? s = some n) : parse [m, s] = some [⟨sPUSH, .str (hexStr n)⟩] := by
  obtain ⟨h1, h2, h3, h4, h5, h6, h7⟩ := mnem_class m hm
  have hx : ['0', 'x'].isPrefixOf s = false := by
    match s, hs with
    | [], _ => rfl
    | [_], _ => simp [List.isPrefixOf]
    | a :: b :: r, hs =>
      simp only [allDec, List.all_cons, Bool.and_eq_true] at hs
      have : b ≠ 'x' := by intro hb; subst hb; have := hs.2.1; revert this; decide
      simp [List.isPrefixOf, Ne.symm this]
  simp [parse, parseOps, h1, h2, h3, h4, h5, h6, h7, hx, hv]

/-- **C15, third clause**: however a constant is written, the reader yields one `PUSH` whose value denotes it -/
theorem spelling_value (c : Nat) (toks : List Tok) (h : Spelling c toks) :
    ∃ v, parse toks = some [⟨sPUSH, .str v⟩] ∧ hexVal? v = some c := by
  cases h with
  | hex k =>
    have ha : allHex (List.replicate k '0' ++ hexStr c) = true := by rw [allHex_append, allHex_zeros, allHex_hexStr]; rfl
    have hv : hexVal? (List.replicate k '0' ++ hexStr c) = some c := by
      rw [hexVal_zeros k _ (allHex_hexStr c) (hexStr_ne_nil c), hexVal_hexStr]
    exact ⟨_, parse_push_hex _ (not_yul_of_allHex _ ha) c hv, hexVal_hexStr c⟩
  | hexUpper k =>
    have ha : allHex (List.replicate k '0' ++ hexStrU c) = true := by rw [allHex_append, allHex_zeros, allHex_hexStrU]; rfl
    have hv : hexVal? (List.replicate k '0' ++ hexStrU c) = some c := by
      rw [hexVal_zeros k _ (allHex_hexStrU c) (by simp [hexStrU, hexStr_ne_nil]), hexVal_hexStrU]
    exact ⟨_, parse_push_hex _ (not_yul_of_allHex _ ha) c hv, hexVal_hexStr c⟩
  | hex0x k =>
    have ha : allHex (List.replicate k '0' ++ hexStr c) = true := by rw [allHex_append, allHex_zeros, allHex_hexStr]; rfl
    have hv : hexVal? ('0' :: 'x' :: (List.replicate k '0' ++ hexStr c)) = some c := by
      rw [hexVal_0x _ ha, hexVal_zeros k _ (allHex_hexStr c) (hexStr_ne_nil c), hexVal_hexStr]
    have hy : isYul ('0' :: 'x' :: (List.replicate k '0' ++ hexStr c)) = false := by
      have mem : ∀ ch, (hexDigit? ch).isSome = false → ch ≠ '0' → ch ≠ 'x' → ch ∉ ('0' :: 'x' :: (List.replicate k '0' ++ hexStr c)) := by
        intro ch h1 h2 h3 hm
        simp only [List.mem_cons] at hm
        rcases hm with hm | hm | hm
        · exact h2 hm
        · exact h3 hm
        · have := allHex_mem _ ha ch hm; rw [h1] at this; cases this
      have nt := mem 't' (by decide) (by decide) (by decide)
      have nh := mem '#' (by decide) (by decide) (by decide)
      have nd := mem '$' (by decide) (by decide) (by decide)
      simp only [isYul, hasSub_false_of_not_mem sTag _ 't' (by decide) nt, hasSub_false_of_not_mem sData _ 't' (by decide) nt,
        List.contains_eq_mem, Bool.false_or, Bool.or_false, Bool.or_eq_false_iff, decide_eq_false_iff_not]
      exact ⟨nh, nd⟩
    exact ⟨_, parse_push_hex _ hy c hv, hexVal_hexStr c⟩
  | pushN0x m hm k =>
    have ha : allHex (List.replicate k '0' ++ hexStr c) = true := by rw [allHex_append, allHex_zeros, allHex_hexStr]; rfl
    have hv : hexVal? ('0' :: 'x' :: (List.replicate k '0' ++ hexStr c)) = some c := by
      rw [hexVal_0x _ ha, hexVal_zeros k _ (allHex_hexStr c) (hexStr_ne_nil c), hexVal_hexStr]
    exact ⟨_, parse_pushN_0x m _ hm c hv, hexVal_hexStr c⟩
  | pushN0xUpper m hm k =>
    have ha : allHex (List.replicate k '0' ++ hexStrU c) = true := by rw [allHex_append, allHex_zeros, allHex_hexStrU]; rfl
    have hv : hexVal? ('0' :: 'x' :: (List.replicate k '0' ++ hexStrU c)) = some c := by
      rw [hexVal_0x _ ha, hexVal_zeros k _ (allHex_hexStrU c) (by simp [hexStrU, hexStr_ne_nil]), hexVal_hexStrU]
    exact ⟨_, parse_pushN_0x m _ hm c hv, hexVal_hexStr c⟩
  | pushNdec m hm k =>
    have ha : allDec (List.replicate k '0' ++ decStr c) = true := by rw [allDec_append, allDec_zeros, allDec_decStr]; rfl
    have hv : decVal? (List.replicate k '0' ++ decStr c) = some c := by
      rw [decVal_zeros k _ (decStr_ne_nil c), decVal_decStr]
    exact ⟨_, parse_pushN_dec m _ hm ha c hv, hexVal_hexStr c⟩

/-! ### printing then reading a block -/

theorem splitBlank_noBlank (a : Tok) (h : noBlank a = true) : splitBlank a = [a] := by
  induction a with
  | nil => rfl
  | cons c cs ih =>
    simp only [noBlank, List.contains_cons, Bool.not_or, Bool.and_eq_true, Bool.not_eq_true', beq_eq_false_iff_ne, ne_eq] at h
    have hc : c ≠ ' ' := fun hh => h.1 hh.symm
    have hcs : noBlank cs = true := by simp only [noBlank, h.2]; rfl
    simp only [splitBlank, hc, if_false, ih hcs]

theorem splitBlank_append (a b : Tok) (h : noBlank a = true) : splitBlank (a ++ ' ' :: b) = a :: splitBlank b := by
  induction a with
  | nil => simp [splitBlank]
  | cons c cs ih =>
    simp only [noBlank, List.contains_cons, Bool.not_or, Bool.and_eq_true, Bool.not_eq_true', beq_eq_false_iff_ne, ne_eq] at h
    have hc : c ≠ ' ' := fun hh => h.1 hh.symm
    have hcs : noBlank cs = true := by simp only [noBlank, h.2]; rfl
    simp only [List.cons_append, splitBlank, hc, if_false, ih hcs]

theorem splitBlank_ne_nil (d : Tok) : splitBlank d ≠ [] := by
  induction d with
  | nil => simp [splitBlank]
  | cons c cs ih =>
    simp only [splitBlank]
    split
    · simp
    · split <;> simp

theorem joinBlank_splitBlank (d : Tok) : joinBlank (splitBlank d) = d := by
  induction d with
  | nil => rfl
  | cons c cs ih =>
    simp only [splitBlank]
    split
    · rename_i hc
      match h : splitBlank cs with
      | [] => exact absurd h (splitBlank_ne_nil cs)
      | x :: r => rw [h] at ih; simp [joinBlank, ih, hc]
    · match h : splitBlank cs with
      | [] => exact absurd h (splitBlank_ne_nil cs)
      | [x] => rw [h] at ih; simp [joinBlank] at ih ⊢; exact ih
      | x :: y :: r => rw [h] at ih; simp [joinBlank] at ih ⊢; exact ih

theorem hexStr_zero : hexStr 0 = ['0'] := Nat.toDigits_zero 16

theorem digitsVal_some (dig : Char → Option Nat) (b : Nat) (ds : Tok) (acc : Nat)
    (h : ∀ c ∈ ds, (dig c).isSome = true) : ∃ n, digitsVal dig b ds acc = some n := by
  induction ds generalizing acc with
  | nil => exact ⟨acc, rfl⟩
  | cons c cs ih =>
    have hc := h c (by simp)
    cases hd : dig c with
    | none => simp [hd] at hc
    | some d =>
      simp only [digitsVal, hd]
      exact ih _ (fun x hx => h x (List.mem_cons_of_mem _ hx))

theorem simple_cons (d : Tok) (h : simple d = true) : noBlank d = true ∧ ∃ c r, d = c :: r := by
  simp only [simple, Bool.and_eq_true, Bool.not_eq_true'] at h
  refine ⟨h.1, ?_⟩
  match d, h.2 with
  | c :: r, _ => exact ⟨c, r, rfl⟩
  | [], h2 => simp at h2

/-- one printed item is read back as `opOf` of it, whatever follows -/
theorem parse_step (p0 : Bool) (i : Item) (c : Cls) (hc : classOf i = some c) (rest : List Tok) (tbl : List Tok)
    (fuel : Nat) :
    parseOps (fuel + 1) (toPlain p0 i ++ rest) tbl = (parseOps fuel rest tbl).map (opOf i :: ·) := by
  obtain ⟨d, val⟩ := i
  unfold classOf at hc
  cases val with
  | none =>
    simp only at hc
    split at hc
    · -- PUSH0 item
      rename_i h0
      have hd : d = sPUSH0 := by simpa using h0
      subst hd
      have hcl : classOf ⟨sPUSH0, none⟩ = some .zero := by simp [classOf]
      have ht : toPlain p0 ⟨sPUSH0, none⟩ = [sPUSH0] := by cases p0 <;> simp [toPlain, sPUSH0, sPUSH]
      have h1 : tagLike sPUSH0 = false := by decide
      have h2 : sPUSHLIB.isPrefixOf sPUSH0 = false := by decide
      have h3 : isPush sPUSH0 = true := by decide
      have h4 : hasSub sDeploy sPUSH0 = false := by decide
      have h5 : hasSub sSize sPUSH0 = false := by decide
      have h6 : sPUSH0.isPrefixOf sPUSH0 = true := by decide
      simp [ht, parseOps, h1, h2, h3, h4, h5, h6, opOf, hcl]
    · split at hc
      · rename_i h0 hb
        simp only [Bool.and_eq_true, Bool.not_eq_true', Bool.or_eq_true] at hb
        obtain ⟨⟨⟨hs, ht⟩, hl⟩, hp⟩ := hb
        have hcl : classOf ⟨d, none⟩ = some .bare := by
          simp [classOf, h0, hs, ht, hl]
          intro a b; rcases hp with (hp | hp) | hp <;> simp_all
        have htp : toPlain p0 ⟨d, none⟩ = [d] := by
          have : (d == sPUSH) = false ∨ True := Or.inr trivial
          simp [toPlain]
        simp only [htp, List.singleton_append, parseOps, ht, hl, Bool.false_eq_true, if_false, opOf, hcl]
        rcases hp with (hp | hp) | hp
        · simp [hp]
        · by_cases h3 : isPush d = true <;> simp [h3, hp]
        · by_cases h3 : isPush d = true <;> by_cases h4 : hasSub sDeploy d = true <;> simp [h3, h4, hp]
      · simp at hc
  | some v =>
    simp only at hc
    split at hc
    · simp at hc
    · rename_i hj
      have hj' : hasSub sJump d = false := by simpa using hj
      split at hc
      · -- tag / ASSIGNIMMUTABLE
        rename_i htag
        split at hc
        · rename_i hsv
          simp only [Bool.and_eq_true] at hsv
          obtain ⟨⟨nb, c0, r0, rfl⟩, hv⟩ := And.intro (simple_cons d hsv.1) hsv.2
          have hcl : classOf ⟨c0 :: r0, some v⟩ = some .tagged := by simp [classOf, hj', htag, hsv]
          have hne : ((c0 :: r0) == sPUSH) = false := by
            cases h : ((c0 :: r0) == sPUSH) with
            | false => rfl
            | true =>
              have : c0 :: r0 = sPUSH := by simpa using h
              rw [this] at htag; revert htag; decide
          have htp : toPlain p0 ⟨c0 :: r0, some v⟩ = [c0 :: r0, v] := by
            simp [toPlain, hne, hj', splitBlank_noBlank _ nb]
          simp [htp, parseOps, htag, opOf, hcl]
        · simp at hc
      · rename_i htag
        have htag' : tagLike d = false := by simpa using htag
        split at hc
        · simp at hc
        · rename_i hhex
          have hhex' : (allHex v && !v.isEmpty) = true := by simpa using hhex
          simp only [Bool.and_eq_true, Bool.not_eq_true', List.isEmpty_eq_false_iff] at hhex'
          have hvh : allHex v = true ∧ v ≠ [] := hhex'
          obtain ⟨n, hn⟩ : ∃ n, hexVal? v = some n := by
            rw [hexVal_allHex v hvh.1 hvh.2]
            exact digitsVal_some _ _ _ _ (fun c hc => allHex_mem v hvh.1 c hc)
          have hy : isYul v = false := not_yul_of_allHex v hvh.1
          split at hc
          · -- a push with a numeric value
            rename_i hnum
            simp only [Bool.and_eq_true, Bool.not_eq_true'] at hnum
            obtain ⟨⟨⟨⟨⟨⟨hs, hp⟩, hl⟩, hdp⟩, hsz⟩, h0⟩, hN⟩ := hnum
            obtain ⟨nb, c0, r0, rfl⟩ := simple_cons d hs
            have hcl : classOf ⟨c0 :: r0, some v⟩ = some .num := by
              simp [classOf, hj', htag', hvh.1, hvh.2, hs, hp, hl, hdp, hsz, h0, hN]
            by_cases hz : (p0 && (c0 :: r0) == sPUSH && v == ['0']) = true
            · simp only [Bool.and_eq_true, beq_iff_eq] at hz
              obtain ⟨⟨hp0, hd⟩, hv0⟩ := hz
              rw [hd, hv0] at hcl ⊢
              have htp : toPlain p0 ⟨sPUSH, some ['0']⟩ = [sPUSH0] := by simp [toPlain, hp0]
              have h1 : tagLike sPUSH0 = false := by decide
              have h2 : sPUSHLIB.isPrefixOf sPUSH0 = false := by decide
              have h3 : isPush sPUSH0 = true := by decide
              have h4 : hasSub sDeploy sPUSH0 = false := by decide
              have h5 : hasSub sSize sPUSH0 = false := by decide
              have h6 : sPUSH0.isPrefixOf sPUSH0 = true := by decide
              have hv : hexVal? ['0'] = some 0 := by decide
              simp [htp, parseOps, h1, h2, h3, h4, h5, h6, opOf, hcl, hv, hexStr_zero]
            · have htp : toPlain p0 ⟨c0 :: r0, some v⟩ = [c0 :: r0, v] := by
                simp only [toPlain]
                rw [if_neg (by simpa using hz)]
                simp [hj', splitBlank_noBlank _ nb]
              simp [htp, parseOps, htag', hl, hp, hdp, hsz, h0, hN, hy, hn, opOf, hcl]
          · -- PUSH [tag] and the other keyword pushes
            rename_i hnn
            split at hc
            · rename_i p k hsp
              split at hc
              · rename_i hk
                simp only [Bool.and_eq_true, beq_iff_eq] at hk
                obtain ⟨⟨hp, hsk⟩, hyk⟩ := hk
                subst hp
                have hd : d = sPUSH ++ ' ' :: k := by
                  have := joinBlank_splitBlank d
                  rw [hsp] at this; simpa [joinBlank] using this.symm
                subst hd
                have hcl : classOf ⟨sPUSH ++ ' ' :: k, some v⟩ = some .kw := by
                  simp only [classOf, hj', htag', Bool.false_eq_true, if_false, hvh.1, Bool.true_and,
                    List.isEmpty_eq_false_iff.mpr hvh.2, Bool.not_false, Bool.not_true, hnn, hsp]
                  simp [hsk, hyk]
                have hne : (sPUSH ++ ' ' :: k == sPUSH) = false := by
                  cases h : (sPUSH ++ ' ' :: k == sPUSH) with
                  | false => rfl
                  | true =>
                    have : sPUSH ++ ' ' :: k = sPUSH := by simp at h
                    have h2 : splitBlank sPUSH = [sPUSH] := by decide
                    rw [this, h2] at hsp; simp at hsp
                have htp : toPlain p0 ⟨sPUSH ++ ' ' :: k, some v⟩ = [sPUSH, k, v] := by
                  simp [toPlain, hne, hj', hsp]
                have h1 : tagLike sPUSH = false := by decide
                have h2 : sPUSHLIB.isPrefixOf sPUSH = false := by decide
                have h3 : isPush sPUSH = true := by decide
                have h4 : hasSub sDeploy sPUSH = false := by decide
                have h5 : hasSub sSize sPUSH = false := by decide
                have h6 : sPUSH0.isPrefixOf sPUSH = false := by decide
                have h7 : isPushN sPUSH = false := by decide
                simp [htp, parseOps, h1, h2, h3, h4, h5, h6, h7, hyk, hn, opOf, hcl]
              · simp at hc
            · simp at hc

theorem parseOps_print (p0 : Bool) (tbl : List Tok) :
    ∀ (B : List Item) (fuel : Nat), covered B = true → B.length ≤ fuel →
      parseOps fuel (printBlock p0 B) tbl = some (B.map opOf)
  | [], fuel, _, _ => by cases fuel <;> simp [printBlock, parseOps]
  | i :: B, 0, _, hf => by simp at hf
  | i :: B, fuel + 1, hc, hf => by
    simp only [covered, List.all_cons, Bool.and_eq_true] at hc
    obtain ⟨c, hcl⟩ := Option.isSome_iff_exists.mp hc.1
    have ih := parseOps_print p0 tbl B fuel (by simpa [covered] using hc.2) (by simpa using hf)
    simp only [printBlock, List.flatMap_cons] at ih ⊢
    rw [parse_step p0 i c hcl, ih]
    rfl

theorem toPlain_length_pos (p0 : Bool) (i : Item) : 1 ≤ (toPlain p0 i).length := by
  unfold toPlain
  split
  · simp
  · split
    · split <;> simp
    · simp

theorem printBlock_length (p0 : Bool) (B : List Item) : B.length ≤ (printBlock p0 B).length := by
  induction B with
  | nil => simp [printBlock]
  | cons i B ih =>
    simp only [printBlock, List.flatMap_cons, List.length_append, List.length_cons] at ih ⊢
    have := toPlain_length_pos p0 i
    omega

/-- **C15, second clause on the model**: printing a block (with either PUSH0 setting) and reading the text back
    yields the block again — every item is read as `opOf` of it: names and tagged values unchanged, numeric values
    as the canonical spelling of the same number, a zero push as `PUSH 0` -/
theorem parse_print (p0 : Bool) (B : List Item) (h : covered B = true) :
    parse (printBlock p0 B) = some (B.map opOf) :=
  parseOps_print p0 [] B _ h (printBlock_length p0 B)

/-- the value of a numeric item is preserved by the round trip -/
theorem opOf_num_value (i : Item) (v : Tok) (n : Nat) (hv : i.value = some v) (hn : hexVal? v = some n)
    (hc : classOf i = some .num ∨ classOf i = some .kw) :
    ∃ w, (opOf i).value = .str w ∧ hexVal? w = some n ∧ (opOf i).name = i.disasm := by
  rcases hc with hc | hc <;> exact ⟨hexStr n, by simp [opOf, hc, hv, hn], hexVal_hexStr n, by simp [opOf, hc, hv]⟩

/-- canonical digits are kept literally: `hex(int(v,16))[2:] = v` when `v` is what `hex` prints -/
theorem hexStr_hexVal_canonical (n : Nat) : (hexVal? (hexStr n)).map hexStr = some (hexStr n) := by
  simp [hexVal_hexStr]

end GasolVerif.Plain
