import GasolVerif.Concrete
open GasolVerif

def parseWords? (s : String) : Option (List Word) :=
  ((s.splitOn ",").filter (· ≠ "")).mapM fun h => (parseHex? h).map (BitVec.ofNat 256)

/-- one request line (tab separated) → one response line -/
def handle (line : String) : String :=
  match line.splitOn "\t" with
  | ["PING"] => "PONG"
  | ["PARSE", b] =>
    match parseBlock? b with
    | some is => "ok " ++ " ".intercalate (is.map Instr.toToken)
    | none => "error:parse"
  | ["EXEC2", seed, stack, b₁, b₂] =>
    match seed.toNat?, parseWords? stack, parseBlock? b₁, parseBlock? b₂ with
    | some sd, some st, some B, some B' => Concrete.compare sd st B B'
    | _, _, _, _ => "error:parse"
  | _ => "error:unknown-request"

partial def loop (h : IO.FS.Stream) (out : IO.FS.Stream) : IO Unit := do
  let line ← h.getLine
  if line.isEmpty then return ()
  let l := if line.endsWith "\n" then (line.dropEnd 1).toString else line
  out.putStrLn (handle l)
  loop h out

def main : IO Unit := do
  let out ← IO.getStdout
  loop (← IO.getStdin) out
  out.flush
