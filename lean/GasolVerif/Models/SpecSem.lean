/-
  (F/V) C02: concrete meaning of a specification's memory/storage operations under a schedule, with load
  results as opaque symbols, and the syntactic conflict relation whose complement commutes.
  `Proofs/SpecSound.lean` instantiates `schedule_indep` with it.   No Mathlib.
-/
import GasolVerif.Models.Spec
import GasolVerif.Concrete
namespace GasolVerif.Spec

/-- the symbol that stands for the result of the load writing variable `o`: the variable name itself
    (specification variables `s(k)` and pseudo-push texts `PUSH_[tag]:5` never coincide) -/
def loadSym (o : String) : String := o

/-- every load result is an opaque symbol: pure argument terms then do not depend on the schedule -/
def opaqueEnv (S : Spec) : Env :=
  (S.instrs.filter (·.isEffect)).filterMap fun u => u.out.map fun o => (o, Tm.sym (loadSym o))

/-- names the loaded-value map may define: outputs of the specification's memory/storage operations -/
def loadOuts (S : Spec) : List String := (S.instrs.filter (·.isEffect)).filterMap (·.out)

/-- side conditions on names: load results are not initial stack variables and not pseudo-push texts -/
def namesOk (S : Spec) : Bool :=
  (loadOuts S).all (fun o => !S.src.contains o) && S.instrs.all (fun u => !(loadOuts S).contains u.sym) &&
  (loadOuts S).all (fun o => match S.producer? o with
    | some u => u.isEffect
    | none => false)

def argsTm (S : Spec) (u : UInstr) : Option (List Tm) := termsOf S (opaqueEnv S) (fuelOf S) u.inp

/-- what one memory/storage operation does, with its argument terms -/
inductive Eff
  | wmem (a v : Tm) | bmem (a v : Tm) | wsto (k v : Tm)
  | rmem (o : String) (a : Tm) | rsto (o : String) (k : Tm) | hmem (o : String) (off len : Tm)
  | skip
  deriving Repr, DecidableEq

def effOf (S : Spec) (u : UInstr) : Eff :=
  match u.op, argsTm S u, u.out with
  | "MSTORE", some [a, v], _ => .wmem a v
  | "MSTORE8", some [a, v], _ => .bmem a v
  | "SSTORE", some [k, v], _ => .wsto k v
  | "MLOAD", some [a], some o => .rmem o a
  | "SLOAD", some [k], some o => .rsto o k
  | "KECCAK256", some [off, len], some o => .hmem o off len
  | "SHA3", some [off, len], some o => .hmem o off len
  | _, _, _ => .skip

/-- concrete state of a scheduled evaluation: the values loaded so far, memory, storage -/
structure CSt where
  lv : String → Option Word
  mem : Mem
  sto : Sto

/-- the environment in which argument terms are evaluated: load symbols read the loaded values -/
def withLoads (e : GasolVerif.Env) (lv : String → Option Word) : GasolVerif.Env :=
  { e with sym := fun s => (lv s).getD (e.sym s) }

def setLv (lv : String → Option Word) (o : String) (w : Word) : String → Option Word :=
  fun s => if s = loadSym o then some w else lv s

def actEff (e : GasolVerif.Env) (σ₀ : St) (f : Eff) (c : CSt) : CSt :=
  let ev := fun t => evalW (withLoads e c.lv) σ₀ t
  match f with
  | .wmem a v => { c with mem := c.mem.writeWord (ev a).toNat (ev v) }
  | .bmem a v => { c with mem := c.mem.writeByte (ev a).toNat (ev v) }
  | .wsto k v => { c with sto := c.sto.write (ev k) (ev v) }
  | .rmem o a => { c with lv := setLv c.lv o (c.mem.readWord (ev a).toNat) }
  | .rsto o k => { c with lv := setLv c.lv o (c.sto (ev k)) }
  | .hmem o off len => { c with lv := setLv c.lv o (e.keccak (ev len).toNat (fun i => c.mem ((ev off).toNat + i))) }
  | .skip => c

/-- pure terms: no memory, storage or hash nodes (argument terms under the opaque environment) -/
def isPure : Tm → Bool
  | .const _ | .var _ | .sym _ | .env0 _ => true
  | .env1 _ a | .un _ a => isPure a
  | .bin _ a b => isPure a && isPure b
  | .ter _ a b c => isPure a && isPure b && isPure c
  | _ => false

/-- the load symbol of `o` occurs in `t` -/
def usesLoad (o : String) : Tm → Bool
  | .sym s => s == loadSym o
  | .env1 _ a | .un _ a => usesLoad o a
  | .bin _ a b => usesLoad o a || usesLoad o b
  | .ter _ a b c => usesLoad o a || usesLoad o b || usesLoad o c
  | .mload m a => usesLoad o m || usesLoad o a
  | .sload s k => usesLoad o s || usesLoad o k
  | .keccak m a l => usesLoad o m || usesLoad o a || usesLoad o l
  | .mstore m a v | .mstore8 m a v | .sstore m a v => usesLoad o m || usesLoad o a || usesLoad o v
  | _ => false

def Eff.args : Eff → List Tm
  | .wmem a v | .bmem a v | .wsto a v => [a, v]
  | .rmem _ a | .rsto _ a => [a]
  | .hmem _ a l => [a, l]
  | .skip => []

def Eff.out? : Eff → Option String
  | .rmem o _ | .rsto o _ | .hmem o _ _ => some o
  | _ => none

def Eff.wf (f : Eff) : Bool := f.args.all isPure

/-- `g` reads the value that `f` loads -/
def flows (f g : Eff) : Bool :=
  match f.out? with
  | some o => g.args.any (usesLoad o)
  | none => false

/-- memory range of an effect: address term, size (none = unknown), writes? -/
def Eff.memAcc : Eff → Option (Tm × Option Nat × Bool)
  | .wmem a _ => some (a, some 32, true)
  | .bmem a _ => some (a, some 1, true)
  | .rmem _ a => some (a, some 32, false)
  | .hmem _ a l => some (a, Norm.constLen? l, false)
  | _ => none

def Eff.stoAcc : Eff → Option (Tm × Bool)
  | .wsto k _ => some (k, true)
  | .rsto _ k => some (k, false)
  | _ => none

/-- syntactic conflict: data flow either way, two loads into the same variable, or two accesses to the same
    space one of which writes and whose ranges / keys are not provably disjoint -/
def conflCore (f g : Eff) : Bool :=
  flows f g || flows g f ||
  (match f.out?, g.out? with
   | some o, some o' => o == o'
   | _, _ => false) ||
  (match f.memAcc, g.memAcc with
   | some (a, sa, wa), some (b, sb, wb) =>
     (wa || wb) &&
       (match sa, sb with
        | some na, some nb => !(Norm.disjoint a na b nb || Norm.disjoint b nb a na)
        | _, _ => true)
   | _, _ => false) ||
  (match f.stoAcc, g.stoAcc with
   | some (k, wa), some (j, wb) => (wa || wb) && !(Norm.keysDiffer k j)
   | _, _ => false)

/-- the conflict relation: an operation does not conflict with an identical one (same kind, same argument terms,
    same output: running it twice in either order is the same run), otherwise `conflCore` -/
def confl (f g : Eff) : Bool := !(decide (f = g)) && conflCore f g

/-- the effect of the operation with identifier `id` (`skip` for an unknown identifier) -/
def effId (S : Spec) (id : String) : Eff :=
  match S.find? id with
  | some u => effOf S u
  | none => .skip

/-- executable premise of `admissible_schedules_agree`: every operation's arguments are pure terms and every
    conflicting pair is connected by `edges` one way or the other -/
def conflictsOrdered (S : Spec) (edges : List (String × String)) (fuel : Nat) (L : List String) : Bool :=
  L.all (fun a => (effId S a).wf) &&
  L.all fun a => L.all fun b =>
    a == b || !(confl (effId S a) (effId S b)) || reach edges fuel a b || reach edges fuel b a

/-- first conflicting pair that `edges` leaves unordered (for reporting) -/
def firstUnordered (S : Spec) (edges : List (String × String)) (fuel : Nat) (L : List String) : Option (String × String) :=
  (L.flatMap fun a => L.map fun b => (a, b)).find? fun (a, b) =>
    a < b && confl (effId S a) (effId S b) && !(reach edges fuel a b || reach edges fuel b a)

def respectsB (L : List String) (edges : List (String × String)) : Bool :=
  edges.all fun (x, y) => L.idxOf x < L.idxOf y

/-- addresses and keys a memory / storage term writes, under a concrete environment (observation only) -/
partial def touchedOf (e : GasolVerif.Env) (σ : St) : Tm → Concrete.Touched → Concrete.Touched
  | .mstore m a _, t => touchedOf e σ m { t with addrs := Concrete.wordRange (evalW e σ a).toNat ++ t.addrs }
  | .mstore8 m a _, t => touchedOf e σ m { t with addrs := (evalW e σ a).toNat :: t.addrs }
  | .sstore s k _, t => touchedOf e σ s { t with keys := evalW e σ k :: t.keys }
  | _, t => t

/-- SPECRUN: the specification evaluated under the schedule, on a concrete state, against the block run from the same
    state (failing-input search for a `mismatch` of SPECCHK; never a verdict of "holds") -/
def handleSpecRun (seed stack block src tgt instrs deps sched : String) : String :=
  match seed.toNat?, ((stack.splitOn ",").filter (· ≠ "")).mapM (fun h => (parseHex? h).map (BitVec.ofNat 256)),
      parseBlock? block, parseSpec src tgt instrs deps with
  | some sd, some st, some B, some S =>
    match evalSpec S (splitNE sched ",") with
    | none => "error:does-not-evaluate"
    | some X =>
      let e := Concrete.env sd
      let σ := Concrete.initSt sd st
      if σ.stack.length < X.base then "skip:stack-too-short" else
      match Concrete.run e B σ {} with
      | (none, _) => "skip:block-fails"
      | (some a, t) =>
        let b := X.conc e σ
        let t' := touchedOf e σ X.sto (touchedOf e σ X.mem t)
        match Concrete.diffSt a b t' with
        | none => "same"
        | some d => "diff:" ++ d
  | _, _, _, _ => "error:parse"

/-- a load whose result nothing uses (no operand, not in the target stack) cannot influence what the specification
    denotes: such loads are left out before the schedules are checked -/
def deadLoads (S : Spec) : List String :=
  (S.instrs.filter fun u =>
    (u.op == "MLOAD" || u.op == "SLOAD" || u.op == "KECCAK256" || u.op == "SHA3") &&
    match u.out with
    | some o => !(S.tgt.contains (.var o)) && !(S.instrs.any fun w => w.inp.contains (.var o))
    | none => false).map (·.id)

def pruneDeadOnce (S : Spec) : Spec :=
  let dead := deadLoads S
  -- an ordering that went through a removed load is kept: a → load → b becomes a → b
  let through := S.deps.flatMap fun (a, d) =>
    if dead.contains d then (S.deps.filter fun (d', _) => d' == d).map fun (_, b) => (a, b) else []
  { S with instrs := S.instrs.filter (fun u => !dead.contains u.id),
           deps := (S.deps ++ through).filter fun (a, b) => !dead.contains a && !dead.contains b }

def pruneDead (S : Spec) : Spec := (List.range S.instrs.length).foldl (fun T _ => pruneDeadOnce T) S


/-- SPECCHK: (1) `conflictsOrdered` on the first schedule (premise of `checked_schedules_agree`: conflicting
    operations are connected by dependences + data flow); (2) every given schedule is a permutation of the
    operations and respects those pairs; (3) the specification evaluated under each given schedule is the
    block (symbolic execution, proved normaliser) -/
def handleSpecChk (nf : Normaliser) (block src tgt instrs deps scheds : String) : String :=
  match parseBlock? block, (parseSpec src tgt instrs deps).map pruneDead with
  | some B, some S =>
    -- loads whose result nothing uses are left out (see `deadLoads`); the schedules lose their identifiers
    let ids := S.instrs.map (·.id)
    let Ls := ((scheds.splitOn "|").map (splitNE · ",")).map fun L => L.filter ids.contains
    match Ls with
    | [] => "error:no-schedule"
    | L0 :: _ =>
      let edges := (S.deps ++ dataEdges S).filter fun (x, y) => L0.contains x && L0.contains y
      let fuel := edges.length + 1
      if !(namesOk S) then "error:load-result-name-clash" else
      if !(decide L0.Nodup && Ls.all (L0.isPerm ·)) then "error:schedules-not-permutations" else
      if !(L0.all fun a => (effId S a).wf) then "error:impure-argument-term" else
      match firstUnordered S edges fuel L0 with
      | some (a, b) => s!"conflict:{a},{b}"
      | none =>
        if !(conflictsOrdered S edges fuel L0) then "error:conflictsOrdered-disagrees" else
        match Ls.zipIdx.find? (fun (L, _) => !(respectsDeps S L && respectsB L edges)) with
        | some (_, i) => s!"error:schedule-{i}-not-admissible"
        | none =>
          match Ls.zipIdx.find? (fun (L, _) => !(scheduleMatches nf S L B)) with
          | some (L, i) =>
            match evalSpec S L with
            | none => s!"error:schedule-{i}-does-not-evaluate"
            | some _ => s!"mismatch:{i}:{",".intercalate L}"
          | none => s!"ok:{Ls.length}"
  | _, _ => "error:parse"

end GasolVerif.Spec
