import GasolVerif.Models.Asm
set_option linter.unusedSimpArgs false
namespace GasolVerif.Asm

theorem subBlocksAux_ne (body : List (String × Bool)) (cur : List String) : subBlocksAux body cur ≠ [] := by
  induction body generalizing cur with
  | nil => simp [subBlocksAux]
  | cons x rest ih =>
    obtain ⟨i, c⟩ := x
    simp only [subBlocksAux]
    split
    · simp
    · exact ih _

theorem joinShared_aux (body : List (String × Bool)) (cur : List String) :
    joinShared (subBlocksAux body cur) = cur.reverse ++ body.map (·.1) := by
  induction body generalizing cur with
  | nil => simp [subBlocksAux, joinShared]
  | cons x rest ih =>
    obtain ⟨i, c⟩ := x
    simp only [subBlocksAux]
    split
    · have hne := subBlocksAux_ne rest [i]
      have ih' := ih [i]
      cases hT : subBlocksAux rest [i] with
      | nil => exact absurd hT hne
      | cons t rest' =>
        rw [hT] at ih'
        simp only [joinShared, ih']
        simp
    · rw [ih]; simp

/-- **splitting partitions the block**: joining the reported sub-blocks at their shared instruction
    gives back exactly the instruction sequence, for every choice of cut positions -/
theorem joinShared_subBlocks (body : List (String × Bool)) :
    joinShared (subBlocks body) = body.map (·.1) := by
  simp [subBlocks, joinShared_aux]

theorem head_aux (body : List (String × Bool)) (cur : List String) (hc : cur ≠ []) :
    ∃ t rest', subBlocksAux body cur = t :: rest' ∧ t.head? = cur.reverse.head? := by
  induction body generalizing cur with
  | nil => exact ⟨cur.reverse, [], by simp [subBlocksAux], rfl⟩
  | cons x rest ih =>
    obtain ⟨i, c⟩ := x
    simp only [subBlocksAux]
    have hh : (i :: cur).reverse.head? = cur.reverse.head? := by
      have : cur.reverse ≠ [] := by simpa using hc
      simp only [List.reverse_cons]
      cases hr : cur.reverse with
      | nil => exact absurd hr this
      | cons a as => simp
    split
    · exact ⟨(i :: cur).reverse, subBlocksAux rest [i], rfl, hh⟩
    · obtain ⟨t, r', h1, h2⟩ := ih (i :: cur) (by simp)
      exact ⟨t, r', h1, h2.trans hh⟩

/-- consecutive sub-blocks share exactly the splitting instruction -/
theorem sharedOk_aux (body : List (String × Bool)) (cur : List String) :
    sharedOk (subBlocksAux body cur) = true := by
  induction body generalizing cur with
  | nil => simp [subBlocksAux, sharedOk]
  | cons x rest ih =>
    obtain ⟨i, c⟩ := x
    simp only [subBlocksAux]
    split
    · obtain ⟨t, r', h1, h2⟩ := head_aux rest [i] (by simp)
      have ih' := ih [i]
      rw [h1] at ih' ⊢
      simp only [sharedOk, ih', Bool.and_true]
      simp [h2]
    · exact ih _

theorem sharedOk_subBlocks (body : List (String × Bool)) : sharedOk (subBlocks body) = true :=
  sharedOk_aux body []

/-! ### rebuilding with nothing replaced is the identity -/

def noRepl : Nat → Option (List String) := fun _ => none

theorem stripSharedTail_ne (T : List (List String)) (h : T ≠ []) : stripShared.stripSharedTail T ≠ [] := by
  match T, h with
  | [s], _ => simp [stripShared.stripSharedTail]
  | s :: t :: r, _ => simp [stripShared.stripSharedTail]

theorem rebuild_tail (body : List (String × Bool)) (cur : List String) (hc : cur ≠ []) (k : Nat) :
    rebuildBody (stripShared.stripSharedTail (subBlocksAux body cur)) (sharedOf (subBlocksAux body cur)) noRepl k
      = (cur.reverse ++ body.map (·.1)).drop 1 := by
  induction body generalizing cur k with
  | nil => simp [subBlocksAux, stripShared.stripSharedTail, sharedOf, rebuildBody, noRepl]
  | cons x rest ih =>
    obtain ⟨i, c⟩ := x
    simp only [subBlocksAux]
    split
    · have hne := subBlocksAux_ne rest [i]
      cases hT : subBlocksAux rest [i] with
      | nil => exact absurd hT hne
      | cons t r' =>
        have ih' := ih [i] (by simp) (k + 1)
        rw [hT] at ih'
        have hst := stripSharedTail_ne (t :: r') (by simp)
        cases hS : stripShared.stripSharedTail (t :: r') with
        | nil => exact absurd hS hst
        | cons a as =>
          rw [hS] at ih'
          have hr : cur.reverse ≠ [] := by simpa using hc
          have hlast : (cur.reverse ++ [i]).getLast? = some i := by simp
          simp only [stripShared.stripSharedTail, sharedOf, hS, List.reverse_cons, hlast, Option.toList,
            List.singleton_append, List.cons_append, List.nil_append, rebuildBody]
          rw [ih']
          simp only [noRepl, Option.getD_none]
          cases hcr : cur.reverse with
          | nil => exact absurd hcr hr
          | cons y ys => simp
    · have := ih (i :: cur) (by simp) k
      rw [this]; simp

theorem rebuild_head (body : List (String × Bool)) (cur : List String) :
    rebuildBody (stripShared (subBlocksAux body cur)) (sharedOf (subBlocksAux body cur)) noRepl 0
      = cur.reverse ++ body.map (·.1) := by
  induction body generalizing cur with
  | nil => simp [subBlocksAux, stripShared, sharedOf, rebuildBody, noRepl]
  | cons x rest ih =>
    obtain ⟨i, c⟩ := x
    simp only [subBlocksAux]
    split
    · have hne := subBlocksAux_ne rest [i]
      cases hT : subBlocksAux rest [i] with
      | nil => exact absurd hT hne
      | cons t r' =>
        have tl := rebuild_tail rest [i] (by simp) 1
        rw [hT] at tl
        have hst := stripSharedTail_ne (t :: r') (by simp)
        cases hS : stripShared.stripSharedTail (t :: r') with
        | nil => exact absurd hS hst
        | cons a as =>
          rw [hS] at tl
          have hlast : (cur.reverse ++ [i]).getLast? = some i := by simp
          simp only [stripShared, sharedOf, hS, List.reverse_cons, hlast, Option.toList,
            List.singleton_append, List.cons_append, List.nil_append, rebuildBody]
          rw [tl]
          simp only [noRepl, Option.getD_none]
          simp
    · rw [ih]; simp

/-- **rebuilding a block when no sub-block was replaced returns the block unchanged** -/
theorem rebuild_none (pre post : List String) (body : List (String × Bool)) :
    rebuild pre (subBlocks body) post noRepl = pre ++ body.map (·.1) ++ post := by
  simp [rebuild, subBlocks, rebuild_head]

/-- replace exactly the sub-block with index `k` -/
def oneRepl (k : Nat) (R : List String) : Nat → Option (List String) := fun i => if i = k then some R else none

/-- the rebuilt body depends on the replacement function only at the indices it visits -/
theorem rebuildBody_congr : ∀ (segs : List (List String)) (shared : List String) (f g : Nat → Option (List String)) (i : Nat),
    (∀ j, i ≤ j → f j = g j) → rebuildBody segs shared f i = rebuildBody segs shared g i
  | [], _, _, _, _, _ => by simp [rebuildBody]
  | [sg], shared, f, g, i, h => by cases shared <;> simp [rebuildBody, h i (Nat.le_refl _)]
  | sg :: t :: rest, [], f, g, i, h => by
    simp [rebuildBody, h i (Nat.le_refl _), rebuildBody_congr (t :: rest) [] f g (i + 1) (fun j hj => h j (by omega))]
  | sg :: t :: rest, sp :: sps, f, g, i, h => by
    simp [rebuildBody, h i (Nat.le_refl _), rebuildBody_congr (t :: rest) sps f g (i + 1) (fun j hj => h j (by omega))]

/-- **replacing one sub-block changes only that segment** (body level): the rebuilt body is the unchanged body
    with the `k`-th segment exchanged for `R`, the text before and after it not depending on `R` -/
theorem rebuildBody_one : ∀ (segs : List (List String)) (shared : List String) (i k : Nat) (_hk : i ≤ k)
    (hlt : k - i < segs.length),
    ∃ p s, (∀ R, rebuildBody segs shared (oneRepl k R) i = p ++ R ++ s) ∧
      rebuildBody segs shared noRepl i = p ++ segs[k - i] ++ s
  | [], _, _, _, _, hlt => by simp at hlt
  | [sg], shared, i, k, _, hlt => by
    have hki : k = i := by simp at hlt; omega
    subst hki
    refine ⟨[], [], ?_, ?_⟩
    · intro R; cases shared <;> simp [rebuildBody, oneRepl]
    · cases shared <;> simp [rebuildBody, noRepl]
  | sg :: t :: rest, shared, i, k, hk, hlt => by
    by_cases hki : k = i
    · subst hki
      cases shared with
      | nil =>
        refine ⟨[], rebuildBody (t :: rest) [] noRepl (k + 1), ?_, ?_⟩
        · intro R
          have hrest : rebuildBody (t :: rest) [] (oneRepl k R) (k + 1) = rebuildBody (t :: rest) [] noRepl (k + 1) :=
            rebuildBody_congr _ _ _ _ _ (by intro j hj; simp [oneRepl, noRepl]; omega)
          simp [rebuildBody, oneRepl, hrest]
        · simp [rebuildBody, noRepl]
      | cons sp sps =>
        refine ⟨[], sp :: rebuildBody (t :: rest) sps noRepl (k + 1), ?_, ?_⟩
        · intro R
          have hrest : rebuildBody (t :: rest) sps (oneRepl k R) (k + 1) = rebuildBody (t :: rest) sps noRepl (k + 1) :=
            rebuildBody_congr _ _ _ _ _ (by intro j hj; simp [oneRepl, noRepl]; omega)
          simp [rebuildBody, oneRepl, hrest]
        · simp [rebuildBody, noRepl]
    · have hk' : i + 1 ≤ k := by omega
      have hlt' : k - (i + 1) < (t :: rest).length := by simp at hlt ⊢; omega
      have hidx : (sg :: t :: rest)[k - i]'hlt = (t :: rest)[k - (i + 1)]'hlt' := by
        have : k - i = (k - (i + 1)) + 1 := by omega
        simp [this]
      cases shared with
      | nil =>
        obtain ⟨p, s, h1, h2⟩ := rebuildBody_one (t :: rest) [] (i + 1) k hk' hlt'
        refine ⟨sg ++ p, s, ?_, ?_⟩
        · intro R; simp [rebuildBody, oneRepl, h1 R, Ne.symm hki]
        · simp [rebuildBody, noRepl, h2, hidx]
      | cons sp sps =>
        obtain ⟨p, s, h1, h2⟩ := rebuildBody_one (t :: rest) sps (i + 1) k hk' hlt'
        refine ⟨sg ++ sp :: p, s, ?_, ?_⟩
        · intro R; simp [rebuildBody, oneRepl, h1 R, Ne.symm hki]
        · simp [rebuildBody, noRepl, h2, hidx]

/-- **C14, last clause**: replacing sub-block `k` by `R` changes only that segment — the rebuilt block is the block
    rebuilt with nothing replaced (which is the original block, `rebuild_none`) with the instructions of segment `k`
    exchanged for `R`; what precedes and follows does not depend on `R`. -/
theorem rebuild_one (pre post : List String) (subs : List (List String)) (k : Nat) (hk : k < (stripShared subs).length) :
    ∃ p s, (∀ R, rebuild pre subs post (oneRepl k R) = pre ++ (p ++ R ++ s) ++ post) ∧
      rebuild pre subs post noRepl = pre ++ (p ++ (stripShared subs)[k] ++ s) ++ post := by
  obtain ⟨p, s, h1, h2⟩ := rebuildBody_one (stripShared subs) (sharedOf subs) 0 k (Nat.zero_le _) (by simpa using hk)
  refine ⟨p, s, ?_, ?_⟩
  · intro R; simp only [rebuild, h1 R]
  · simp only [rebuild, h2, Nat.sub_zero]

end GasolVerif.Asm
