/-
  Byte-level facts about the memory model: a word read sees exactly the 32 bytes at its address,
  reading back a written word returns it, writing back a read word changes nothing.
-/
import GasolVerif.Evm
set_option linter.unusedSimpArgs false
namespace GasolVerif
namespace Mem

theorem readBytes_getLsbD (m : Mem) (a n j : Nat) :
    (readBytes m a n).getLsbD j =
      (decide (j < 8 * n) && decide (j < 256) && (m (a + (n - 1 - j / 8))).getLsbD (j % 8)) := by
  induction n generalizing j with
  | zero => simp [readBytes]
  | succ n ih =>
    simp only [readBytes, BitVec.getLsbD_or, BitVec.getLsbD_shiftLeft, ih, BitVec.getLsbD_setWidth]
    by_cases hj : j < 8
    · have h1 : j / 8 = 0 := by omega
      have h2 : j % 8 = j := by omega
      have h3 : j < 8 * (n + 1) := by omega
      have h4 : j < 256 := by omega
      simp [hj, h1, h2, h3, h4]
    · have h1 : (j - 8) / 8 = j / 8 - 1 := by omega
      have h2 : (j - 8) % 8 = j % 8 := by omega
      have h5 : n - 1 - (j / 8 - 1) = n + 1 - 1 - j / 8 ∨ ¬ (j - 8 < 8 * n) := by omega
      have h6 : (j - 8 < 8 * n) = (j < 8 * (n + 1)) := by
        apply propext; omega
      have h7 : (m (a + n)).getLsbD j = false := by
        apply BitVec.getLsbD_of_ge; omega
      simp only [hj, h1, h2, h6, h7, decide_false, Bool.not_false, Bool.true_and, Bool.false_and,
        Bool.or_false]
      by_cases hlt : j < 8 * (n + 1)
      · have : n - 1 - (j / 8 - 1) = n + 1 - 1 - j / 8 := by omega
        rw [this]
        by_cases h256 : j < 256
        · have : j - 8 < 256 := by omega
          simp [hlt, h256, this]
        · simp [h256]
      · simp [hlt]

theorem readBytes_congr (m₁ m₂ : Mem) (a n : Nat) (h : ∀ i, i < n → m₁ (a + i) = m₂ (a + i)) :
    readBytes m₁ a n = readBytes m₂ a n := by
  induction n with
  | zero => rfl
  | succ n ih =>
    simp only [readBytes]
    rw [ih (fun i hi => h i (by omega)), h n (by omega)]

theorem readWord_congr (m₁ m₂ : Mem) (a : Nat) (h : ∀ i, i < 32 → m₁ (a + i) = m₂ (a + i)) :
    readWord m₁ a = readWord m₂ a := readBytes_congr m₁ m₂ a 32 h

theorem wordByte_getLsbD (v : Word) (i j : Nat) :
    (wordByte v i).getLsbD j = (decide (j < 8) && v.getLsbD (8 * (31 - i) + j)) := by
  simp [wordByte, BitVec.getLsbD_setWidth, BitVec.getLsbD_ushiftRight]

theorem writeWord_in (m : Mem) (a : Nat) (v : Word) (i : Nat) (h : i < 32) :
    (writeWord m a v) (a + i) = wordByte v i := by
  simp [writeWord, h]

theorem writeWord_out (m : Mem) (a : Nat) (v : Word) (j : Nat) (h : j < a ∨ a + 32 ≤ j) :
    (writeWord m a v) j = m j := by
  simp only [writeWord]
  split
  · omega
  · rfl

theorem readWord_writeWord_same (m : Mem) (a : Nat) (v : Word) : readWord (writeWord m a v) a = v := by
  apply BitVec.eq_of_getLsbD_eq
  intro j hj
  simp only [readWord, readBytes_getLsbD]
  have h1 : 32 - 1 - j / 8 < 32 := by omega
  rw [writeWord_in m a v _ h1, wordByte_getLsbD]
  have h2 : j % 8 < 8 := Nat.mod_lt _ (by omega)
  have h3 : 8 * (31 - (32 - 1 - j / 8)) + j % 8 = j := by omega
  have h4 : j < 8 * 32 := by omega
  simp [h2, h3, h4, hj]

theorem wordByte_readWord (m : Mem) (a i : Nat) (h : i < 32) : wordByte (readWord m a) i = m (a + i) := by
  apply BitVec.eq_of_getLsbD_eq
  intro j hj
  rw [wordByte_getLsbD]
  simp only [readWord, readBytes_getLsbD]
  have h1 : (8 * (31 - i) + j) / 8 = 31 - i := by omega
  have h2 : (8 * (31 - i) + j) % 8 = j := by omega
  have h3 : 8 * (31 - i) + j < 8 * 32 := by omega
  have h4 : 8 * (31 - i) + j < 256 := by omega
  have h5 : 32 - 1 - (31 - i) = i := by omega
  simp [h1, h2, h3, h4, h5, hj]

theorem writeWord_readWord (m : Mem) (a : Nat) : writeWord m a (readWord m a) = m := by
  funext j
  simp only [writeWord]
  split
  · rename_i h
    have := wordByte_readWord m a (j - a) (by omega)
    rw [this]; congr 1; omega
  · rfl

end Mem
end GasolVerif
