/-
  C13: places where the code visits the elements of a set in the set's own order (which depends on the string-hash seed).
  `harness/extract.py` regenerates the list from /repo with `ast` on every run; each site is either consumed by something that
  does not see the order (sorted, set, len, sum, min, max, any, all, membership: `Proofs/Determinism.lean` has the lemmas) or is on
  the allow-list below with the reason why the order cannot reach a specification, a greedy sequence or an output file.
  The obligation is kernel-decided on what the code says now; a new site breaks it.
-/
import GasolVerif.Generated.Globals
namespace GasolVerif.Iteration

def allowedSetIteration : List (String × String) :=
  [ ("greedy/block_generation.py:target:for:needed_set",
      "each round adds to the counter of its own element; needed_list does not depend on the order of needed_set"),
    ("greedy/block_generation.py:target:for:to_remove", "removes the keys of to_remove from a dictionary: any order gives the same dictionary"),
    ("sfs_generator/rbr_rule.py:update_bc:list:set(aux)", "argument lists of the intermediate rule objects: printed for debugging only, never read back by the block pipeline"),
    ("sfs_generator/rbr_rule.py:update_global_arg:list:set(aux)", "as update_bc"),
    ("sfs_generator/rbr_rule.py:update_local_arg:list:set(self.arg_local + l)", "as update_bc"),
    ("smt_encoding/complete_encoding/synthesis_additional_constraints.py:each_function_is_used_at_most_once:comprehension:positions",
      "a set of small integers (their hash is their value) feeding the arguments of a conjunction"),
    ("smt_encoding/complete_encoding/synthesis_pre_order.py:happens_before_from_dependency_graph:for:dependency_graph_set_theta",
      "a dictionary (insertion order); the inner sets hold integers; only the order of emitted hard constraints could move"),
    ("smt_encoding/instructions/instruction_bounds_with_dependencies.py:__init__:list:set((instruction.id for instruction in instructions if instr",
      "the maximal stores all receive the same upper bound b0, whatever their order"),
    ("smt_encoding/instructions/instruction_bounds_with_dependencies.py:toposort_instr_dependencies:list:set((instr_id for instr_id in dependency_graph)).difference(",
      "start nodes of a topological sort: every topological order gives the same bounds (each bound is computed from predecessors only)"),
    ("smt_encoding/instructions/instruction_bounds_with_dependencies.py:update_with_tree_level:for:set(dependent_instr_ids).difference(analyzed_instr_ids)",
      "update_current_index takes minimum and maximum: commutative"),
    ("smt_encoding/instructions/instruction_dependencies.py:toposort_instr_dependencies:list:set((instr_id for instr_id in dependency_graph)).difference(",
      "as in instruction_bounds_with_dependencies.py"),
    ("smt_encoding/json_with_dependencies.py:bounds_from_instructions:list:set((instruction.id for instruction in instructions if instr",
      "as InstructionBoundsWithDependencies.__init__") ]

open Generated in
/-- every place that visits a set in its own order feeds an order-insensitive consumer or is on the allow-list -/
theorem generated_iteration_sites_ok :
    setIterationSites.all (fun e => e.2 || (allowedSetIteration.map (·.1)).contains e.1) = true := by decide +kernel

/-- calls through which the clock, the load of the machine, the identity of the process or the order of a directory listing could reach a
    result, each with the reason why it does not reach a specification, a greedy sequence or an emitted file -/
def allowedEnvSources : List (String × String) :=
  [ ("global_params/paths.py:<module>:uuid.uuid4", "names the temporary directory of the run; only paths of intermediate files contain it"),
    ("greedy/block_generation.py:greedy_standalone:resource.getrusage", "measures the time reported in the statistics (time columns are outside the property)"),
    ("smt_encoding/solver/solver_from_executable.py:run_and_measure_command:resource.getrusage", "as greedy_standalone"),
    ("solution_generation/solver_output_generation.py:run_and_measure_command:resource.getrusage", "as greedy_standalone"),
    ("sfs_generator/gasol_optimization.py:generate_json:os.listdir", "membership test for a directory name before creating it"),
    ("sfs_generator/gasol_optimization.py:write_instruction_block:os.listdir", "membership test for a directory name before creating it"),
    ("sfs_generator/ir_block.py:write_rbr:os.listdir", "membership test for a directory name before creating it"),
    ("verification/forves_verification.py:compare_forves:tempfile.mkstemp", "temporary file handed to the external checker") ]

open Generated in
/-- no other call lets time, load, process identity or directory order into the pipeline -/
theorem generated_env_sources_ok : envSources.all (fun e => (allowedEnvSources.map (·.1)).contains e) = true := by decide +kernel

end GasolVerif.Iteration
