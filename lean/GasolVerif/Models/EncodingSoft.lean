/-
  (M) C07: the soft constraints of `soft_constraints_grouped_by_weight` (synthesis_soft_constraints.py) generated from
  the weight table of the real encoder, the objective (`penalty`), and the decoding of a valuation.   No Mathlib.
-/
import GasolVerif.Models.EncodingOrder
namespace GasolVerif.Enc
open GasolVerif.Formula

/-- distinct weights in increasing order -/
def levels (ws : List (Nat × Nat)) : List Nat := ((ws.map (·.2)).mergeSort (· ≤ ·)).eraseDups

/-- instructions strictly cheaper than `c`, in the order of the stable sort by weight -/
def cheaper (ws : List (Nat × Nat)) (c : Nat) : List Nat :=
  ((ws.mergeSort fun a b => a.2 ≤ b.2).filter fun p => p.2 < c).map (·.1)

def inRange (I : Inst) (j th : Nat) : Bool := lbOf I th ≤ j && j ≤ ubOf I th

/-- consecutive levels `(previous, current)` -/
def steps : List Nat → List (Nat × Nat)
  | a :: b :: r => (a, b) :: steps (b :: r)
  | _ => []

/-- the soft clause of level `c` at position `j` (none when no cheaper instruction may sit at `j`) -/
def softClause (I : Inst) (ws : List (Nat × Nat)) (c j : Nat) : Option F :=
  let ths := (cheaper ws c).filter (inRange I j)
  if ths.isEmpty then none else some (.conn .or (ths.map fun th => isT I j th))

/-- `(formula, weight)` for every level after the first and every position -/
def softGrouped (I : Inst) (ws : List (Nat × Nat)) : List (F × Nat) :=
  (steps (levels ws)).flatMap fun (prev, c) =>
    (rangeL 0 I.b0).filterMap fun j => (softClause I ws c j).map fun f => (f, c - prev)

/-- the objective: total weight of the violated soft clauses -/
def penalty (v : Val) (softs : List (F × Nat)) : Nat := (softs.map fun p => if evalB v p.1 then 0 else p.2).sum

def term (I : Inst) (v : Val) (ws : List (Nat × Nat)) (s : Nat × Nat) (j : Nat) : Nat :=
  match softClause I ws s.2 j with
  | none => 0
  | some f => if evalB v f then 0 else s.2 - s.1

def miss (I : Inst) (ws : List (Nat × Nat)) (s : Nat × Nat) (j : Nat) : Nat :=
  if ((cheaper ws s.2).filter (inRange I j)).isEmpty then s.2 - s.1 else 0

/-- the weight charged for an instruction: its own, or the highest level if it has no soft constraints
    (stores, or the instructions that occur exactly once in the `l_vars` encoding) -/
def cw (ws : List (Nat × Nat)) (th : Nat) : Nat :=
  match ws.lookup th with
  | some w => w
  | none => (levels ws).getLast?.getD 0

/-- executable side conditions: the levels are strictly increasing and contain every weight, keys are unique
    instruction thetas -/
def softOk (I : Inst) (ws : List (Nat × Nat)) : Bool :=
  decide ((levels ws).Pairwise (· < ·)) && ws.all (fun p => (levels ws).contains p.2) && !(levels ws).isEmpty &&
    decide (ws.map (·.1)).Nodup && ws.all fun p => I.instrs.any fun ins => ins.theta == p.1

/-- what the missing clauses would have charged: depends on the instance only, not on the valuation -/
def missTotal (I : Inst) (ws : List (Nat × Nat)) : Nat :=
  ((steps (levels ws)).map fun s => ((rangeL 0 I.b0).map fun j => miss I ws s j).sum).sum

/-- the instruction a valuation puts at position `j` (theta value; 0 if none qualifies) -/
def decodeAt (I : Inst) (v : Val) (j : Nat) : Nat :=
  ((I.instrs.find? fun ins => decide (ins.lb ≤ j) && decide (j ≤ ins.ub) && (T v j == thetaV I v ins.theta)).map (·.theta)).getD 0

end GasolVerif.Enc
