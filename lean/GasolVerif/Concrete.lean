/-
  A concrete, executable environment and state family for the failing-input search, and the
  observation of a final state on the finitely many addresses two runs touched.
  Search/observation code: never used by a theorem.
-/
import GasolVerif.Parse
namespace GasolVerif
namespace Concrete

def M : Nat := 2 ^ 256

def mix (a b : Nat) : Nat :=
  let x := (a * 0x9E3779B97F4A7C15F39CC0605CEDC8341082276BF3A27251F86C6A11D0C18E95 + b + 0x632BE59BD9B4E019) % M
  let y := x ^^^ (x >>> 97)
  (y * 0xD6E8FEB86659FD93C6A4A7935BD1E995B5AD4ECEDA1CE2A9 + 0x2545F4914F6CDD1D) % M

def hashStr (s : String) : Nat := s.toList.foldl (fun acc c => mix acc c.toNat) 7

def hashWords (seed : Nat) (ws : List Word) : Nat := ws.foldl (fun acc w => mix acc w.toNat) seed

def env (seed : Nat) : Env where
  sym s := BitVec.ofNat 256 (mix seed (hashStr s) % 2 ^ 32)
  env0 n tr :=
    let h := mix (mix seed (hashStr n)) tr.length
    if n == "ADDRESS" || n == "CALLER" || n == "ORIGIN" || n == "COINBASE" then BitVec.ofNat 256 (h % 2 ^ 160)
    else BitVec.ofNat 256 h
  env1 n tr a :=
    let self := BitVec.ofNat 256 (mix (mix seed (hashStr "ADDRESS")) tr.length % 2 ^ 160)
    if n == "BALANCE" && a == self then BitVec.ofNat 256 (mix (mix seed (hashStr "SELFBALANCE")) tr.length)
    else BitVec.ofNat 256 (mix (mix (mix seed (hashStr n)) tr.length) a.toNat)
  keccak n f :=
    let k := min n 2048
    BitVec.ofNat 256 ((List.range k).foldl (fun acc i => mix acc (f i).toNat) (mix seed n))
  ext n tr args m s :=
    let h := mix (hashWords (mix seed (hashStr n)) args) tr.length
    let dest : Option Nat :=
      if n == "CALLDATACOPY" || n == "CODECOPY" || n == "RETURNDATACOPY" || n == "MCOPY" then args[0]?.map (·.toNat)
      else if n == "EXTCODECOPY" then args[1]?.map (·.toNat)
      else if n == "CALL" || n == "CALLCODE" then args[5]?.map (·.toNat)
      else if n == "STATICCALL" || n == "DELEGATECALL" then args[4]?.map (·.toNat)
      else none
    let m' := match dest with
      | some d => m.writeWord d (BitVec.ofNat 256 (mix h 1))
      | none => m
    let s' : Sto := if n == "CALL" || n == "DELEGATECALL" || n == "CALLCODE" || n == "CREATE" || n == "CREATE2"
      then s.write (BitVec.ofNat 256 (h % 4)) (BitVec.ofNat 256 (mix h 2)) else s
    { out := BitVec.ofNat 256 (if n == "CALL" || n == "STATICCALL" || n == "DELEGATECALL" || n == "CALLCODE" then h % 2 else h)
      mem := m', sto := s' }

def initMem (seed : Nat) : Mem := fun i => BitVec.ofNat 8 (mix (seed + 11) i % 251 + 1)
def initSto (seed : Nat) : Sto := fun k => BitVec.ofNat 256 (mix (seed + 13) k.toNat)

def initSt (seed : Nat) (stack : List Word) : St :=
  { stack := stack, mem := initMem seed, sto := initSto seed, trace := [] }

/-- addresses / keys an instruction writes or exposes, for observation only -/
structure Touched where
  addrs : List Nat := []
  keys : List Word := []

def wordRange (a : Nat) : List Nat := (List.range 32).map (a + ·)

def touchStep (i : Instr) (s : St) (t : Touched) : Touched :=
  match i, s.stack with
  | .mstore, a :: _ => { t with addrs := wordRange a.toNat ++ t.addrs }
  | .mload, a :: _ => { t with addrs := wordRange a.toNat ++ t.addrs }
  | .mstore8, a :: _ => { t with addrs := a.toNat :: t.addrs }
  | .sstore, k :: _ => { t with keys := k :: t.keys }
  | .sload, k :: _ => { t with keys := k :: t.keys }
  | .keccak, off :: len :: _ => { t with addrs := (List.range (min len.toNat 96)).map (off.toNat + ·) ++ t.addrs }
  | .ext _ nin _, st => { t with addrs := (st.take nin).flatMap (fun w => wordRange w.toNat) ++ t.addrs,
                                 keys := [0, 1, 2, 3].map (BitVec.ofNat 256) ++ t.keys }
  | _, _ => t

def run (e : Env) : List Instr → St → Touched → Option St × Touched
  | [], s, t => (some s, t)
  | i :: is, s, t =>
    match step e i s with
    | none => (none, t)
    | some s' => run e is s' (touchStep i s t)

def hexW (w : Word) : String := hexOfNat w.toNat

/-- compare two final states on the touched addresses/keys; `none` = indistinguishable there -/
def diffSt (a b : St) (t : Touched) : Option String :=
  if a.stack ≠ b.stack then
    some s!"stack [{" ".intercalate (a.stack.map hexW)}] vs [{" ".intercalate (b.stack.map hexW)}]"
  else
  let memDiff (m₁ m₂ : Mem) : Option Nat := t.addrs.find? (fun i => m₁ i ≠ m₂ i)
  let stoDiff (s₁ s₂ : Sto) : Option Word := t.keys.find? (fun k => s₁ k ≠ s₂ k)
  match memDiff a.mem b.mem with
  | some i => some s!"mem[{i}] {(a.mem i).toNat} vs {(b.mem i).toNat}"
  | none =>
  match stoDiff a.sto b.sto with
  | some k => some s!"sto[{hexW k}] {hexW (a.sto k)} vs {hexW (b.sto k)}"
  | none =>
  if a.trace.length ≠ b.trace.length then some s!"trace length {a.trace.length} vs {b.trace.length}" else
  let evDiff := (a.trace.zip b.trace).findSome? fun (x, y) =>
    if x.name ≠ y.name then some s!"event {x.name} vs {y.name}"
    else if x.args ≠ y.args then some s!"event {x.name} args [{" ".intercalate (x.args.map hexW)}] vs [{" ".intercalate (y.args.map hexW)}]"
    else match memDiff x.mem y.mem with
      | some i => some s!"event {x.name} sees mem[{i}] {(x.mem i).toNat} vs {(y.mem i).toNat}"
      | none => match stoDiff x.sto y.sto with
        | some k => some s!"event {x.name} sees sto[{hexW k}]"
        | none => none
  evDiff

/-- run both blocks from the same state; report how the second differs from the first -/
def compare (seed : Nat) (stack : List Word) (B B' : List Instr) : String :=
  let e := env seed
  let s0 := initSt seed stack
  match run e B s0 {} with
  | (none, _) => "skip:first-block-fails"
  | (some a, t) =>
    match run e B' s0 t with
    | (none, _) => "diff:second-block-fails"
    | (some b, t') =>
      match diffSt a b t' with
      | none => "same"
      | some d => "diff:" ++ d

end Concrete
end GasolVerif
