"""C06 — every model of the Max-SMT hard constraints decodes to a realizing sequence; C07 shares the machinery."""
import random, re, itertools
from collections import Counter
import common, gen, pool, drv

THEOREMS = ["equiv_norm3_sound"]
BASE = ["-solver", "z3", "-tout", "5"]
OPTION_SETS = [[], ["-term-encoding", "int"], ["-term-encoding", "stack_vars"], ["-term-encoding", "uninterpreted_int"],
               ["-memory-encoding", "l_vars"], ["-push-basic"], ["-pop-uninterpreted"], ["-order-bounds"], ["-order-conflicts"],
               ["-at-most"], ["-pushed-once"], ["-no-output-before-pop"], ["-empty"], ["-direct-inequalities"], ["-size"], ["-length"],
               ["-term-encoding", "int", "-memory-encoding", "l_vars", "-at-most", "-pushed-once"],
               ["-order-bounds", "-order-conflicts", "-no-output-before-pop"], ["-storage"], ["-no-simplification"]]


def small_blocks(rng, n):
    out = []
    for _ in range(n):
        g = gen.BlockGen(rng, rng.choice(["mixed", "mem", "arith", "stack"]))
        b = []
        for _ in range(rng.randrange(1, 4)):
            g.snippet(b)
        out.append(" ".join(b))
    out += ["DUP1 SWAP1 POP PUSH1 0x1 ADD", "SWAP1 SWAP1", "DUP2 DUP2 ADD SWAP2 POP POP", "PUSH1 0x5 DUP2 MSTORE", "DUP1 MLOAD SWAP1 POP",
            "PUSH1 0x1 DUP2 SSTORE PUSH1 0x2 DUP2 SSTORE", "DUP1 DUP1 MUL", "POP POP", "PUSH1 0x0 DUP2 MSTORE DUP1 MLOAD"]
    return out


def collect(tier, sd, rng, max_len, models, osets=None):
    blocks = small_blocks(rng, 40 if tier == "quick" else 600)
    osets = osets or OPTION_SETS
    tasks = []
    for i, b in enumerate(blocks):
        chosen = [osets[i % len(osets)], osets[(i * 7 + 3) % len(osets)]] if tier == "quick" else osets
        for o in chosen:
            tasks.append({"kind": "smt", "text": b, "opts": BASE + o, "max_len": max_len, "models": models, "timeout": 240})
    groups = {}
    for t in tasks:
        groups.setdefault(tuple(t["opts"]), []).append(t)
    res = []
    for g in groups.values():
        res.extend(pool.run_tasks(g, timeout=240, nproc=4))
    return res


def run(tier):
    sd = common.seed()
    rng = random.Random(sd * 3571 + 47)
    po = common.proof_obligations("GasolVerif.Proofs.NormSound", THEOREMS)
    violations = [{"kind": "broken-proof-obligation", "what": b, "no_failing_input": True, "input": b} for b in po["broken"]]
    c = Counter()
    res = collect(tier, sd, rng, 6 if tier == "quick" else 7, 5 if tier == "quick" else 12)
    reqs, meta = [], []
    for t, r, st in res:
        if st != "ok" or r is None or "harness_error" in (r or {}):
            c["run:" + st] += 1
            continue
        if "exception" in r:
            c["front-end-exception"] += 1
            continue
        for e in r["subs"]:
            if "unsupported" in e:
                continue
            c["instances"] += 1
            oname = " ".join(t["opts"][4:]) or "default"
            c["options:" + oname] += 1
            if "exception" in e:
                violations.append({"kind": "encoder-raises", "input": " ".join(e["plain"]), "options": t["opts"],
                                   "what": "building/solving the encoding of %s with %s raised %s" % (" ".join(e["plain"]), t["opts"], e["exception"])})
                continue
            if e.get("z3errors"):
                violations.append({"kind": "smtlib-rejected-by-solver", "input": " ".join(e["plain"]), "options": t["opts"],
                                   "what": "z3 reports errors on the emitted text for %s with %s: %s" % (" ".join(e["plain"]), t["opts"], e["z3errors"][:200])})
                continue
            c["outcome:" + str(e.get("outcome"))] += 1
            seqs = [("model", m) for m in e.get("models", [])]
            if e.get("opt_ids") and e.get("outcome") in ("optimal", "non_optimal"):
                seqs.append(("optimum", e["opt_ids"]))
            for kind, m in seqs:
                if any(x is None for x in m):
                    violations.append({"kind": "model-does-not-decode", "input": " ".join(e["plain"]), "options": t["opts"],
                                       "what": "a model of the hard constraints for %s (%s) assigns a position no instruction: %s" % (" ".join(e["plain"]), t["opts"], m)})
                    continue
                reqs.append("REALIZES\t%s\t%s" % ("\t".join(e["spec"]), ",".join(m)))
                meta.append((t, e, kind, m))
    outs = drv.batch(reqs)
    samples = []
    for o, (t, e, kind, m) in zip(outs, meta):
        c["sequences-checked"] += 1
        if o.startswith("ok"):
            peak = int(o[3:])
            c["realizing-" + kind] += 1
            if len([x for x in m if x != "NOP"]) > e["b0"] or peak > e["max_sk_sz"]:
                violations.append({"kind": "decoded-sequence-outside-bounds", "input": " ".join(e["plain"]), "options": t["opts"],
                                   "what": "%s %s of %s uses length/stack %d/%d beyond the declared %d/%d" % (kind, m, " ".join(e["plain"]), len(m), peak, e["b0"], e["max_sk_sz"])})
            elif len(samples) < 4 and kind == "model":
                samples.append({"block": " ".join(e["plain"]), "options": t["opts"], "model_decodes_to": m, "peak_stack": peak})
        elif o.startswith("no:"):
            violations.append({"kind": "model-does-not-realize", "input": " ".join(e["plain"]), "options": t["opts"], "spec": e["spec"], "ids": m,
                               "what": "a %s of the hard constraints for %s with %s decodes to %s: %s" % (kind, " ".join(e["plain"]), t["opts"], m, o[3:])})
        else:
            raise common.MachineryError("driver: " + o)
    cov = {"programs": c["instances"], "disagreements_checked": c["sequences-checked"], "evaluations": c["sequences-checked"],
           "distinct_nontrivial": c["realizing-model"] + c["realizing-optimum"], "obligations": po["obligations"], "discharged": po["discharged"],
           "rule": "small generated blocks (init_progr_len <= 6/7) x a covering family of %d encoder option sets; the text the real encoder "
                   "hands to the solver must be accepted by z3 without errors (every symbol declared once at its sort), and the optimum plus up "
                   "to 5/12 further models of the hard constraints (blocking clauses on the t_j), decoded with the encoder's own theta table, must "
                   "pass Spec.realizes within the declared length and stack bounds" % len(OPTION_SETS),
           "samples": samples or [{"n": 0}], "counters": dict(c),
           "checker_cmd": "gvdrv REALIZES; /usr/bin/z3 as the stand-in solver", "trusted_base": ["Spec.realizes (Lean)", "z3 4.8.12 as model enumerator and SMT-LIB well-formedness oracle"]}
    return {"level": "translation_validation", "coverage": cov, "violations": violations,
            "assumptions": ["no Lean model of the encoder: soundness is checked per model, for sampled specifications and option sets (not a proof)",
                            "models are enumerated up to a small number per instance, not exhaustively"]}


def replay(v):
    print(v.get("what"))
    return 1
