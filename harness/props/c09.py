"""C09 — non-optimizable code and metadata are preserved; emitted items are well formed."""
import json, random, re
from collections import Counter
import common, docrun, drv, vocab, pool

THEOREMS = ["equiv_norm3_sound", "Asm.rebuild_none", "Asm.joinShared_subBlocks"]
M = 2 ** 256


def wellformed(it, in_block_values):
    n, v = it.get("name"), it.get("value")
    if n == "PUSH":
        if not isinstance(v, str) or not re.fullmatch(r"[0-9a-fA-F]+", v) or int(v, 16) >= M:
            return "PUSH value %r is not a hex constant below 2^256" % (v,)
        return None
    if n in vocab.PSEUDO_PUSH:
        def num(x):
            try:
                return int(x, 16)
            except (TypeError, ValueError):
                return x
        # hash/index valued operands are compared as numbers (leading zeros are not significant), tags as text
        same = (n, v) in in_block_values if n == "PUSH [tag]" else any(n == a and num(v) == num(b) for a, b in in_block_values)
        if not same:
            return "%s operand %r does not occur with that value in the input block" % (n, v)
        return None
    m = re.fullmatch(r"(DUP|SWAP)(\d+)", n or "")
    if m:
        return None if 1 <= int(m.group(2)) <= 16 else "%s depth out of range" % n
    try:
        vocab.token(n, v)
    except vocab.Unsupported as u:
        if n in vocab.UNSUPPORTED:
            return None
        return "unknown item %r" % (n,)
    return None


def check_doc(name, din, dout, c, violations, opts):
    if docrun.metadata(din) != docrun.metadata(dout):
        violations.append({"kind": "metadata-changed", "input": name, "options": opts,
                           "what": "contracts/version/auxdata/data/sourceList of %s changed (options %s)" % (name, opts)})
    sin = dict(docrun.code_sections(din))
    sout = dict(docrun.code_sections(dout))
    if set(sin) != set(sout):
        violations.append({"kind": "code-sections-changed", "input": name, "what": "code sections differ: %s vs %s" % (sorted(sin), sorted(sout))})
        return []
    reqs = []
    for path in sin:
        a, b = sin[path], sout[path]
        c["sections"] += 1
        ska = [it for it in a if it["name"] in docrun.SKELETON]
        skb = [it for it in b if it["name"] in docrun.SKELETON]
        if ska != skb:
            violations.append({"kind": "skeleton-changed", "input": name, "options": opts,
                               "what": "tags/jumps/terminals/split instructions of %s %s changed (%d vs %d items)" % (name, path, len(ska), len(skb))})
            continue
        ba, bb = docrun.blocks_of(a), docrun.blocks_of(b)
        if len(ba) != len(bb):
            violations.append({"kind": "skeleton-changed", "input": name, "what": "block count of %s %s changed" % (name, path)})
            continue
        for x, y in zip(ba, bb):
            c["blocks"] += 1
            if x == y:
                continue
            c["changed-blocks"] += 1
            vals = {(it["name"], it.get("value")) for it in x}
            for it in y:
                if it in x:
                    continue
                c["emitted-items"] += 1
                w = wellformed(it, vals)
                if w:
                    violations.append({"kind": "ill-formed-item", "input": name, "options": opts, "what": "%s in %s %s: %s" % (json.dumps(it), name, path, w)})
            if len(x) > 60 or len(y) > 60:
                c["equiv:not-attempted-long-block"] += 1      # terms are trees: the validator is kept to blocks of moderate length here (C01 owns the verdict)
                continue
            try:
                reqs.append(("EQUIV\t%s\t%s" % (" ".join(map(docrun.item_token, x)), " ".join(map(docrun.item_token, y))), (name, path, x, y)))
            except vocab.Unsupported:
                c["unsupported-vocabulary"] += 1
    return reqs


def run(tier):
    sd = common.seed()
    po = common.proof_obligations("GasolVerif.Proofs.AsmSound,GasolVerif.Proofs.NormSound", THEOREMS)
    violations = [{"kind": "broken-proof-obligation", "what": b, "no_failing_input": True, "input": b} for b in po["broken"]]
    c = Counter()
    import docs as _docs
    dl = _docs.handcrafted() + _docs.multi_section() + docrun.synthesized(sd + 1, 10 if tier == "quick" else 120, ncontracts=2, nblocks=5) + docrun.shipped(60000 if tier == "quick" else 500000)
    osets = [["-greedy"], ["-greedy", "-storage"], ["-greedy", "-size", "-partition"], ["-greedy", "-push0"]]
    reqs = []
    samples = []
    reparse = []
    for i, o in enumerate(osets):
        sub = dl if tier != "quick" else dl[:10] + dl[10 + i::2]
        for r in docrun.run_docs(sub, o, timeout=300 if tier == "quick" else 1200):
            c["documents"] += 1
            res = r["res"]
            outname = r["name"].split(".")[0] + "_optimized.json_solc"
            if r["status"] == "timeout" or (res or {}).get("rc") == -9:
                # how long a run may take is C10's question; a run the harness had to stop says nothing about what it would have written
                c["undecided:run-stopped-by-the-harness-timeout"] += 1
                continue
            if r["status"] != "ok" or res is None or res.get("rc") != 0 or outname not in res.get("files", {}):
                violations.append({"kind": "no-output-file", "input": r["name"], "options": o,
                                   "what": "running %s with %s: status %s rc %s: %s" % (r["name"], o, r["status"], (res or {}).get("rc"), ((res or {}).get("stderr_tail") or "")[-300:])})
                continue
            din = r["doc"] if isinstance(r["doc"], dict) else json.loads(r["doc"])
            try:
                dout = json.loads(res["files"][outname])
            except ValueError as ex:
                violations.append({"kind": "output-not-json", "input": r["name"], "what": str(ex)})
                continue
            reqs += check_doc(r["name"], din, dout, c, violations, o)
            reparse.append((r["name"], o, res["files"][outname]))
            if len(samples) < 3:
                samples.append({"document": r["name"], "options": o, "stdout_tail": res["stdout_tail"][-200:]})
    # the tool's own parser re-reads its output to the same document
    rp = pool.run_tasks([{"kind": "json_roundtrip", "text": t, "push0": "-push0" not in o, "timeout": 120} for _, o, t in reparse], timeout=120)
    for (name, o, text), (t, r, st) in zip(reparse, rp):
        if st == "ok" and r and r.get("same") is False:
            violations.append({"kind": "output-does-not-reparse-to-itself", "input": name, "options": o,
                               "what": "parse_asm(output of %s).to_json() differs from the output: %s" % (name, r.get("diff"))})
        c["reparsed"] += 1
    outs = drv.batch([q for q, _ in reqs])
    for o, (q, (name, path, x, y)) in zip(outs, reqs):
        c["equiv:" + o] += 1
    cov = {"obligations": po["obligations"], "discharged": po["discharged"],
           "checker_cmd": "cd lean && lake build; #print axioms " + ", ".join(THEOREMS),
           "trusted_base": ["Python json module as the independent reader; harness/docrun.py walker", "Lean validator for changed blocks"],
           "axioms": po["axioms"], "programs": c["documents"], "disagreements_checked": c["changed-blocks"],
           "evaluations": c["blocks"], "distinct_nontrivial": c["changed-blocks"],
           "rule": "synthesized combined-json documents (nested .data, contracts without asm, every pseudo-push kind, jumpType/modifierDepth/"
                   "sourceList) and the shipped examples x option sets %s through the real command line; metadata, skeleton items with all "
                   "fields, well-formedness of every emitted item, re-parse; non-trivial = block changed by the optimizer" % osets,
           "samples": samples or [{"n": 0}], "counters": dict(c)}
    return {"level": "translation_validation", "coverage": cov, "violations": violations,
            "assumptions": ["changed blocks are also sent to the Lean validator (counts under equiv:*); C01 owns that verdict"]}


def replay(v):
    print(v.get("what"))
    return 1
