/-
  Identities on 256-bit EVM words used by the normaliser's soundness proof (and by C03).
  Core Lean only.
-/
import GasolVerif.Word
namespace GasolVerif
namespace Word

theorem toNat_zero' : (0#256).toNat = 0 := rfl
theorem toNat_one' : (1#256).toNat = 1 := rfl

theorem ne_zero_toNat {x : Word} (h : x ≠ 0#256) : x.toNat ≠ 0 :=
  fun h' => h (BitVec.eq_of_toNat_eq h')

@[simp] theorem iszero_ofBool (b : Bool) : iszero (ofBool b) = ofBool (!b) := by
  cases b <;> simp [iszero, ofBool]

theorem iszero_iszero_ofBool (b : Bool) : iszero (iszero (ofBool b)) = ofBool b := by simp

theorem iszero_eq_ofBool (x : Word) : iszero x = ofBool (decide (x = 0#256)) := rfl

theorem iszero_iszero_iszero (x : Word) : iszero (iszero (iszero x)) = iszero x := by
  rw [iszero_eq_ofBool x]; simp

theorem gt_zero (x : Word) : gt x 0#256 = iszero (iszero x) := by
  simp only [gt, iszero, toNat_zero']
  by_cases h : x = 0#256
  · subst h; simp [ofBool]
  · have := ne_zero_toNat h
    have h2 : 0 < x.toNat := by omega
    simp [h, h2, ofBool]

theorem lt_zero_left (x : Word) : lt 0#256 x = iszero (iszero x) := by
  have := gt_zero x
  simpa [gt, lt] using this

theorem iszero_gt_zero (x : Word) : iszero (gt x 0#256) = iszero x := by
  rw [gt_zero, iszero_iszero_iszero]

theorem iszero_lt_zero (x : Word) : iszero (lt 0#256 x) = iszero x := by
  rw [lt_zero_left, iszero_iszero_iszero]

theorem iszero_xor (x y : Word) : iszero (xor x y) = eq x y := by
  simp [iszero, xor, eq, BitVec.xor_eq_zero_iff]

theorem eq_comm' (x y : Word) : eq x y = eq y x := by
  simp only [eq]; congr 1; exact decide_eq_decide.mpr eq_comm

theorem sub_eq_zero_iff (x y : Word) : x - y = 0#256 ↔ x = y := by
  constructor
  · intro h
    have h2 : x - y + y = 0#256 + y := by rw [h]
    simpa [BitVec.sub_add_cancel] using h2
  · rintro rfl; simp

theorem iszero_sub (x y : Word) : iszero (sub x y) = eq x y := by
  simp only [iszero, sub, eq, sub_eq_zero_iff]

theorem isBool_iszero_iszero (f : Word → Word → Word) (x y : Word) (b : Bool) (h : f x y = ofBool b) :
    iszero (iszero (f x y)) = f x y := by rw [h]; simp

theorem not_not (x : Word) : not (not x) = x := by simp [not]

-- AND / OR / XOR
theorem and_zero_left (b : Word) : and 0#256 b = 0#256 := by simp [and]
theorem and_max_left (b : Word) : and (BitVec.allOnes 256) b = b := by
  unfold and; exact BitVec.allOnes_and
theorem and_self (a : Word) : and a a = a := by simp [and]
theorem and_comm' (a b : Word) : and a b = and b a := by simp [and, BitVec.and_comm]
theorem and_assoc_const (w w' y : Word) : and w (and w' y) = and (w &&& w') y := by
  simp [and, BitVec.and_assoc]
theorem and_not_self (x : Word) : and x (not x) = 0#256 := by simp [and, not, BitVec.and_not_self]
theorem not_and_self (x : Word) : and (not x) x = 0#256 := by rw [and_comm', and_not_self]
theorem and_and_left (p q : Word) : and p (and p q) = and p q := by
  simp [and, ← BitVec.and_assoc]
theorem and_and_right (p q : Word) : and q (and p q) = and p q := by
  simp only [and]; rw [BitVec.and_comm p q, ← BitVec.and_assoc, BitVec.and_self]
theorem and_or_left (p q : Word) : and p (or p q) = p := by
  simp only [and, or]
  ext i hi
  simp; intro h; simp [h]
theorem and_or_right (p q : Word) : and q (or p q) = q := by
  simp only [and, or]
  ext i hi
  simp; intro h; simp [h]

theorem and_and_left' (p q : Word) : and (and p q) p = and p q := by rw [and_comm', and_and_left]
theorem and_and_right' (p q : Word) : and (and p q) q = and p q := by rw [and_comm', and_and_right]
theorem and_or_left' (p q : Word) : and (or p q) p = p := by rw [and_comm', and_or_left]
theorem and_or_right' (p q : Word) : and (or p q) q = q := by rw [and_comm', and_or_right]

theorem or_zero_left (b : Word) : or 0#256 b = b := by simp [or]
theorem or_max_left (b : Word) : or (BitVec.allOnes 256) b = BitVec.allOnes 256 := by
  unfold or; exact BitVec.allOnes_or
theorem or_self (a : Word) : or a a = a := by simp [or]
theorem or_comm' (a b : Word) : or a b = or b a := by simp [or, BitVec.or_comm]
theorem or_assoc_const (w w' y : Word) : or w (or w' y) = or (w ||| w') y := by
  simp [or, BitVec.or_assoc]
theorem or_not_self (x : Word) : or x (not x) = BitVec.allOnes 256 := by
  unfold or not; exact BitVec.or_not_self x
theorem not_or_self (x : Word) : or (not x) x = BitVec.allOnes 256 := by rw [or_comm', or_not_self]
theorem or_or_left (p q : Word) : or p (or p q) = or p q := by simp [or, ← BitVec.or_assoc]
theorem or_or_right (p q : Word) : or q (or p q) = or p q := by
  simp only [or]; rw [BitVec.or_comm p q, ← BitVec.or_assoc, BitVec.or_self]
theorem or_and_left (p q : Word) : or p (and p q) = p := by
  simp only [and, or]; ext i hi; simp; intro h _; exact h
theorem or_and_right (p q : Word) : or q (and p q) = q := by
  simp only [and, or]; ext i hi; simp

theorem or_or_left' (p q : Word) : or (or p q) p = or p q := by rw [or_comm', or_or_left]
theorem or_or_right' (p q : Word) : or (or p q) q = or p q := by rw [or_comm', or_or_right]
theorem or_and_left' (p q : Word) : or (and p q) p = p := by rw [or_comm', or_and_left]
theorem or_and_right' (p q : Word) : or (and p q) q = q := by rw [or_comm', or_and_right]

theorem xor_zero_left (b : Word) : xor 0#256 b = b := by simp [xor]
theorem xor_self (a : Word) : xor a a = 0#256 := by simp [xor]
theorem xor_comm' (a b : Word) : xor a b = xor b a := by simp [xor, BitVec.xor_comm]
theorem xor_xor_left (p q : Word) : xor p (xor p q) = q := by
  simp [xor, ← BitVec.xor_assoc]
theorem xor_xor_right (p q : Word) : xor q (xor p q) = p := by
  simp only [xor]; rw [BitVec.xor_comm p q, ← BitVec.xor_assoc]; simp

theorem xor_xor_left' (p q : Word) : xor (xor p q) p = q := by rw [xor_comm', xor_xor_left]
theorem xor_xor_right' (p q : Word) : xor (xor p q) q = p := by rw [xor_comm', xor_xor_right]

-- ADD / MUL
theorem add_zero_left (b : Word) : add 0#256 b = b := by simp [add]
theorem add_comm' (a b : Word) : add a b = add b a := by simp [add, BitVec.add_comm]
theorem add_assoc_const (w w' y : Word) : add w (add w' y) = add (w + w') y := by
  simp [add, BitVec.add_assoc]
theorem mul_zero_left (b : Word) : mul 0#256 b = 0#256 := by simp [mul]
theorem mul_one_left (b : Word) : mul 1#256 b = b := by simp [mul]
theorem mul_comm' (a b : Word) : mul a b = mul b a := by simp [mul, BitVec.mul_comm]

theorem shl_one (y : Word) (h : y.toNat < 256) : shl y 1#256 = BitVec.twoPow 256 y.toNat := by
  simp [shl, h, BitVec.twoPow_eq]

theorem mul_shl_one (x y : Word) : mul x (shl y 1#256) = shl y x := by
  by_cases h : y.toNat < 256
  · rw [shl_one y h]; simp [mul, shl, h, BitVec.mul_twoPow_eq_shiftLeft]
  · simp [mul, shl, h]

theorem shl_one_mul (x y : Word) : mul (shl y 1#256) x = shl y x := by
  rw [mul_comm', mul_shl_one]

theorem div_shl_one (x y : Word) : div x (shl y 1#256) = shr y x := by
  by_cases h : y.toNat < 256
  · rw [shl_one y h]
    have hne : BitVec.twoPow 256 y.toNat ≠ 0#256 := by
      intro h0
      have := congrArg BitVec.toNat h0
      rw [BitVec.toNat_twoPow_of_lt h] at this
      simp at this
    simp [div, shr, h, hne, BitVec.udiv_twoPow_eq_of_lt h]
  · simp [div, shl, shr, h]

-- EQ
theorem eq_self (a : Word) : eq a a = 1#256 := by
  unfold eq ofBool; simp
theorem eq_zero_left (x : Word) : eq 0#256 x = iszero x := by
  simp only [eq, iszero]; congr 1; exact decide_eq_decide.mpr eq_comm
theorem eq_one_ofBool (b : Bool) : eq 1#256 (ofBool b) = ofBool b := by
  cases b <;> decide
theorem eq_xor_same (w y : Word) : eq w (xor w y) = iszero y := by
  simp only [eq, xor, iszero]; congr 1
  apply decide_eq_decide.mpr
  constructor
  · intro h
    have : w ^^^ (w ^^^ y) = w ^^^ w := by rw [← h]
    simpa [← BitVec.xor_assoc] using this
  · rintro rfl; simp
theorem eq_xor_same_right (w y : Word) : eq w (xor y w) = iszero y := by
  rw [xor_comm', eq_xor_same]
theorem eq_xor_const (w w' y : Word) : eq w (xor w' y) = eq (w ^^^ w') y := by
  simp only [eq, xor]; congr 1
  apply decide_eq_decide.mpr
  constructor
  · intro h; subst h
    rw [BitVec.xor_comm (w' ^^^ y) w', ← BitVec.xor_assoc, BitVec.xor_self, BitVec.zero_xor]
  · intro h; subst h
    rw [BitVec.xor_comm w w', ← BitVec.xor_assoc, BitVec.xor_self, BitVec.zero_xor]

-- SUB / DIV / SDIV / MOD
theorem sub_self (a : Word) : sub a a = 0#256 := by simp [sub]
theorem sub_zero (a : Word) : sub a 0#256 = a := by simp [sub]
theorem div_zero (a : Word) : div a 0#256 = 0#256 := by simp [div]
theorem div_one (a : Word) : div a 1#256 = a := by simp [div]
theorem zero_div (b : Word) : div 0#256 b = 0#256 := by
  simp only [div]; split <;> simp
theorem sdiv_zero (a : Word) : sdiv a 0#256 = 0#256 := by simp [sdiv]
theorem sdiv_one (a : Word) : sdiv a 1#256 = a := by simp [sdiv, BitVec.sdiv_one]
theorem zero_sdiv (b : Word) : sdiv 0#256 b = 0#256 := by
  simp only [sdiv]; split <;> simp [BitVec.zero_sdiv]
theorem mod_self (a : Word) : mod a a = 0#256 := by
  simp only [mod]; split <;> simp [BitVec.umod_self]
theorem mod_zero (a : Word) : mod a 0#256 = 0#256 := by simp [mod]
theorem mod_one (a : Word) : mod a 1#256 = 0#256 := by
  simp only [mod]
  have : (1#256 = 0#256) = False := by decide
  simp only [this, if_false]
  apply BitVec.eq_of_toNat_eq
  simp

-- powers of two
theorem div_twoPow (a : Word) (k : Nat) (hk : k < 256) : div a (1#256 <<< k) = shr (BitVec.ofNat 256 k) a := by
  have h1 : (BitVec.ofNat 256 k).toNat = k := by simp; omega
  have hne : BitVec.twoPow 256 k ≠ 0#256 := by
    intro h0
    have := congrArg BitVec.toNat h0
    rw [BitVec.toNat_twoPow_of_lt hk] at this
    simp at this
  rw [← BitVec.twoPow_eq]
  simp [div, shr, h1, hk, hne, BitVec.udiv_twoPow_eq_of_lt hk]

theorem mul_twoPow (b : Word) (k : Nat) (hk : k < 256) : mul (1#256 <<< k) b = shl (BitVec.ofNat 256 k) b := by
  have h1 : (BitVec.ofNat 256 k).toNat = k := by simp; omega
  rw [← BitVec.twoPow_eq, mul_comm']
  simp [mul, shl, h1, hk, BitVec.mul_twoPow_eq_shiftLeft]

-- SHL / SHR / SAR
theorem shl_zero_left (x : Word) : shl 0#256 x = x := by simp [shl]
theorem shr_zero_left (x : Word) : shr 0#256 x = x := by simp [shr]
theorem sar_zero_left (x : Word) : sar 0#256 x = x := by simp [sar]
theorem shl_big (w x : Word) (h : 256 ≤ w.toNat) : shl w x = 0#256 := by
  simp [shl]; omega
theorem shr_big (w x : Word) (h : 256 ≤ w.toNat) : shr w x = 0#256 := by
  simp [shr]; omega
theorem shl_zero_right (a : Word) : shl a 0#256 = 0#256 := by
  simp only [shl]; split <;> simp
theorem shr_zero_right (a : Word) : shr a 0#256 = 0#256 := by
  simp only [shr]; split <;> simp

theorem and_shl_shl (s y z : Word) : and (shl s y) (shl s z) = shl s (and y z) := by
  simp only [and, shl]
  split
  · rw [BitVec.shiftLeft_and_distrib]
  · simp

theorem and_const_shl (w k z : Word) (hk : k.toNat < 256) (hw : (w >>> k.toNat) <<< k.toNat = w) :
    and w (shl k z) = shl k (and (w >>> k.toNat) z) := by
  simp only [and, shl, hk, if_true]
  rw [BitVec.shiftLeft_and_distrib, hw]

-- comparisons
theorem gt_self (a : Word) : gt a a = 0#256 := by simp [gt, ofBool]
theorem lt_self (a : Word) : lt a a = 0#256 := by simp [lt, ofBool]
theorem sgt_self (a : Word) : sgt a a = 0#256 := by simp [sgt, ofBool]
theorem slt_self (a : Word) : slt a a = 0#256 := by simp [slt, ofBool]
theorem gt_zero_left (x : Word) : gt 0#256 x = 0#256 := by simp [gt, ofBool]
theorem lt_zero_right (x : Word) : lt x 0#256 = 0#256 := by simp [lt, ofBool]
theorem gt_one_left (x : Word) : gt 1#256 x = iszero x := by
  simp only [gt, iszero, toNat_one']
  congr 1
  by_cases h : x = 0#256
  · subst h; simp
  · have := ne_zero_toNat h
    simp [h]; omega
theorem lt_one_right (x : Word) : lt x 1#256 = iszero x := by
  have := gt_one_left x
  simpa [gt, lt] using this

-- EXP
theorem pow_add' (a : Word) (m n : Nat) : a ^ (m + n) = a ^ m * a ^ n := by
  induction n with
  | zero => simp
  | succ n ih => rw [← Nat.add_assoc, BitVec.pow_succ, BitVec.pow_succ, ih, BitVec.mul_assoc]

theorem sq_pow (a : Word) (k : Nat) : (a * a) ^ k = a ^ k * a ^ k := by
  induction k with
  | zero => simp
  | succ k ih =>
    rw [BitVec.pow_succ, BitVec.pow_succ, ih]
    ac_rfl

theorem wpow_eq (a : Word) (n : Nat) : wpow a n = a ^ n := by
  induction n using Nat.strongRecOn generalizing a with
  | _ n ih =>
    rw [wpow]
    split
    · subst_vars; simp
    · rename_i hn
      have hlt : n / 2 < n := by omega
      simp only [ih (n / 2) hlt, sq_pow, ← pow_add']
      split
      · rename_i h1
        have : a * a ^ (n / 2 + n / 2) = a ^ (n / 2 + n / 2 + 1) := by
          rw [BitVec.pow_succ, BitVec.mul_comm]
        rw [this]; congr 1; omega
      · congr 1; omega

theorem exp_zero (a : Word) : exp a 0#256 = 1#256 := by simp [exp, wpow_eq]
theorem exp_one (a : Word) : exp a 1#256 = a := by
  simp [exp, wpow_eq, BitVec.pow_succ]
theorem one_pow' (n : Nat) : (1#256) ^ n = 1#256 := by
  induction n with
  | zero => simp
  | succ n ih => rw [BitVec.pow_succ, ih]; simp
theorem one_exp (b : Word) : exp 1#256 b = 1#256 := by simp [exp, wpow_eq, one_pow']
theorem zero_pow' (n : Nat) (h : n ≠ 0) : (0#256) ^ n = 0#256 := by
  cases n with
  | zero => exact absurd rfl h
  | succ n => rw [BitVec.pow_succ]; simp
theorem zero_exp (x : Word) : exp 0#256 x = iszero x := by
  simp only [exp, wpow_eq, iszero]
  by_cases h : x = 0#256
  · subst h; simp [ofBool]
  · have := ne_zero_toNat h
    simp [h, zero_pow' _ this, ofBool]
theorem two_pow' (n : Nat) : (2#256) ^ n = 1#256 <<< n := by
  induction n with
  | zero => simp
  | succ n ih =>
    rw [BitVec.pow_succ, ih]
    have : (2#256) = BitVec.twoPow 256 1 := by decide
    rw [this, BitVec.mul_twoPow_eq_shiftLeft, BitVec.shiftLeft_add]
theorem two_exp (x : Word) : exp 2#256 x = shl x 1#256 := by
  simp only [exp, wpow_eq, two_pow', shl]
  split
  · rfl
  · rename_i h
    exact BitVec.shiftLeft_eq_zero (by omega)

end Word

theorem BinOp.comm_sound (op : BinOp) (h : op.comm = true) (a b : Word) : op.sem a b = op.sem b a := by
  cases op <;> simp [BinOp.comm] at h <;> simp only [BinOp.sem]
  · exact Word.add_comm' a b
  · exact Word.mul_comm' a b
  · exact Word.eq_comm' a b
  · exact Word.and_comm' a b
  · exact Word.or_comm' a b
  · exact Word.xor_comm' a b

end GasolVerif
