"""Regenerates /verif/MANIFEST.json from the table below (run by hand after editing)."""
import json, os

ROOT = os.path.dirname(os.path.dirname(os.path.abspath(__file__)))

TB = ("Lean 4.33 kernel; axioms propext, Classical.choice, Quot.sound only (audited on every run; no sorry, "
      "native_decide, bv_decide or added axioms); lean/GasolVerif/{Word,Evm,Term}.lean as the EVM semantics "
      "(no gas, MSIZE, PC; external operations are one uninterpreted oracle); harness glue (vocab.py tokens, "
      "pool/worker) and the compiled driver gvdrv, which runs the same definitions the theorems are about")

CHECKS = {
    "C01": dict(
        category="translation_validation",
        text=("Every block the real optimizer emits (all option sets, greedy and Max-SMT with z3 as stand-in) is passed, with its "
              "input, to the Lean function `equiv norm3`, for which `equiv_norm3_sound : equiv norm3 B B' = true -> ObsEq B B'` is "
              "kernel-checked for all blocks, states and well-formed environments (symbolic execution proved exact, normaliser "
              "proved sound rule by rule). Pairs the validator cannot decide are executed in the Lean EVM from boundary states; a "
              "difference is a violation with the state as replay."),
        design_ref="DESIGN.md section 8, C01",
        technique="Lean 4 proved translation validator (symbolic execution + normalisation) over real optimizer outputs; concrete Lean EVM as failing-input search",
    ),
    "C03": dict(
        category="proof",
        text=("Each rule and folding identity is a Lean theorem over all 256-bit operands (Proofs/WordLemmas.lean, e.g. "
              "mul_shl_one, div_shl_one, zero_exp, two_exp, iszero_sub), assembled into `norm_sound`: the rule table `Norm.mkBin/mkUn/...` "
              "preserves evaluation in every state. Tie (one-directional correspondence): every rewrite the real `apply_transform` "
              "performs on the shape-exhaustive operand table, every value `evaluate_expression*` returns on the boundary grid, the "
              "opcode->operator->opcode round trip observed in specifications, and every block emitted with rules on/off/-size must be "
              "justified by the proved table (`equiv norm3`), else the boundary grid is searched for a failing operand."),
        design_ref="DESIGN.md section 8, C03",
        technique="Lean 4 theorems on BitVec 256 for every rule/fold + shape-exhaustive correspondence of apply_transform/evaluate_expression with the proved table",
    ),
    "C05": dict(
        category="translation_validation",
        text=("Term comparison, proved on a model: Models/Cmp.lean mirrors compare_variables / compare_target_stack of sfs_verify.py (source "
              "words by name, integers, records by opcode and value or by operands, the reversed retry for records flagged commutative, "
              "raising where Python raises); Cmp.cmp_sound (kernel-checked): where the comparison answers equal the two variables have "
              "the same value under every interpretation of the specifications' symbols that is symmetric on the operations flagged "
              "commutative. Tie: on the specifications of every (block, mutant) pair the real compare_target_stack and compare_variables "
              "(on a grid of variable pairs, ~26 000 decisions per quick run) must answer exactly as the model; the theorem's executable "
              "premises (pairOk) are evaluated. Whole checker, validated: the real compare_asm_block_asm_format is run on (block, semantic "
              "mutant) pairs - opcode substitutions, constants, stack indices, every operand permutation of binary and ternary "
              "operations in several contexts, dropped/duplicated/reordered stores, a store performed twice against that store plus a "
              "different one - and on (block, block); every pair it accepts must be accepted by the proved Lean validator "
              "(equiv_norm3_sound) or survive execution in the Lean EVM on boundary states; it must accept every analysable block against "
              "itself and never raise. compare_storage_userdef_ins is modelled as well (matchAll_spec: an accepted matching is one-to-one) and "
              "compared decision by decision; compare_dependences has no model: validated only. Reading it for a model exposed a genuine defect (matching not one-to-one, fixed)."),
        design_ref="DESIGN.md section 8, C05",
        technique="Lean soundness theorem about a model of the checker's term comparison + exact correspondence of its decisions; mutation pairs judged by the Lean-proved equivalence validator and the Lean EVM; reflexivity and exception behaviour of the real checker",
    ),
    "C18": dict(
        category="proof",
        text=("Lean model of the constructors (Models/Formula.lean: mkAnd/mkOr/mkNot/mkImplies/mkEq, flattening, literal dropping, "
              "Python's == as canonical-form equality) with theorems for every valuation and every formula: mkAnd_eval, mkOr_eval, "
              "mkNot_eval, mkImplies_eval, mkEq_eval, pyEq_sound (structural equality implies equal value, by canon_sound), and "
              "mkAnd_error_iff (exactly when the code raises). Tie: exact correspondence of the object returned by the real add_* "
              "functions with the model's, of translate_formula's text with the model's rendering, and of Python's == with pyEq, on "
              "the bounded-exhaustive and random tree families; truth tables over all valuations are the failing-input search."),
        design_ref="DESIGN.md section 8, C18",
        technique="Lean 4 structural-induction theorems about a model of connector_factory + exact input/output correspondence with the real constructors, renderer and ==",
    ),
    "C08": dict(
        category="proof",
        text=("The accept/reject decision is modelled in Lean (Models/Cost.lean: improves, hasBeenOptimized) and proved to be exactly the "
              "property's wording (improves_spec: strictly better in the criterion, or equal with nothing worse and something better; "
              "accepted_not_worse per criterion; costs_append: additivity). Tie: shape-exhaustive correspondence of the real "
              "improves_criterion with the model on all small tuples, per-instruction comparison of the tool's accounting with an "
              "independent cost table written in Lean, and every emitted block (3 criteria x split modes x PUSH0) judged by `acceptable` in "
              "that independent measure. The tool's block-level accounting (repeated accesses of a storage slot / an account priced as warm) "
              "is modelled too (Models/CostAcc.lean: gasAcc, with gasAcc_le_static and gasAcc_eq_static) and compared exactly in C17."),
        design_ref="DESIGN.md section 8, C08",
        technique="Lean 4 theorem about the decision function + exhaustive correspondence on small tuples + independent Lean cost measure over real outputs",
    ),
    "C14": dict(
        category="proof",
        text=("Lean specification of splitting and rebuilding (Models/Asm.lean) with theorems for every block and every choice of cut "
              "positions: joinShared_subBlocks (the sub-blocks joined at the shared instruction are the block), sharedOk_subBlocks, "
              "rebuild_none (rebuilding with nothing replaced is the identity), rebuild_one (replacing sub-block k by R changes only that "
              "segment, for every k and R). Tie: the sub-block lists, specification keys and "
              "source/target stack sizes the real front end reports under the three policies, and the real "
              "rebuild_optimized_asm_block with no and with each single replacement, are compared with the Lean functions on every "
              "generated block (exact correspondence; stack sizes against Lean symbolic execution)."),
        design_ref="DESIGN.md section 8, C14",
        technique="Lean 4 theorems about the split/join/rebuild specification + exact correspondence of the real splitter and rebuilder with it",
    ),
    "C02": dict(
        category="translation_validation",
        text=("Every specification the real front end produces (all split modes, rules on/off, a systematic corpus of access pairs at "
              "constant/unaligned/symbolic+constant offsets) is given to Lean, which evaluates the executable premises of the "
              "kernel-checked theorem Spec.spec_denotes_block_under_every_schedule: load-result names do not clash (namesOk), the "
              "schedules are duplicate-free permutations, every pair of operations that conflicts (data flow, same output, or "
              "accesses not provably disjoint by Norm.disjoint_sound / keysDiffer_sound with a write) is connected by the declared "
              "dependences plus data flow (conflictsOrdered), the schedules respect those pairs (respectsB), and the specification "
              "evaluated under a schedule equals the symbolic execution of the block through the proved normaliser "
              "(scheduleMatches_sound). The theorem then gives, for EVERY schedule respecting the pairs, every well-formed "
              "environment and every sufficiently deep state, exec(B,sigma) = the state the specification denotes. The proof goes "
              "through actEff_comm (non-conflicting operations commute), schedule_indep, and the simulation runSchedule_sim between "
              "the symbolic evaluation and the concrete scheduled run. Canonical, reversed and random admissible schedules are "
              "additionally evaluated one by one. What is validated, not proved: that the Python generator emits such a "
              "specification for every block (sampled), and the JSON-to-model serialisation."),
        design_ref="DESIGN.md section 8, C02",
        technique="Lean theorem (schedule independence + proved validator) whose executable premises are checked on every specification the real front end emits",
    ),
    "C04": dict(
        category="translation_validation",
        text=("`Spec.realizes` (Lean) is the executable statement of the property: symbolic execution of the id sequence from the "
              "specification's initial stack with no underflow, DUP/SWAP 1..16, every store exactly once, every dependence respected, each "
              "operation applied to the operands the specification names (modulo commutativity), final stack as specified. Every sequence "
              "the real greedy_from_json returns with error == 0 on every explored specification is checked by it (the greedy algorithm "
              "is not modelled). `realizes` has a kernel-checked semantic meaning: Spec.realizes_exec (for every environment and every state deep "
              "enough, the EVM instructions the identifiers stand for end in exactly the state the specification denotes under the schedule in "
              "which the sequence performs the memory/storage operations) and, with C02's theorem, Spec.realized_sequence_obsEq (block and "
              "sequence are observationally equivalent); their executable premises are evaluated on every greedy sequence (REALEXEC)."),
        design_ref="DESIGN.md section 8, C04",
        technique="Lean executable specification of 'realizes', proved sound against the Lean EVM (simulation by induction over the id sequence), applied to every output of the real greedy back end",
    ),
    "C09": dict(
        category="translation_validation",
        text=("Synthesized and shipped combined-json documents are run through the real command line under several option sets; an "
              "independent reader compares metadata, every skeleton item (tags, jumps, terminals, split instructions) with all its fields, "
              "checks every emitted item for well-formedness and pseudo-push operands against the input block, re-parses the output with the "
              "tool's parser, and sends every changed block to the Lean-proved validator. Lean: Asm.rebuild_none/joinShared_subBlocks are the "
              "theorems behind 'only optimizable segments change'."),
        design_ref="DESIGN.md section 8, C09",
        technique="independent reader over real emitted documents + Lean rebuild specification theorems + proved block validator",
    ),
    "C10": dict(
        category="proof",
        text=("Pipeline.lean models the keep-or-revert loop over arbitrary failing oracles: contract_total, failed_block_unchanged, "
              "fault_local are proved for every failure pattern; wpow_eq bounds EXP folding to 256 squarings. Tie: the real command line "
              "is re-run with faults injected into the analysis of a named block, the k-th greedy call and the k-th checker call, and must "
              "behave as the model says; every generated and extreme-operand block must complete within a 10 s / 3 GiB budget without an "
              "exception escaping (runtime validation; partial for the resource budget)."),
        design_ref="DESIGN.md section 8, C10",
        technique="Lean theorems about a pipeline model with failing oracles + fault-injection correspondence with the real CLI + per-block resource budget",
    ),
    "C15": dict(
        category="proof",
        text=("Clauses two and three (plain text): Models/Plain.lean is a Lean model of plain_instructions_to_asm_representation and of "
              "AsmBytecode.to_plain over tokens. Kernel-checked: int(hex(n)[2:],16)=n, int(str(n))=n, leading zeros / 0x / upper case do not "
              "change a value (for every n, every number of zeros), Plain.spelling_value (every spelling family of a constant c - PUSH hex, padded, "
              "upper case, 0x; PUSHk 0x..; PUSHk decimal, padded - is read as one PUSH whose value denotes c) and Plain.parse_print (printing any "
              "block of covered items under either PUSH0 setting and reading it back gives the block, numeric values preserved). Tie: the real reader "
              "and printer are run on a deterministic corpus plus generated token streams (a quarter with a planted defect: missing operand, "
              "non-number) and on every item of generated blocks, and must agree with the model output exactly (errors included); the theorem's "
              "premise `covered` is evaluated on the real items. Clause one (JSON): Models/JsonItem.lean models build_asm_bytecode (with the PUSHLIB table and the PUSH0 case) and to_json; "
              "Json.toJson_build / buildAll_toJson / roundtrip_stable are kernel-checked for every well-formed item, table and PUSH0 setting, and every "
              "code section of every document of the run goes item by item through the real functions and the model (equal AsmBytecode fields and "
              "written items). The nesting of whole documents is a differential round trip over shipped, test and "
              "synthesized solc documents under both PUSH0 settings, with no theorem."),
        design_ref="DESIGN.md section 8, C15",
        technique="Lean 4 theorems (numeral round trips by induction, spelling_value, parse_print) about a model of the plain-text reader/printer + exact correspondence with the real reader/printer; differential JSON round trip",
    ),
    "C16": dict(
        category="translation_validation",
        text=("Universal clause: Spec.min_length_le (kernel-checked, all instruction sequences): every sequence that realizes a specification in the sense "
              "of C04 has at least minInstr instructions, by conservation of stack cells per value (each creation and each pop is one instruction, "
              "every needed operation is executed at least once because a cell of its value has no other origin). Its premises are executable and "
              "are evaluated by the Lean driver on every specification the real front end emits; minInstr, computed by Lean on the emitted "
              "specification, must be the tool's min_length_instrs. Where they differ, or the position-bound component of min_length is the larger one, "
              "sequences shorter than min_length are searched exhaustively. Existential clause: a witness sequence (the greedy result, once accepted by "
              "Lean's Spec.realizes, with its peak stack computed by Lean) shows init_progr_len and max_sk_sz feasible; small specifications whose witness "
              "does not fit are decided by exhaustive enumeration. original_instrs must be the sub-block."),
        design_ref="DESIGN.md section 8, C16",
        technique="Lean 4 theorem over all realizing sequences (minimum length) with per-specification premise evaluation and count correspondence; witness validation with the Lean 'realizes' checker for the existential bounds",
    ),
    "C17": dict(
        category="translation_validation",
        text=("Pricing: Cost.costs_flag (kernel-checked, all blocks) says the PUSH0 flag changes the reference cost of a block by exactly one gas "
              "unit and one byte per zero push and nothing else, saving_flag that savings computed with one flag on both sides differ from the other "
              "flag's by the number of zero pushes removed; the tool's gas/bytes/length for every input and output block are compared with this "
              "reference under the same flag, for both flag values (gas: with the Lean model Cost.gasAcc of the tool's warm/cold accounting, equal "
              "on every block; gasAcc_le_static / gasAcc_eq_static relate it to the static price). Emission: real documents and plain blocks are run with PUSH0 disabled and "
              "enabled; with it disabled no PUSH0 item may appear that the input did not have. Contract selection: -c <name> on real documents must "
              "give exactly the selected contract's assembly of the full run (Cost.selection_frame / selection_names state the contract on a model "
              "of the filter). The emission and selection clauses are observations of real runs, not theorems about the code."),
        design_ref="DESIGN.md section 8, C17",
        technique="Lean theorems about the flag's effect on the reference cost + cost correspondence under both flags; differential runs of the real CLI for emission and contract selection",
    ),
    "C11": dict(
        category="proof",
        text=("Pipeline.replayBlock models optimize_asm_from_log; replay_sound (any log content either aborts or yields an equivalent "
              "block, given a sound checker) and replay_roundtrip are proved. Tie: the real CLI is run with -log, the log replayed (the "
              "file must be byte-identical), and edited logs replayed (substitution, deletion, duplication, permutation, foreign ids, raw "
              "opcodes, truncation, dropped/swapped blocks): replay must fail or every changed block must be accepted by the Lean-proved "
              "validator or survive concrete search."),
        design_ref="DESIGN.md section 8, C11",
        technique="Lean corollary of the pipeline model + real log replay with tampered logs judged by the proved validator",
    ),
    "C12": dict(
        category="proof",
        text=("Frame.frame: a pipeline that reads only names re-initialised at block entry, constants, or names every history leaves "
              "alike computes the same result after any two histories. Its premise is instantiated on tables that harness/extract.py "
              "regenerates from /repo with ast on every run (module globals of gasol_optimization.py and ir_block.py: read set of the block "
              "pipeline, reset set of init_globals and the smt_translate_block prologue, never-written constants) and kernel-decided "
              "(generated_frame_ok_*); the residue is an explicit allow-list with reasons. The extractor also lists, over the whole "
              "repository, class-level attributes bound to a mutable container (rebound per instance? mutated in place?) and parameters with a "
              "mutable default (mutated?); generated_class_state_ok / generated_defaults_ok decide that none of them carries state from one "
              "object or call to the next. Validation: each block processed in a fresh "
              "process and after 1..50 other blocks, all result fields compared."),
        design_ref="DESIGN.md section 8, C12",
        technique="Lean frame theorem instantiated on read/reset tables extracted from the source on every run (translator) + fresh-process vs history runs",
    ),
    "C13": dict(
        category="proof",
        text=("Determinism lemmas for the order-insensitive consumers of hash-ordered collections (sort_perm_invariant, "
              "numbering_perm_invariant, foldMax/length/membership under permutation) are proved; validation runs every block and "
              "synthesized documents under PYTHONHASHSEED 0,1,2,3,random in separate processes and compares specifications "
              "(identifiers included), greedy ids, emitted blocks, logs and files byte for byte. The places where the code visits a set in "
              "its own order are extracted from the source on every run (translator, syntactic and function-local) and "
              "Iteration.generated_iteration_sites_ok decides that each feeds an order-insensitive consumer or is allow-listed with a reason."),
        design_ref="DESIGN.md section 8, C13",
        technique="Lean permutation-invariance lemmas + kernel-decided obligation over set-iteration sites extracted from the source on every run + cross-process, cross-hash-seed byte comparison of real outputs",
    ),
    "C06": dict(
        category="proof",
        text=("Models/Encoding.lean and Models/EncodingOrder.lean generate, from the instance data of the real FullEncoding object (stack bound, "
              "length, instructions with theta values/kinds/operands/position bounds, initial and target stack, the term table, order tuples, "
              "dependency graph), the hard constraints that matter for soundness as raw constructor trees, exactly as the Python code calls "
              "add_and/add_eq/...: restrict_t_domain, every *_encoding of synthesis_stack_constraints (boolean u variables), the initial/final "
              "stack constraints, the distinctness constraints of each term encoding, at-least/at-most-once for stores, the store/store, "
              "store/load, load/store constraints of the direct memory encoding and the l-variable constraints of the l_vars encoding. "
              "Formula.build (the proved model of connector_factory, C18) turns them into the emitted formulas. Kernel-checked: step_sound (one "
              "transition constraint is one step of the abstract stack machine, for all nine instruction kinds), core_sound / core_sound_built "
              "(every valuation satisfying the emitted core decodes to b0 instructions whose run from the initial stack never underflows nor "
              "exceeds the bound and ends in the target stack), core_realizes with inj_uf / inj_stackVars / inj_int (the run is symbolic: every "
              "operation applied to exactly the operands the specification names), store_exactly_once, store_store_order, store_load_order, "
              "load_store_order, l_exactly_once, l_order (every store once, every declared dependence respected). Tie: on every run, for "
              "generated blocks x encoder option sets, each formula the model generates must occur verbatim (as a tree) among the hard "
              "constraints the real encoder emits, and the executable premises of the theorems (instOk, well-sortedness, svsOk/intTermsOk, "
              "orderOk, thetasOk) are evaluated on the instance. Additionally the text handed to the solver must be accepted by z3 and the "
              "optimum plus further models, decoded with the tool's own theta table, must pass Spec.realizes. The -empty variants are "
              "modelled too (step_soundE, core_soundE, notEmpty_of_nodup). Outside the theorems: instances with a stack bound of 0 or a terminal block, SMT-LIB rendering/declarations and the model reader "
              "(validated per instance/model). The attempt to prove the order constraints exposed a genuine defect (fixed)."),
        design_ref="DESIGN.md section 8, C06",
        technique="Lean 4 soundness theorems about a model of the Max-SMT encoding generated from the real encoder's instance data + verbatim (tree-level) correspondence of every generated constraint with the real encoder's output; z3 model enumeration with the Lean 'realizes' checker as failing-input search",
    ),
    "C07": dict(
        category="model_checking",
        text=("Pricing clause, proved: Models/EncodingSoft.lean generates the weighted clauses of soft_constraints_grouped_by_weight from the "
              "weight table the real encoder computed (captured at the call); Enc.penalty_affine (kernel-checked, every valuation that "
              "satisfies the domain constraints) says the objective equals the charged weight of the decoded instructions minus a constant "
              "of the instance (telescope / layer_cake / term_miss: a clause that is missing because no cheaper instruction may sit at a "
              "position is missing for every model). Tie: on every instance the generated clauses and weights must equal the emitted ones "
              "as multisets. Optimality and satisfiability clauses, bounded: for specifications with init_progr_len <= 4 (thorough 5) every "
              "instruction-id sequence up to the bound is enumerated and checked by Lean's Spec.realizes; the solver's optimum under 13 "
              "option sets (criteria, bounds, ordering and pruning constraints on/off) must cost the true minimum, unsat may not coincide "
              "with a realizable specification, optima must agree across option sets, and soft cost minus true cost must be constant over "
              "enumerated models. No theorem about the position-bound heuristics or the pruning constraints (completeness); -direct-"
              "inequalities soft constraints are outside the model."),
        design_ref="DESIGN.md section 8, C07",
        technique="Lean theorem on the soft-constraint objective (penalty_affine) with exact correspondence of the emitted weighted clauses; exhaustive enumeration of realizing sequences (Lean checker) against the solver optimum on small instances",
    ),
}

NOT_APPLICABLE = [
]


def main():
    checks = []
    for pid in sorted(CHECKS):
        c = CHECKS[pid]
        checks.append({
            "property_id": pid,
            "quick_cmd": "./check %s --tier quick" % pid,
            "thorough_cmd": "./check %s --tier thorough" % pid,
            "evidence_file": "evidence/%s.json" % pid,
            "replay_cmd_template": "./check %s --replay {path}" % pid,
            "engine": "lean-gasolverif",
            "level_claimed": {"category": c["category"], "text": c["text"], "design_ref": c["design_ref"]},
            "level_note": c.get("note", TB),
            "technique": c["technique"],
        })
    claimed = set(CHECKS)
    m = {
        "version": 1,
        "setup_cmd": "cd lean && lake build GasolVerif gvdrv",
        "hooks": {"guard": "GASOL_VERIF", "enable": "no source hooks: the harness imports the repository in process (GASOL_VERIF=1 is set but read nowhere in /repo)",
                  "baseline_off_cmd": "cd /repo && /venv/bin/python -m pytest -ra -q -p no:cacheprovider --timeout=900 --continue-on-collection-errors",
                  "source_commits": [], "add_only": True},
        "engines": [{"name": "lean-gasolverif", "path": "lean/", "serves_properties": sorted(claimed),
                     "kind_free_text": "Lean 4 library (models, validators, theorems) + compiled line-protocol driver gvdrv; Python harness under harness/ drives the real code in process"}],
        "checks": checks,
        "not_applicable": [n for n in NOT_APPLICABLE if n["property_id"] not in claimed],
        "notes": "fix: commits in /repo are listed in known_findings.json (fixed entries). VERIF_SEED seeds every generator; exit 2 = machinery failure, never a verdict.",
    }
    json.dump(m, open(os.path.join(ROOT, "MANIFEST.json"), "w"), indent=1)
    print("wrote MANIFEST.json with", len(checks), "checks")


if __name__ == "__main__":
    main()
