/-
  (M) C14 / C09: block splitting and rebuilding, as list functions over instruction texts.
  `subBlocks` is the partition the front end reports (consecutive sub-blocks share the splitting
  instruction); `rebuild` is what `rebuild_optimized_asm_block` must compute.  No Mathlib.
-/
namespace GasolVerif.Asm

/-- cut `body` after every flagged instruction; each later piece starts with the cutting instruction
    of the previous one (the shared instruction).  The flag is "is a splitting instruction" for the
    default and `-storage` policies and "is a chosen store position" for `-partition`. -/
def subBlocksAux : List (String × Bool) → List String → List (List String)
  | [], cur => [cur.reverse]
  | (i, c) :: rest, cur =>
    if c then (i :: cur).reverse :: subBlocksAux rest [i]
    else subBlocksAux rest (i :: cur)

def subBlocks (body : List (String × Bool)) : List (List String) := subBlocksAux body []

/-- join sub-blocks at their shared instruction -/
def joinShared : List (List String) → List String
  | [] => []
  | [s] => s
  | s :: t :: rest => s ++ (joinShared (t :: rest)).drop 1

/-- consecutive sub-blocks share exactly the splitting instruction -/
def sharedOk : List (List String) → Bool
  | s :: t :: rest => (s.getLast? == t.head? && s.getLast?.isSome) && sharedOk (t :: rest)
  | _ => true

/-- the instructions to optimize of each sub-block: without the shared instructions
    (`process_blocks_split`) -/
def stripShared : List (List String) → List (List String)
  | [] => []
  | [s] => [s]
  | s :: t :: rest => s.dropLast :: stripSharedTail (t :: rest)
where
  stripSharedTail : List (List String) → List (List String)
    | [] => []
    | [s] => [s.drop 1]
    | s :: t :: rest => (s.drop 1).dropLast :: stripSharedTail (t :: rest)

/-- rebuild: `pre` (tags, JUMPDEST), then per sub-block either its replacement or its own
    instructions, with the shared instructions kept in between, then `post` (jump/terminal) -/
def rebuildBody (segs : List (List String)) (shared : List String) (repl : Nat → Option (List String)) (k : Nat) :
    List String :=
  match segs, shared with
  | [], _ => []
  | [s], _ => (repl k).getD s
  | s :: rest, sp :: sps => (repl k).getD s ++ sp :: rebuildBody rest sps repl (k + 1)
  | s :: rest, [] => (repl k).getD s ++ rebuildBody rest [] repl (k + 1)

def sharedOf : List (List String) → List String
  | s :: t :: rest => (s.getLast?.toList) ++ sharedOf (t :: rest)
  | _ => []

def rebuild (pre : List String) (subs : List (List String)) (post : List String)
    (repl : Nat → Option (List String)) : List String :=
  pre ++ rebuildBody (stripShared subs) (sharedOf subs) repl 0 ++ post

end GasolVerif.Asm
