/-
  (M) C05: the term comparison of the built-in checker (`verification/sfs_verify.py:compare_variables`,
  `compare_target_stack`) as a function over two specifications (`none` = the Python code raises), the meaning of a
  specification's variables under an interpretation of its symbols, and the wire format.   No Mathlib.
-/
import GasolVerif.Models.Spec
namespace GasolVerif.Cmp
open GasolVerif.Spec

/-- a `user_instrs` record as the checker reads it -/
structure CInstr where
  id : String
  op : String                 -- disasm
  value : Option String       -- JSON text of the `value` field when present
  inp : List Atom
  out : List String           -- outpt_sk
  comm : Bool
  deriving Repr, Inhabited, DecidableEq

structure CSpec where
  src : List String
  tgt : List Atom
  instrs : List CInstr
  deriving Repr, Inhabited

/-- `var in src` (an integer is never a member of the list of names) -/
def inSrc (S : CSpec) : Atom → Bool
  | .var v => S.src.contains v
  | .const _ => false

/-- `is_integer` -/
def isInt : Atom → Bool
  | .const _ => true
  | .var _ => false

def defsOf (S : CSpec) : Atom → List CInstr
  | .var v => S.instrs.filter fun u => u.out.contains v
  | .const _ => []

mutual
/-- `compare_variables(var_origin, var_opt, …)`: `some b` = returns `b`, `none` = raises -/
def cmpVar (O P : CSpec) : Nat → Atom → Atom → Option Bool
  | 0, _, _ => none
  | fuel + 1, x, y =>
    if inSrc O x && x != y then some false
    else if isInt x && x != y then some false
    else if !(inSrc O x) && !(isInt x) then
      let eo := defsOf O x
      let ep := defsOf P y
      if eo.length != ep.length then some false
      else
        match eo, ep with
        | a :: _, b :: _ =>
          if a.op != b.op then some false
          else if a.value.isSome && b.value.isSome then some (a.value == b.value)
          else
            match cmpArgs O P fuel a.inp b.inp with
            | none => none
            | some true => some true
            | some false =>
              if !a.comm then some false
              else cmpRev O P fuel a.inp b.inp.reverse
        | _, _ => none            -- `elem_origin_l[0]` on an empty list
    else some true
/-- the first loop: every pair is compared (no short circuit), a missing operand of the optimized record raises -/
def cmpArgs (O P : CSpec) : Nat → List Atom → List Atom → Option Bool
  | _, [], _ => some true
  | _, _ :: _, [] => none
  | fuel, x :: xs, y :: ys =>
    match cmpVar O P fuel x y, cmpArgs O P fuel xs ys with
    | some r, some rs => some (r && rs)
    | _, _ => none
/-- the retry of a commutative operation with the operands of the optimized record in reverse order: stops at the
    first difference -/
def cmpRev (O P : CSpec) : Nat → List Atom → List Atom → Option Bool
  | _, [], _ => some true
  | _, _ :: _, [] => none
  | fuel, x :: xs, y :: ys =>
    match cmpVar O P fuel x y with
    | none => none
    | some false => some false
    | some true => cmpRev O P fuel xs ys
end

def fuelC (O P : CSpec) : Nat := O.instrs.length + P.instrs.length + 2

/-- `compare_target_stack` -/
def cmpTarget (O P : CSpec) : Option Bool :=
  if O.tgt.length != P.tgt.length then some false
  else
    let rec go : List Atom → List Atom → Option Bool
      | [], _ => some true
      | _ :: _, [] => none
      | x :: xs, y :: ys =>
        match cmpVar O P (fuelC O P) x y with
        | none => none
        | some false => some false
        | some true => go xs ys
    go O.tgt P.tgt

/-- an interpretation of the symbols of a specification: the checker's notion of equality is "same value under
    every such interpretation" (loads and hashes are uninterpreted functions of their operands here; their position
    relative to the stores is the business of the dependence comparison) -/
structure Interp where
  const : Nat → Int
  srcv : String → Int
  valued : String → String → Int
  app : String → List Int → Int

/-- operations whose record may carry `commutative: true` must be symmetric in the interpretation -/
def Interp.CommOk (ι : Interp) (S : CSpec) : Prop :=
  ∀ u ∈ S.instrs, u.comm = true → ∀ a b : Int, ι.app u.op [a, b] = ι.app u.op [b, a]

mutual
/-- value of an atom: follows the first defining record, as the checker does -/
def den (ι : Interp) (S : CSpec) : Nat → Atom → Option Int
  | 0, _ => none
  | fuel + 1, x =>
    match x with
    | .const n => some (ι.const n)
    | .var v =>
      if S.src.contains v then some (ι.srcv v)
      else
        match defsOf S (.var v) with
        | a :: _ =>
          match a.value with
          | some t => some (ι.valued a.op t)
          | none => (denArgs ι S fuel a.inp).map (ι.app a.op)
        | [] => none
def denArgs (ι : Interp) (S : CSpec) : Nat → List Atom → Option (List Int)
  | _, [] => some []
  | fuel, x :: xs =>
    match den ι S fuel x, denArgs ι S fuel xs with
    | some a, some as => some (a :: as)
    | _, _ => none
end

/-- executable well-formedness of a pair of specifications, as far as the comparison of terms relies on it -/
def pairOk (O P : CSpec) : Bool :=
  O.src == P.src &&
  -- a record's output is not an initial stack variable
  O.instrs.all (fun u => u.out.all fun o => !O.src.contains o) && P.instrs.all (fun u => u.out.all fun o => !P.src.contains o) &&
  -- records of the same operation agree on arity and on carrying a `value`
  O.instrs.all (fun a => P.instrs.all fun b => a.op != b.op || (a.inp.length == b.inp.length && a.value.isSome == b.value.isSome)) &&
  -- `commutative` only on operations with two operands
  O.instrs.all (fun u => !u.comm || u.inp.length == 2)

/-! ### wire format (glue) -/
/-- `x["disasm"].find(s) != -1` for the substrings the checker uses -/
def hasSubstr (s op : String) : Bool := (op.splitOn s).length > 1

def stoInstrs (S : CSpec) : List CInstr := S.instrs.filter fun u => hasSubstr "SSTORE" u.op || hasSubstr "SLOAD" u.op
def memInstrs (S : CSpec) : List CInstr := S.instrs.filter fun u => hasSubstr "MSTORE" u.op || hasSubstr "MLOAD" u.op

/-- `search_val_in_userdef`: the first record of `cands` with the same opcode whose operands all compare equal
    (`none` = a comparison raises) -/
def searchVal (O P : CSpec) (ins : CInstr) : List CInstr → Option (Option CInstr)
  | [] => some none
  | c :: cs =>
    if ins.op == c.op then
      match cmpArgs O P (fuelC O P) ins.inp c.inp with
      | none => none
      | some true => some (some c)
      | some false => searchVal O P ins cs
    else searchVal O P ins cs

/-- the matching loop of `compare_storage_userdef_ins` after the repair: every record of the original specification
    finds a not yet used record of the optimized one -/
def matchAll (O P : CSpec) : List CInstr → List CInstr → Option Bool
  | [], _ => some true
  | ins :: rest, remaining =>
    match searchVal O P ins remaining with
    | none => none
    | some none => some false
    | some (some c) => matchAll O P rest (remaining.filter fun x => x.id != c.id)

/-- `compare_storage_userdef_ins` -/
def cmpStores (O P : CSpec) : Option Bool :=
  if (stoInstrs O).length != (stoInstrs P).length then some false
  else if (memInstrs O).length != (memInstrs P).length then some false
  else
    match matchAll O P (stoInstrs O) (stoInstrs P) with
    | none => none
    | some false => some false
    | some true => matchAll O P (memInstrs O) (memInstrs P)

def parseCInstr (r : String) : Option CInstr :=
  match r.splitOn "~" with
  | [id, op, value, inp, out, comm] =>
    some { id := id, op := op, value := if value == "-" then none else some value,
           inp := (splitNE inp ",").map parseAtom, out := splitNE out ",", comm := comm == "1" }
  | _ => none

def parseCSpec (s : String) : Option CSpec :=
  match s.splitOn "|" with
  | [src, tgt, instrs] => do
    let us ← (splitNE instrs ";").mapM parseCInstr
    some { src := splitNE src ",", tgt := (splitNE tgt ",").map parseAtom, instrs := us }
  | _ => none

def showOB : Option Bool → String
  | none => "raise"
  | some true => "true"
  | some false => "false"

/-- CMP: `<pairOk> <compare_target_stack> <compare_storage_userdef_ins> <compare_variables for each requested pair…>` -/
def handleCmp (so sp pairs : String) : String :=
  match parseCSpec so, parseCSpec sp with
  | some O, some P =>
    let ps := (splitNE pairs ";").map fun p => match p.splitOn "," with
      | [x, y] => (parseAtom x, parseAtom y)
      | _ => (Atom.const 0, Atom.const 0)
    s!"{if pairOk O P then 1 else 0} {showOB (cmpTarget O P)} {showOB (cmpStores O P)} " ++ " ".intercalate (ps.map fun (x, y) => showOB (cmpVar O P (fuelC O P) x y))
  | _, _ => "error:parse"

end GasolVerif.Cmp
