/-
  (P) The per-block pipeline of gasol_asm (optimize, re-check, keep or revert) over abstract,
  possibly failing oracles.  C01: the emitted block is equivalent to the input whatever the search
  returns, provided the re-check is sound.  C10: the pipeline is total and a failure costs at most the
  block it happens in.  C11: replaying a log either fails or emits an equivalent block.
-/
import GasolVerif.Evm
namespace GasolVerif.Pipeline

/-- back ends and checker as arbitrary, possibly failing functions (`none` = raises / reports error) -/
structure Oracles (Blk : Type) where
  optimize : Blk → Option Blk
  compare : Blk → Blk → Option Bool

variable {Blk : Type}

/-- `optimize_asm_block_asm_format` followed by the keep-or-revert of `optimize_asm_contract` -/
def optimizeBlock (O : Oracles Blk) (b : Blk) : Blk :=
  match O.optimize b with
  | none => b
  | some b' =>
    match O.compare b b' with
    | some true => b'
    | _ => b

def optimizeContract (O : Oracles Blk) (bs : List Blk) : List Blk := bs.map (optimizeBlock O)

/-- the pipeline always produces an output, with one block per input block -/
theorem contract_total (O : Oracles Blk) (bs : List Blk) : (optimizeContract O bs).length = bs.length := by
  simp [optimizeContract]

/-- a block on which the analysis, the search or the re-check fails is emitted unchanged -/
theorem failed_block_unchanged (O : Oracles Blk) (b : Blk)
    (h : O.optimize b = none ∨ ∀ b', O.optimize b = some b' → O.compare b b' ≠ some true) :
    optimizeBlock O b = b := by
  unfold optimizeBlock
  rcases h with h | h
  · simp [h]
  · cases ho : O.optimize b with
    | none => rfl
    | some b' =>
      have := h b' ho
      split <;> simp_all

/-- **fault locality**: two oracle families that agree on a block treat it alike, wherever it stands
    and whatever happens to the other blocks -/
theorem fault_local (O O₀ : Oracles Blk) (bs : List Blk) (i : Nat) (hi : i < bs.length)
    (h₁ : O.optimize bs[i] = O₀.optimize bs[i])
    (h₂ : ∀ b', O.compare bs[i] b' = O₀.compare bs[i] b') :
    (optimizeContract O bs)[i]'(by simp [optimizeContract, hi]) =
      (optimizeContract O₀ bs)[i]'(by simp [optimizeContract, hi]) := by
  simp only [optimizeContract, List.getElem_map, optimizeBlock, h₁]
  cases O₀.optimize bs[i] with
  | none => rfl
  | some b' => simp [h₂]

/-- C01 at pipeline level: for every search and analysis oracle, if the re-check only accepts
    equivalent blocks, the emitted block is equivalent to the input -/
theorem optimizeBlock_obsEq (sem : Blk → List Instr) (O : Oracles Blk)
    (hCmp : ∀ b b', O.compare b b' = some true → ObsEq (sem b) (sem b')) (b : Blk) :
    ObsEq (sem b) (sem (optimizeBlock O b)) := by
  unfold optimizeBlock
  cases ho : O.optimize b with
  | none => exact ObsEq.refl _
  | some b' =>
    simp only
    cases hc : O.compare b b' with
    | none => exact ObsEq.refl _
    | some r =>
      cases r with
      | false => exact ObsEq.refl _
      | true => exact hCmp b b' hc

/-- C11: replay rebuilds a block from logged ids and re-checks it; any log content either aborts
    (`none`) or yields an equivalent block -/
def replayBlock (rebuild : Blk → Option Blk) (compare : Blk → Blk → Option Bool) (b : Blk) : Option Blk :=
  match rebuild b with
  | none => none
  | some b' =>
    match compare b b' with
    | some true => some b'
    | _ => none

theorem replay_sound (sem : Blk → List Instr) (rebuild : Blk → Option Blk) (compare : Blk → Blk → Option Bool)
    (hCmp : ∀ b b', compare b b' = some true → ObsEq (sem b) (sem b')) (b out : Blk)
    (h : replayBlock rebuild compare b = some out) : ObsEq (sem b) (sem out) := by
  unfold replayBlock at h
  cases hr : rebuild b with
  | none => simp [hr] at h
  | some b' =>
    simp only [hr] at h
    cases hc : compare b b' with
    | none => simp [hc] at h
    | some r =>
      cases r with
      | false => simp [hc] at h
      | true => simp [hc] at h; subst h; exact hCmp b b' hc

/-- replaying the log of a run reproduces the run, when analysis and checking are functions of the block -/
theorem replay_roundtrip (O : Oracles Blk) (b b' : Blk) (h₁ : O.optimize b = some b') (h₂ : O.compare b b' = some true) :
    replayBlock (fun _ => some b') O.compare b = some (optimizeBlock O b) := by
  simp [replayBlock, optimizeBlock, h₁, h₂]

end GasolVerif.Pipeline
