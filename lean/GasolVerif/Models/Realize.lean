/-
  (V) C04 / C06 / C01: from an instruction-id sequence to EVM instructions, and the executable premises under
  which `Spec.realizes` has its semantic meaning (`Proofs/RealizeSound.lean`): running the instructions the
  identifiers stand for, from any state deep enough, ends in exactly the state the specification denotes under
  the schedule in which the sequence performs the memory/storage operations.   No Mathlib.
-/
import GasolVerif.Models.SpecSem
namespace GasolVerif.Spec

/-- the EVM instruction a specification instruction stands for (the same case analysis as `pureTm` / `effOf`) -/
def instrOfU (u : UInstr) : Option Instr :=
  if u.op == "MSTORE" then some .mstore
  else if u.op == "MSTORE8" then some .mstore8
  else if u.op == "SSTORE" then some .sstore
  else if u.op == "MLOAD" then some .mload
  else if u.op == "SLOAD" then some .sload
  else if u.op == "KECCAK256" || u.op == "SHA3" then some .keccak
  else match u.inp with
    | [] =>
      if u.op == "PUSH" || u.op == "PUSH0" then (parseHex? u.sym).map fun n => .push (BitVec.ofNat 256 n)
      else if u.op.startsWith "PUSH" then some (.pushSym u.sym)
      else some (.env0 (if u.op == "DIFFICULTY" then "PREVRANDAO" else u.op))
    | [_] =>
      match UnOp.ofName? u.op with
      | some o => some (.un o)
      | none => some (.env1 u.op)
    | [_, _] => (BinOp.ofName? u.op).map .bin
    | [_, _, _] => (TerOp.ofName? u.op).map .ter
    | _ => none

/-- instructions of one identifier of a solution (`NOP` stands for nothing) -/
def instrsOfId (S : Spec) (id : String) : Option (List Instr) :=
  if id == "NOP" then some []
  else if id.startsWith "PUSH#" then ((id.drop 5).toString.toNat?).map fun n => [.push (BitVec.ofNat 256 n)]
  else if id == "POP" then some [.pop]
  else match stackIdx? "DUP" id with
  | some k => some [.dup k]
  | none =>
  match stackIdx? "SWAP" id with
  | some k => some [.swap k]
  | none => (S.find? id).bind fun u => (instrOfU u).map fun i => [i]

def asmOf (S : Spec) : List String → Option (List Instr)
  | [] => some []
  | id :: ids =>
    match instrsOfId S id, asmOf S ids with
    | some a, some r => some (a ++ r)
    | _, _ => none

/-- the term an atom stands for when every load result is an opaque symbol -/
abbrev tmA (S : Spec) (a : Atom) : Option Tm := termOfAtom S (opaqueEnv S) (fuelOf S) a

/-- per-instruction premises of `realizes_exec` -/
def instrOk (S : Spec) (u : UInstr) : Bool :=
  (termsOf S (opaqueEnv S) (fuelOf S) u.inp).isSome &&
  (!u.comm || (u.inp.length == 2 && !u.isEffect && (BinOp.ofName? u.op).any (·.comm))) &&
  (!(u.op == "PUSH" || u.op == "PUSH0") || u.inp.isEmpty) &&
  (match u.out with
   | some o => !S.src.contains o && decide (S.producer? o = some u)
   | none => true) &&
  (if u.isEffect then
     effOf S u != .skip && (!u.isStore || u.out.isNone)
   else
     (instrOfU u).isSome &&
     match u.out with
     | none => false
     | some o => (termOfVar S (opaqueEnv S) (fuelOf S) o).isSome)

/-- premises of `realizes_exec`, all executable: names do not clash, initial words are distinct, every instruction
    is well formed (operand terms exist, the commutative flag sits on a commutative binary operation only, every
    result names one instruction and no initial word, stores have no result, every other instruction has one and a term
    for it exists) -/
def realOk (S : Spec) : Bool := namesOk S && decide S.src.Nodup && S.instrs.all (instrOk S)

/-- identifiers of memory/storage operations -/
def isEffId (S : Spec) (id : String) : Bool :=
  match S.find? id with
  | some u => u.isEffect
  | none => false

/-- the schedule in which a run performed the memory/storage operations -/
def schedOf (S : Spec) (done : List String) : List String := done.filter (isEffId S)

/-- REALEXEC: every premise of `realized_sequence_exec` / `realized_sequence_obsEq` evaluated on one
    (block, specification, id sequence); answers with the instructions the identifiers stand for -/
def handleRealExec (nf : Normaliser) (block src tgt instrs deps ids sched1 : String) : String :=
  match parseBlock? block, (parseSpec src tgt instrs deps).map pruneDead with
  | some B, some S =>
    let idl := splitNE ids ","
    match realizes S idl with
    | .error err => "no:realizes:" ++ err
    | .ok st =>
      match asmOf S idl with
      | none => "no:asmOf"
      | some A =>
        let asm := " ".intercalate (A.map Instr.toToken)
        if !(realOk S) then "partial:realOk\t" ++ asm else
        let L₂ := schedOf S st.done
        if !(decide L₂.Nodup) then "partial:operation-performed-twice\t" ++ asm else
        match evalSpec S L₂ with
        | none => "partial:does-not-evaluate\t" ++ asm
        | some _ =>
          -- the premises of C02's theorem, with the canonical schedule `sched1` as the one that matches the block
          let idsS := S.instrs.map (·.id)
          let L₁ := (splitNE sched1 ",").filter idsS.contains
          let edges := (S.deps ++ dataEdges S).filter fun (x, y) => L₁.contains x && L₁.contains y
          let fuel := edges.length + 1
          if !(decide L₁.Nodup && L₁.isPerm L₂) then "exec-only:schedule-not-a-permutation\t" ++ asm else
          if !(conflictsOrdered S edges fuel L₁) then "exec-only:conflicts-not-ordered\t" ++ asm else
          if !(respectsB L₁ edges && respectsB L₂ edges) then "exec-only:schedule-not-admissible\t" ++ asm else
          if !(scheduleMatches nf S L₁ B) then "exec-only:schedule-does-not-match-block\t" ++ asm else
          match symExec B .init with
          | none => "exec-only:block-does-not-execute\t" ++ asm
          | some Y => if Y.base < S.src.length then "obs-deep:" ++ toString (S.src.length - Y.base) ++ "\t" ++ asm
                      else "obs\t" ++ asm
  | _, _ => "error:parse"

end GasolVerif.Spec
