/-
  (P) C07, pricing: `penalty_affine` — for every valuation that satisfies the domain constraints, the soft-constraint
  objective equals the charged weight of the decoded instructions up to a constant of the instance; `telescope`,
  `layer_cake`, `term_miss`, `sum_exchange` are its steps; `decoded_decodeAt` provides the decoding.   No Mathlib.
-/
import GasolVerif.Models.EncodingSoft
import GasolVerif.Proofs.EncodingOrderSound
set_option linter.unusedSimpArgs false
set_option linter.unusedVariables false
namespace GasolVerif.Enc
open GasolVerif.Formula

theorem penalty_eq (I : Inst) (v : Val) (ws : List (Nat × Nat)) :
    penalty v (softGrouped I ws) =
      ((steps (levels ws)).map fun s => ((rangeL 0 I.b0).map fun j => term I v ws s j).sum).sum := by
  unfold penalty softGrouped
  generalize steps (levels ws) = S
  induction S with
  | nil => simp
  | cons s S ih =>
    simp only [List.flatMap_cons, List.map_append, List.sum_append_nat, List.map_cons, List.sum_cons, ih]
    congr 1
    generalize rangeL 0 I.b0 = R
    induction R with
    | nil => simp
    | cons j R ihR =>
      rw [List.map_cons, List.sum_cons, ← ihR]
      cases hc : softClause I ws s.2 j with
      | none =>
        have ht : term I v ws s j = 0 := by simp [term, hc]
        simp [List.filterMap_cons, hc, ht]
      | some f =>
        have ht : term I v ws s j = if evalB v f then 0 else s.2 - s.1 := by simp [term, hc]
        simp [List.filterMap_cons, hc, ht]

theorem sum_map_add {α} (f g : α → Nat) (l : List α) :
    (l.map fun a => f a + g a).sum = (l.map f).sum + (l.map g).sum := by
  induction l with
  | nil => simp
  | cons a l ih => simp only [List.map_cons, List.sum_cons, ih]; omega

theorem sum_map_zero {β} (l : List β) : (l.map fun _ => 0).sum = 0 := by
  induction l with
  | nil => rfl
  | cons b l ih => simp [ih]

theorem sum_exchange {α β} (f : α → β → Nat) (l₁ : List α) (l₂ : List β) :
    (l₁.map fun a => (l₂.map fun b => f a b).sum).sum = (l₂.map fun b => (l₁.map fun a => f a b).sum).sum := by
  induction l₁ with
  | nil => simp [sum_map_zero]
  | cons a l₁ ih =>
    simp only [List.map_cons, List.sum_cons, ih]
    rw [sum_map_add (fun b => f a b) (fun b => (l₁.map fun a => f a b).sum) l₂]

theorem mem_cheaper (ws : List (Nat × Nat)) (c th : Nat) : th ∈ cheaper ws c ↔ ∃ w, (th, w) ∈ ws ∧ w < c := by
  simp only [cheaper, List.mem_map, List.mem_filter, List.mem_mergeSort, decide_eq_true_eq]
  constructor
  · rintro ⟨⟨t, w⟩, ⟨hm, hlt⟩, rfl⟩; exact ⟨w, hm, hlt⟩
  · rintro ⟨w, hm, hlt⟩; exact ⟨(th, w), ⟨hm, hlt⟩, rfl⟩

/-- the decoding the order theorems provide: position `j` holds `dec j`, an instruction of the instance admissible at `j` -/
structure Decoded (I : Inst) (v : Val) (dec : Nat → Nat) : Prop where
  isInstr : ∀ j, j < I.b0 → ∃ ins ∈ I.instrs, ins.theta = dec j
  holds : ∀ j, j < I.b0 → At I v j (dec j)
  range : ∀ j, j < I.b0 → inRange I j (dec j) = true

/-- one level at one position: the clause is violated, or missing, exactly when the instruction there is not cheaper -/
theorem term_miss (I : Inst) (v : Val) (H : OrderHyp I v) (ws : List (Nat × Nat))
    (hkeys : ∀ p ∈ ws, ∃ ins ∈ I.instrs, ins.theta = p.1) (dec : Nat → Nat) (D : Decoded I v dec)
    (s : Nat × Nat) (j : Nat) (hj : j < I.b0) :
    term I v ws s j + miss I ws s j = if dec j ∈ cheaper ws s.2 then 0 else s.2 - s.1 := by
  unfold term miss softClause
  simp only
  by_cases he : ((cheaper ws s.2).filter (inRange I j)).isEmpty = true
  · simp only [he, if_true, Nat.zero_add]
    have : dec j ∉ cheaper ws s.2 := by
      intro hm
      have : dec j ∈ (cheaper ws s.2).filter (inRange I j) := List.mem_filter.mpr ⟨hm, D.range j hj⟩
      rw [List.isEmpty_iff.mp he] at this; simp at this
    simp [this]
  · simp only [he, Bool.false_eq_true, if_false, Nat.add_zero]
    have hiff : evalB v (.conn .or (((cheaper ws s.2).filter (inRange I j)).map fun th => isT I j th)) = true ↔
        dec j ∈ cheaper ws s.2 := by
      simp only [evalB_or, evalAny_iff, List.mem_map, List.mem_filter]
      constructor
      · rintro ⟨f, ⟨th, ⟨hm, _⟩, rfl⟩, hT⟩
        rw [evalB_isT'] at hT
        obtain ⟨w, hw, _⟩ := (mem_cheaper ws s.2 th).mp hm
        obtain ⟨i1, h1, e1⟩ := hkeys (th, w) hw
        obtain ⟨i2, h2, e2⟩ := D.isInstr j hj
        have hd := D.holds j hj
        have : i1.theta = i2.theta := H.thetaInj i1 h1 i2 h2 (by
          simp only at e1; unfold At at hT hd; rw [e1, e2, ← hT, hd])
        simp only at e1
        rw [← e2, ← this, e1]; exact hm
      · intro hm
        exact ⟨isT I j (dec j), ⟨dec j, ⟨hm, D.range j hj⟩, rfl⟩, (evalB_isT' I v j (dec j)).mpr (D.holds j hj)⟩
    by_cases hm : dec j ∈ cheaper ws s.2
    · simp [hiff.mpr hm, hm]
    · have : evalB v (.conn .or (((cheaper ws s.2).filter (inRange I j)).map fun th => isT I j th)) = false := by
        cases h : evalB v (.conn .or (((cheaper ws s.2).filter (inRange I j)).map fun th => isT I j th)) with
        | false => rfl
        | true => exact absurd (hiff.mp h) hm
      simp [this, hm]

theorem steps_snd_mem : ∀ (L : List Nat) (s : Nat × Nat), s ∈ steps L → s.2 ∈ L.tail
  | [], s, h => by simp [steps] at h
  | [_], s, h => by simp [steps] at h
  | a :: b :: r, s, h => by
    simp only [steps, List.mem_cons] at h
    rcases h with rfl | h
    · simp
    · have := steps_snd_mem (b :: r) s h
      simp only [List.tail_cons] at this ⊢
      exact List.mem_cons_of_mem _ this

/-- telescoping over strictly increasing levels -/
theorem telescope : ∀ (L : List Nat), L.Pairwise (· < ·) → ∀ (a : Nat) (r : List Nat), L = a :: r → ∀ x, x ∈ L →
    ((steps L).map fun s => if x < s.2 then 0 else s.2 - s.1).sum = x - a
  | [], _, a, r, h, _, _ => by cases h
  | [a'], _, a, r, h, x, hx => by
    simp at h hx; obtain ⟨rfl, _⟩ := h; subst hx; simp [steps]
  | a' :: b :: t, hp, a, r, h, x, hx => by
    simp only [List.cons.injEq] at h
    obtain ⟨rfl, _⟩ := h
    simp only [List.pairwise_cons] at hp
    obtain ⟨hab, hbt, ht⟩ := hp
    have hab' : a' < b := hab b (by simp)
    simp only [steps, List.map_cons, List.sum_cons]
    rcases List.mem_cons.mp hx with rfl | hx'
    · -- x is the first level: nothing is charged
      have hz : ((steps (b :: t)).map fun s => if x < s.2 then 0 else s.2 - s.1).sum = 0 := by
        have : ∀ s ∈ steps (b :: t), (if x < s.2 then 0 else s.2 - s.1) = 0 := by
          intro s hs
          have := steps_snd_mem (b :: t) s hs
          simp only [List.tail_cons] at this
          have : x < s.2 := hab s.2 (List.mem_cons_of_mem _ this)
          simp [this]
        rw [List.map_congr_left this, sum_map_zero]
      simp [hab', hz]
    · have ih := telescope (b :: t) (List.pairwise_cons.mpr ⟨hbt, ht⟩) b t rfl x hx'
      have hbx : b ≤ x := by
        rcases List.mem_cons.mp hx' with rfl | h2
        · exact Nat.le_refl _
        · exact Nat.le_of_lt (hbt x h2)
      have : ¬ x < b := by omega
      simp only [this, if_false, ih]
      omega

theorem le_getLast_of_pairwise (L : List Nat) (hp : L.Pairwise (· < ·)) (hne : L ≠ []) : ∀ c ∈ L, c ≤ L.getLast hne := by
  intro c hc
  have hsplit := List.dropLast_concat_getLast hne
  rw [← hsplit] at hp hc
  rw [List.pairwise_append] at hp
  rcases List.mem_append.mp hc with h | h
  · exact Nat.le_of_lt (hp.2.2 c h _ (by simp))
  · simp at h; omega

theorem lookup_of_mem_nodup : ∀ (ws : List (Nat × Nat)), (ws.map (·.1)).Nodup → ∀ th w, (th, w) ∈ ws → ws.lookup th = some w
  | [], _, th, w, h => by simp at h
  | (k, x) :: ws, hnd, th, w, h => by
    simp only [List.map_cons, List.nodup_cons, List.mem_map, not_exists, not_and] at hnd
    rcases List.mem_cons.mp h with h1 | h2
    · simp at h1; obtain ⟨rfl, rfl⟩ := h1; simp [List.lookup]
    · have hne : th ≠ k := by
        intro he; exact hnd.1 (th, w) h2 he
      have : (th == k) = false := by simp [hne]
      simp only [List.lookup, this]
      exact lookup_of_mem_nodup ws hnd.2 th w h2

theorem lookup_mem_nat : ∀ (l : List (Nat × Nat)) (k b : Nat), l.lookup k = some b → (k, b) ∈ l
  | [], k, b, h => by simp [List.lookup] at h
  | (k', b') :: l, k, b, h => by
    simp only [List.lookup] at h
    by_cases hk : k = k'
    · subst hk; simp at h; subst h; simp
    · have : (k == k') = false := by simp [hk]
      simp only [this] at h
      exact List.mem_cons_of_mem _ (lookup_mem_nat l k b h)

/-- layer cake: the levels charged for one instruction add up to its weight above the lowest level -/
theorem layer_cake (I : Inst) (ws : List (Nat × Nat)) (hok : softOk I ws = true) (th : Nat) :
    ((steps (levels ws)).map fun s => if th ∈ cheaper ws s.2 then 0 else s.2 - s.1).sum =
      cw ws th - (levels ws).head?.getD 0 := by
  simp only [softOk, Bool.and_eq_true, decide_eq_true_eq, List.all_eq_true, Bool.not_eq_true', List.contains_eq_mem] at hok
  obtain ⟨⟨⟨⟨hpw, hall⟩, hne⟩, hnd⟩, _⟩ := hok
  match hL : levels ws with
  | [] => simp [hL] at hne
  | a :: r =>
    rw [hL] at hpw hall
    have key : ∀ x, x ∈ a :: r → (∀ c, c ∈ a :: r → (th ∈ cheaper ws c ↔ x < c)) →
        ((steps (a :: r)).map fun s => if th ∈ cheaper ws s.2 then 0 else s.2 - s.1).sum = x - a := by
      intro x hx hiff
      have := telescope (a :: r) hpw a r rfl x hx
      rw [← this]
      apply congrArg
      apply List.map_congr_left
      intro s hs
      have hsL : s.2 ∈ a :: r := List.mem_of_mem_tail (steps_snd_mem (a :: r) s hs)
      by_cases h : th ∈ cheaper ws s.2
      · simp [h, (hiff s.2 hsL).mp h]
      · have : ¬ x < s.2 := fun hx' => h ((hiff s.2 hsL).mpr hx')
        simp [h, this]
    simp only [List.head?_cons, Option.getD_some]
    unfold cw
    cases hl : ws.lookup th with
    | some w =>
      simp only
      have hm := lookup_mem_nat ws th w hl
      apply key w (by simpa using hall (th, w) hm)
      intro c _
      rw [mem_cheaper]
      constructor
      · rintro ⟨w', hm', hlt⟩
        have := lookup_of_mem_nodup ws hnd th w' hm'
        rw [hl] at this; cases this; exact hlt
      · intro hlt; exact ⟨w, hm, hlt⟩
    | none =>
      simp only [hL]
      have hlast : ((a :: r).getLast?.getD 0) ∈ a :: r := by
        have : (a :: r).getLast? = some ((a :: r).getLast (by simp)) := List.getLast?_eq_some_getLast (by simp)
        rw [this]; simp only [Option.getD_some]; exact List.getLast_mem _
      apply key _ hlast
      intro c hc
      rw [mem_cheaper]
      constructor
      · rintro ⟨w', hm', _⟩
        have := lookup_of_mem_nodup ws hnd th w' hm'
        rw [hl] at this; cases this
      · intro hlt
        exfalso
        have := le_getLast_of_pairwise (a :: r) hpw (by simp) c hc
        have e : (a :: r).getLast? = some ((a :: r).getLast (by simp)) := List.getLast?_eq_some_getLast (by simp)
        rw [e] at hlt; simp only [Option.getD_some] at hlt
        omega

/-- **C07, pricing**: for every valuation that decodes (`Decoded`), the soft-constraint objective equals the total
    charged weight of the decoded instructions, minus the lowest level per position and minus a constant that
    depends on the instance only. -/
theorem penalty_affine (I : Inst) (v : Val) (H : OrderHyp I v) (ws : List (Nat × Nat)) (hok : softOk I ws = true)
    (dec : Nat → Nat) (D : Decoded I v dec) :
    penalty v (softGrouped I ws) + missTotal I ws =
      ((rangeL 0 I.b0).map fun j => cw ws (dec j) - (levels ws).head?.getD 0).sum := by
  have hkeys : ∀ p ∈ ws, ∃ ins ∈ I.instrs, ins.theta = p.1 := by
    simp only [softOk, Bool.and_eq_true, List.all_eq_true, List.any_eq_true, beq_iff_eq] at hok
    intro p hp
    obtain ⟨ins, hm, he⟩ := hok.2 p hp
    exact ⟨ins, hm, he⟩
  rw [penalty_eq, missTotal, ← sum_map_add]
  have h1 : ((steps (levels ws)).map fun s =>
      ((rangeL 0 I.b0).map fun j => term I v ws s j).sum + ((rangeL 0 I.b0).map fun j => miss I ws s j).sum) =
      (steps (levels ws)).map fun s => ((rangeL 0 I.b0).map fun j => if dec j ∈ cheaper ws s.2 then 0 else s.2 - s.1).sum := by
    apply List.map_congr_left
    intro s _
    rw [← sum_map_add]
    apply congrArg
    apply List.map_congr_left
    intro j hj
    exact term_miss I v H ws hkeys dec D s j ((mem_rangeL 0 I.b0 j).mp hj).2
  rw [h1]
  have hx := sum_exchange (fun (s : Nat × Nat) (j : Nat) => if dec j ∈ cheaper ws s.2 then 0 else s.2 - s.1) (steps (levels ws)) (rangeL 0 I.b0)
  rw [hx]
  apply congrArg
  apply List.map_congr_left
  intro j _
  exact layer_cake I ws hok (dec j)

/-- two valuations that decode are priced by the difference of the charged weights of what they decode to -/
theorem penalty_difference (I : Inst) (v₁ v₂ : Val) (H₁ : OrderHyp I v₁) (H₂ : OrderHyp I v₂) (ws : List (Nat × Nat))
    (hok : softOk I ws = true) (d₁ d₂ : Nat → Nat) (D₁ : Decoded I v₁ d₁) (D₂ : Decoded I v₂ d₂) :
    (penalty v₁ (softGrouped I ws) : Int) - penalty v₂ (softGrouped I ws) =
      (((rangeL 0 I.b0).map fun j => cw ws (d₁ j) - (levels ws).head?.getD 0).sum : Int) -
      ((rangeL 0 I.b0).map fun j => cw ws (d₂ j) - (levels ws).head?.getD 0).sum := by
  have e1 := penalty_affine I v₁ H₁ ws hok d₁ D₁
  have e2 := penalty_affine I v₂ H₂ ws hok d₂ D₂
  omega

/-- the domain constraints make `decodeAt` a decoding -/
theorem decoded_decodeAt (I : Inst) (v : Val) (H : OrderHyp I v) : Decoded I v (decodeAt I v) := by
  have key : ∀ j, j < I.b0 → ∃ ins ∈ I.instrs, ins.theta = decodeAt I v j ∧ At I v j ins.theta ∧ ins.lb ≤ j ∧ j ≤ ins.ub := by
    intro j hj
    have hd := H.dom j hj
    simp only [domainRaw, evalB_or, evalAny_iff, List.mem_map, List.mem_filter] at hd
    obtain ⟨f, ⟨ins', ⟨hm', hb⟩, rfl⟩, hT⟩ := hd
    simp only [Bool.and_eq_true, decide_eq_true_eq] at hb
    rw [evalB_isT'] at hT
    cases hf : I.instrs.find? (fun ins => decide (ins.lb ≤ j) && decide (j ≤ ins.ub) && (T v j == thetaV I v ins.theta)) with
    | none =>
      have := List.find?_eq_none.mp hf ins' hm'
      simp [hb.1, hb.2] at this
      exact absurd hT this
    | some ins =>
      have hp := List.find?_some hf
      simp only [Bool.and_eq_true, decide_eq_true_eq, beq_iff_eq] at hp
      exact ⟨ins, List.mem_of_find?_eq_some hf, by simp [decodeAt, hf], hp.2, hp.1.1, hp.1.2⟩
  constructor
  · intro j hj; obtain ⟨ins, hm, e, _⟩ := key j hj; exact ⟨ins, hm, e⟩
  · intro j hj; obtain ⟨ins, _, e, ha, _⟩ := key j hj; rw [← e]; exact ha
  · intro j hj
    obtain ⟨ins, hm, e, _, h1, h2⟩ := key j hj
    have := lbOf_eq I H.nodup ins hm
    simp [inRange, ← e, this.1, this.2, h1, h2]

end GasolVerif.Enc
