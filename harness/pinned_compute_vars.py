"""Pinned copy of the stack-need estimate of the front end (sfs_generator/gasol_optimization.py: compute_vars, compute_vars_aux,
is_atomic) as it stood when the known finding C16-stack-bound-estimate-below-need was recorded (repo commit c8001736).
Used ONLY to classify an infeasible published stack bound: the bound is the known finding when it is what THIS heuristic yields
on the same arguments; if the code's estimate has since changed, the infeasibility is a new violation.  Never used as an oracle for
what the bound should be."""


def is_integer(num):
    try:
        val = int(num)
    except Exception:
        val = -1
    return val


def compute_vars(tstack, sstack, userdef_ins):
    total_vars = 0
    visited = []
    
    last_atomic = True
    total_current = 0
    sstack_aux = list(sstack)
    coincide = True
    i = len(sstack)-1
    j = len(tstack)-1

    
    while(i>=0 and coincide and tstack != []):
        if(sstack[i] == tstack[j]):
            sstack_aux.pop()
        else:
            coincide = False

        i-=1
        j-=1
            
    if not coincide and sstack_aux != sstack:
        current = len(sstack_aux)
    else:
        current = 0
        
    
    # current = 0#len(sstack)
    for v in tstack[::-1]:
        # print(v)
        visited_old = list(visited)
        max_stack,current_var,is_atomic=compute_vars_aux(v,sstack,tstack,userdef_ins,visited)

        # print(max_stack)
        # print(current_var)
        
        
        num_vars = current+max_stack

        #If the current variable needs to be considered from the beginning as part of the input stack
        if v in sstack and v not in visited_old:
            v_value = int(v[2:-1])
            sstack_vars = list(filter(lambda x: x in sstack,visited_old))
            if sstack_vars != []:
                v_already = max(list(map(lambda x: int(x[2:-1]),sstack_vars)))

                if v_value > v_already:
                    total_vars+= v_value-v_already
            else:
                total_vars+=v_value+1
        current+=current_var
        # print(current)
        # print(num_vars)
        
        if total_vars < max(num_vars,current):
            total_vars = max(num_vars,current)
        
        # if last_atomic:
        #     total_vars+=max_stack

        # else:
        #     total_current = current+total_vars
            
        # last_atomic = is_atomic
        # print(total_vars)
        # print(total_current)
        # print("************")
        # if (max_stack > total_vars):
        #     total_vars += max_stack
        # total_vars+=m
    # print(total_vars)
    storage = list(filter(lambda x: x["disasm"].find("MSTORE")!=-1 or x["disasm"] == "SSTORE", userdef_ins))
    for s in storage:
        inp_vars = s["inpt_sk"]
        for v in inp_vars:
            t,m,_=compute_vars_aux(v,sstack,tstack,userdef_ins,visited)
            total_vars+= t

    # for v in visited:
    #     if v in sstack and v not in tstack:
    #         total_vars+=1
            

    for v in sstack:
        is_input = list(filter(lambda x: v in x["inpt_sk"], userdef_ins))
        if (len(is_input) == 0) and (v not in tstack):
            total_vars+=1
        elif (len(is_input)>0 and (v in tstack)):
            total_vars+=tstack.count(v)-(len(is_input)-1)

    max_stacks = max(len(sstack), len(tstack))
            
    return max(max_stacks,total_vars)
        
def compute_vars_aux(var, sstack, tstack, userdef_ins, visited):
    
    if var in visited:
        return 1,1, True
    elif var in sstack and var not in visited:
        
        val = int(var[2:-1])
        
        already_computed = list(filter(lambda x: x in sstack,visited))
        already_val = -1 if already_computed == [] else max(list(map(lambda x: int(x[2:-1]), already_computed)))

        visited.append(var)
        
        # print("++++++++")
        # print(visited)
        # print(already_computed)
        # print(already_val)
        # print(val)
        # print("+++++++")
        
        if val > already_val:
            # print("HOLA")
            return val+1,1, True
        else:
            return 1,1, True
            
    elif is_integer(var)!=-1:
        if var not in visited:
            visited.append(var) 
        return 1,1, True
    else:
        instr_l = list(filter(lambda x: var in x["outpt_sk"], userdef_ins))

        if len(instr_l) == 0:
            raise Exception("Error in computing vars")

        instr = instr_l[0]
        inpt_vars = instr["inpt_sk"]
        
        if inpt_vars == []:
            visited.append(var)
            return 1,1, True

        # print(instr["disasm"])
        total = 0
        total_current=0
        acc_current=0
        last_var_atomic = True

        for v in inpt_vars[::-1]:
            num_vars, current, _ = compute_vars_aux(v,sstack,tstack,userdef_ins,visited)
            acc_current+=current
            # print("AQUI!")
            # print(num_vars)
            # print(current)
            
            if(last_var_atomic):
                total+=num_vars
            else:
                total = max(total,acc_current+num_vars)
            
            last_var_atomic = is_atomic(v,sstack)

        # print(total)
        # print(total_current)
        #     print("--")
        # print("TERMINO:"+ instr["disasm"])
        # print("*********")

        acc_current+=len(instr["outpt_sk"])-len(inpt_vars)

        if var not in visited:
            visited.append(var)

        return max(total,acc_current), acc_current, False

def is_atomic(var,sstack):
    if var in sstack or is_integer(var)!=-1:
        return True
    else:
        return False

    
