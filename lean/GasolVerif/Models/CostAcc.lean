/-
  (M) C08 / C17: the tool's block-level gas accounting (AsmBlock.gas_spent): instructions are priced one by one, but a
  storage slot or an account that the block has already touched is priced as warm.  Slots and accounts are told apart
  by the *text* of the expression on top of the symbolic stack, exactly as the tool does (execute_asm builds strings).
  `Proofs/CostSound.lean`: the accounting never exceeds the static price and equals it on blocks without such accesses.
  No Mathlib.
-/
import GasolVerif.Models.Cost
namespace GasolVerif.Cost

structure AccSt where
  stack : List String := []
  base : Nat := 0                 -- words of the initial stack named so far
  slots : List String := []       -- storage keys read or written
  stored : List String := []      -- storage keys written
  addrs : List String := []       -- accounts queried
  gas : Nat := 0

/-- take `n` operands, naming further words of the initial stack `s(i)` when the symbolic stack runs out -/
def AccSt.popN (st : AccSt) (n : Nat) : List String × AccSt :=
  let missing := n - st.stack.length
  let full := st.stack ++ (List.range missing).map fun j => s!"s({st.base + j})"
  (full.take n, { st with stack := full.drop n, base := st.base + missing })

def joinOps (name : String) (ops : List String) : String := name ++ "(" ++ ",".intercalate ops ++ ")"

/-- price of one access given whether the key is warm / was stored before -/
def sloadGas (warm : Bool) : Nat := if warm then 100 else 2100
/-- `gas_spent_accesses` hands only the warm flag on to the price list: a store is priced as one that resets the slot whether or not
    the block stored to the slot before (the `stored` book is kept, as in the tool, but does not reach the price) -/
def sstoreGas (warm _stored : Bool) : Nat := (if warm then 0 else 2100) + 2900
def accountGas (warm : Bool) : Nat := if warm then 100 else 2600

def isAccountRead (n : String) : Bool := n == "BALANCE" || n == "EXTCODESIZE" || n == "EXTCODEHASH"

def accStep (push0 : Bool) (st : AccSt) (i : Instr) : AccSt :=
  match i with
  | .push w => { st with stack := toString w.toNat :: st.stack, gas := st.gas + gasOf push0 i }
  | .pushSym s => { st with stack := s :: st.stack, gas := st.gas + gasOf push0 i }
  | .dup k =>
    let (ops, st') := st.popN k
    { st' with stack := (ops.getLast?.getD "") :: (ops ++ st'.stack), gas := st.gas + gasOf push0 i }
  | .swap k =>
    let (ops, st') := st.popN (k + 1)
    match ops with
    | top :: rest => { st' with stack := (rest.getLast?.getD top) :: (rest.dropLast ++ [top]) ++ st'.stack, gas := st.gas + gasOf push0 i }
    | [] => { st' with gas := st.gas + gasOf push0 i }
  | .pop => let (_, st') := st.popN 1; { st' with gas := st.gas + gasOf push0 i }
  | .un op => let (ops, st') := st.popN 1; { st' with stack := joinOps op.name ops :: st'.stack, gas := st.gas + gasOf push0 i }
  | .bin op => let (ops, st') := st.popN 2; { st' with stack := joinOps op.name ops :: st'.stack, gas := st.gas + gasOf push0 i }
  | .ter op => let (ops, st') := st.popN 3; { st' with stack := joinOps op.name ops :: st'.stack, gas := st.gas + gasOf push0 i }
  | .env0 n => { st with stack := n :: st.stack, gas := st.gas + gasOf push0 i }
  | .env1 n =>
    let (ops, st') := st.popN 1
    let key := ops.headD ""
    if isAccountRead n then
      { st' with stack := joinOps n ops :: st'.stack, gas := st.gas + accountGas (st.addrs.contains key), addrs := key :: st.addrs }
    else { st' with stack := joinOps n ops :: st'.stack, gas := st.gas + gasOf push0 i }
  | .mload => let (ops, st') := st.popN 1; { st' with stack := joinOps "MLOAD" ops :: st'.stack, gas := st.gas + gasOf push0 i }
  | .mstore | .mstore8 => let (_, st') := st.popN 2; { st' with gas := st.gas + gasOf push0 i }
  | .sload =>
    let (ops, st') := st.popN 1
    let key := ops.headD ""
    { st' with stack := joinOps "SLOAD" ops :: st'.stack, gas := st.gas + sloadGas (st.slots.contains key), slots := key :: st.slots }
  | .sstore =>
    let (ops, st') := st.popN 2
    let key := ops.headD ""
    { st' with gas := st.gas + sstoreGas (st.slots.contains key) (st.stored.contains key),
               slots := key :: st.slots, stored := key :: st.stored }
  | .keccak => let (ops, st') := st.popN 2; { st' with stack := joinOps "KECCAK256" ops :: st'.stack, gas := st.gas + gasOf push0 i }
  | .ext n nin out =>
    let (ops, st') := st.popN nin
    let key := ops.headD ""
    let st'' := if out then { st' with stack := (if ops.isEmpty then n else joinOps n ops) :: st'.stack } else st'
    if n == "EXTCODECOPY" then { st'' with gas := st.gas + accountGas (st.addrs.contains key), addrs := key :: st.addrs }
    else { st'' with gas := st.gas + gasOf push0 i }

/-- the tool's gas of a block -/
def gasAcc (push0 : Bool) (B : List Instr) : Nat := (B.foldl (accStep push0) {}).gas

/-- instructions priced by what the block touched before -/
def isAccess : Instr → Bool
  | .sload | .sstore => true
  | .env1 n => isAccountRead n
  | .ext n _ _ => n == "EXTCODECOPY"
  | _ => false

end GasolVerif.Cost
