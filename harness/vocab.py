"""Independent EVM/solc-assembly vocabulary used by the harness (not taken from /repo).

Maps assembly items (disasm, value) to the tokens of the Lean line protocol
(lean/GasolVerif/Parse.lean).  Arities are the Yellow Paper's.
"""

UN = {"ISZERO", "NOT"}
BIN = {"ADD", "MUL", "SUB", "DIV", "SDIV", "MOD", "SMOD", "EXP", "SIGNEXTEND", "LT", "GT", "SLT",
       "SGT", "EQ", "AND", "OR", "XOR", "BYTE", "SHL", "SHR", "SAR"}
TER = {"ADDMOD", "MULMOD"}
ENV0 = {"ADDRESS", "ORIGIN", "CALLER", "CALLVALUE", "CALLDATASIZE", "CODESIZE", "GASPRICE", "COINBASE",
        "TIMESTAMP", "NUMBER", "DIFFICULTY", "PREVRANDAO", "GASLIMIT", "CHAINID", "SELFBALANCE",
        "BASEFEE", "RETURNDATASIZE"}
ENV1 = {"BALANCE", "CALLDATALOAD", "EXTCODESIZE", "EXTCODEHASH", "BLOCKHASH"}
MEM = {"MLOAD", "MSTORE", "MSTORE8", "SLOAD", "SSTORE", "KECCAK256", "SHA3"}
# name -> (inputs, outputs): split, terminal and marker instructions
EXT = {
    "LOG0": (2, 0), "LOG1": (3, 0), "LOG2": (4, 0), "LOG3": (5, 0), "LOG4": (6, 0),
    "CALLDATACOPY": (3, 0), "CODECOPY": (3, 0), "EXTCODECOPY": (4, 0), "RETURNDATACOPY": (3, 0),
    "MCOPY": (3, 0),
    "CALL": (7, 1), "CALLCODE": (7, 1), "STATICCALL": (6, 1), "DELEGATECALL": (6, 1),
    "CREATE": (3, 1), "CREATE2": (4, 1), "ASSIGNIMMUTABLE": (2, 0), "GAS": (0, 1),
    "JUMP": (1, 0), "JUMPI": (2, 0), "STOP": (0, 0), "RETURN": (2, 0), "REVERT": (2, 0),
    "INVALID": (0, 0), "SELFDESTRUCT": (1, 0), "JUMPDEST": (0, 0), "tag": (0, 0),
}
# not in the machine (block constants for the tool, not for the EVM): blocks using them are skipped
UNSUPPORTED = {"MSIZE", "PC"}

PSEUDO_PUSH = {"PUSH [tag]", "PUSH data", "PUSH #[$]", "PUSH [$]", "PUSHLIB", "PUSHIMMUTABLE",
               "PUSHSIZE", "PUSHDEPLOYADDRESS"}


class Unsupported(Exception):
    pass


def token(disasm, value):
    """(disasm, value) of an assembly item -> protocol token."""
    if disasm == "PUSH0":
        return "PUSH:0"
    if disasm == "PUSH":
        v = int(str(value), 16)
        if not (0 <= v < 2 ** 256):
            raise Unsupported("push constant out of range: %s" % value)
        return "PUSH:%x" % v
    if disasm in PSEUDO_PUSH:
        v = "" if value is None else str(value)
        if disasm != "PUSH [tag]" and v:
            # hash / index operands are numbers written in hex: leading zeros and case are not significant
            try:
                v = "%x" % int(v, 16)
            except ValueError:
                pass
        return "SYM:%s:%s" % (disasm.replace(" ", "_"), v)
    if disasm.startswith("DUP") or disasm.startswith("SWAP"):
        k = int(disasm[3:] if disasm.startswith("DUP") else disasm[4:])
        if not 1 <= k <= 16:
            raise Unsupported("depth out of range: " + disasm)
        return disasm
    if disasm == "POP" or disasm in UN or disasm in BIN or disasm in TER:
        return disasm
    if disasm in MEM:
        return "KECCAK256" if disasm == "SHA3" else disasm
    if disasm in ENV0:
        # DIFFICULTY and PREVRANDAO are the same opcode
        return "E0:" + ("PREVRANDAO" if disasm == "DIFFICULTY" else disasm)
    if disasm in ENV1:
        return "E1:" + disasm
    if disasm in EXT:
        nin, nout = EXT[disasm]
        name = disasm
        if disasm in ("tag", "ASSIGNIMMUTABLE") or disasm.startswith("JUMP") and value is not None:
            name = "%s_%s" % (disasm, value)
        return "X:%s:%d:%d" % (name.replace(" ", "_"), nin, nout)
    raise Unsupported("unknown item: %r %r" % (disasm, value))


def tokens_of_block(block):
    """AsmBlock -> token string"""
    return " ".join(token(i.disasm, i.value) for i in block.instructions)


def tokens_of_items(items):
    return " ".join(token(d, v) for d, v in items)
