"""C04 — the greedy back end returns a sequence that realizes the specification."""
import random
from collections import Counter
import common, drv
from props import c02

THEOREMS = ["equiv_norm3_sound", "symExec_conc", "Spec.realizes_exec", "Spec.realized_sequence_exec", "Spec.realized_sequence_obsEq",
            "Spec.spec_denotes_block_under_every_schedule"]


def norm_tokens(s):
    """token string -> canonical list (hex case / leading zeros of constants are not significant)"""
    out = []
    for t in s.split():
        if t.startswith("PUSH:"):
            t = "PUSH:%x" % int(t[5:], 16)
        out.append(t)
    return out


def run(tier):
    sd = common.seed()
    rng = random.Random(sd * 1237 + 17)
    po = common.proof_obligations("GasolVerif.Proofs.NormSound,GasolVerif.Proofs.RealizeSound", THEOREMS)
    violations = [{"kind": "broken-proof-obligation", "what": b, "no_failing_input": True, "input": b} for b in po["broken"]]
    import gen
    # blocks on which rewrite rules fire (the rewritten records carry flags the back end relies on) around the witness shape
    rules = gen.rule_corpus()
    extra = (rules if tier != "quick" else rng.sample(rules, 250)) + ["DUP1 SWAP3 SWAP1 SHL SWAP2 SHL AND", "DUP1 SWAP2 SHL SWAP2 SWAP1 SHL AND SWAP1 POP"]
    extra += gen.trailing_store_corpus(sd * 41 + 9, 400 if tier == "quick" else 4000)
    extra += gen.stack_corpus() + gen.deep_operand_corpus() + gen.deep_same_operand_corpus() + gen.cross_region_corpus() + gen.deep_stack_blocks(sd * 19 + 1, 120 if tier == 'quick' else 1500) + gen.blocks(sd * 17 + 3, 150 if tier == 'quick' else 2000, profiles=('stack',))
    res = c02.collect(tier, sd + 1000, rng, greedy=True, extra=extra)
    c = Counter()
    reqs, meta = [], []
    for t, r, st in res:
        if st != "ok" or r is None or "harness_error" in (r or {}) or "parse_exception" in (r or {}):
            c["run:" + st] += 1
            if st == "timeout":
                violations.append({"kind": "greedy-does-not-terminate", "input": t["text"], "what": "greedy/spec generation timed out on " + t["text"]})
            continue
        for e in r["subs"]:
            c["specs"] += 1
            g = e.get("greedy")
            if "unsupported" in e or g is None:
                c["skipped"] += 1
                continue
            if "exception" in g:
                c["greedy-exception"] += 1
                violations.append({"kind": "greedy-raises", "input": " ".join(e["plain"]), "options": t["opts"],
                                   "what": "greedy_from_json raised %s on the specification of %s" % (g["exception"], " ".join(e["plain"]))})
                continue
            if g["error"] != 0 or g["ids"] is None:
                c["greedy-reports-failure"] += 1
                continue
            c["greedy-success"] += 1
            reqs.append("REALIZES\t%s\t%s" % ("\t".join(e["spec"]), ",".join(g["ids"])))
            meta.append((t, e, g))
    outs = drv.batch(reqs)
    samples = []
    deep = 0
    for o, (t, e, g) in zip(outs, meta):
        if o.startswith("ok"):
            c["realizes"] += 1
            if int(o[3:]) > 16:
                deep += 1
            if len(samples) < 4 and len(g["ids"]) > 4:
                samples.append({"block": " ".join(e["plain"]), "ids": g["ids"], "peak_stack": int(o[3:])})
        elif o.startswith("no:"):
            violations.append({"kind": "greedy-sequence-does-not-realize", "input": " ".join(e["plain"]), "options": t["opts"],
                               "what": "greedy reports success on %s with %s, but: %s" % (" ".join(e["plain"]), g["ids"], o[3:]),
                               "spec": e["spec"], "ids": g["ids"]})
        else:
            raise common.MachineryError("driver: %s" % o)
    c["sequences-with-stack-deeper-than-16"] = deep
    # the semantic meaning of `realizes` (theorems realizes_exec / realized_sequence_exec / realized_sequence_obsEq): every premise
    # is evaluated on each (block, specification, greedy sequence); the instructions the model lets the identifiers stand for must
    # be the ones the tool itself renders them to (asm_from_ids)
    reqs2, meta2 = [], []
    for o, (t, e, g) in zip(outs, meta):
        if not o.startswith("ok"):
            continue
        edges = [tuple(d) for d in e["deps"]] + c02.data_edges(e)
        Ls = c02.linear_extensions(e["effects"], edges, rng, 0)
        if not Ls:
            continue
        reqs2.append("REALEXEC\t%s\t%s\t%s\t%s" % (e["tokens"], "\t".join(e["spec"]), ",".join(g["ids"]), ",".join(Ls[0])))
        meta2.append((t, e, g))
    outs2 = drv.batch(reqs2)
    exreqs, exmeta = [], []
    for o, (t, e, g) in zip(outs2, meta2):
        status, _, asm = o.partition("\t")
        key = status.split(":")[0]
        c["semantic:" + (status if key in ("partial", "exec-only") else key)] += 1
        if key in ("error",):
            raise common.MachineryError("driver: %s" % o)
        if key == "no":
            if status.startswith("no:asmOf"):
                violations.append({"kind": "identifier-without-instruction", "input": " ".join(e["plain"]), "options": t["opts"], "no_failing_input": True,
                                   "what": "the model (Spec.asmOf) has no instruction for an identifier of %s on %s" % (g["ids"], " ".join(e["plain"]))})
            continue          # `realizes` on the pruned specification fails: a dead load is executed; not this clause's business
        if "asm_tokens" not in g:
            c["semantic:rendering-" + ("unsupported" if "asm_unsupported" in g else "raises")] += 1
            if "asm_exception" in g:
                violations.append({"kind": "rendering-raises", "input": " ".join(e["plain"]), "options": t["opts"],
                                   "what": "asm_from_ids raised %s on the greedy sequence %s of %s" % (g["asm_exception"], g["ids"], " ".join(e["plain"]))})
            continue
        if norm_tokens(asm) == norm_tokens(g["asm_tokens"]):
            c["semantic:rendering-equal"] += 1
        else:
            # correspondence model/code broken: search for a state on which the rendered sequence and the block differ
            for sd2, stk in gen.states(rng, 20, 24):
                exreqs.append("EXEC2\t%d\t%s\t%s\t%s" % (sd2, stk, e["tokens"], g["asm_tokens"]))
                exmeta.append((t, e, g, asm))
    render_samples = []
    if exreqs:
        # not a clause of C04 (the property speaks of the identifier sequence; what is emitted after the tool's own re-check is
        # C01's business): recorded as coverage of the pipeline theorem, with the first distinguishing state as a diagnostic
        exouts = drv.batch(exreqs)
        seen = {}
        for o, (t, e, g, asm) in zip(exouts, exmeta):
            k = (t["text"], e["name"])
            if o.startswith("diff") and not seen.get(k):
                seen[k] = True
                c["semantic:rendering-differs-and-distinguishable"] += 1
                if len(render_samples) < 3:
                    render_samples.append({"block": " ".join(e["plain"]), "ids": g["ids"], "tool": g["asm_tokens"], "model": asm, "state": o[:160]})
            else:
                seen.setdefault(k, False)
        c["semantic:rendering-differs"] = len(seen)
    cov = {"programs": c["greedy-success"], "disagreements_checked": len([o for o in outs if o.startswith("no:")]),
           "evaluations": c["specs"], "distinct_nontrivial": c["greedy-success"],
           "obligations": po["obligations"], "discharged": po["discharged"],
           "rule": "specifications from the real front end (generated blocks incl. memory corpus, all split modes, rules on/off); every "
                   "sequence greedy_from_json returns with error == 0 is run through Spec.realizes (the executable statement of C04: no "
                   "underflow, DUP/SWAP 1..16, stores once, dependences, named operands, final stack)",
           "samples": samples or [{"n": 0}], "counters": dict(c), "rendering_differences": render_samples,
           "checker_cmd": "gvdrv REALIZES (lean/GasolVerif/Models/Spec.lean realizes); gvdrv REALEXEC (Models/Realize.lean: premises of realizes_exec / realized_sequence_obsEq)",
           "trusted_base": ["Spec.realizes is the formal statement of the property, executed by the compiled driver", "spec serialisation in harness/tasks.py"]}
    return {"level": "translation_validation", "coverage": cov, "violations": violations,
            "assumptions": ["the greedy algorithm itself is not modelled: every output on every explored specification is checked",
                            "semantic:* counters: on how many greedy sequences every premise of realized_sequence_obsEq holds (`obs`), and on how many the "
                            "tool's rendering asm_from_ids is the instruction list Spec.asmOf the theorem speaks of; a differing rendering is left to C01 "
                            "(keep-or-revert decides what is emitted)",
                            "hand-built specifications outside the front end's image are not generated yet"]}


def replay(v):
    import drv as d
    print(v.get("what"))
    if "spec" in v:
        print(d.batch(["REALIZES\t%s\t%s" % ("\t".join(v["spec"]), ",".join(v["ids"]))])[0])
    return 1
