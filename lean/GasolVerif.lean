import GasolVerif.Word
import GasolVerif.Evm
import GasolVerif.Parse
import GasolVerif.Concrete
