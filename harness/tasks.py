"""Task implementations executed inside worker processes (real code in process)."""
import os, shutil, time, copy
import impl, vocab


def cleanup():
    try:
        shutil.rmtree(impl.paths.gasol_path, ignore_errors=True)
    except Exception:
        pass


_params_cache = {}


def params_for(opts):
    key = tuple(opts)
    if key not in _params_cache:
        _params_cache[key] = impl.make_params(list(opts))
    p = _params_cache[key]
    impl.apply_globals(p)
    return p


def blk_items(b):
    return [[i.disasm, i.value] for i in b.instructions]


def t_optimize(t):
    """end to end on one plain-text block: optimize + keep-or-revert.  Output tokens of in/out."""
    p = params_for(t["opts"])
    r = {"text": t["text"], "opts": t["opts"]}
    t0 = time.time()
    try:
        bs = impl.parse_block(t["text"])
    except Exception as e:
        r["parse_exception"] = "%s: %s" % (type(e).__name__, e)
        return r
    r["blocks"] = []
    for b in bs:
        e = {"in_items": blk_items(b), "need": b.source_stack}
        try:
            e["in_tokens"] = vocab.tokens_of_block(b)
        except vocab.Unsupported as u:
            e["unsupported"] = str(u)
        try:
            with impl.quiet():
                cand, log, stats = impl.gasol_asm.optimize_asm_block_asm_format(b, p)
            e["cand_items"] = blk_items(cand)
            e["log"] = log
            try:
                with impl.quiet():
                    eq, reason = impl.gasol_asm.compare_asm_block_asm_format(b, cand, p)
                e["eq"] = bool(eq)
                e["reason"] = reason
            except Exception as ex:
                e["compare_exception"] = "%s: %s" % (type(ex).__name__, ex)
                eq = None
            final = cand if eq else b
            if eq is not None:
                e["out_items"] = blk_items(final)
                try:
                    e["out_tokens"] = vocab.tokens_of_block(final)
                    e["cand_tokens"] = vocab.tokens_of_block(cand)
                except vocab.Unsupported as u:
                    e["unsupported"] = str(u)
                e["cost_in"] = [b.gas_spent, b.bytes_required, b.length]
                e["cost_out"] = [final.gas_spent, final.bytes_required, final.length]
        except Exception as ex:
            e["optimize_exception"] = "%s: %s" % (type(ex).__name__, ex)
        r["blocks"].append(e)
    r["wall"] = time.time() - t0
    return r


KINDS = {"optimize": t_optimize}


def dispatch(t):
    return KINDS[t["kind"]](t)


# ---------------------------------------------------------------- C03: rule and folding tables
def _warm_up(opts=("-greedy",)):
    p = params_for(list(opts))
    b = impl.parse_block("PUSH1 0x1 DUP2 ADD")[0]
    with impl.quiet():
        impl.gasol_asm.compute_original_sfs_with_simplifications(b, p)
    return p


def dispatched_rule_opcodes():
    """the opcode list of apply_transform_rules, read from the source with ast (generated fact)"""
    import ast, inspect
    src = inspect.getsource(impl.gopt.apply_transform_rules)
    tree = ast.parse(src)
    for n in ast.walk(tree):
        if isinstance(n, ast.Compare) and isinstance(n.ops[0], ast.In) and isinstance(n.comparators[0], ast.List):
            vals = [e.value for e in n.comparators[0].elts if isinstance(e, ast.Constant)]
            if "AND" in vals:
                return vals
    return None


def t_rule_table(t):
    """shape-exhaustive table of the real apply_transform: every dispatched opcode x operand shapes"""
    import copy
    _warm_up(t.get("opts", ["-greedy"]))
    ops = dispatched_rule_opcodes()
    shapes = t["shapes"]          # list of ints and variable names
    rows = []
    for op in ops or []:
        arity = 1 if op in ("NOT", "ISZERO") else 2
        combos = [[a] for a in shapes] if arity == 1 else [[a, b] for a in shapes for b in shapes]
        for args in combos:
            instr = {"id": op + "_0", "opcode": "00", "disasm": op, "inpt_sk": list(args), "outpt_sk": ["s(50)"],
                     "gas": 3, "commutative": False, "storage": False, "push": False, "size": 1}
            try:
                r = impl.gopt.apply_transform(copy.deepcopy(instr))
                if r is None:
                    r = -1
                rows.append([op, args, r if isinstance(r, (int, str)) else repr(r), None])
            except Exception as ex:
                rows.append([op, args, None, "%s: %s" % (type(ex).__name__, ex)])
    return {"ops": ops, "rows": rows}


def t_fold_table(t):
    """value table of the real constant folding (evaluate_expression / _ter / unary) on given operand values"""
    _warm_up()
    rows = []
    for funct, a, b in t["bin"]:
        try:
            rows.append([funct, a, b, impl.gopt.evaluate_expression(funct, a, b), None])
        except Exception as ex:
            rows.append([funct, a, b, None, "%s: %s" % (type(ex).__name__, ex)])
    ter = []
    for funct, a, b, c in t.get("ter", []):
        try:
            ter.append([funct, a, b, c, impl.gopt.evaluate_expression_ter(funct, a, b, c), None])
        except Exception as ex:
            ter.append([funct, a, b, c, None, "%s: %s" % (type(ex).__name__, ex)])
    return {"bin": rows, "ter": ter}


KINDS.update({"rule_table": t_rule_table, "fold_table": t_fold_table})


def t_opmap_table(t):
    """opcode -> internal operator -> opcode round trip, observed in the specification (rules off):
    for each opcode the spec of `<operands> OP` must contain exactly one instruction, with that opcode"""
    p = params_for(["-greedy", "-no-simplification"])
    rows = []
    for op, nin in t["ops"]:
        text = " ".join(["DUP%d" % nin] * nin + [op]) if nin else op
        try:
            b = impl.parse_block(text)[0]
            with impl.quiet():
                d, _ = impl.gasol_asm.compute_original_sfs_with_simplifications(b, p)
            names = []
            for k, v in d["syrup_contract"].items():
                names += [u["disasm"] for u in v["user_instrs"]]
            rows.append([op, names, None])
        except Exception as ex:
            rows.append([op, None, "%s: %s" % (type(ex).__name__, ex)])
    return {"rows": rows}


KINDS.update({"opmap_table": t_opmap_table})


# ---------------------------------------------------------------- C05: the built-in checker
def t_compare(t):
    """real compare_asm_block_asm_format on two plain-text blocks"""
    p = params_for(t["opts"])
    r = {"a": t["a"], "b": t["b"]}
    try:
        A = impl.parse_block(t["a"])
        B = impl.parse_block(t["b"])
    except Exception as ex:
        r["parse_exception"] = "%s: %s" % (type(ex).__name__, ex)
        return r
    if len(A) != 1 or len(B) != 1:
        r["parse_exception"] = "not a single block"
        return r
    A, B = A[0], B[0]
    try:
        r["a_tokens"] = vocab.tokens_of_block(A)
        r["b_tokens"] = vocab.tokens_of_block(B)
        # states are made just deep enough for the FIRST block: the second one may not need a deeper stack
        r["need"] = A.source_stack
    except vocab.Unsupported as u:
        r["unsupported"] = str(u)
    try:
        with impl.quiet():
            eq, reason = impl.gasol_asm.compare_asm_block_asm_format(A, B, p)
        r["eq"] = bool(eq)
        r["reason"] = str(reason)[:200]
    except Exception as ex:
        r["exception"] = "%s: %s" % (type(ex).__name__, ex)
    return r


KINDS.update({"compare": t_compare})


# ---------------------------------------------------------------- C18: formula constructors
def _formula_env():
    import smt_encoding.constraints.connector_factory as cf
    from smt_encoding.constraints.connector import Connector
    from smt_encoding.constraints.function import Function, ExpressionReference, Sort
    from smt_encoding.solver.solver_from_executable import translate_formula
    return cf, Connector, Function, ExpressionReference, Sort, translate_formula


def _ser(obj, env):
    cf, Connector, Function, ExpressionReference, Sort, _ = env
    if type(obj) == bool:
        return "T" if obj else "F"
    if type(obj) == int:
        return "#%d" % obj
    if type(obj) == ExpressionReference:
        s = "b" if obj.type == Sort.boolean else "i"
        return "(a %s %s%s)" % (obj.func.name, s, "".join(" " + _ser(a, env) for a in obj.arguments))
    if type(obj) == Connector:
        return "(c %s%s)" % (obj.connector_name, "".join(" " + _ser(a, env) for a in obj.arguments))
    raise TypeError("unexpected formula object %r" % (obj,))


def _build(raw, env):
    """raw: nested lists ['c', name, args...] | ['a', name, sort, args...] | True/False | int"""
    cf, Connector, Function, ExpressionReference, Sort, _ = env
    if isinstance(raw, (bool, int)):
        return raw
    if raw[0] == "a":
        _, name, sort, *args = raw
        bargs = [_build(a, env) for a in args]
        doms = [Sort.boolean if type(a) == bool else Sort.integer if type(a) == int else a.type for a in bargs]
        f = Function(name, *doms, Sort.boolean if sort == "b" else Sort.integer)
        return f(*bargs)
    _, name, *args = raw
    bargs = [_build(a, env) for a in args]
    fn = {"and": cf.add_and, "or": cf.add_or, "not": cf.add_not, "=>": cf.add_implies, "=": cf.add_eq,
          "<": cf.add_lt, "<=": cf.add_leq, "distinct": cf.add_distinct}[name]
    return fn(*bargs)


def _raw_ser(raw):
    if isinstance(raw, bool):
        return "T" if raw else "F"
    if isinstance(raw, int):
        return "#%d" % raw
    if raw[0] == "a":
        return "(a %s %s%s)" % (raw[1], raw[2], "".join(" " + _raw_ser(a) for a in raw[3:]))
    return "(c %s%s)" % (raw[1], "".join(" " + _raw_ser(a) for a in raw[2:]))


def t_formulas(t):
    """build raw trees through the real add_* interface; report structure, rendering, and == on pairs"""
    env = _formula_env()
    tf = env[5]
    rows, objs = [], []
    for raw in t["trees"]:
        rs = _raw_ser(raw)
        try:
            obj = _build(raw, env)
            rows.append([rs, _ser(obj, env), tf(obj), None])
            objs.append(obj)
        except AssertionError as ex:
            rows.append([rs, "RAISE", "", "AssertionError"])
            objs.append(None)
        except Exception as ex:
            rows.append([rs, "RAISE", "", "%s: %s" % (type(ex).__name__, ex)])
            objs.append(None)
    eqs = []
    for i, j in t.get("pairs", []):
        a, b = objs[i], objs[j]
        if a is None or b is None or isinstance(a, (bool, int)) or isinstance(b, (bool, int)):
            continue
        try:
            eqs.append([rows[i][1], rows[j][1], 1 if a == b else 0, None])
        except Exception as ex:
            eqs.append([rows[i][1], rows[j][1], None, "%s: %s" % (type(ex).__name__, ex)])
    return {"rows": rows, "eqs": eqs}


KINDS.update({"formulas": t_formulas})


# ---------------------------------------------------------------- C08: decisions and cost tables
def t_improves_table(t):
    rows = []
    for c, others in t["rows"]:
        try:
            rows.append([c, others, 1 if impl.gasol_asm.improves_criterion(c, *others) else 0, None])
        except Exception as ex:
            rows.append([c, others, None, "%s: %s" % (type(ex).__name__, ex)])
    return {"rows": rows}


def t_cost_table(t):
    """the tool's own per-item accounting for single-instruction blocks (diagnostic)"""
    p = params_for(t["opts"])
    rows = []
    for text in t["items"]:
        try:
            b = impl.parse_block(text)[0]
            rows.append([text, vocab.tokens_of_block(b), b.gas_spent, b.bytes_required, b.length, None])
        except Exception as ex:
            rows.append([text, None, None, None, None, "%s: %s" % (type(ex).__name__, ex)])
    return {"rows": rows}


KINDS.update({"improves_table": t_improves_table, "cost_table": t_cost_table})


# ---------------------------------------------------------------- C14: splitting and rebuilding
def t_split(t):
    from sfs_generator.asm_bytecode import AsmBytecode
    from solution_generation.optimize_from_sub_blocks import rebuild_optimized_asm_block
    p = params_for(t["opts"])
    r = {"text": t["text"], "opts": t["opts"], "blocks": []}
    try:
        bs = impl.parse_block(t["text"])
    except Exception as ex:
        r["parse_exception"] = "%s: %s" % (type(ex).__name__, ex)
        return r
    for b in bs:
        e = {"plain": [i.to_plain() for i in b.instructions], "optimizable": b.instructions_to_optimize_plain(),
             "name": b.block_name}
        if not e["optimizable"]:
            continue
        try:
            with impl.quiet():
                d, subs = impl.gasol_asm.compute_original_sfs_with_simplifications(b, p)
            e["subs"] = subs
            specs = d["syrup_contract"]
            e["keys"] = list(specs.keys())
            e["spec_shape"] = {k: [len(v["src_ws"]), len(v["tgt_ws"]), v["original_instrs"]] for k, v in specs.items()}
            with impl.quiet():
                nb = rebuild_optimized_asm_block(b, subs, {})
            e["rebuild_none"] = [i.to_plain() for i in nb.instructions]
            e["rebuild_none_same_objects"] = bool(nb.instructions == b.instructions)
            e["rebuild_one"] = []
            marker = [AsmBytecode(-1, -1, -1, "PUSH", "dead"), AsmBytecode(-1, -1, -1, "POP", None)]
            for k in range(len(subs)):
                with impl.quiet():
                    nb = rebuild_optimized_asm_block(b, subs, {"%s_%d" % (b.block_name, k): list(marker)})
                e["rebuild_one"].append([i.to_plain() for i in nb.instructions])
            e["sub_tokens"] = []
            for sb in impl.gasol_asm.process_blocks_split(subs):
                try:
                    sbb = impl.gasol_asm.generate_block_from_plain_instructions(" ".join(sb), "x") if sb else None
                    e["sub_tokens"].append(vocab.tokens_of_block(sbb) if sbb else "")
                except Exception as ex:
                    e["sub_tokens"].append(None)
        except Exception as ex:
            e["exception"] = "%s: %s" % (type(ex).__name__, ex)
        r["blocks"].append(e)
    return r


KINDS.update({"split": t_split})


# ---------------------------------------------------------------- C02 / C04 / C16: specifications
def ser_spec(spec, items):
    """SFS dict -> wire fields (src, tgt, instrs, deps).  `items`: [(disasm, value)] of the sub-block, used to name
    pseudo-pushes exactly like the block tokens do."""
    def atom(a):
        if isinstance(a, bool):
            raise ValueError("bool atom")
        if isinstance(a, int):
            return "#%d" % a
        s = str(a)
        try:
            return "#%d" % int(s)
        except ValueError:
            return s
    symmap = {}
    for d, v in items:
        if d in vocab.PSEUDO_PUSH:
            tok = vocab.token(d, v)[4:]
            symmap.setdefault((d, str(v)), tok)
            try:
                symmap.setdefault((d, int(str(v), 16)), tok)
            except (ValueError, TypeError):
                pass
    recs = []
    for u in spec["user_instrs"]:
        op = u["disasm"]
        sym = ""
        if op == "PUSH":
            sym = "%x" % int(u["value"][0])
        elif op == "PUSH0":
            sym = "0"
        elif op in vocab.PSEUDO_PUSH:
            val = u.get("value", [None])[0] if u.get("value") else None
            sym = symmap.get((op, val)) or symmap.get((op, str(val))) or vocab.token(op, None if val is None else str(val))[4:]
        out = u["outpt_sk"][0] if u["outpt_sk"] else ""
        recs.append("~".join([u["id"], op, sym, ",".join(atom(a) for a in u["inpt_sk"]), str(out), "1" if u.get("commutative") else "0"]))
    deps = ",".join("%s>%s" % (a, b) for a, b in (spec.get("memory_dependences", []) + spec.get("storage_dependences", [])))
    return [",".join(spec["src_ws"]), ",".join(atom(a) for a in spec["tgt_ws"]), ";".join(recs), deps]


_CV = {"installed": False, "cur": None, "by_name": {}}


def _install_cv_probe():
    """records, per emitted specification, whether the front end's stack-need estimate (compute_vars) is what the pinned copy of that
    heuristic yields on the same arguments (classification of the known finding C16-stack-bound-estimate-below-need only)"""
    if _CV["installed"]:
        return
    import pinned_compute_vars, copy as _copy
    go = impl.gopt
    real_cv, real_gj = go.compute_vars, go.generate_json

    def cv(tstack, sstack, userdef_ins):
        try:
            want = pinned_compute_vars.compute_vars(_copy.deepcopy(tstack), _copy.deepcopy(sstack), _copy.deepcopy(userdef_ins))
        except Exception:
            want = None
        got = real_cv(tstack, sstack, userdef_ins)
        _CV["cur"] = (got == want)
        return got

    def gj(*a, **kw):
        before = set(go.blocks_json_dict) if isinstance(getattr(go, "blocks_json_dict", None), dict) else set()
        _CV["cur"] = None
        r = real_gj(*a, **kw)
        after = set(go.blocks_json_dict) if isinstance(getattr(go, "blocks_json_dict", None), dict) else set()
        for k in after - before:
            _CV["by_name"][k] = _CV["cur"]
        return r
    go.compute_vars, go.generate_json = cv, gj
    _CV["installed"] = True


def t_spec(t):
    """specifications of a block (per sub-block), the greedy result on each, published bounds"""
    _install_cv_probe()
    _CV["by_name"].clear()
    from greedy.block_generation import greedy_from_json
    import copy
    p = params_for(t["opts"])
    r = {"text": t["text"], "opts": t["opts"], "subs": []}
    try:
        bs = impl.parse_block(t["text"])
    except Exception as ex:
        r["parse_exception"] = "%s: %s" % (type(ex).__name__, ex)
        return r
    for b in bs:
        if not b.instructions_to_optimize_plain():
            continue
        try:
            with impl.quiet():
                d, subs = impl.gasol_asm.compute_original_sfs_with_simplifications(b, p)
        except Exception as ex:
            r.setdefault("exceptions", []).append("%s: %s" % (type(ex).__name__, ex))
            continue
        stripped = impl.gasol_asm.process_blocks_split(subs)
        for k, sb in enumerate(stripped):
            name = "%s_%d" % (b.block_name, k)
            if name not in d["syrup_contract"] or not sb:
                continue
            spec = d["syrup_contract"][name]
            e = {"name": name, "plain": sb}
            try:
                sbb = impl.gasol_asm.generate_block_from_plain_instructions(" ".join(sb), "x")
                items = [(i.disasm, i.value) for i in sbb.instructions]
                e["tokens"] = vocab.tokens_of_block(sbb)
                e["spec"] = ser_spec(spec, items)
                e["effects"] = [u["id"] for u in spec["user_instrs"] if u["disasm"] in
                                ("MSTORE", "MSTORE8", "MLOAD", "KECCAK256", "SHA3", "SSTORE", "SLOAD")]
                e["uinstrs"] = [[u["id"], u["disasm"], [str(a) for a in u["inpt_sk"]], [str(a) for a in u["outpt_sk"]]] for u in spec["user_instrs"]]
                e["deps"] = spec.get("memory_dependences", []) + spec.get("storage_dependences", [])
                e["bounds"] = {k2: spec.get(k2) for k2 in ("init_progr_len", "max_progr_len", "max_sk_sz", "min_length", "min_length_instrs",
                                                             "min_length_bounds", "original_instrs", "rules_applied")}
                e["bounds"]["stack_estimate_is_pinned_heuristic"] = _CV["by_name"].get(name)
            except (vocab.Unsupported, ValueError, KeyError) as ex:
                e["unsupported"] = "%s: %s" % (type(ex).__name__, ex)
            if t.get("greedy", True) and "spec" in e:
                try:
                    with impl.quiet():
                        _, _, res, resids, error = greedy_from_json(copy.deepcopy(spec))
                    e["greedy"] = {"ids": list(resids) if resids is not None else None, "error": error,
                                   "res": [str(x) for x in res] if res is not None else None}
                    if resids is not None and error == 0:
                        # the tool's own rendering of the identifiers (what is spliced into the contract)
                        try:
                            from solution_generation.ids2asm import asm_from_ids
                            with impl.quiet():
                                asm = asm_from_ids(copy.deepcopy(spec), list(resids))
                            e["greedy"]["asm_tokens"] = " ".join(vocab.token(i.disasm, i.value) for i in asm)
                        except vocab.Unsupported as ex:
                            e["greedy"]["asm_unsupported"] = str(ex)
                        except Exception as ex:
                            e["greedy"]["asm_exception"] = "%s: %s" % (type(ex).__name__, ex)
                except Exception as ex:
                    e["greedy"] = {"exception": "%s: %s" % (type(ex).__name__, ex)}
            r["subs"].append(e)
    return r


KINDS.update({"spec": t_spec})


# ---------------------------------------------------------------- document-level runs of the real CLI
def t_cli(t):
    """run the real command line tool in a scratch directory; returns exit status, produced files, stdout tail"""
    import subprocess, tempfile, json as _json
    d = tempfile.mkdtemp(prefix="gvcli_", dir=os.environ.get("GV_SCRATCH", "/tmp"))
    try:
        for name, content in t["files"].items():
            with open(os.path.join(d, name), "w") as f:
                f.write(content)
        env = dict(os.environ)
        env.update(t.get("env", {}))
        env["PYTHONWARNINGS"] = "ignore"
        if t.get("inject"):
            env["GV_INJECT"] = _json.dumps(t["inject"])
            cmd = [sys.executable, os.path.join(os.path.dirname(os.path.abspath(__file__)), "cli_inject.py")] + t["args"]
        else:
            cmd = [sys.executable, os.path.join(os.path.dirname(os.path.abspath(__file__)), "cli_launch.py")] + t["args"]
        pathfile = d + ".gasolpath"
        env["GV_PATHFILE"] = pathfile
        t0 = time.time()
        try:
            p = subprocess.run(cmd, cwd=d, env=env, capture_output=True, text=True, timeout=t.get("cli_timeout", 240))
            rc, out, err = p.returncode, p.stdout, p.stderr
        except subprocess.TimeoutExpired:
            rc, out, err = -9, "", "timeout"
        files = {}
        for fn in sorted(os.listdir(d)):
            if fn in t["files"]:
                continue
            fp = os.path.join(d, fn)
            if os.path.isfile(fp) and os.path.getsize(fp) < 8_000_000:
                files[fn] = open(fp, errors="replace").read()
        return {"rc": rc, "stdout_tail": out[-3000:], "stderr_tail": err[-1500:], "files": files, "wall": time.time() - t0}
    finally:
        shutil.rmtree(d, ignore_errors=True)
        try:
            gp = open(d + ".gasolpath").read().strip()
            os.remove(d + ".gasolpath")
            if os.path.basename(gp.rstrip("/")).startswith("gasol_"):
                shutil.rmtree(gp, ignore_errors=True)
        except OSError:
            pass


import sys
KINDS.update({"cli": t_cli})


def t_json_roundtrip(t):
    """parse_asm(text).to_json() against the text's JSON value (C15), under a PUSH0 setting"""
    import json as _json, tempfile
    impl.constants._set_push0(bool(t.get("push0", True)))
    d = tempfile.mkdtemp(prefix="gvrt_")
    try:
        p = os.path.join(d, "in.json_solc")
        open(p, "w").write(t["text"])
        try:
            with impl.quiet():
                back = impl.gasol_asm.parse_asm(p).to_json()
        except Exception as ex:
            return {"exception": "%s: %s" % (type(ex).__name__, ex)}
        orig = _json.loads(t["text"])
        if t.get("push0", True):
            # the documented spelling: with PUSH0 enabled a zero push is written PUSH0
            def norm(x):
                if isinstance(x, dict):
                    if x.get("name") == "PUSH" and x.get("value") == "0":
                        x = {k: v for k, v in x.items() if k != "value"}
                        x["name"] = "PUSH0"
                        return x
                    return {k: norm(v) for k, v in x.items()}
                if isinstance(x, list):
                    return [norm(v) for v in x]
                return x
            orig = norm(orig)
            back = norm(back)
        if back == orig:
            return {"same": True}
        # first difference
        def diff(a, b, path=""):
            if type(a) != type(b):
                return "%s: %r vs %r" % (path, a if not isinstance(a, (dict, list)) else type(a).__name__, b if not isinstance(b, (dict, list)) else type(b).__name__)
            if isinstance(a, dict):
                for k in sorted(set(a) | set(b)):
                    if k not in a or k not in b:
                        return "%s/%s: present on one side only" % (path, k)
                    x = diff(a[k], b[k], path + "/" + str(k))
                    if x:
                        return x
                return None
            if isinstance(a, list):
                if len(a) != len(b):
                    return "%s: length %d vs %d" % (path, len(a), len(b))
                for i, (x, y) in enumerate(zip(a, b)):
                    z = diff(x, y, "%s[%d]" % (path, i))
                    if z:
                        return z
                return None
            return None if a == b else "%s: %r vs %r" % (path, a, b)
        return {"same": False, "diff": diff(orig, back)}
    finally:
        shutil.rmtree(d, ignore_errors=True)


KINDS.update({"json_roundtrip": t_json_roundtrip})


def _wire_field(x, want):
    if x is None:
        return "-"
    if not isinstance(x, want) or isinstance(x, bool):
        raise TypeError("field of unexpected type: %r" % (x,))
    return "=" + str(x)


def t_json_items(t):
    """every code section of a document, item by item, through the real build_asm_bytecode (with its PUSHLIB table) and to_json:
    wire forms of the items, of the AsmBytecode objects and of the items written back (C15, Models/JsonItem.lean)"""
    import json as _json
    import docrun
    from sfs_generator import parser_asm
    impl.constants._set_push0(bool(t.get("push0", True)))
    doc = _json.loads(t["text"])
    out = []
    for path, items in docrun.code_sections(doc):
        try:
            win = "\x1e".join("\x1f".join([_wire_field(i.get("begin"), int), _wire_field(i.get("end"), int), _wire_field(i.get("name"), str),
                                               _wire_field(i.get("source"), int), _wire_field(i.get("value"), str), _wire_field(i.get("jumpType"), str),
                                               _wire_field(i.get("modifierDepth"), int)]) for i in items)
        except TypeError as ex:
            out.append({"path": list(path), "skipped": str(ex)})
            continue
        table, bcs, back = {}, [], []
        try:
            for i in items:
                bc = parser_asm.build_asm_bytecode(dict(i), table)
                v = bc.value
                bcs.append("\x1f".join([str(bc.begin), str(bc.end), str(bc.source), str(bc.disasm),
                                         "-" if v is None else ("=i%d" % v if isinstance(v, int) and not isinstance(v, bool) else "=s" + str(v)),
                                         _wire_field(bc.jump_type, str), _wire_field(bc.modifier_depth, int), _wire_field(bc.real_value, str)]))
                j = bc.to_json()
                back.append("\x1f".join([_wire_field(j.get("begin"), int), _wire_field(j.get("end"), int), _wire_field(j.get("name"), str),
                                          _wire_field(j.get("source"), int), _wire_field(j.get("value"), str), _wire_field(j.get("jumpType"), str),
                                          _wire_field(j.get("modifierDepth"), int)]))
            sec = {"path": list(path), "items": win, "n": len(items), "real": "\x1e".join(bcs) + "\x1d" + "\x1e".join(back)}
            # the section cut into blocks by the real block builder (PUSHLIB tables start empty in every block)
            try:
                import copy as _copy
                blks = parser_asm.build_blocks_from_asm_representation("C", "C_x", _copy.deepcopy(items), False)
                def wb(bc):
                    v = bc.value
                    return "\x1f".join([str(bc.begin), str(bc.end), str(bc.source), str(bc.disasm),
                                         "-" if v is None else ("=i%d" % v if isinstance(v, int) and not isinstance(v, bool) else "=s" + str(v)),
                                         _wire_field(bc.jump_type, str), _wire_field(bc.modifier_depth, int), _wire_field(bc.real_value, str)])
                sec["real_blocks"] = "\x1d".join("\x1e".join(wb(bc) for bc in b.instructions) for b in blks)
            except Exception as ex:
                sec["real_blocks"] = "raise"
                sec["blocks_exception"] = "%s: %s" % (type(ex).__name__, ex)
            out.append(sec)
        except Exception as ex:
            out.append({"path": list(path), "items": win, "n": len(items), "real": "raise", "exception": "%s: %s" % (type(ex).__name__, ex)})
    return {"sections": out}


KINDS.update({"json_items": t_json_items})


def t_plain_roundtrip(t):
    """parse plain text, print it both ways, parse again (C15)"""
    impl.constants._set_push0(bool(t.get("push0", True)))
    rows = []
    for text in t["texts"]:
        try:
            bs = impl.parse_block(text)
            items1 = [[(i.disasm, i.value) for i in b.instructions] for b in bs]
            p1 = "\n".join(b.to_plain() for b in bs)
            p2 = "\n".join(b.to_plain_with_byte_number() for b in bs)
            items2 = [[(i.disasm, i.value) for i in b.instructions] for b in impl.parse_block(p1)]
            items3 = [[(i.disasm, i.value) for i in b.instructions] for b in impl.parse_block(p2)]
            rows.append({"text": text, "items": items1, "plain": p1, "plain_bytes": p2, "again": items2, "again_bytes": items3})
        except Exception as ex:
            rows.append({"text": text, "exception": "%s: %s" % (type(ex).__name__, ex)})
    return {"rows": rows}


KINDS.update({"plain_roundtrip": t_plain_roundtrip})


# ---------------------------------------------------------------- C12 / C13: results as a function of the block only
def canonical_result(text, opts):
    import json as _json, copy
    p = params_for(opts)
    b = impl.parse_block(text)[0]
    out = {}
    with impl.quiet():
        d, subs = impl.gasol_asm.compute_original_sfs_with_simplifications(b, p)
    out["spec"] = _json.dumps(d["syrup_contract"], sort_keys=True)
    out["subs"] = subs
    with impl.quiet():
        nb, log, stats = impl.gasol_asm.optimize_asm_block_asm_format(b, p)
    out["emitted"] = [[i.disasm, i.value] for i in nb.instructions]
    out["log"] = _json.dumps(log, sort_keys=True)
    rows = []
    for row in stats:
        rows.append({k: v for k, v in row.items() if "time" not in k})
    out["stats"] = _json.dumps(rows, sort_keys=True, default=str)
    return out


def t_history(t):
    """result for a block after processing a history of other blocks in this process"""
    for h in t.get("history", []):
        try:
            canonical_result(h, t["opts"])
        except Exception:
            pass
    try:
        return {"result": canonical_result(t["text"], t["opts"])}
    except Exception as ex:
        return {"exception": "%s: %s" % (type(ex).__name__, ex)}


KINDS.update({"history": t_history})


# ---------------------------------------------------------------- C06 / C07: Max-SMT back end with z3 as stand-in
def t_smt(t):
    """for every small specification of a block: the emitted SMT-LIB text, z3's verdict on it, the decoded optimum,
    and further models of the hard constraints (blocking clauses on the t_j variables) decoded with theta_to_instr"""
    import copy, subprocess, tempfile, re as _re
    from smt_encoding.block_optimizer import BlockOptimizer
    from smt_encoding.solver.solver import OptimizeOutcome
    p = params_for(t["opts"])
    r = {"text": t["text"], "opts": t["opts"], "subs": []}
    try:
        bs = impl.parse_block(t["text"])
        b = bs[0]
        with impl.quiet():
            d, subs = impl.gasol_asm.compute_original_sfs_with_simplifications(b, p)
    except Exception as ex:
        r["exception"] = "%s: %s" % (type(ex).__name__, ex)
        return r
    stripped = impl.gasol_asm.process_blocks_split(subs)
    for k, sb in enumerate(stripped):
        name = "%s_%d" % (b.block_name, k)
        spec = d["syrup_contract"].get(name)
        if spec is None or not sb or spec["init_progr_len"] > t.get("max_len", 6) or spec["init_progr_len"] == 0:
            continue
        e = {"name": name, "plain": sb, "b0": spec["init_progr_len"], "max_sk_sz": spec["max_sk_sz"]}
        try:
            sbb = impl.gasol_asm.generate_block_from_plain_instructions(" ".join(sb), "x")
            e["spec"] = ser_spec(spec, [(i.disasm, i.value) for i in sbb.instructions])
            e["costs"] = {u["id"]: [u["gas"], u["size"]] for u in spec["user_instrs"]}
            e["ids"] = [u["id"] for u in spec["user_instrs"]]
            e["tokens"] = vocab.tokens_of_block(sbb)
            e["effects"] = [u["id"] for u in spec["user_instrs"] if u["disasm"] in
                            ("MSTORE", "MSTORE8", "MLOAD", "KECCAK256", "SHA3", "SSTORE", "SLOAD")]
            e["uinstrs"] = [[u["id"], u["disasm"], [str(a) for a in u["inpt_sk"]], [str(a) for a in u["outpt_sk"]]] for u in spec["user_instrs"]]
            e["deps"] = spec.get("memory_dependences", []) + spec.get("storage_dependences", [])
        except Exception as ex:
            e["unsupported"] = str(ex)
            r["subs"].append(e)
            continue
        try:
            with impl.quiet():
                opt = BlockOptimizer(name, copy.deepcopy(spec), p, t.get("tout", 5))
                outcome, tm, ids = opt.optimize_block()
            # the text the tool handed to the solver (written by check_sat)
            text = open(opt._encoding_file).read()
            lines = text.split("\n")
            e["smt2_len"] = len(text)
            fe = opt._full_encoding
            bounds = fe._bounds
            tvars = ["t_%d" % j for j in range(bounds.first_position_sequence, bounds.last_position_sequence + 1)]
            theta = {str(v): ins.id for v, ins in fe.theta_to_instr.items()}
            e["theta"] = theta
            uf = p.encode_terms == "uninterpreted_uf"
            e["outcome"] = outcome.name
            e["opt_ids"] = list(ids) if ids is not None else None
            e["soft"] = [l for l in lines if l.startswith("(assert-soft")][:200]
            # hard constraints only: drop soft assertions / objectives, enumerate models
            hard = [l for l in lines if not l.startswith("(assert-soft") and not l.startswith("(minimize") and
                    not l.startswith("(check-sat") and not l.startswith("(get-") and not l.startswith("(set-option :timeout")]
            avars = ["a_%d" % j for j in range(bounds.first_position_sequence, bounds.last_position_sequence + 1)] if p.push_basic else []
            names = tvars + (["theta_%s" % v for v in theta] if uf else []) + avars
            models, blocks_ = [], []
            z3errors = None
            for it in range(t.get("models", 6)):
                script = "\n".join(hard + blocks_ + ["(check-sat)", "(get-value (%s))" % " ".join(names)])
                with tempfile.NamedTemporaryFile("w", suffix=".smt2", delete=False) as f:
                    f.write(script)
                    fn = f.name
                try:
                    out = subprocess.run(["/usr/bin/z3", "-T:10", "-smt2", fn], capture_output=True, text=True, timeout=20).stdout
                finally:
                    os.remove(fn)
                errs = [l for l in out.split("\n") if "(error" in l and "model is not available" not in l]
                if errs and z3errors is None:
                    z3errors = "\n".join(errs)[:400]
                if not out.startswith("sat"):
                    if it == 0:
                        e["hard_status"] = out.split("\n")[0]
                    break
                e["hard_status"] = "sat"
                vals = dict(_re.findall(r"\(([A-Za-z_][\w!]*) ([^()\s]+|\(- \d+\))\)", out))
                if uf:
                    inv = {vals.get("theta_%s" % v): i for v, i in theta.items()}
                    seq = [inv.get(vals.get(tv)) for tv in tvars]
                else:
                    seq = [theta.get(vals.get(tv)) for tv in tvars]
                if avars:
                    # the basic PUSH pushes the constant the model gives to a_j
                    seq = ["PUSH#%s" % vals.get(av, "?") if x == "PUSH" else x for x, av in zip(seq, avars)]
                models.append(seq)
                if uf:
                    invn = {vals.get("theta_%s" % v): "theta_%s" % v for v in theta}
                    blocks_.append("(assert (not (and %s)))" % " ".join("(= %s %s)" % (tv, invn[vals[tv]]) for tv in tvars if vals.get(tv) in invn))
                else:
                    blocks_.append("(assert (not (and %s)))" % " ".join("(= %s %s)" % (tv, vals[tv]) for tv in tvars if tv in vals))
            e["models"] = models
            e["z3errors"] = z3errors
        except Exception as ex:
            import traceback
            e["exception"] = "%s: %s" % (type(ex).__name__, ex)
            e["tb"] = traceback.format_exc()[-600:]
        r["subs"].append(e)
    return r


KINDS.update({"smt": t_smt})


def _canon_ops(ops):
    out = []
    for o in ops:
        v = o.get("value", None)
        if v is None:
            vs = "-"
        elif isinstance(v, int):
            vs = "i:%d" % v
        else:
            vs = "s:%s" % v
        out.append("%s~%s" % (o["name"], vs))
    return "|".join(out)


def t_plain_ops(t):
    """the real plain-text reader on raw texts (C15 correspondence with Models/Plain.lean): canonical op list or 'error'"""
    from sfs_generator.parser_asm import plain_instructions_to_asm_representation
    rows = []
    for text in t["texts"]:
        try:
            rows.append(_canon_ops(plain_instructions_to_asm_representation(text)))
        except (IndexError, ValueError) as ex:
            rows.append("error")
        except Exception as ex:
            rows.append("exception:%s" % type(ex).__name__)
    return {"rows": rows}


def t_plain_print(t):
    """AsmBytecode.to_plain on (disasm, value) items under a PUSH0 setting"""
    from sfs_generator.asm_bytecode import AsmBytecode
    impl.constants._set_push0(bool(t.get("push0", True)))
    rows = []
    for items in t["blocks"]:
        try:
            rows.append(" ".join(AsmBytecode(-1, -1, -1, d, v).to_plain() for d, v in items))
        except Exception as ex:
            rows.append("exception:%s" % type(ex).__name__)
    return {"rows": rows}


KINDS.update({"plain_ops": t_plain_ops, "plain_print": t_plain_print})


# ---------------------------------------------------------------- C06: the encoder's instance data and hard constraints
def _sv(x):
    return "#%d" % x if isinstance(x, int) and not isinstance(x, bool) else str(x)


def enc_instance(fe, p):
    """what Models/Encoding.lean needs of a FullEncoding object; None when an option / shape is outside the model"""
    import re as _re
    from smt_encoding.instructions.encoding_instruction import InstructionSubset
    import global_params.constants as constants
    env = _formula_env()
    bounds = fe._bounds
    rows = []
    for ins in fe._instructions:
        sub = ins.instruction_subset
        if sub == InstructionSubset.basic:
            name = ins.id
            if name == "NOP":
                kind = "nop"
            elif name == "POP":
                kind = "pop"
            elif name == "PUSH":
                kind = "push"
            elif _re.fullmatch("DUP[0-9]+", name):
                kind = "dup:%s" % name[3:]
            elif _re.fullmatch("SWAP[0-9]+", name):
                kind = "swap:%s" % name[4:]
            else:
                return None, "basic instruction %s" % name
        else:
            o = ",".join(_sv(x) for x in ins.input_stack)
            r = ins.output_stack
            if sub == InstructionSubset.store:
                kind = "st:%s" % o
            elif sub == InstructionSubset.pop:
                kind = "pu:%s" % o
            elif sub == InstructionSubset.comm:
                if r is None:
                    return None, "commutative instruction without output"
                kind = "cm:%s:%s" % (o, _sv(r))
            else:
                if r is None:
                    return None, "non-commutative instruction without output"
                kind = "nc:%s:%s" % (o, _sv(r))
        th = ins.theta_value
        rows.append("%d~%s~%s~%d~%d" % (th, ins.id, kind, bounds.lower_bound_theta_value(th), bounds.upper_bound_theta_value(th)))
    terms = ";".join("%s=%s" % (k, _ser(v, env)) for k, v in fe._stack_var_to_term.items())
    th = {ins.id: ins.theta_value for ins in fe._instructions}
    inst = [str(fe.bs), str(fe.b0), str(constants.int_limit), {"uninterpreted_uf": "uf", "uninterpreted_int": "ui", "stack_vars": "sv", "int": "int"}.get(p.encode_terms, "int"), "1" if fe._terminal else "0",
            ";".join(rows), ",".join(_sv(x) for x in fe.initial_stack), ",".join(_sv(x) for x in fe.final_stack), terms,
            p.memory_encoding,
            ";".join("%d,%d,%d,%d" % (th[a], th[b], 1 if "STORE" in a else 0, 1 if "STORE" in b else 0) for a, b in fe.mem_order if a in th and b in th),
            ",".join(str(ins.theta_value) for ins in fe._instructions if ins.unique_ui),
            ";".join("%d,%d" % (th[pred], th[succ]) for succ, preds in fe._dependency_graph.items() for pred in preds if pred in th and succ in th)]
    meta = {"first": bounds.first_position_sequence, "last": bounds.last_position_sequence, "empty": bool(p.empty)}
    return inst, meta


def t_enc(t):
    """for every small specification of a block: instance data of the real FullEncoding and its hard constraints,
    serialised in the S-expression form of FormulaIO (C06 correspondence with Models/Encoding.lean)"""
    import copy
    from smt_encoding.complete_encoding.synthesis_full_encoding import FullEncoding
    p = params_for(t["opts"])
    env = _formula_env()
    r = {"text": t["text"], "opts": t["opts"], "subs": []}
    try:
        bs = impl.parse_block(t["text"])
        b = bs[0]
        with impl.quiet():
            d, subs = impl.gasol_asm.compute_original_sfs_with_simplifications(b, p)
    except Exception as ex:
        r["exception"] = "%s: %s" % (type(ex).__name__, ex)
        return r
    for name, spec in d["syrup_contract"].items():
        if spec["init_progr_len"] > t.get("max_len", 8) or spec["init_progr_len"] == 0:
            continue
        e = {"name": name, "b0": spec["init_progr_len"], "bs": spec["max_sk_sz"]}
        try:
            fe = FullEncoding(copy.deepcopy(spec), p)
            gen_hard = fe.generate_hard_constraints()
            fe.functions_declared()      # as in BlockOptimizer: declared before the lazy generators are consumed
            hard = [_ser(c.formula, env) for c in gen_hard]
            inst, meta = enc_instance(fe, p)
            # soft constraints, and the weight table the encoder computed for them (captured at the call, not recomputed)
            import smt_encoding.complete_encoding.synthesis_full_encoding as _sfe
            captured = {}
            _orig = _sfe.soft_constraints_grouped_by_weight

            def _wrap(sf, b0, weight_dict, bounds, label):
                captured["w"] = list(weight_dict.items())
                return _orig(sf, b0, weight_dict, bounds, label)
            _sfe.soft_constraints_grouped_by_weight = _wrap
            try:
                soft = ["%d@%s" % (c.weight, _ser(c.formula, env)) for c in fe.generate_soft_constraints()]
            finally:
                _sfe.soft_constraints_grouped_by_weight = _orig
            if inst is not None:
                inst.append(",".join("%d:%d" % (k, w) for k, w in captured["w"]) if "w" in captured else "-")
                inst.append("1" if p.empty else "0")
            e["hard"] = hard
            e["soft"] = soft
            e["inst"] = inst
            e["meta"] = meta
        except Exception as ex:
            import traceback
            e["exception"] = "%s: %s" % (type(ex).__name__, ex)
            e["tb"] = traceback.format_exc()[-500:]
        r["subs"].append(e)
    return r


KINDS.update({"enc": t_enc})


# ---------------------------------------------------------------- C05: the checker's term comparison against its Lean model
def _ser_cspec(spec):
    import json as _json

    def at(x):
        return "#%d" % x if isinstance(x, int) and not isinstance(x, bool) else str(x)
    rows = []
    for u in spec["user_instrs"]:
        val = _json.dumps(u["value"]).replace(" ", "") if "value" in u else "-"
        rows.append("~".join([u["id"], u["disasm"], val, ",".join(at(a) for a in u["inpt_sk"]), ",".join(str(o) for o in u["outpt_sk"]),
                              "1" if u.get("commutative") else "0"]))
    return "|".join([",".join(str(v) for v in spec["src_ws"]), ",".join(at(a) for a in spec["tgt_ws"]), ";".join(rows)])


def t_cmp(t):
    """specifications of two blocks as the tool derives them, the real compare_target_stack on them and the real
    compare_variables on a grid of variable pairs (C05 correspondence with Models/Cmp.lean)"""
    from verification import sfs_verify
    p = params_for(t["opts"])
    r = {"a": t["a"], "b": t["b"], "subs": []}
    try:
        A = impl.parse_block(t["a"])[0]
        B = impl.parse_block(t["b"])[0]
        with impl.quiet():
            da, _ = impl.gasol_asm.compute_original_sfs_with_simplifications(A, p)
            db, _ = impl.gasol_asm.compute_original_sfs_with_simplifications(B, p)
    except Exception as ex:
        r["exception"] = "%s: %s" % (type(ex).__name__, ex)
        return r
    sa, sb = da["syrup_contract"], db["syrup_contract"]
    for key in sa:
        if key not in sb:
            continue
        O, P = sa[key], sb[key]

        def call(f, *args):
            try:
                res = f(*args)
                return "true" if (res[0] if isinstance(res, tuple) else res) else "false"
            except RecursionError:
                return "recursion"
            except Exception:
                return "raise"
        e = {"key": key, "O": _ser_cspec(O), "P": _ser_cspec(P)}
        if any(ch in e["O"] + e["P"] for ch in "\t\n"):
            continue
        e["target"] = call(sfs_verify.compare_target_stack, O, P)
        e["stores"] = call(sfs_verify.compare_storage_userdef_ins, O["src_ws"], P["src_ws"], O["user_instrs"], P["user_instrs"])
        vo = [x for x in dict.fromkeys(list(O["tgt_ws"]) + [a for u in O["user_instrs"] for a in u["inpt_sk"]] + list(O["src_ws"]))][:8]
        vp = [x for x in dict.fromkeys(list(P["tgt_ws"]) + [a for u in P["user_instrs"] for a in u["inpt_sk"]] + list(P["src_ws"]))][:8]
        pairs, outs = [], []
        for x in vo:
            for y in vp:
                pairs.append("%s,%s" % ("#%d" % x if isinstance(x, int) else x, "#%d" % y if isinstance(y, int) else y))
                outs.append(call(sfs_verify.compare_variables, x, y, O["src_ws"], P["src_ws"], O["user_instrs"], P["user_instrs"]))
        e["pairs"], e["pair_results"] = pairs, outs
        r["subs"].append(e)
    return r


KINDS.update({"cmp": t_cmp})
