"""C18 — formula constructors preserve truth value; emitted text matches the formula."""
import random, itertools
from collections import Counter
import common, pool, drv

THEOREMS = ["Formula.build_eval", "Formula.mkAnd_eval", "Formula.mkOr_eval", "Formula.mkNot_eval", "Formula.mkImplies_eval",
            "Formula.mkEq_eval", "Formula.pyEq_sound", "Formula.canon_sound", "Formula.mkAnd_error_iff",
            "Formula.beq_eq", "Formula.flatten_ws"]

BATOMS = [["a", "p", "b"], ["a", "q", "b"], ["a", "r", "b"], ["a", "u", "b", 0], ["a", "u", "b", 1]]
IATOMS = [["a", "x", "i"], ["a", "y", "i"], ["a", "t", "i", 0], ["a", "t", "i", 1]]


def gen_bool(rng, d):
    if d == 0 or rng.random() < 0.25:
        k = rng.random()
        if k < 0.2:
            return rng.choice([True, False])
        return rng.choice(BATOMS)
    c = rng.choice(["and", "and", "or", "or", "not", "=>", "=", "=i", "<", "<=", "distinct"])
    if c in ("and", "or"):
        return ["c", c] + [gen_bool(rng, d - 1) for _ in range(rng.choice([1, 2, 2, 3, 4]))]
    if c == "not":
        return ["c", "not", gen_bool(rng, d - 1)]
    if c in ("=>", "="):
        return ["c", c, gen_bool(rng, d - 1), gen_bool(rng, d - 1)]
    if c == "=i":
        return ["c", "=", gen_int(rng), gen_int(rng)]
    if c in ("<", "<="):
        return ["c", c, gen_int(rng), gen_int(rng)]
    return ["c", "distinct"] + [gen_int(rng) for _ in range(rng.choice([1, 2, 3]))]


def gen_int(rng):
    return rng.choice(IATOMS + [0, 1, 2]) if rng.random() < 0.85 else rng.randrange(-2, 5)


def exhaustive_small():
    """all trees of depth <= 2 over 2 boolean atoms, literals and the boolean connectives (arity <= 2)"""
    leaves = [True, False, BATOMS[0], BATOMS[1]]
    lvl1 = list(leaves)
    for a in leaves:
        lvl1.append(["c", "not", a])
        lvl1.append(["c", "and", a])
        lvl1.append(["c", "or", a])
    for a, b in itertools.product(leaves, repeat=2):
        for c in ("and", "or", "=>", "="):
            lvl1.append(["c", c, a, b])
    out = list(lvl1)
    for a in lvl1:
        out.append(["c", "not", a])
    for a, b in itertools.product(lvl1, repeat=2):
        for c in ("and", "or", "=>", "="):
            out.append(["c", c, a, b])
    return out


def run(tier):
    sd = common.seed()
    rng = random.Random(sd * 4099 + 9)
    po = common.proof_obligations("GasolVerif.Proofs.FormulaSound", THEOREMS)
    violations = [{"kind": "broken-proof-obligation", "what": b, "no_failing_input": True, "input": b} for b in po["broken"]]
    trees = exhaustive_small()
    nex = len(trees)
    if tier == "quick":
        trees = trees[:400] + rng.sample(trees[400:], 6000)
    nrand = 4000 if tier == "quick" else 60000
    trees += [gen_bool(rng, rng.choice([2, 3, 3, 4])) for _ in range(nrand)]
    # pool for ==: permuted copies and near misses
    pool_trees = [gen_bool(rng, 2) for _ in range(150 if tier == "quick" else 1200)]
    extra = []
    for t in pool_trees:
        if isinstance(t, list) and t[0] == "c" and len(t) > 3:
            p = t[:2] + rng.sample(t[2:], len(t) - 2)
            extra.append(p)
    # every connective applied to two operands in both orders: compared with == (only the commutative ones may be equal), and as the two
    # sides of an equality / an implication (the construction folds syntactically equal sides)
    swapped = []
    bops = [(BATOMS[0], BATOMS[1]), (BATOMS[0], ["c", "not", BATOMS[1]]), (True, BATOMS[0])]
    iops = [(IATOMS[0], IATOMS[1]), (IATOMS[0], 1), (0, 1), (IATOMS[2], IATOMS[3])]
    for cn, ops in (("and", bops), ("or", bops), ("=>", bops), ("=", bops), ("=", iops), ("<", iops), ("<=", iops), ("distinct", iops)):
        for a, b in ops:
            swapped.append((["c", cn, a, b], ["c", cn, b, a]))
    for f, g in swapped:
        trees += [["c", "=", f, g], ["c", "=>", ["c", "=", f, g], BATOMS[2]], ["c", "and", f, ["c", "not", g]], ["c", "or", f, g]]
    base = len(trees)
    trees += pool_trees + extra
    idxs = list(range(base, len(trees)))
    pairs = [(i, j) for i in idxs for j in rng.sample(idxs, 6)] + [(i, i) for i in idxs]
    for f, g in swapped:
        trees += [f, g]
        pairs += [(len(trees) - 2, len(trees) - 1), (len(trees) - 1, len(trees) - 2)]
    chunks, per = [], 4000
    tasks = []
    for k in range(0, base, per):
        tasks.append({"kind": "formulas", "trees": trees[k:k + per], "timeout": 120})
    tasks.append({"kind": "formulas", "trees": trees[base:], "pairs": [(i - base, j - base) for i, j in pairs], "timeout": 300})
    res = pool.run_tasks(tasks, timeout=300)
    c = Counter()
    reqs, meta = [], []
    for t, r, st in res:
        if st != "ok" or r is None or "harness_error" in r:
            raise common.MachineryError("formula worker failed: %s %s" % (st, (r or {}).get("harness_error")))
        for raw, built, text, exc in r["rows"]:
            c["trees"] += 1
            if exc and exc != "AssertionError":
                violations.append({"kind": "constructor-raises", "input": raw, "what": "building %s raised %s" % (raw, exc)})
                continue
            reqs.append("FORMULA\t%s\t%s\t%s" % (raw, built, text.replace("\t", " ")))
            meta.append(("F", raw, built, text))
        for f, g, py, exc in r["eqs"]:
            c["eq-pairs"] += 1
            if exc:
                violations.append({"kind": "eq-raises", "input": f + " == " + g, "what": "%s == %s raised %s" % (f, g, exc)})
                continue
            c["eq-true" if py else "eq-false"] += 1
            reqs.append("PYEQ\t%s\t%s\t%d" % (f, g, py))
            meta.append(("E", f, g, py))
    outs = drv.batch(reqs)
    samples = []
    for o, m in zip(outs, meta):
        if o.startswith("error"):
            raise common.MachineryError("driver: %s on %s" % (o, m))
        if m[0] == "F":
            _, raw, built, text = m
            if o == "model=same-raise":
                c["raise-agrees-with-model"] += 1
                continue
            parts = dict(x.split("=", 1) for x in o.split(";") if "=" in x)
            ws = o.endswith(";ws")
            c["well-sorted" if ws else "ill-sorted"] += 1
            if parts.get("truth", "same") != "same" and ws:
                violations.append({"kind": "truth-value-changed", "input": raw,
                                   "what": "add_*(%s) = %s differs from the unsimplified formula at %s" % (raw, built, parts["truth"])})
            elif parts.get("model") != "same" and ws:
                violations.append({"kind": "constructor-not-admitted-by-model", "input": raw, "no_failing_input": True,
                                   "what": "correspondence broken: add_*(%s) returned %s, model (theorems mk*_eval) gives %s" % (raw, built, parts.get("model"))})
            elif parts.get("render") != "same":
                violations.append({"kind": "rendering-differs", "input": raw,
                                   "what": "translate_formula(%s) = %r, model renders %s" % (built, text, parts.get("render"))})
            else:
                c["agree"] += 1
                if len(samples) < 4 and raw != built and len(raw) > 30:
                    samples.append({"raw": raw, "built": built, "smtlib": text})
        else:
            _, f, g, py = m
            parts = dict(x.split("=", 1) for x in o.split(";") if "=" in x)
            ws = o.endswith(";ws")
            if py and parts.get("truth") != "same" and ws:
                violations.append({"kind": "equal-formulas-differ-in-value", "input": f + " == " + g,
                                   "what": "%s == %s is True in Python but %s" % (f, g, parts["truth"])})
            elif parts.get("model") != "same" and ws:
                violations.append({"kind": "eq-not-admitted-by-model", "input": f + " == " + g, "no_failing_input": True,
                                   "what": "correspondence broken: Python says %s == %s is %s, pyEq (theorem pyEq_sound) says otherwise" % (f, g, bool(py))})
            else:
                c["eq-agree"] += 1
    cov = {"obligations": po["obligations"], "discharged": po["discharged"],
           "checker_cmd": "cd lean && lake build GasolVerif gvdrv; #print axioms " + ", ".join(THEOREMS),
           "trusted_base": ["Lean 4.33 kernel", "axioms: propext, Classical.choice, Quot.sound",
                            "lean/GasolVerif/Models/Formula.lean as the model of connector_factory/connector/function",
                            "FormulaIO.lean S-expression reader and truth tables (unverified glue)",
                            "rendering is tied by exact text comparison; no parse theorem is proved for SMT-LIB text"],
           "axioms": po["axioms"], "evaluations": c["trees"] + c["eq-pairs"], "distinct_nontrivial": c["agree"] + c["eq-agree"],
           "rule": "all %d trees of depth <= 2 over {p,q,true,false} with and/or/not/=>/= (thorough: all; quick: 6400 of them), "
                   "plus seeded random trees to depth 4 over 5 boolean atoms, 4 integer terms, literals and all eight connectives; "
                   "pool of trees with permuted copies for ==; non-trivial = built object compared with model, text and truth table" % nex,
           "samples": samples or [{"raw": reqs[0]}], "counters": dict(c), "exhaustive": tier != "quick"}
    return {"level": "proof", "coverage": cov, "violations": violations,
            "assumptions": ["well-sorted inputs (F.ws); ill-sorted trees are exercised but only 'never silently wrong' on well-sorted ones is claimed",
                            "add_and(True,True)/add_or(False,False) raise AssertionError: modelled as .error (mkAnd_error_iff), not counted as truth-value violations"]}


def replay(v):
    print(v.get("what"))
    return 1
