"""C16 — the numeric bounds published in a specification are valid."""
import random
from collections import Counter
import common, drv
from props import c02

THEOREMS = ["Spec.min_length_le", "Spec.min_length_with", "Spec.run_conserve", "Spec.refs_le", "Spec.needed_executed", "Spec.exec_of_seen"]


def run(tier):
    sd = common.seed()
    rng = random.Random(sd * 733 + 19)
    po = common.proof_obligations("GasolVerif.Proofs.MinLenSound", THEOREMS)
    violations = [{"kind": "broken-proof-obligation", "what": b, "no_failing_input": True, "input": b} for b in po["broken"]]
    import gen
    pinned = set(gen.discount_corpus() + ["DUP3 MLOAD DUP4 MULMOD SWAP2", "DUP3 MLOAD DUP4 ADDMOD SWAP2", "DUP2 MLOAD DUP3 MULMOD"])
    res = c02.collect(tier, sd + 2000, rng, greedy=True, extra=gen.discount_corpus() + gen.forwarding_corpus() + gen.tuck_corpus() + [
        # a load, a store, a second load, both results combined: the position bounds count an instruction too many
        "SLOAD PUSH1 0x01 PUSH1 0x00 SSTORE CALLER SLOAD ADD", "MLOAD PUSH1 0x01 PUSH1 0x00 MSTORE CALLER MLOAD ADD", "SLOAD PUSH1 0x01 PUSH1 0x00 SSTORE CALLER SLOAD SUB"] + ["DUP3 MLOAD DUP4 MULMOD SWAP2", "DUP3 MLOAD DUP4 ADDMOD SWAP2", "DUP2 MLOAD DUP3 MULMOD"])
    c = Counter()
    reqs, meta = [], []
    for t, r, st in res:
        if st != "ok" or r is None or "harness_error" in (r or {}) or "parse_exception" in (r or {}):
            c["run:" + st] += 1
            continue
        for e in r["subs"]:
            if "unsupported" in e or "bounds" not in e:
                continue
            c["specs"] += 1
            b = e["bounds"]
            if b.get("original_instrs") is not None and b["original_instrs"].split() != " ".join(e["plain"]).split():
                violations.append({"kind": "original-instrs-mismatch", "input": " ".join(e["plain"]), "options": t["opts"],
                                   "what": "original_instrs = %r but the sub-block is %r" % (b["original_instrs"], " ".join(e["plain"]))})
            if b.get("max_progr_len") is not None and b["max_progr_len"] != len(e["plain"]):
                c["max_progr_len-differs-from-length"] += 1
            g = e.get("greedy")
            if g and g.get("error") == 0 and g.get("ids") is not None:
                reqs.append("REALIZES\t%s\t%s" % ("\t".join(e["spec"]), ",".join(g["ids"])))
                meta.append((t, e, g))
            else:
                c["no-witness-candidate"] += 1
    # ---- the published minimum length: Spec.min_length_le says that every realizing sequence has at least `minInstr` instructions when the
    # executable premises hold; the driver evaluates both on the specification as emitted, and `minInstr` must be the tool's number
    mreqs, mmeta = [], []
    for t, r, st in res:
        if st != "ok" or r is None or "harness_error" in (r or {}) or "parse_exception" in (r or {}):
            continue
        for e in r["subs"]:
            if "unsupported" in e or "bounds" not in e or e["bounds"].get("min_length") is None:
                continue
            mreqs.append("MINLEN\t%s" % "\t".join(e["spec"]))
            mmeta.append((t, e))
    uncovered = []
    for o, (t, e) in zip(drv.batch(mreqs), mmeta):
        b = e["bounds"]
        f = o.split()
        if len(f) != 3 or f[0] != "ok":
            raise common.MachineryError("driver MINLEN: " + o)
        prem, n = f[1] == "true", int(f[2])
        c["min_length:specifications"] += 1
        if not prem:
            c["min_length:premises-of-the-theorem-not-met"] += 1
            continue
        if b["min_length"] <= n:
            c["min_length:proved (min_length <= minInstr <= every realizing sequence)"] += 1
            if b.get("min_length_instrs") != n:
                c["min_length:tool-count-below-model-count"] += 1
        elif b.get("min_length_instrs") == n:
            # the other component (position bounds) is the larger one: the theorem does not speak about it
            c["min_length:position-bound-component-larger"] += 1
            uncovered.append((t, e, None))
        else:
            uncovered.append((t, e, n))
    # the count the tool publishes is larger than the one the theorem covers: look for a realizing sequence shorter than the published minimum
    import itertools as _it
    ureqs, umeta = [], []
    for k, (t, e, n) in enumerate(uncovered):
        b = e["bounds"]
        ids = [u[0] for u in e["uinstrs"]]
        sk = max(1, min((b.get("max_sk_sz") or 1) + 1, 6))
        vocab = ids + ["POP"] + ["DUP%d" % i for i in range(1, sk + 1)] + ["SWAP%d" % i for i in range(1, sk + 1)]
        top = b["min_length"] - 1
        if top <= 6 and len(vocab) ** top <= 300000:
            for L in range(0, top + 1):
                for seq in _it.product(vocab, repeat=L):
                    ureqs.append("REALIZES\t%s\t%s" % ("\t".join(e["spec"]), ",".join(seq)))
                    umeta.append((k, seq))
    shorter = {}
    for o, (k, seq) in zip(drv.batch(ureqs), umeta):
        if o.startswith("ok") and k not in shorter:
            shorter[k] = seq
    enumerated_below = {k for k, _ in umeta}
    for k, (t, e, n) in enumerate(uncovered):
        b = e["bounds"]
        if k in shorter:
            violations.append({"kind": "min-length-above-a-realizing-sequence", "input": " ".join(e["plain"]), "options": t["opts"], "spec": e["spec"],
                               "what": "min_length = %s (min_length_instrs = %s) but %s (length %d) realizes the specification of %s" %
                                       (b["min_length"], b.get("min_length_instrs"), list(shorter[k]), len(shorter[k]), " ".join(e["plain"]))})
        elif n is None:
            # min_length comes from the position bounds, which the theorem does not cover: here only the enumeration speaks
            c["min_length:position-bound-component: " + ("no shorter realizing sequence (exhaustive)" if k in enumerated_below else "too large to enumerate (witness only)")] += 1
        else:
            violations.append({"kind": "min-length-not-covered-by-the-theorem", "input": " ".join(e["plain"]), "options": t["opts"], "spec": e["spec"],
                               "no_failing_input": True,
                               "what": "correspondence Models/MinLen.lean <-> count_sms_greedy.minsize_from_json broken for %s (%s): the tool publishes min_length_instrs = %s, "
                                       "the model counts %d (theorem Spec.min_length_le covers the model's count); no realizing sequence shorter than min_length = %s was found" %
                                       (" ".join(e["plain"]), t["opts"], b.get("min_length_instrs"), n, b["min_length"])})
    outs = drv.batch(reqs)
    samples = []
    undecided = []
    for o, (t, e, g) in zip(outs, meta):
        b = e["bounds"]
        if not o.startswith("ok"):
            c["candidate-does-not-realize"] += 1
            continue
        n = len([i for i in g["ids"] if i != "NOP"])
        peak = int(o[3:])
        c["witnesses"] += 1
        ml = b.get("min_length")
        if ml is not None and ml > n:
            violations.append({"kind": "min-length-above-a-realizing-sequence", "input": " ".join(e["plain"]), "options": t["opts"],
                               "what": "min_length = %s but %s (length %d) realizes the specification of %s" % (ml, g["ids"], n, " ".join(e["plain"]))})
        fits_len = b.get("init_progr_len") is None or n <= b["init_progr_len"]
        fits_stk = b.get("max_sk_sz") is None or peak <= b["max_sk_sz"]
        if fits_len and fits_stk:
            c["bounds-feasible-by-witness"] += 1
            if len(samples) < 4:
                samples.append({"block": " ".join(e["plain"]), "bounds": b, "witness": g["ids"], "peak": peak})
        else:
            undecided.append((t, e))
    # small specifications whose witness does not fit are decided exhaustively: every id sequence up to init_progr_len
    import itertools
    ereqs, emeta = [], []
    for n, (t, e) in enumerate(undecided):
        b = e["bounds"]
        b0, sk = b.get("init_progr_len") or 0, b.get("max_sk_sz") or 0
        ids = [u[0] for u in e["uinstrs"]]
        k = max(1, min(sk, 16))
        vocab = ids + ["POP"] + ["DUP%d" % i for i in range(1, k + 1)] + ["SWAP%d" % i for i in range(1, k + 1)]
        if b0 > 5 or len(vocab) ** b0 > (30000 if tier == "quick" and t["text"] not in pinned else 300000):
            c["undecided:witness-outside-bounds-and-too-large-to-enumerate"] += 1
            continue
        for L in range(0, b0 + 1):
            for seq in itertools.product(vocab, repeat=L):
                ereqs.append("REALIZES\t%s\t%s" % ("\t".join(e["spec"]), ",".join(seq)))
                emeta.append(n)
    feasible = set()
    for o, n in zip(drv.batch(ereqs), emeta):
        if o.startswith("ok") and int(o[3:]) <= (undecided[n][1]["bounds"].get("max_sk_sz") or 0):
            feasible.add(n)
    c["sequences-enumerated"] = len(ereqs)
    infeasible = []
    for n in sorted(set(emeta)):
        t, e = undecided[n]
        if n in feasible:
            c["bounds-feasible-by-enumeration"] += 1
        else:
            infeasible.append(n)
    # classify: a simplification rule was applied and left a word of the initial stack without any use (it now has to be popped, which the
    # original block never did): is the bound feasible once one instruction per such word is added back?  (known finding, see DESIGN.md)
    creqs, cmeta = [], []
    unused_of = {}
    for n in infeasible:
        t, e = undecided[n]
        b = e["bounds"]
        src = [x for x in e["spec"][0].split(",") if x]
        tgt = [x for x in e["spec"][1].split(",") if x]
        used = set(tgt) | {a for u in e["uinstrs"] for a in u[2]}
        unused = [v for v in src if v not in used]
        unused_of[n] = unused
        if b.get("rules_applied") and unused:
            b0, sk = (b.get("init_progr_len") or 0) + len(unused), b.get("max_sk_sz") or 0
            ids = [u[0] for u in e["uinstrs"]]
            k = max(1, min(sk, 16))
            vocab = ids + ["POP"] + ["DUP%d" % i for i in range(1, k + 1)] + ["SWAP%d" % i for i in range(1, k + 1)]
            if b0 <= 6 and len(vocab) ** b0 <= 400000:
                for seq in itertools.product(vocab, repeat=b0):
                    creqs.append("REALIZES\t%s\t%s" % ("\t".join(e["spec"]), ",".join(seq)))
                    cmeta.append(n)
    relaxed = set()
    for o, n in zip(drv.batch(creqs), cmeta):
        if o.startswith("ok") and int(o[3:]) <= (undecided[n][1]["bounds"].get("max_sk_sz") or 0):
            relaxed.add(n)
    # classify: the stack bound is an estimate (compute_vars); is the length bound feasible with the height the original block reaches?
    sreqs, smeta = [], []
    orig_peak = {}
    for n in infeasible:
        if n in relaxed:
            continue
        t, e = undecided[n]
        b = e["bounds"]
        b0, sk = b.get("init_progr_len") or 0, b.get("max_sk_sz") or 0
        ids = [u[0] for u in e["uinstrs"]]
        k = max(1, min(sk + 1, 16))
        vocab = ids + ["POP"] + ["DUP%d" % i for i in range(1, k + 1)] + ["SWAP%d" % i for i in range(1, k + 1)]
        if b0 <= 6 and len(vocab) ** b0 <= 600000:
            for L in range(0, b0 + 1):
                for seq in itertools.product(vocab, repeat=L):
                    sreqs.append("REALIZES\t%s\t%s" % ("\t".join(e["spec"]), ",".join(seq)))
                    smeta.append(n)
    least_peak = {}
    for o, n in zip(drv.batch(sreqs), smeta):
        if o.startswith("ok"):
            pk = int(o[3:])
            least_peak[n] = min(least_peak.get(n, 99), pk)
    stack_short = {n for n in least_peak if least_peak[n] <= (undecided[n][1]["bounds"].get("max_sk_sz") or 0) + 2}
    for n in infeasible:
        t, e = undecided[n]
        b = e["bounds"]
        if n in stack_short and n not in relaxed:
            # the known finding is the estimate of the heuristic as it stood when the finding was recorded (pinned copy, evaluated on the very
            # arguments of the call): an infeasible bound that this heuristic does not yield is a different violation
            same = b.get("stack_estimate_is_pinned_heuristic")
            violations.append({"kind": "stack-bound-estimate-below-need" if same else "stack-bound-below-need", "input": " ".join(e["plain"]), "options": t["opts"],
                               "what": "no instruction sequence of length <= init_progr_len=%s with stack <= max_sk_sz=%s realizes the specification of %s (%s), "
                                       "exhaustive over its ids and DUP/SWAP/POP; within the same length bound the least stack height of a realizing sequence "
                                       "is %d: the published stack bound (an estimate) is below it" % (b.get("init_progr_len"), b.get("max_sk_sz"), " ".join(e["plain"]), t["opts"], least_peak[n]),
                               "spec": e["spec"]})
        elif n in relaxed:
            violations.append({"kind": "length-bound-discounted-although-a-source-word-became-unused", "input": " ".join(e["plain"]), "options": t["opts"],
                               "what": "no instruction sequence of length <= init_progr_len=%s with stack <= max_sk_sz=%s realizes the specification of %s (%s), "
                                       "exhaustive over its ids and DUP/SWAP/POP; a rule was applied and the initial stack word(s) %s are no longer used: with one "
                                       "instruction more per such word the bound is feasible" % (b.get("init_progr_len"), b.get("max_sk_sz"), " ".join(e["plain"]), t["opts"], unused_of[n]),
                               "spec": e["spec"]})
        else:
            violations.append({"kind": "bounds-admit-no-realizing-sequence", "input": " ".join(e["plain"]), "options": t["opts"],
                               "what": "no instruction sequence of length <= init_progr_len=%s with stack <= max_sk_sz=%s realizes the specification of %s "
                                       "(%s); exhaustive over its ids and DUP/SWAP/POP" % (b.get("init_progr_len"), b.get("max_sk_sz"), " ".join(e["plain"]), t["opts"]),
                               "spec": e["spec"]})
    cov = {"programs": c["specs"], "disagreements_checked": c["witnesses"], "evaluations": c["specs"],
           "distinct_nontrivial": c["witnesses"], "obligations": po["obligations"], "discharged": po["discharged"],
           "rule": "specifications from the real front end; min_length: the driver evaluates the premises of Spec.min_length_le and the model's count on the "
                   "emitted specification, the count must be the tool's min_length_instrs (then every realizing sequence is at least that long, for all "
                   "sequences); the greedy result, once accepted by Spec.realizes, is the witness: "
                   "init_progr_len and max_sk_sz are feasible when it fits, min_length must not exceed its length, original_instrs must be "
                   "the sub-block; a witness outside the bounds decides nothing (undecided)",
           "samples": samples or [{"n": 0}], "counters": dict(c),
           "axioms": po["axioms"],
           "checker_cmd": "cd lean && lake build; #print axioms " + ", ".join(THEOREMS) + "; gvdrv MINLEN / REALIZES",
           "trusted_base": ["Lean 4.33 kernel", "axioms: propext, Classical.choice, Quot.sound", "Spec.realizes (Models/Spec.lean) as the meaning of `realizes`",
                            "Models/MinLen.lean minInstr as the model of minsize_from_json, tied by equality of the two numbers on every emitted specification",
                            "peak stack as computed by Spec.runIds", "harness serialisation of the specification (tasks.ser_spec)"]}
    return {"level": "translation_validation", "coverage": cov, "violations": violations,
            "assumptions": ["existential bounds are decided by witness only; infeasibility is never concluded from a missing witness",
                            "the universal clause (min_length <= every realizing sequence) is the kernel-checked theorem Spec.min_length_le, applied per specification after "
                            "its executable premises were evaluated; where the position-bound component of min_length is the larger one only the witness speaks"]}


def replay(v):
    print(v.get("what"))
    return 1
