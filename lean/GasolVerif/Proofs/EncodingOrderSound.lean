/-
  (P) C06: the order part of the encoding (direct memory encoding).  Under the domain constraints and distinct theta
  values: `store_exactly_once`, `store_store_order`, `store_load_order`, `load_store_order` — the decoded sequence
  performs every store once and respects every declared dependence; `raw_sat_of_built` links the emitted formulas to
  the raw trees; `thetaInj_int` / `thetaInj_uf` discharge the distinctness of theta values.   No Mathlib.
-/
import GasolVerif.Models.EncodingOrder
import GasolVerif.Proofs.EncodingSound
set_option linter.unusedSimpArgs false
set_option linter.unusedVariables false
namespace GasolVerif.Enc
open GasolVerif.Formula

/-- position `j` holds the instruction with theta value `th` -/
def At (I : Inst) (v : Val) (j th : Nat) : Prop := T v j = thetaV I v th

@[simp] theorem evalB_tNe (I : Inst) (v : Val) (j th : Nat) : evalB v (tNe I j th) = true ↔ ¬ At I v j th := by
  simp [tNe, evalB, evalIs, pairwiseDistinct, At, thetaV, T, tA, evalI]

theorem evalB_isT' (I : Inst) (v : Val) (j th : Nat) : evalB v (isT I j th) = true ↔ At I v j th := by
  simp [At]

theorem find_theta (I : Inst) (hnd : (I.instrs.map (·.theta)).Nodup) (ins : Instr) (hm : ins ∈ I.instrs) :
    I.instrs.find? (·.theta == ins.theta) = some ins := by
  generalize I.instrs = l at hnd hm
  induction l with
  | nil => simp at hm
  | cons a l ih =>
    simp only [List.map_cons, List.nodup_cons, List.mem_map, not_exists, not_and] at hnd
    rcases List.mem_cons.mp hm with rfl | hm'
    · simp
    · have hne : a.theta ≠ ins.theta := fun h => hnd.1 ins hm' h.symm
      have hb : (a.theta == ins.theta) = false := by simp [hne]
      simp only [List.find?_cons, hb]
      exact ih hnd.2 hm'

theorem lbOf_eq (I : Inst) (hnd : (I.instrs.map (·.theta)).Nodup) (ins : Instr) (hm : ins ∈ I.instrs) :
    lbOf I ins.theta = ins.lb ∧ ubOf I ins.theta = ins.ub := by
  simp [lbOf, ubOf, find_theta I hnd ins hm]

/-- hypotheses shared by the order theorems -/
structure OrderHyp (I : Inst) (v : Val) : Prop where
  dom : ∀ j, j < I.b0 → evalB v (domainRaw I j) = true
  thetaInj : ∀ a ∈ I.instrs, ∀ b ∈ I.instrs, thetaV I v a.theta = thetaV I v b.theta → a.theta = b.theta
  nodup : (I.instrs.map (·.theta)).Nodup
  inside : ∀ ins ∈ I.instrs, ins.ub < I.b0

/-- an instruction sits only at positions inside its bounds -/
theorem at_bounds (I : Inst) (v : Val) (H : OrderHyp I v) (ins : Instr) (hm : ins ∈ I.instrs) (j : Nat) (hj : j < I.b0)
    (hat : At I v j ins.theta) : lbOf I ins.theta ≤ j ∧ j ≤ ubOf I ins.theta := by
  have hd := H.dom j hj
  simp only [domainRaw, evalB_or, evalAny_iff, List.mem_map, List.mem_filter] at hd
  obtain ⟨f, ⟨ins', ⟨hm', hb⟩, rfl⟩, hT⟩ := hd
  simp only [Bool.and_eq_true, decide_eq_true_eq] at hb
  rw [evalB_isT'] at hT
  have hth : ins'.theta = ins.theta := H.thetaInj ins' hm' ins hm (by unfold At at hT hat; rw [← hT, hat])
  have e1 := lbOf_eq I H.nodup ins' hm'
  rw [hth] at e1
  rw [e1.1, e1.2]; exact hb

/-- **a store is performed exactly once** -/
theorem store_exactly_once (I : Inst) (v : Val) (H : OrderHyp I v) (ins : Instr) (hm : ins ∈ I.instrs)
    (hal : evalB v (atLeastOnce I ins.theta) = true)
    (ham : ∀ f ∈ atMostOnce I ins.theta, evalB v f = true) :
    ∃ p, p < I.b0 ∧ At I v p ins.theta ∧ ∀ j, j < I.b0 → At I v j ins.theta → j = p := by
  simp only [atLeastOnce, evalB_or, evalAny_iff, List.mem_map, mem_rangeL] at hal
  obtain ⟨f, ⟨p, ⟨hp1, hp2⟩, rfl⟩, hT⟩ := hal
  rw [evalB_isT'] at hT
  have hb := lbOf_eq I H.nodup ins hm
  have hpin : p < I.b0 := by have := H.inside ins hm; rw [hb.2] at hp2; omega
  refine ⟨p, hpin, hT, ?_⟩
  intro j hj hat
  by_cases hjp : j = p
  · exact hjp
  · exfalso
    obtain ⟨hj1, hj2⟩ := at_bounds I v H ins hm j hj hat
    have hgt : ubOf I ins.theta > lbOf I ins.theta := by omega
    have hc := ham (F.conn .imp [isT I p ins.theta, .conn .and (((rangeL (lbOf I ins.theta) (ubOf I ins.theta + 1)).filter (· ≠ p)).map
        fun k => tNe I k ins.theta)]) (by
      simp only [atMostOnce, hgt, if_true, List.mem_map, mem_rangeL]
      exact ⟨p, ⟨hp1, hp2⟩, rfl⟩)
    simp only [evalB_imp, Bool.or_eq_true, Bool.not_eq_true'] at hc
    rcases hc with hc | hc
    · rw [(evalB_isT' I v p ins.theta).mpr hT] at hc; cases hc
    · rw [and_list_iff] at hc
      have := hc (tNe I j ins.theta) (by
        simp only [List.mem_map, List.mem_filter, mem_rangeL, decide_eq_true_eq]
        exact ⟨j, ⟨⟨hj1, by omega⟩, hjp⟩, rfl⟩)
      rw [evalB_tNe] at this
      exact this hat

/-- **store before store**: the (unique) position of the first store precedes the one of the second -/
theorem store_store_order (I : Inst) (v : Val) (H : OrderHyp I v) (i1 i2 : Instr) (h1 : i1 ∈ I.instrs) (h2 : i2 ∈ I.instrs)
    (hc : ∀ f ∈ (rangeL (lbOf I i2.theta) (ubOf I i2.theta + 1)).map (fun j => happensBefore I j i1.theta i2.theta),
      evalB v f = true)
    (p2 : Nat) (hp2 : p2 < I.b0) (hat2 : At I v p2 i2.theta) :
    ∃ p1, p1 < p2 ∧ At I v p1 i1.theta := by
  obtain ⟨hl, hu⟩ := at_bounds I v H i2 h2 p2 hp2 hat2
  have := hc (happensBefore I p2 i1.theta i2.theta) (by
    simp only [List.mem_map, mem_rangeL]; exact ⟨p2, ⟨hl, by omega⟩, rfl⟩)
  unfold happensBefore at this
  simp only at this
  split at this
  · rw [evalB_tNe] at this; exact absurd hat2 this
  · simp only [evalB_imp, Bool.or_eq_true, Bool.not_eq_true'] at this
    rcases this with h | h
    · rw [(evalB_isT' I v p2 i2.theta).mpr hat2] at h; cases h
    · simp only [evalB_or, evalAny_iff, List.mem_map, mem_rangeL] at h
      obtain ⟨f, ⟨i, ⟨_, hi⟩, rfl⟩, hT⟩ := h
      rw [evalB_isT'] at hT
      exact ⟨i, hi, hT⟩

/-- **store before load**: no occurrence of the load precedes the store -/
theorem store_load_order (I : Inst) (v : Val) (H : OrderHyp I v) (st ld : Instr) (hs : st ∈ I.instrs) (hl : ld ∈ I.instrs)
    (hne : st.theta ≠ ld.theta)
    (hc : ∀ f ∈ (rangeL (max 1 (max (lbOf I ld.theta + 1) (lbOf I st.theta))) (ubOf I st.theta + 1)).filterMap
      (fun j => stoLd I j st.theta ld.theta), evalB v f = true)
    (ps : Nat) (hps : ps < I.b0) (hats : At I v ps st.theta) (i : Nat) (hi : i < I.b0) (hati : At I v i ld.theta) :
    ps < i := by
  rcases Nat.lt_trichotomy ps i with h | h | h
  · exact h
  · subst h
    exact absurd (H.thetaInj st hs ld hl (by unfold At at hats hati; rw [← hats, hati])) hne
  · exfalso
    obtain ⟨sl, su⟩ := at_bounds I v H st hs ps hps hats
    obtain ⟨ll, lu⟩ := at_bounds I v H ld hl i hi hati
    have hne' : ¬ ((rangeL (lbOf I ld.theta) ps).map fun i => tNe I i ld.theta).isEmpty = true := by
      simp only [List.isEmpty_iff, List.map_eq_nil_iff]
      intro he
      have : i ∈ rangeL (lbOf I ld.theta) ps := (mem_rangeL _ _ _).mpr ⟨ll, h⟩
      rw [he] at this; simp at this
    have := hc (.conn .imp [isT I ps st.theta, .conn .and ((rangeL (lbOf I ld.theta) ps).map fun i => tNe I i ld.theta)]) (by
      simp only [List.mem_filterMap, mem_rangeL]
      refine ⟨ps, ⟨by omega, by omega⟩, ?_⟩
      simp [stoLd, hne'])
    simp only [evalB_imp, Bool.or_eq_true, Bool.not_eq_true'] at this
    rcases this with h' | h'
    · rw [(evalB_isT' I v ps st.theta).mpr hats] at h'; cases h'
    · rw [and_list_iff] at h'
      have := h' (tNe I i ld.theta) (by simp only [List.mem_map, mem_rangeL]; exact ⟨i, ⟨ll, h⟩, rfl⟩)
      rw [evalB_tNe] at this
      exact this hati

/-- **load before store**: no occurrence of the load follows the store -/
theorem load_store_order (I : Inst) (v : Val) (H : OrderHyp I v) (ld st : Instr) (hl : ld ∈ I.instrs) (hs : st ∈ I.instrs)
    (hne : st.theta ≠ ld.theta)
    (hc : ∀ f ∈ (rangeL (lbOf I st.theta) (min (I.b0 - 1) (min (ubOf I ld.theta) (ubOf I st.theta + 1)))).filterMap
      (fun j => ldSto I j ld.theta st.theta), evalB v f = true)
    (ps : Nat) (hps : ps < I.b0) (hats : At I v ps st.theta) (i : Nat) (hi : i < I.b0) (hati : At I v i ld.theta) :
    i < ps := by
  rcases Nat.lt_trichotomy i ps with h | h | h
  · exact h
  · subst h
    exact absurd (H.thetaInj st hs ld hl (by unfold At at hats hati; rw [← hats, hati])) hne
  · exfalso
    obtain ⟨sl, su⟩ := at_bounds I v H st hs ps hps hats
    obtain ⟨ll, lu⟩ := at_bounds I v H ld hl i hi hati
    have hne' : ¬ ((rangeL (ps + 1) (ubOf I ld.theta + 1)).map fun i => tNe I i ld.theta).isEmpty = true := by
      simp only [List.isEmpty_iff, List.map_eq_nil_iff]
      intro he
      have : i ∈ rangeL (ps + 1) (ubOf I ld.theta + 1) := (mem_rangeL _ _ _).mpr ⟨h, by omega⟩
      rw [he] at this; simp at this
    have := hc (.conn .imp [isT I ps st.theta, .conn .and ((rangeL (ps + 1) (ubOf I ld.theta + 1)).map fun i => tNe I i ld.theta)]) (by
      simp only [List.mem_filterMap, mem_rangeL]
      refine ⟨ps, ⟨sl, by omega⟩, ?_⟩
      simp [ldSto, hne'])
    simp only [evalB_imp, Bool.or_eq_true, Bool.not_eq_true'] at this
    rcases this with h' | h'
    · rw [(evalB_isT' I v ps st.theta).mpr hats] at h'; cases h'
    · rw [and_list_iff] at h'
      have := h' (tNe I i ld.theta) (by simp only [List.mem_map, mem_rangeL]; exact ⟨i, ⟨h, by omega⟩, rfl⟩)
      rw [evalB_tNe] at this
      exact this hati

/-- a valuation that satisfies the emitted (built) formulas satisfies the raw trees they were built from -/
theorem raw_sat_of_built (v : Val) (raws built : List F) (hb : buildAll raws = some built)
    (hws : raws.all F.ws = true) (hsat : ∀ f ∈ built, evalB v f = true) : ∀ f ∈ raws, evalB v f = true := by
  intro f hf
  obtain ⟨r, hr, hmem⟩ := mapM_mem _ raws built hb f hf
  cases hbf : build f with
  | error e => simp [hbf] at hr
  | ok r' =>
    simp only [hbf, Option.some.injEq] at hr
    subst hr
    have hwf : f.ws = true := by simp only [List.all_eq_true] at hws; exact hws f hf
    have := build_eval v f r' hwf hbf
    rw [← this.1]; exact hsat r' hmem

theorem thetaInj_int (I : Inst) (v : Val) (h : I.thetaUF = false) :
    ∀ a ∈ I.instrs, ∀ b ∈ I.instrs, thetaV I v a.theta = thetaV I v b.theta → a.theta = b.theta := by
  intro a _ b _ hab
  simp only [thetaV, thetaF, h, Bool.false_eq_true, if_false, evalI] at hab
  exact Int.ofNat.inj hab

theorem thetaInj_uf (I : Inst) (v : Val) (hok : thetasOk I = true) (hd : evalB v (thetaDistinctRaw I) = true) :
    ∀ a ∈ I.instrs, ∀ b ∈ I.instrs, thetaV I v a.theta = thetaV I v b.theta → a.theta = b.theta := by
  simp only [thetasOk, Bool.and_eq_true, decide_eq_true_eq, List.all_eq_true] at hok
  simp only [thetaDistinctRaw, evalB] at hd
  have hnd := pairwiseDistinct_nodup _ hd
  rw [evalIs_map, List.map_map] at hnd
  intro a ha b hb hab
  exact inj_on_of_nodup_map (fun k => evalI v (thetaF I k)) (List.range I.instrs.length) hnd a.theta
    (List.mem_range.mpr (hok.2 a ha)) b.theta (List.mem_range.mpr (hok.2 b hb)) hab

/-! ### the `l_vars` memory encoding -/

@[simp] theorem evalI_lA (v : Val) (th : Nat) : evalI v (lA th) = L v th := by simp [lA, L, evalI, evalIs]

/-- **an instruction with an `l` variable is performed exactly once, at position `l`** -/
theorem l_exactly_once (I : Inst) (v : Val) (H : OrderHyp I v) (ins : Instr) (hm : ins ∈ I.instrs)
    (hd : evalB v (lDomain I ins.theta) = true)
    (he : ∀ j, lbOf I ins.theta ≤ j → j ≤ ubOf I ins.theta → evalB v (lEquiv I j ins.theta) = true) :
    ∃ p : Nat, p < I.b0 ∧ L v ins.theta = p ∧ At I v p ins.theta ∧ ∀ j, j < I.b0 → At I v j ins.theta → j = p := by
  simp only [lDomain, evalB_or, evalAny_iff, List.mem_map, mem_rangeL] at hd
  obtain ⟨f, ⟨p, ⟨hp1, hp2⟩, rfl⟩, hL⟩ := hd
  have hLp : L v ins.theta = p := by simpa [evalB, lA, F.isBoolSorted, evalI, evalIs, L] using hL
  have hb := lbOf_eq I H.nodup ins hm
  have hpin : p < I.b0 := by have := H.inside ins hm; rw [hb.2] at hp2; omega
  have equiv : ∀ j, lbOf I ins.theta ≤ j → j ≤ ubOf I ins.theta → (At I v j ins.theta ↔ L v ins.theta = j) := by
    intro j h1 h2
    have := he j h1 h2
    simp only [lEquiv, evalB, isT, F.isBoolSorted, if_true, beq_iff_eq] at this
    simp only [tA, lA, F.isBoolSorted, Bool.false_eq_true, if_false, evalI, evalIs] at this
    unfold At T thetaV L
    constructor
    · intro h
      have e1 : (v.i s!"t_{j}" [] == evalI v (thetaF I ins.theta)) = true := by simpa using h
      rw [e1] at this
      simpa using this.symm
    · intro h
      have e2 : (v.i s!"l_{ins.theta}" [] == (j : Int)) = true := by simpa using h
      rw [e2] at this
      simpa using this
  refine ⟨p, hpin, hLp, (equiv p hp1 (by omega)).mpr hLp, ?_⟩
  intro j hj hat
  obtain ⟨hj1, hj2⟩ := at_bounds I v H ins hm j hj hat
  have := (equiv j hj1 hj2).mp hat
  rw [hLp] at this
  exact (Int.ofNat.inj this).symm

/-- **an edge of the dependency graph orders the two positions** -/
theorem l_order (I : Inst) (v : Val) (th1 th2 : Nat) (p1 p2 : Nat) (h1 : L v th1 = p1) (h2 : L v th2 = p2)
    (ho : evalB v (lOrder th1 th2) = true) : p1 < p2 := by
  simp only [lOrder, evalB_lt, evalI_lA, decide_eq_true_eq, h1, h2] at ho
  exact Int.ofNat_lt.mp ho

end GasolVerif.Enc
