/-
  (P) C06: soundness of the stack core of the Max-SMT encoding (Models/Encoding.lean).  `step_sound`: one transition
  constraint, read under a valuation, is one step of the abstract stack machine; `core_sound`: a valuation that
  satisfies the core constraints decodes to a run from the initial to the target stack; `core_sound_built`: the same
  for the emitted (built) formulas, through `Formula.build_eval`; `core_realizes`: with values that identify stack
  variables, the run is symbolic — every operation is applied to the operands the specification names.   No Mathlib.
-/
import GasolVerif.Models.Encoding
import GasolVerif.Proofs.FormulaSound
set_option linter.unusedSimpArgs false
set_option linter.unusedVariables false
namespace GasolVerif.Enc
open GasolVerif.Formula

@[simp] theorem evalB_uA (v : Val) (i j : Nat) : evalB v (uA i j) = U v i j := by simp [uA, U, evalB, evalIs]
@[simp] theorem evalI_xA (v : Val) (i j : Nat) : evalI v (xA i j) = X v i j := by simp [xA, X, evalI, evalIs]
@[simp] theorem evalI_tA (v : Val) (j : Nat) : evalI v (tA j) = T v j := by simp [tA, T, evalI, evalIs]
@[simp] theorem evalI_aA (v : Val) (j : Nat) : evalI v (aA j) = A v j := by simp [aA, A, evalI, evalIs]
@[simp] theorem evalI_num (v : Val) (n : Int) : evalI v (.num n) = n := by simp [evalI]

@[simp] theorem evalB_eq_u (v : Val) (i j i' j' : Nat) :
    evalB v (.conn .eq [uA i j, uA i' j']) = (U v i j == U v i' j') := by
  simp [evalB, uA, F.isBoolSorted, U, evalIs]
@[simp] theorem evalB_eq_x (v : Val) (i j : Nat) (t : F) :
    evalB v (.conn .eq [xA i j, t]) = (X v i j == evalI v t) := by
  simp [evalB, xA, F.isBoolSorted, X, evalI, evalIs]
@[simp] theorem evalB_isT (I : Inst) (v : Val) (j th : Nat) :
    evalB v (isT I j th) = (T v j == thetaV I v th) := by
  simp [isT, evalB, tA, F.isBoolSorted, T, thetaV, evalI, evalIs]
@[simp] theorem evalB_not (v : Val) (a : F) : evalB v (.conn .not [a]) = !evalB v a := by simp [evalB]
@[simp] theorem evalB_imp (v : Val) (a b : F) : evalB v (.conn .imp [a, b]) = (!evalB v a || evalB v b) := by simp [evalB]
@[simp] theorem evalB_and (v : Val) (as : List F) : evalB v (.conn .and as) = evalAll v as := by simp [evalB]
@[simp] theorem evalB_or (v : Val) (as : List F) : evalB v (.conn .or as) = evalAny v as := by simp [evalB]
@[simp] theorem evalB_lit (v : Val) (b : Bool) : evalB v (.lit b) = b := by simp [evalB]

theorem evalAll_iff (v : Val) (as : List F) : evalAll v as = true ↔ ∀ f ∈ as, evalB v f = true := by
  induction as with
  | nil => simp [evalAll]
  | cons a as ih => simp [evalAll, ih]

theorem evalAny_iff (v : Val) (as : List F) : evalAny v as = true ↔ ∃ f ∈ as, evalB v f = true := by
  induction as with
  | nil => simp [evalAny]
  | cons a as ih => simp [evalAny, ih]

theorem mem_rangeL (a b i : Nat) : i ∈ rangeL a b ↔ a ≤ i ∧ i < b := by
  simp only [rangeL, List.mem_map, List.mem_range]
  constructor
  · rintro ⟨k, hk, rfl⟩; omega
  · rintro ⟨h1, h2⟩; exact ⟨i - a, by omega, by omega⟩

/-- meaning of `move` -/
theorem evalB_move (v : Val) (j al be : Nat) (d : Int) :
    evalB v (move j al be d) = true ↔
      ∀ i, al ≤ i → i ≤ be → U v (shift i d) (j + 1) = U v i j ∧ X v (shift i d) (j + 1) = X v i j := by
  unfold move
  split
  · rename_i h; simp; intro i h1 h2; omega
  · rename_i h
    simp only [evalB_and, evalAll_iff, List.mem_flatMap, mem_rangeL]
    constructor
    · intro hh i h1 h2
      have e1 := hh (.conn .eq [uA (shift i d) (j + 1), uA i j]) ⟨i, ⟨h1, by omega⟩, by simp⟩
      have e2 := hh (.conn .eq [xA (shift i d) (j + 1), xA i j]) ⟨i, ⟨h1, by omega⟩, by simp⟩
      simp at e1 e2
      exact ⟨e1, e2⟩
    · rintro hh f ⟨i, ⟨h1, h2⟩, hf⟩
      have := hh i h1 (by omega)
      simp only [List.mem_cons, List.mem_nil_iff, or_false] at hf
      rcases hf with rfl | rfl <;> simp [this.1, this.2]

theorem evalB_moveI (v : Val) (j al : Nat) (be : Int) (d : Int) :
    evalB v (moveI j al be d) = true ↔
      ∀ i : Nat, al ≤ i → (i : Int) ≤ be → U v (shift i d) (j + 1) = U v i j ∧ X v (shift i d) (j + 1) = X v i j := by
  unfold moveI
  split
  · rename_i h; simp; intro i h1 h2; omega
  · rename_i h
    rw [evalB_move]
    constructor
    · intro hh i h1 h2; exact hh i h1 (by omega)
    · intro hh i h1 h2; exact hh i h1 (by omega)

/-! ### the abstract stack a valuation describes -/

@[simp] theorem stk_length (v : Val) (j h : Nat) : (stk v j h).length = h := by simp [stk]

theorem stk_getElem (v : Val) (j h i : Nat) (hi : i < h) : (stk v j h)[i]'(by simpa using hi) = X v i j := by
  simp [stk]

theorem stk_getElem? (v : Val) (j h i : Nat) (hi : i < h) : (stk v j h)[i]? = some (X v i j) := by
  simp [stk, hi]

theorem height_zero_lt (I : Inst) (v : Val) (j h : Nat) (hh : Height I v j h) (i : Nat) (hi : i < I.bs)
    (hu : U v i j = true) : i < h := (hh.2 i hi).mp hu

theorem height_not (I : Inst) (v : Val) (j h : Nat) (hh : Height I v j h) (i : Nat) (hi : i < I.bs)
    (hu : U v i j = false) : h ≤ i := by
  have := hh.2 i hi
  cases Nat.lt_or_ge i h with
  | inl hl => rw [this.mpr hl] at hu; cases hu
  | inr hg => exact hg

theorem list_ext_get (l₁ l₂ : List Int) (hl : l₁.length = l₂.length)
    (h : ∀ i (h1 : i < l₁.length) (h2 : i < l₂.length), l₁[i] = l₂[i]) : l₁ = l₂ :=
  List.ext_getElem hl h

/-- NOP -/
theorem step_nop (I : Inst) (v : Val) (j h : Nat) (hh : Height I v j h)
    (hc : evalB v (move j 0 (I.bs - 1) 0) = true) (hbs : 1 ≤ I.bs ∨ h = 0) :
    Height I v (j + 1) h ∧ stk v (j + 1) h = stk v j h := by
  rw [evalB_move] at hc
  have hm : ∀ i, i < I.bs → U v i (j + 1) = U v i j ∧ X v i (j + 1) = X v i j := by
    intro i hi
    have := hc i (by omega) (by omega)
    simpa [shift] using this
  refine ⟨⟨hh.1, fun i hi => by rw [(hm i hi).1]; exact hh.2 i hi⟩, ?_⟩
  apply list_ext_get _ _ (by simp)
  intro i h1 h2
  simp only [stk_length] at h1
  rw [stk_getElem _ _ _ _ h1, stk_getElem _ _ _ _ h1]
  exact (hm i (by have := hh.1; omega)).2

/-- POP (basic) -/
theorem step_pop (I : Inst) (v : Val) (j h : Nat) (hh : Height I v j h) (hbs : 1 ≤ I.bs)
    (hc : evalB v (.conn .and [uA 0 j, .conn .not [uA (I.bs - 1) (j + 1)], move j 1 (I.bs - 1) (-1)]) = true) :
    ∃ h', Height I v (j + 1) h' ∧ stepVal I val .pop a (stk v j h) = some (stk v (j + 1) h') := by
  simp only [evalB_and, evalAll_iff, List.mem_cons, List.mem_nil_iff, or_false, forall_eq_or_imp, forall_eq,
    evalB_uA, evalB_not, Bool.not_eq_true'] at hc
  obtain ⟨h0, hlast, hmv⟩ := hc
  rw [evalB_move] at hmv
  have hpos : 0 < h := height_zero_lt I v j h hh 0 (by omega) h0
  have hm : ∀ i, 1 ≤ i → i < I.bs → U v (i - 1) (j + 1) = U v i j ∧ X v (i - 1) (j + 1) = X v i j := by
    intro i h1 hi
    have := hmv i h1 (by omega)
    have e : shift i (-1) = i - 1 := by simp [shift]; omega
    rwa [e] at this
  refine ⟨h - 1, ⟨by have := hh.1; omega, ?_⟩, ?_⟩
  · intro i hi
    by_cases hl : i + 1 < I.bs
    · have := (hm (i + 1) (by omega) hl).1
      simp only [Nat.add_sub_cancel] at this
      rw [this, hh.2 (i + 1) hl]; omega
    · have : i = I.bs - 1 := by omega
      subst this
      rw [hlast]; simp; have := hh.1; omega
  · have hs : stk v j h = X v 0 j :: stk v (j + 1) (h - 1) := by
      apply list_ext_get _ _ (by simp; omega)
      intro i h1 h2
      simp only [stk_length] at h1
      rw [stk_getElem _ _ _ _ h1]
      cases i with
      | zero => rfl
      | succ i =>
        simp only [List.getElem_cons_succ]
        rw [stk_getElem _ _ _ _ (by omega)]
        have := (hm (i + 1) (by omega) (by have := hh.1; omega)).2
        simp only [Nat.add_sub_cancel] at this
        exact this.symm
    rw [hs]; rfl

/-- consume `n` cells, produce one -/
theorem consume_produce (I : Inst) (v : Val) (j h n : Nat) (hh : Height I v j h) (hbs : 1 ≤ I.bs)
    (hn : n ≤ h) (hroom : n = 0 → U v (I.bs - 1) j = false)
    (htop : U v 0 (j + 1) = true)
    (hmv : ∀ i, n ≤ i → i < I.bs → i + 1 - n < I.bs →
      U v (i + 1 - n) (j + 1) = U v i j ∧ X v (i + 1 - n) (j + 1) = X v i j)
    (hfree : ∀ i, I.bs - n + 1 ≤ i → i < I.bs → U v i (j + 1) = false) :
    Height I v (j + 1) (h - n + 1) ∧ stk v (j + 1) (h - n + 1) = X v 0 (j + 1) :: (stk v j h).drop n := by
  have hle := hh.1
  have hroom' : h - n + 1 ≤ I.bs := by
    by_cases h0 : n = 0
    · have := height_not I v j h hh (I.bs - 1) (by omega) (hroom h0); omega
    · omega
  refine ⟨⟨hroom', ?_⟩, ?_⟩
  · intro i hi
    cases i with
    | zero => simp [htop]
    | succ i =>
      by_cases hl : i + n < I.bs
      · have := (hmv (i + n) (by omega) hl (by omega)).1
        have e : i + n + 1 - n = i + 1 := by omega
        rw [e] at this
        rw [this, hh.2 (i + n) hl]; omega
      · have := hfree (i + 1) (by omega) hi
        rw [this]; simp; omega
  · apply list_ext_get _ _ (by simp <;> omega)
    intro i h1 h2
    simp only [stk_length] at h1
    rw [stk_getElem _ _ _ _ h1]
    cases i with
    | zero => rfl
    | succ i =>
      simp only [List.getElem_cons_succ, List.getElem_drop]
      rw [stk_getElem _ _ _ _ (by omega)]
      have := (hmv (i + n) (by omega) (by omega) (by omega)).2
      have e : i + n + 1 - n = i + 1 := by omega
      rw [e] at this
      rw [this]; congr 1; omega

/-- consume `n ≥ 1` cells, produce none -/
theorem consume (I : Inst) (v : Val) (j h n : Nat) (hh : Height I v j h) (hn1 : 1 ≤ n)
    (hn : n ≤ h)
    (hmv : ∀ i, n ≤ i → i < I.bs → U v (i - n) (j + 1) = U v i j ∧ X v (i - n) (j + 1) = X v i j)
    (hfree : ∀ i, I.bs - n ≤ i → i < I.bs → U v i (j + 1) = false) :
    Height I v (j + 1) (h - n) ∧ stk v (j + 1) (h - n) = (stk v j h).drop n := by
  have hle := hh.1
  refine ⟨⟨by omega, ?_⟩, ?_⟩
  · intro i hi
    by_cases hl : i + n < I.bs
    · have := (hmv (i + n) (by omega) hl).1
      simp only [Nat.add_sub_cancel] at this
      rw [this, hh.2 (i + n) hl]; omega
    · rw [hfree i (by omega) hi]; simp; omega
  · apply list_ext_get _ _ (by simp)
    intro i h1 h2
    simp only [stk_length] at h1
    rw [stk_getElem _ _ _ _ h1]
    simp only [List.getElem_drop]
    rw [stk_getElem _ _ _ _ (by omega)]
    have := (hmv (i + n) (by omega) (by omega)).2
    simp only [Nat.add_sub_cancel] at this
    rw [this]; congr 1; omega

@[simp] theorem evalB_le (v : Val) (a b : F) : evalB v (.conn .le [a, b]) = decide (evalI v a ≤ evalI v b) := by simp [evalB]
@[simp] theorem evalB_lt (v : Val) (a b : F) : evalB v (.conn .lt [a, b]) = decide (evalI v a < evalI v b) := by simp [evalB]

theorem valOf_of (I : Inst) (v : Val) (s : SV) (t : F) (h : svF I s = some t) : valOf I v s = evalI v t := by
  simp [valOf, h]

theorem shift_pos (i : Nat) : shift i 1 = i + 1 := by simp [shift] <;> omega
theorem shift_neg (i n : Nat) (h : n ≤ i) : shift i (-(n : Int)) = i - n := by simp [shift] <;> omega
theorem shift_one_sub (i n : Nat) (h : n ≤ i + 1) : shift i (1 - (n : Int)) = i + 1 - n := by simp [shift] <;> omega

theorem and_list_iff (v : Val) (as : List F) : evalB v (.conn .and as) = true ↔ ∀ f ∈ as, evalB v f = true := by
  rw [evalB_and, evalAll_iff]

/-- PUSH (basic) -/
theorem step_pushBasic (I : Inst) (v : Val) (val : SV → Int) (j h : Nat) (hh : Height I v j h) (hbs : 1 ≤ I.bs)
    (hc : evalB v (.conn .and [.conn .le [.num 0, aA j], .conn .lt [aA j, .num I.intLimit], .conn .not [uA (I.bs - 1) j],
      uA 0 (j + 1), .conn .eq [xA 0 (j + 1), aA j], moveI j 0 ((I.bs : Int) - 2) 1]) = true) :
    ∃ h', Height I v (j + 1) h' ∧ stepVal I val .pushBasic (A v j) (stk v j h) = some (stk v (j + 1) h') := by
  rw [and_list_iff] at hc
  simp only [List.mem_cons, List.mem_nil_iff, or_false, forall_eq_or_imp, forall_eq] at hc
  obtain ⟨h1, h2, h3, h4, h5, h6⟩ := hc
  simp at h1 h2 h3 h4 h5
  rw [evalB_moveI] at h6
  have key := consume_produce I v j h 0 hh hbs (by omega) (fun _ => h3) h4
    (by
      intro i _ hi hi2
      have := h6 i (by omega) (by omega)
      rw [shift_pos] at this
      simpa using this)
    (by intro i h1 h2; omega)
  simp only [Nat.sub_zero, List.drop_zero] at key
  refine ⟨h + 1, key.1, ?_⟩
  have hlt : h < I.bs := by
    have := height_not I v j h hh (I.bs - 1) (by omega) h3; omega
  simp [stepVal, hlt, h1, h2, key.2, h5]

/-- DUPk -/
theorem step_dup (I : Inst) (v : Val) (val : SV → Int) (a : Int) (j h k : Nat) (hh : Height I v j h)
    (hk : 1 ≤ k ∧ k < I.bs)
    (hc : evalB v (.conn .and [.conn .not [uA (I.bs - 1) j], uA (k - 1) j, uA 0 (j + 1),
      .conn .eq [xA 0 (j + 1), xA (k - 1) j], moveI j 0 ((I.bs : Int) - 2) 1]) = true) :
    ∃ h', Height I v (j + 1) h' ∧ stepVal I val (.dup k) a (stk v j h) = some (stk v (j + 1) h') := by
  rw [and_list_iff] at hc
  simp only [List.mem_cons, List.mem_nil_iff, or_false, forall_eq_or_imp, forall_eq] at hc
  obtain ⟨h3, hk1, h4, h5, h6⟩ := hc
  simp at h3 hk1 h4 h5
  rw [evalB_moveI] at h6
  have key := consume_produce I v j h 0 hh (by omega) (by omega) (fun _ => h3) h4
    (by
      intro i _ hi hi2
      have := h6 i (by omega) (by omega)
      rw [shift_pos] at this
      simpa using this)
    (by intro i h1 h2; omega)
  simp only [Nat.sub_zero, List.drop_zero] at key
  refine ⟨h + 1, key.1, ?_⟩
  have hlt : h < I.bs := by
    have := height_not I v j h hh (I.bs - 1) (by omega) h3; omega
  have hkh : k - 1 < h := height_zero_lt I v j h hh (k - 1) (by omega) hk1
  simp [stepVal, hlt, stk_getElem? v j h (k - 1) hkh, key.2, h5]

/-- POP as an uninterpreted instruction -/
theorem step_popU (I : Inst) (v : Val) (a : Int) (j h : Nat) (o0 : SV) (t0 : F) (ht0 : svF I o0 = some t0)
    (hh : Height I v j h) (hbs : 1 ≤ I.bs)
    (hc : evalB v (.conn .and [uA 0 j, .conn .eq [xA 0 j, t0], .conn .not [uA (I.bs - 1) (j + 1)],
      move j 1 (I.bs - 1) (-1)]) = true) :
    ∃ h', Height I v (j + 1) h' ∧ stepVal I (valOf I v) (.popU o0) a (stk v j h) = some (stk v (j + 1) h') := by
  rw [and_list_iff] at hc
  simp only [List.mem_cons, List.mem_nil_iff, or_false, forall_eq_or_imp, forall_eq] at hc
  obtain ⟨h0, hx, hlast, hmv⟩ := hc
  simp at h0 hx hlast
  rw [evalB_move] at hmv
  have hpos : 0 < h := height_zero_lt I v j h hh 0 (by omega) h0
  have key := consume I v j h 1 hh (by omega) (by omega)
    (by
      intro i h1 hi
      have := hmv i h1 (by omega)
      have e : shift i (-1) = i - 1 := shift_neg i 1 h1
      rwa [e] at this)
    (by
      intro i h1 h2
      have : i = I.bs - 1 := by omega
      subst this; exact hlast)
  refine ⟨h - 1, key.1, ?_⟩
  have hs : stk v j h = X v 0 j :: (stk v j h).drop 1 := by
    have : (stk v j h) ≠ [] := by intro hnil; have := congrArg List.length hnil; simp at this; omega
    match hst : stk v j h, this with
    | y :: r, _ =>
      have := stk_getElem v j h 0 hpos
      simp only [hst, List.getElem_cons_zero] at this
      simp [this]
  rw [hs]
  simp only [stepVal, valOf_of I v o0 t0 ht0, hx, if_true]
  rw [key.2]

theorem stk_cons2 (v : Val) (j h : Nat) (h2 : 2 ≤ h) :
    stk v j h = X v 0 j :: X v 1 j :: (stk v j h).drop 2 := by
  apply list_ext_get _ _ (by simp; omega)
  intro i h1 h3
  simp only [stk_length] at h1
  rw [stk_getElem _ _ _ _ h1]
  match i with
  | 0 => rfl
  | 1 => rfl
  | i + 2 =>
    simp only [List.getElem_cons_succ, List.getElem_drop]
    rw [stk_getElem _ _ _ _ (by omega)]
    congr 1; omega

/-- a store: two operands consumed, nothing produced -/
theorem step_store (I : Inst) (v : Val) (a : Int) (j h : Nat) (o0 o1 : SV) (t0 t1 : F)
    (ht0 : svF I o0 = some t0) (ht1 : svF I o1 = some t1) (hh : Height I v j h) (hbs : 2 ≤ I.bs)
    (hc : evalB v (.conn .and [uA 0 j, uA 1 j, .conn .and [.conn .eq [xA 0 j, t0], .conn .eq [xA 1 j, t1]],
      move j 2 (I.bs - 1) (-2), .conn .not [uA (I.bs - 1) (j + 1)], .conn .not [uA (I.bs - 2) (j + 1)]]) = true) :
    ∃ h', Height I v (j + 1) h' ∧ stepVal I (valOf I v) (.store o0 o1) a (stk v j h) = some (stk v (j + 1) h') := by
  rw [and_list_iff] at hc
  simp only [List.mem_cons, List.mem_nil_iff, or_false, forall_eq_or_imp, forall_eq] at hc
  obtain ⟨h0, h1, hx, hmv, hl1, hl2⟩ := hc
  rw [and_list_iff] at hx
  simp only [List.mem_cons, List.mem_nil_iff, or_false, forall_eq_or_imp, forall_eq] at hx
  obtain ⟨hx0, hx1⟩ := hx
  simp at h0 h1 hx0 hx1 hl1 hl2
  rw [evalB_move] at hmv
  have hge : 2 ≤ h := by have := height_zero_lt I v j h hh 1 (by omega) h1; omega
  have key := consume I v j h 2 hh (by omega) hge
    (by
      intro i hi1 hi
      have := hmv i hi1 (by omega)
      have e : shift i (-2) = i - 2 := shift_neg i 2 hi1
      rwa [e] at this)
    (by
      intro i hi1 hi2
      have : i = I.bs - 1 ∨ i = I.bs - 2 := by omega
      rcases this with rfl | rfl
      · exact hl1
      · exact hl2)
  refine ⟨h - 2, key.1, ?_⟩
  rw [stk_cons2 v j h hge]
  simp only [stepVal, valOf_of I v o0 t0 ht0, valOf_of I v o1 t1 ht1, hx0, hx1, and_self, if_true]
  rw [key.2]

/-- a commutative operation -/
theorem step_comm (I : Inst) (v : Val) (a : Int) (j h : Nat) (o0 o1 r : SV) (t0 t1 tr : F)
    (ht0 : svF I o0 = some t0) (ht1 : svF I o1 = some t1) (htr : svF I r = some tr)
    (hh : Height I v j h) (hbs : 2 ≤ I.bs)
    (hc : evalB v (.conn .and [uA 0 j, uA 1 j,
      .conn .or [.conn .and [.conn .eq [xA 0 j, t0], .conn .eq [xA 1 j, t1]],
                 .conn .and [.conn .eq [xA 0 j, t1], .conn .eq [xA 1 j, t0]]],
      uA 0 (j + 1), .conn .eq [xA 0 (j + 1), tr], move j 2 (I.bs - 1) (-1), .conn .not [uA (I.bs - 1) (j + 1)]]) = true) :
    ∃ h', Height I v (j + 1) h' ∧ stepVal I (valOf I v) (.comm o0 o1 r) a (stk v j h) = some (stk v (j + 1) h') := by
  rw [and_list_iff] at hc
  simp only [List.mem_cons, List.mem_nil_iff, or_false, forall_eq_or_imp, forall_eq] at hc
  obtain ⟨h0, h1, hor, htop, hxr, hmv, hl1⟩ := hc
  simp only [evalB_or, evalAny_iff, List.mem_cons, List.mem_nil_iff, or_false, exists_eq_or_imp, exists_eq_left,
    and_list_iff, forall_eq_or_imp, forall_eq] at hor
  simp at h0 h1 htop hxr hl1 hor
  rw [evalB_move] at hmv
  have hge : 2 ≤ h := by have := height_zero_lt I v j h hh 1 (by omega) h1; omega
  have key := consume_produce I v j h 2 hh (by omega) hge (by omega) htop
    (by
      intro i hi1 hi hi2
      have := hmv i hi1 (by omega)
      have e : shift i (-1) = i + 1 - 2 := by have := shift_neg i 1 (by omega); simp at this; omega
      rwa [e] at this)
    (by
      intro i hi1 hi2
      have : i = I.bs - 1 := by omega
      subst this; exact hl1)
  refine ⟨h - 2 + 1, key.1, ?_⟩
  rw [stk_cons2 v j h hge] at key ⊢
  simp only [stepVal, valOf_of I v o0 t0 ht0, valOf_of I v o1 t1 ht1, valOf_of I v r tr htr]
  rw [if_pos hor, key.2, hxr]
  simp

theorem mapM_some_get {α β} (f : α → Option β) : ∀ (o : List α) (ts : List β), o.mapM f = some ts →
    ts.length = o.length ∧ ∀ i (h1 : i < o.length) (h2 : i < ts.length), f o[i] = some ts[i]
  | [], ts, h => by simp at h; subst h; simp
  | a :: o, ts, h => by
    simp only [List.mapM_cons] at h
    cases hf : f a with
    | none => simp [hf] at h
    | some b =>
      cases hr : o.mapM f with
      | none => simp [hf, hr] at h
      | some bs =>
        simp [hf, hr] at h
        subst h
        obtain ⟨hl, hg⟩ := mapM_some_get f o bs hr
        refine ⟨by simp [hl], ?_⟩
        intro i h1 h2
        cases i with
        | zero => simpa using hf
        | succ i => simpa using hg i (by simpa using h1) (by simpa using h2)

/-- a non-commutative operation with `n` operands -/
theorem step_nonComm (I : Inst) (v : Val) (a : Int) (j h : Nat) (o : List SV) (r : SV) (ts : List F) (tr : F)
    (hts : o.mapM (svF I) = some ts) (htr : svF I r = some tr)
    (hh : Height I v j h) (hbs : 1 ≤ I.bs) (hn : o.length ≤ I.bs)
    (hc : evalB v (
      let n := o.length
      let first := ts.zipIdx.map fun (t, i) => F.conn .and [uA i j, .conn .eq [xA i j, t]]
      let second := (rangeL (I.bs - n + 1) I.bs).map fun i => F.conn .not [uA i (j + 1)]
      let third := (rangeL (I.bs + n - 1) I.bs).map fun i => F.conn .not [uA i j]
      let all := first ++ second ++ third
      let combined := if all.isEmpty then F.lit true else .conn .and all
      .conn .and [combined, uA 0 (j + 1), .conn .eq [xA 0 (j + 1), tr],
        moveI j n (min ((I.bs : Int) - 2 + n) ((I.bs : Int) - 1)) (1 - (n : Int))]) = true) :
    ∃ h', Height I v (j + 1) h' ∧ stepVal I (valOf I v) (.nonComm o r) a (stk v j h) = some (stk v (j + 1) h') := by
  simp only at hc
  rw [and_list_iff] at hc
  simp only [List.mem_cons, List.mem_nil_iff, or_false, forall_eq_or_imp, forall_eq] at hc
  obtain ⟨hcomb, htop, hxr, hmv⟩ := hc
  obtain ⟨hlen, hget⟩ := mapM_some_get _ o ts hts
  -- the members of `all`
  have hall : ∀ f, f ∈ (ts.zipIdx.map fun (t, i) => F.conn .and [uA i j, .conn .eq [xA i j, t]]) ++
      ((rangeL (I.bs - o.length + 1) I.bs).map fun i => F.conn .not [uA i (j + 1)]) ++
      ((rangeL (I.bs + o.length - 1) I.bs).map fun i => F.conn .not [uA i j]) → evalB v f = true := by
    intro f hf
    split at hcomb
    · rename_i he
      simp only [List.isEmpty_iff] at he
      rw [he] at hf; simp at hf
    · rw [and_list_iff] at hcomb; exact hcomb f hf
  simp at htop hxr
  rw [evalB_moveI] at hmv
  have hfirst : ∀ i (hi : i < o.length), U v i j = true ∧ X v i j = valOf I v o[i] := by
    intro i hi
    have hi' : i < ts.length := by omega
    have hm : (ts[i], i) ∈ ts.zipIdx := by
      rw [List.mem_zipIdx_iff_getElem?]; simp [hi']
    have := hall (.conn .and [uA i j, .conn .eq [xA i j, ts[i]]]) (by
      simp only [List.mem_append, List.mem_map]
      exact Or.inl (Or.inl ⟨(ts[i], i), hm, rfl⟩))
    rw [and_list_iff] at this
    simp only [List.mem_cons, List.mem_nil_iff, or_false, forall_eq_or_imp, forall_eq] at this
    simp at this
    refine ⟨this.1, ?_⟩
    rw [valOf_of I v o[i] ts[i] (hget i hi hi')]; exact this.2
  have hsecond : ∀ i, I.bs - o.length + 1 ≤ i → i < I.bs → U v i (j + 1) = false := by
    intro i h1 h2
    have := hall (.conn .not [uA i (j + 1)]) (by
      simp only [List.mem_append, List.mem_map, mem_rangeL]
      exact Or.inl (Or.inr ⟨i, ⟨h1, h2⟩, rfl⟩))
    simpa using this
  have hthird : o.length = 0 → U v (I.bs - 1) j = false := by
    intro h0
    have := hall (.conn .not [uA (I.bs - 1) j]) (by
      simp only [List.mem_append, List.mem_map, mem_rangeL]
      exact Or.inr ⟨I.bs - 1, ⟨by omega, by omega⟩, rfl⟩)
    simpa using this
  have hnh : o.length ≤ h := by
    by_cases h0 : o.length = 0
    · omega
    · have := height_zero_lt I v j h hh (o.length - 1) (by omega) (hfirst (o.length - 1) (by omega)).1
      omega
  have key := consume_produce I v j h o.length hh hbs hnh hthird htop
    (by
      intro i hi1 hi hi2
      have := hmv i hi1 (by omega)
      rwa [shift_one_sub i o.length (by omega)] at this)
    hsecond
  refine ⟨h - o.length + 1, key.1, ?_⟩
  have htake : (stk v j h).take o.length = o.map (valOf I v) := by
    apply list_ext_get _ _ (by simp; omega)
    intro i h1 h2
    simp only [List.length_take, stk_length] at h1
    simp only [List.getElem_take, List.getElem_map]
    rw [stk_getElem _ _ _ _ (by omega)]
    exact (hfirst i (by omega)).2
  have hroom : h - o.length < I.bs := by have := key.1.1; omega
  simp only [stepVal, stk_length, hnh, htake, hroom, and_self, if_true, valOf_of I v r tr htr]
  rw [key.2, hxr]

/-- SWAPk -/
theorem step_swap (I : Inst) (v : Val) (val : SV → Int) (a : Int) (j h k : Nat) (hh : Height I v j h)
    (hk : 1 ≤ k ∧ k < I.bs)
    (hc : evalB v (.conn .and [uA k j, uA 0 (j + 1), .conn .eq [xA 0 (j + 1), xA k j], uA k (j + 1),
      .conn .eq [xA k (j + 1), xA 0 j], move j 1 (k - 1) 0, move j (k + 1) (I.bs - 1) 0]) = true) :
    ∃ h', Height I v (j + 1) h' ∧ stepVal I val (.swap k) a (stk v j h) = some (stk v (j + 1) h') := by
  rw [and_list_iff] at hc
  simp only [List.mem_cons, List.mem_nil_iff, or_false, forall_eq_or_imp, forall_eq] at hc
  obtain ⟨hkj, h0, hx0, hk1, hxk, hm1, hm2⟩ := hc
  simp at hkj h0 hx0 hk1 hxk
  rw [evalB_move] at hm1 hm2
  have hkh : k < h := height_zero_lt I v j h hh k hk.2 hkj
  have hsame : ∀ i, i < I.bs → i ≠ 0 → i ≠ k → U v i (j + 1) = U v i j ∧ X v i (j + 1) = X v i j := by
    intro i hi h0' hk'
    by_cases hlt : i < k
    · have := hm1 i (by omega) (by omega); simpa [shift] using this
    · have := hm2 i (by omega) (by omega); simpa [shift] using this
  refine ⟨h, ⟨hh.1, ?_⟩, ?_⟩
  · intro i hi
    by_cases hi0 : i = 0
    · subst hi0; simp [h0]; omega
    · by_cases hik : i = k
      · subst hik; simp [hk1, hkh]
      · rw [(hsame i hi hi0 hik).1]; exact hh.2 i hi
  · have hs : stk v j h = X v 0 j :: (stk v j h).tail := by
      match hst : stk v j h with
      | [] => have := congrArg List.length hst; simp at this; omega
      | y :: r =>
        have := stk_getElem v j h 0 (by omega)
        simp only [hst, List.getElem_cons_zero] at this
        simp [this]
    have htl : ∀ i, i + 1 < h → (stk v j h).tail[i]? = some (X v (i + 1) j) := by
      intro i hi
      rw [List.getElem?_tail, stk_getElem? v j h (i + 1) hi]
    rw [hs]
    simp only [stepVal]
    rw [htl (k - 1) (by omega)]
    simp only [Option.map_some, Option.some.injEq]
    have e1 : k - 1 + 1 = k := by omega
    rw [e1]
    apply list_ext_get _ _ (by simp; omega)
    intro i h1 h2
    simp only [stk_length] at h2
    rw [stk_getElem _ _ _ _ h2]
    cases i with
    | zero => simp [hx0]
    | succ i =>
      simp only [List.getElem_cons_succ, List.getElem_set]
      by_cases hik : i + 1 = k
      · have : k - 1 = i := by omega
        simp [this, ← hik] at hxk ⊢
        rw [hik] at hxk ⊢; exact hxk.symm
      · have hne : ¬ (k - 1 = i) := by omega
        simp only [hne, if_false]
        have := htl i (by omega)
        rw [List.getElem?_eq_getElem (by simp; omega)] at this
        simp only [Option.some.injEq] at this
        rw [this]
        exact ((hsame (i + 1) (by have := hh.1; omega) (by omega) hik).2).symm

/-- one transition constraint, read semantically -/
theorem step_sound (I : Inst) (v : Val) (ins : Instr) (j h : Nat) (hh : Height I v j h)
    (hfit : kindFits I.bs ins.kind = true) (raw : F) (hraw : transRaw I ins j = some raw)
    (hc : evalB v raw = true) (ht : T v j = thetaV I v ins.theta) :
    ∃ h', Height I v (j + 1) h' ∧
      stepVal I (valOf I v) ins.kind (A v j) (stk v j h) = some (stk v (j + 1) h') := by
  have hT : evalB v (isT I j ins.theta) = true := by simp [ht]
  unfold transRaw at hraw
  cases hk : ins.kind with
  | nop =>
    simp only [hk, Option.some.injEq] at hraw; subst hraw
    simp only [evalB_imp, hT, Bool.not_true, Bool.false_or] at hc
    have := step_nop I v j h hh hc (by have := hh.1; omega)
    exact ⟨h, this.1, by simp [stepVal, this.2]⟩
  | pop =>
    simp only [hk, Option.some.injEq] at hraw; subst hraw
    simp only [evalB_imp, hT, Bool.not_true, Bool.false_or] at hc
    simp only [hk, kindFits, decide_eq_true_eq] at hfit
    exact step_pop I v j h hh hfit hc
  | pushBasic =>
    simp only [hk, Option.some.injEq] at hraw; subst hraw
    simp only [evalB_imp, hT, Bool.not_true, Bool.false_or] at hc
    simp only [hk, kindFits, decide_eq_true_eq] at hfit
    exact step_pushBasic I v _ j h hh hfit hc
  | dup k =>
    simp only [hk, Option.some.injEq] at hraw; subst hraw
    simp only [evalB_imp, hT, Bool.not_true, Bool.false_or] at hc
    simp only [hk, kindFits, Bool.and_eq_true, decide_eq_true_eq] at hfit
    exact step_dup I v _ _ j h k hh hfit hc
  | swap k =>
    simp only [hk, Option.some.injEq] at hraw; subst hraw
    simp only [evalB_imp, hT, Bool.not_true, Bool.false_or] at hc
    simp only [hk, kindFits, Bool.and_eq_true, decide_eq_true_eq] at hfit
    exact step_swap I v _ _ j h k hh hfit hc
  | popU o0 =>
    simp only [hk] at hraw
    cases h0 : svF I o0 with
    | none => simp [h0] at hraw
    | some t0 =>
      simp only [h0, Option.bind_eq_bind, Option.bind_some, Option.some.injEq] at hraw; subst hraw
      simp only [evalB_imp, hT, Bool.not_true, Bool.false_or] at hc
      simp only [hk, kindFits, decide_eq_true_eq] at hfit
      exact step_popU I v _ j h o0 t0 h0 hh hfit hc
  | store o0 o1 =>
    simp only [hk] at hraw
    cases h0 : svF I o0 with
    | none => simp [h0] at hraw
    | some t0 =>
      cases h1 : svF I o1 with
      | none => simp [h0, h1] at hraw
      | some t1 =>
        simp only [h0, h1, Option.bind_eq_bind, Option.bind_some, Option.some.injEq] at hraw; subst hraw
        simp only [evalB_imp, hT, Bool.not_true, Bool.false_or] at hc
        simp only [hk, kindFits, decide_eq_true_eq] at hfit
        exact step_store I v _ j h o0 o1 t0 t1 h0 h1 hh hfit hc
  | comm o0 o1 r =>
    simp only [hk] at hraw
    cases h0 : svF I o0 with
    | none => simp [h0] at hraw
    | some t0 =>
      cases h1 : svF I o1 with
      | none => simp [h0, h1] at hraw
      | some t1 =>
        cases h2 : svF I r with
        | none => simp [h0, h1, h2] at hraw
        | some tr =>
          simp only [h0, h1, h2, Option.bind_eq_bind, Option.bind_some, Option.some.injEq] at hraw; subst hraw
          simp only [evalB_imp, hT, Bool.not_true, Bool.false_or] at hc
          simp only [hk, kindFits, decide_eq_true_eq] at hfit
          exact step_comm I v _ j h o0 o1 r t0 t1 tr h0 h1 h2 hh hfit hc
  | nonComm o r =>
    simp only [hk] at hraw
    cases h0 : o.mapM (svF I) with
    | none => simp [h0] at hraw
    | some ts =>
      cases h2 : svF I r with
      | none => simp [h0, h2] at hraw
      | some tr =>
        simp only [h0, h2, Option.bind_eq_bind, Option.bind_some, Option.some.injEq] at hraw; subst hraw
        simp only [evalB_imp, hT, Bool.not_true, Bool.false_or] at hc
        simp only [hk, kindFits, Bool.and_eq_true, decide_eq_true_eq] at hfit
        exact step_nonComm I v _ j h o r ts tr h0 h2 hh hfit.2 hfit.1 hc

theorem runVal_append (I : Inst) (val : SV → Int) (p q : List (Kind × Int)) (s : List Int) :
    runVal I val (p ++ q) s = (runVal I val p s).bind (runVal I val q) := by
  induction p generalizing s with
  | nil => simp [runVal]
  | cons x p ih =>
    obtain ⟨k, a⟩ := x
    simp only [List.cons_append, runVal]
    cases stepVal I val k a s with
    | none => simp
    | some s' => simp [ih]

theorem mapM_id_mem {α} : ∀ (l : List (Option α)) (rs : List α), l.mapM id = some rs →
    ∀ x ∈ l, ∃ r, x = some r ∧ r ∈ rs
  | [], rs, h, x, hx => by simp at hx
  | a :: l, rs, h, x, hx => by
    simp only [List.mapM_cons, id] at h
    cases ha : a with
    | none => simp [ha] at h
    | some b =>
      cases hr : l.mapM id with
      | none => simp [ha, hr] at h
      | some bs =>
        simp [ha, hr] at h
        subst h
        rcases List.mem_cons.mp hx with rfl | hx
        · exact ⟨b, ha, by simp⟩
        · obtain ⟨r, h1, h2⟩ := mapM_id_mem l bs hr x hx
          exact ⟨r, h1, List.mem_cons_of_mem _ h2⟩

/-- meaning of the stack constraints at a position -/
theorem stackAt_sound (I : Inst) (v : Val) (j : Nat) (st : List SV) (fs : List F) (hfs : stackAtRaw I j st = some fs)
    (hsat : ∀ f ∈ fs, evalB v f = true) (hlen : st.length ≤ I.bs) :
    Height I v j st.length ∧ stk v j st.length = st.map (valOf I v) := by
  unfold stackAtRaw at hfs
  cases hts : st.mapM (svF I) with
  | none => simp [hts] at hfs
  | some ts =>
    simp only [hts, Option.bind_eq_bind, Option.bind_some, Option.some.injEq] at hfs
    subst hfs
    obtain ⟨hl, hget⟩ := mapM_some_get _ st ts hts
    have hfirst : ∀ i (hi : i < st.length), U v i j = true ∧ X v i j = valOf I v st[i] := by
      intro i hi
      have hi' : i < ts.length := by omega
      have hm : (ts[i], i) ∈ ts.zipIdx := by rw [List.mem_zipIdx_iff_getElem?]; simp [hi']
      have := hsat (.conn .and [uA i j, .conn .eq [xA i j, ts[i]]]) (by
        simp only [List.mem_append, List.mem_map]
        exact Or.inl ⟨(ts[i], i), hm, rfl⟩)
      rw [and_list_iff] at this
      simp only [List.mem_cons, List.mem_nil_iff, or_false, forall_eq_or_imp, forall_eq] at this
      simp at this
      exact ⟨this.1, by rw [valOf_of I v st[i] ts[i] (hget i hi hi')]; exact this.2⟩
    have hrest : ∀ i, st.length ≤ i → i < I.bs → U v i j = false := by
      intro i h1 h2
      have := hsat (.conn .not [uA i j]) (by
        simp only [List.mem_append, List.mem_map, mem_rangeL]
        exact Or.inr ⟨i, ⟨h1, h2⟩, rfl⟩)
      simpa using this
    refine ⟨⟨hlen, ?_⟩, ?_⟩
    · intro i hi
      by_cases hlt : i < st.length
      · simp [(hfirst i hlt).1, hlt]
      · simp [hrest i (by omega) hi, hlt]
    · apply list_ext_get _ _ (by simp)
      intro i h1 h2
      simp only [stk_length] at h1
      rw [stk_getElem _ _ _ _ h1]
      simp only [List.getElem_map]
      exact (hfirst i h1).2

theorem height_unique (I : Inst) (v : Val) (j h h' : Nat) (a : Height I v j h) (b : Height I v j h') : h = h' := by
  rcases Nat.lt_trichotomy h h' with hl | he | hg
  · have := (b.2 h (by have := b.1; omega)).mpr hl
    have := (a.2 h (by have := b.1; omega)).mp this; omega
  · exact he
  · have := (a.2 h' (by have := a.1; omega)).mpr hg
    have := (b.2 h' (by have := a.1; omega)).mp this; omega

/-- **soundness of the stack core of the encoding**: every valuation that satisfies the core constraints decodes
    to a sequence of `b0` instructions of the instance that, run on the values of the initial stack, never gets
    stuck (no underflow, no overflow of the stack bound, operands as named) and ends in the values of the target
    stack. -/
theorem core_sound (I : Inst) (v : Val) (raws : List F) (hraw : coreRaw I = some raws)
    (hsat : ∀ f ∈ raws, evalB v f = true) (hok : instOk I = true) :
    ∃ steps : List (Kind × Int), steps.length = I.b0 ∧ Decodes I v steps ∧
      runVal I (valOf I v) steps (I.src.map (valOf I v)) = some (I.tgt.map (valOf I v)) := by
  simp only [instOk, Bool.and_eq_true, List.all_eq_true, decide_eq_true_eq, Bool.not_eq_true'] at hok
  obtain ⟨⟨⟨hfit, hsrc⟩, htgt⟩, hterm⟩ := hok
  unfold coreRaw at hraw
  cases htr : (I.instrs.flatMap fun ins => (rangeL ins.lb (ins.ub + 1)).map fun j => transRaw I ins j).mapM id with
  | none => simp [htr] at hraw
  | some trans =>
    cases hini : stackAtRaw I 0 I.src with
    | none => simp [htr, hini] at hraw
    | some ini =>
      simp only [hterm] at hraw
      cases hfin : stackAtRaw I I.b0 I.tgt with
      | none => simp [htr, hini, hfin] at hraw
      | some fin =>
        simp only [htr, hini, hfin, Option.bind_eq_bind, Option.bind_some, Bool.false_eq_true, if_false,
          Option.some.injEq] at hraw
        subst hraw
        have h0 := stackAt_sound I v 0 I.src ini hini (fun f hf => hsat f (by simp [hf])) hsrc
        have hF := stackAt_sound I v I.b0 I.tgt fin hfin (fun f hf => hsat f (by simp [hf])) htgt
        -- positions 0..k-1
        have main : ∀ k, k ≤ I.b0 → ∃ (steps : List (Kind × Int)) (h : Nat), steps.length = k ∧ Decodes I v steps ∧
            Height I v k h ∧ runVal I (valOf I v) steps (I.src.map (valOf I v)) = some (stk v k h) := by
          intro k
          induction k with
          | zero =>
            intro _
            exact ⟨[], I.src.length, rfl, by intro j h; simp at h, h0.1, by simp [runVal, h0.2]⟩
          | succ k ih =>
            intro hk
            obtain ⟨steps, h, hlen, hdec, hh, hrun⟩ := ih (by omega)
            -- the instruction at position k
            have hdom := hsat (domainRaw I k) (by
              simp only [List.mem_append, List.mem_map, mem_rangeL]
              exact Or.inl (Or.inl (Or.inl ⟨k, ⟨by omega, by omega⟩, rfl⟩)))
            simp only [domainRaw, evalB_or, evalAny_iff, List.mem_map, List.mem_filter] at hdom
            obtain ⟨f, ⟨ins, ⟨hmem, hb⟩, rfl⟩, hT⟩ := hdom
            simp only [Bool.and_eq_true, decide_eq_true_eq] at hb
            simp only [evalB_isT, beq_iff_eq] at hT
            obtain ⟨raw, hraw1, hraw2⟩ := mapM_id_mem _ trans htr (transRaw I ins k) (by
              simp only [List.mem_flatMap, List.mem_map, mem_rangeL]
              exact ⟨ins, hmem, k, ⟨hb.1, by omega⟩, rfl⟩)
            have hc := hsat raw (by simp [hraw2])
            obtain ⟨h', hh', hstep⟩ := step_sound I v ins k h hh (hfit ins hmem) raw hraw1 hc hT
            refine ⟨steps ++ [(ins.kind, A v k)], h', by simp [hlen], ?_, hh', ?_⟩
            · intro j hj
              by_cases hjl : j < steps.length
              · obtain ⟨i2, hi2⟩ := hdec j hjl
                exact ⟨i2, by simpa [List.getElem_append_left hjl] using hi2⟩
              · have : j = k := by simp at hj; omega
                subst this
                refine ⟨ins, hmem, ?_⟩
                simp [List.getElem_append_right (by omega : steps.length ≤ steps.length), ← hlen, hT]
                simpa [hlen] using hT
            · rw [runVal_append, hrun]
              simp [runVal, hstep]
        obtain ⟨steps, h, hlen, hdec, hh, hrun⟩ := main I.b0 (Nat.le_refl _)
        have := height_unique I v I.b0 h I.tgt.length hh hF.1
        subst this
        exact ⟨steps, hlen, hdec, by rw [hrun, hF.2]⟩

theorem mapM_mem {α β} (g : α → Option β) : ∀ (l : List α) (rs : List β), l.mapM g = some rs →
    ∀ x ∈ l, ∃ r, g x = some r ∧ r ∈ rs
  | [], rs, h, x, hx => by simp at hx
  | a :: l, rs, h, x, hx => by
    simp only [List.mapM_cons] at h
    cases ha : g a with
    | none => simp [ha] at h
    | some b =>
      cases hr : l.mapM g with
      | none => simp [ha, hr] at h
      | some bs =>
        simp [ha, hr] at h
        subst h
        rcases List.mem_cons.mp hx with rfl | hx
        · exact ⟨b, ha, by simp⟩
        · obtain ⟨r, h1, h2⟩ := mapM_mem g l bs hr x hx
          exact ⟨r, h1, List.mem_cons_of_mem _ h2⟩

/-- **C06 (stack core) on the emitted formulas**: the formulas the model emits — compared, constraint by
    constraint, with what the real encoder emits — are the raw trees built through the (proved) constructor model;
    a valuation satisfying them satisfies the raw trees (`Formula.build_eval`), hence decodes to a realizing run. -/
theorem core_sound_built (I : Inst) (v : Val) (raws built : List F) (hraw : coreRaw I = some raws)
    (hb : coreBuilt I = some built) (hws : raws.all F.ws = true)
    (hsat : ∀ f ∈ built, evalB v f = true) (hok : instOk I = true) :
    ∃ steps : List (Kind × Int), steps.length = I.b0 ∧ Decodes I v steps ∧
      runVal I (valOf I v) steps (I.src.map (valOf I v)) = some (I.tgt.map (valOf I v)) := by
  apply core_sound I v raws hraw _ hok
  intro f hf
  unfold coreBuilt at hb
  simp only [hraw, Option.bind_eq_bind, Option.bind_some] at hb
  obtain ⟨r, hr, hmem⟩ := mapM_mem _ raws built hb f hf
  cases hbf : build f with
  | error e => simp [hbf] at hr
  | ok r' =>
    simp only [hbf, Option.some.injEq] at hr
    subst hr
    have hwf : f.ws = true := by
      simp only [List.all_eq_true] at hws; exact hws f hf
    have := build_eval v f r' hwf hbf
    rw [← this.1]; exact hsat r' hmem

theorem map_inj_on {val : SV → Int} {D : SV → Prop} (inj : ∀ x y, D x → D y → val x = val y → x = y) :
    ∀ (l₁ l₂ : List SV), (∀ x ∈ l₁, D x) → (∀ x ∈ l₂, D x) → l₁.map val = l₂.map val → l₁ = l₂
  | [], [], _, _, _ => rfl
  | [], _ :: _, _, _, h => by simp at h
  | _ :: _, [], _, _, h => by simp at h
  | a :: l₁, b :: l₂, h1, h2, h => by
    simp only [List.map_cons, List.cons.injEq] at h
    have := inj a b (h1 a (by simp)) (h2 b (by simp)) h.1
    subst this
    rw [map_inj_on inj l₁ l₂ (fun x hx => h1 x (by simp [hx])) (fun x hx => h2 x (by simp [hx])) h.2]

/-- one step: where stack values identify stack variables, the value step is a symbolic step -/
theorem stepSym_of_stepVal (I : Inst) (val : SV → Int) (D : SV → Prop)
    (inj : ∀ x y, D x → D y → val x = val y → x = y) (hnum : ∀ n, val (.num n) = n)
    (k : Kind) (hDnum : k = .pushBasic → ∀ n : Int, 0 ≤ n → n < I.intLimit → D (.num n))
    (a : Int) (hk : ∀ x ∈ k.svs, D x) (S : List SV) (hS : ∀ x ∈ S, D x) (W : List Int)
    (h : stepVal I val k a (S.map val) = some W) :
    ∃ S', stepSym I k a S = some S' ∧ S'.map val = W ∧ ∀ x ∈ S', D x := by
  cases k with
  | nop => simp [stepVal] at h; subst h; exact ⟨S, rfl, rfl, hS⟩
  | pop =>
    cases S with
    | nil => simp [stepVal] at h
    | cons y r => simp [stepVal] at h; subst h; exact ⟨r, rfl, rfl, fun x hx => hS x (by simp [hx])⟩
  | pushBasic =>
    simp only [stepVal, List.length_map] at h
    split at h
    · rename_i hc
      simp at h; subst h
      refine ⟨.num a :: S, by simp [stepSym, hc], by simp [hnum], ?_⟩
      intro x hx
      rcases List.mem_cons.mp hx with rfl | hx
      · exact hDnum rfl a hc.2.1 hc.2.2
      · exact hS x hx
    · simp at h
  | dup k =>
    simp only [stepVal, List.length_map] at h
    split at h
    · rename_i hc
      cases hg : S[k - 1]? with
      | none => simp [hg] at h
      | some y =>
        simp [hg] at h; subst h
        refine ⟨y :: S, by simp [stepSym, hc, hg], by simp, ?_⟩
        intro x hx
        rcases List.mem_cons.mp hx with rfl | hx
        · exact hS _ (List.mem_of_getElem? hg)
        · exact hS x hx
    · simp at h
  | swap k =>
    cases S with
    | nil => simp [stepVal] at h
    | cons top rest =>
      simp only [stepVal, List.map_cons] at h
      cases hg : rest[k - 1]? with
      | none => simp [hg] at h
      | some y =>
        simp [hg] at h; subst h
        refine ⟨y :: rest.set (k - 1) top, by simp [stepSym, hg], by simp [List.map_set], ?_⟩
        intro x hx
        rcases List.mem_cons.mp hx with rfl | hx
        · exact hS _ (List.mem_cons_of_mem _ (List.mem_of_getElem? hg))
        · rcases List.mem_or_eq_of_mem_set hx with hx | rfl
          · exact hS x (List.mem_cons_of_mem _ hx)
          · exact hS _ (by simp)
  | popU o0 =>
    cases S with
    | nil => simp [stepVal] at h
    | cons y r =>
      simp only [stepVal, List.map_cons] at h
      split at h
      · rename_i hc
        simp at h; subst h
        have := inj y o0 (hS y (by simp)) (hk o0 (by simp [Kind.svs])) hc
        subst this
        exact ⟨r, by simp [stepSym], rfl, fun x hx => hS x (by simp [hx])⟩
      · simp at h
  | store o0 o1 =>
    match S, hS, h with
    | [], _, h => simp [stepVal] at h
    | [_], _, h => simp [stepVal] at h
    | y0 :: y1 :: r, hS, h =>
      simp only [stepVal, List.map_cons] at h
      split at h
      · rename_i hc
        simp at h; subst h
        have e0 := inj y0 o0 (hS y0 (by simp)) (hk o0 (by simp [Kind.svs])) hc.1
        have e1 := inj y1 o1 (hS y1 (by simp)) (hk o1 (by simp [Kind.svs])) hc.2
        subst e0 e1
        exact ⟨r, by simp [stepSym], rfl, fun x hx => hS x (by simp [hx])⟩
      · simp at h
  | comm o0 o1 r =>
    match S, hS, h with
    | [], _, h => simp [stepVal] at h
    | [_], _, h => simp [stepVal] at h
    | y0 :: y1 :: rest, hS, h =>
      simp only [stepVal, List.map_cons] at h
      split at h
      · rename_i hc
        simp at h; subst h
        have hD0 := hS y0 (by simp)
        have hD1 := hS y1 (by simp)
        have hc' : (y0 = o0 ∧ y1 = o1) ∨ (y0 = o1 ∧ y1 = o0) := by
          rcases hc with hc | hc
          · exact Or.inl ⟨inj _ _ hD0 (hk o0 (by simp [Kind.svs])) hc.1, inj _ _ hD1 (hk o1 (by simp [Kind.svs])) hc.2⟩
          · exact Or.inr ⟨inj _ _ hD0 (hk o1 (by simp [Kind.svs])) hc.1, inj _ _ hD1 (hk o0 (by simp [Kind.svs])) hc.2⟩
        refine ⟨r :: rest, by simp [stepSym, hc'], by simp, ?_⟩
        intro x hx
        rcases List.mem_cons.mp hx with rfl | hx
        · exact hk _ (by simp [Kind.svs])
        · exact hS x (by simp [hx])
      · simp at h
  | nonComm o r =>
    simp only [stepVal, List.length_map] at h
    split at h
    · rename_i hc
      simp at h; subst h
      have ht : S.take o.length = o := by
        apply map_inj_on inj _ _ (fun x hx => hS x (List.mem_of_mem_take hx)) (fun x hx => hk x (by simp [Kind.svs, hx]))
        rw [List.map_take]; exact hc.2.1
      refine ⟨r :: S.drop o.length, by simp [stepSym, hc.1, ht, hc.2.2], by simp [List.map_drop], ?_⟩
      intro x hx
      rcases List.mem_cons.mp hx with rfl | hx
      · exact hk _ (by simp [Kind.svs])
      · exact hS x (List.mem_of_mem_drop hx)
    · simp at h

/-- **from values to stack variables**: if the values of the stack variables (and pushed constants) that can occur
    identify them, the value-level run of `core_sound` is a symbolic run on stack variables that ends in exactly
    the target stack: each operation is applied to the operands the specification names. -/
theorem runSym_of_runVal (I : Inst) (val : SV → Int) (D : SV → Prop)
    (inj : ∀ x y, D x → D y → val x = val y → x = y) (hnum : ∀ n, val (.num n) = n)
    :
    ∀ (steps : List (Kind × Int)) (S : List SV) (W : List Int),
      (∀ st ∈ steps, st.1 = .pushBasic → ∀ n : Int, 0 ≤ n → n < I.intLimit → D (.num n)) →
      (∀ st ∈ steps, ∀ x ∈ st.1.svs, D x) → (∀ x ∈ S, D x) →
      runVal I val steps (S.map val) = some W → ∃ S', runSym I steps S = some S' ∧ S'.map val = W ∧ ∀ x ∈ S', D x
  | [], S, W, _, _, hS, h => by simp [runVal] at h; subst h; exact ⟨S, rfl, rfl, hS⟩
  | (k, a) :: r, S, W, hDnum, hst, hS, h => by
    simp only [runVal] at h
    cases h1 : stepVal I val k a (S.map val) with
    | none => simp [h1] at h
    | some W1 =>
      simp only [h1, Option.bind_some] at h
      obtain ⟨S1, e1, e2, e3⟩ := stepSym_of_stepVal I val D inj hnum k (hDnum (k, a) (by simp)) a (hst (k, a) (by simp)) S hS W1 h1
      subst e2
      obtain ⟨S', f1, f2, f3⟩ := runSym_of_runVal I val D inj hnum r S1 W
        (fun st hs => hDnum st (List.mem_cons_of_mem _ hs)) (fun st hs => hst st (List.mem_cons_of_mem _ hs)) e3 h
      exact ⟨S', by simp [runSym, e1, f1], f2, f3⟩

theorem valOf_num (I : Inst) (v : Val) (n : Int) : valOf I v (.num n) = n := by simp [valOf, svF, evalI]

/-- **C06, stack core, as the property reads**: a valuation that satisfies the emitted core constraints and gives
    different values to different stack variables decodes to `b0` instructions of the instance whose symbolic
    execution from the initial stack applies every operation to exactly the operands the specification names, never
    underflows nor exceeds the stack bound, and ends with exactly the target stack. -/
theorem core_realizes (I : Inst) (v : Val) (raws built : List F) (hraw : coreRaw I = some raws)
    (hb : coreBuilt I = some built) (hws : raws.all F.ws = true)
    (hsat : ∀ f ∈ built, evalB v f = true) (hok : instOk I = true)
    (inj : ∀ x y, Dom I x → Dom I y → valOf I v x = valOf I v y → x = y) :
    ∃ steps : List (Kind × Int), steps.length = I.b0 ∧ Decodes I v steps ∧ runSym I steps I.src = some I.tgt := by
  obtain ⟨steps, hlen, hdec, hrun⟩ := core_sound_built I v raws built hraw hb hws hsat hok
  have hkinds : ∀ st ∈ steps, ∃ ins ∈ I.instrs, ins.kind = st.1 := by
    intro st hst
    obtain ⟨j, hj, rfl⟩ := List.getElem_of_mem hst
    obtain ⟨ins, hm, hk, _⟩ := hdec j hj
    exact ⟨ins, hm, hk⟩
  obtain ⟨S', h1, h2, h3⟩ := runSym_of_runVal I (valOf I v) (Dom I) inj (valOf_num I v) steps I.src _
    (by
      intro st hst hpb n h0 hl
      obtain ⟨ins, hm, hk⟩ := hkinds st hst
      exact Or.inr ⟨⟨ins, hm, by rw [hk, hpb]⟩, n, rfl, h0, hl⟩)
    (by
      intro st hst x hx
      obtain ⟨ins, hm, hk⟩ := hkinds st hst
      refine Or.inl ?_
      simp only [allSVs, List.mem_append, List.mem_flatMap]
      exact Or.inr ⟨ins, hm, by rw [hk]; exact hx⟩)
    (by intro x hx; exact Or.inl (by simp [allSVs, hx]))
    hrun
  have : S' = I.tgt := map_inj_on inj S' I.tgt h3 (fun x hx => Or.inl (by simp [allSVs, hx])) h2
  subst this
  exact ⟨steps, hlen, hdec, h1⟩

/-! ### values identify stack variables -/

theorem lookup_mem {β} : ∀ (l : List (String × β)) (k : String) (b : β), l.lookup k = some b → (k, b) ∈ l
  | [], k, b, h => by simp [List.lookup] at h
  | (k', b') :: l, k, b, h => by
    simp only [List.lookup] at h
    by_cases hk : k = k'
    · subst hk; simp at h; subst h; simp
    · have : (k == k') = false := by simp [hk]
      simp only [this] at h
      exact List.mem_cons_of_mem _ (lookup_mem l k b h)

theorem inj_on_of_nodup_map {α β} (f : α → β) : ∀ (l : List α), (l.map f).Nodup → ∀ x ∈ l, ∀ y ∈ l, f x = f y → x = y
  | [], _, x, hx, _, _, _ => by simp at hx
  | a :: l, h, x, hx, y, hy, hxy => by
    simp only [List.map_cons, List.nodup_cons, List.mem_map, not_exists, not_and] at h
    rcases List.mem_cons.mp hx with hxa | hxl
    · rcases List.mem_cons.mp hy with hya | hyl
      · rw [hxa, hya]
      · subst hxa; exact absurd hxy.symm (h.1 y hyl)
    · rcases List.mem_cons.mp hy with hya | hyl
      · subst hya; exact absurd hxy (h.1 x hxl)
      · exact inj_on_of_nodup_map f l h.2 x hxl y hyl hxy

/-- **values identify stack variables** when the terms of the table take pairwise different values and, if
    constants can be pushed, values outside the range of pushed constants -/
theorem inj_of_nodup (I : Inst) (v : Val) (hnd : (I.term.map fun p => evalI v p.2).Nodup) (hok : svsOk I = true)
    (hsep : hasPushBasic I = true → ∀ p ∈ I.term, evalI v p.2 < 0 ∨ I.intLimit ≤ evalI v p.2) :
    ∀ x y, Dom I x → Dom I y → valOf I v x = valOf I v y → x = y := by
  simp only [svsOk, List.all_eq_true] at hok
  -- shape of the members of the domain
  have shape : ∀ x, Dom I x → (∃ s t, x = .var s ∧ I.term.lookup s = some t) ∨
      (∃ n, x = .num n ∧ hasPushBasic I = true ∧ 0 ≤ n ∧ n < I.intLimit) := by
    intro x hx
    rcases hx with hx | ⟨⟨ins, hm, hk⟩, n, rfl, h0, hl⟩
    · have := hok x hx
      cases x with
      | var s =>
        simp only at this
        cases hl : I.term.lookup s with
        | none => simp [hl] at this
        | some t => exact Or.inl ⟨s, t, rfl, hl⟩
      | num n =>
        simp only [Bool.and_eq_true, decide_eq_true_eq] at this
        exact Or.inr ⟨n, rfl, this.1.1, this.1.2, this.2⟩
    · refine Or.inr ⟨n, rfl, ?_, h0, hl⟩
      simp only [hasPushBasic, List.any_eq_true]
      exact ⟨ins, hm, by simp [hk]⟩
  intro x y hx hy hxy
  rcases shape x hx with ⟨s, t, rfl, hs⟩ | ⟨n, rfl, hpb, h0, hl⟩ <;>
    rcases shape y hy with ⟨s', t', rfl, hs'⟩ | ⟨n', rfl, hpb', h0', hl'⟩
  · simp only [valOf, svF, hs, hs'] at hxy
    have := inj_on_of_nodup_map (fun p : String × F => evalI v p.2) I.term hnd (s, t) (lookup_mem _ _ _ hs)
      (s', t') (lookup_mem _ _ _ hs') hxy
    simp at this; rw [this.1]
  · simp only [valOf, svF, hs, evalI] at hxy
    have := hsep hpb' (s, t) (lookup_mem _ _ _ hs)
    simp only at this; omega
  · simp only [valOf, svF, hs', evalI] at hxy
    have := hsep hpb (s', t') (lookup_mem _ _ _ hs')
    simp only at this; omega
  · simp only [valOf, svF, evalI] at hxy
    rw [hxy]

theorem pairwiseDistinct_nodup : ∀ l : List Int, pairwiseDistinct l = true → l.Nodup
  | [], _ => List.nodup_nil
  | a :: l, h => by
    simp only [pairwiseDistinct, Bool.and_eq_true, Bool.not_eq_true'] at h
    refine List.nodup_cons.mpr ⟨?_, pairwiseDistinct_nodup l h.2⟩
    intro hm
    have : l.contains a = true := by simpa using hm
    rw [this] at h; cases h.1

theorem evalIs_map (v : Val) : ∀ l : List F, evalIs v l = l.map (evalI v)
  | [] => rfl
  | a :: l => by simp [evalIs, evalIs_map v l]

theorem nodup_of_distinct (I : Inst) (v : Val) (h : evalB v (distinctRaw I) = true) :
    (I.term.map fun p => evalI v p.2).Nodup := by
  simp only [distinctRaw, evalB] at h
  have := pairwiseDistinct_nodup _ h
  rw [evalIs_map, List.map_map] at this
  exact this

theorem values_of_initVars (I : Inst) (v : Val) (initial : Int) (hint : I.term.all (fun p => !p.2.isBoolSorted) = true)
    (h : ∀ f ∈ initVarsRaw I initial, evalB v f = true) :
    ∀ i (hi : i < I.term.length), evalI v (I.term[i]).2 = initial + i := by
  intro i hi
  have hm : (I.term[i], i) ∈ I.term.zipIdx := by rw [List.mem_zipIdx_iff_getElem?]; simp [hi]
  have := h (.conn .eq [(I.term[i]).2, .num (initial + i)]) (by
    simp only [initVarsRaw, List.mem_map]; exact ⟨(I.term[i], i), hm, rfl⟩)
  simp only [List.all_eq_true, Bool.not_eq_true'] at hint
  have hb := hint _ (List.getElem_mem hi)
  simpa [evalB, hb, evalI] using this

theorem nodup_of_values (l : List (String × F)) (v : Val) (initial : Int)
    (h : ∀ i (hi : i < l.length), evalI v (l[i]).2 = initial + i) : (l.map fun p => evalI v p.2).Nodup := by
  unfold List.Nodup
  rw [List.pairwise_iff_getElem]
  intro i j hi hj hij
  simp only [List.length_map] at hi hj
  simp only [List.getElem_map]
  rw [h i hi, h j hj]; omega

/-- uninterpreted term encodings (no basic PUSH): the `distinct` constraint makes values identify stack variables -/
theorem inj_uf (I : Inst) (v : Val) (h : evalB v (distinctRaw I) = true) (hok : svsOk I = true)
    (hpb : hasPushBasic I = false) :
    ∀ x y, Dom I x → Dom I y → valOf I v x = valOf I v y → x = y :=
  inj_of_nodup I v (nodup_of_distinct I v h) hok (by intro h'; rw [hpb] at h'; cases h')

/-- `-term-encoding stack_vars`: the initialisation constraints make values identify stack variables -/
theorem inj_stackVars (I : Inst) (v : Val) (initial : Int) (hint : I.term.all (fun p => !p.2.isBoolSorted) = true)
    (h : ∀ f ∈ initVarsRaw I initial, evalB v f = true) (hok : svsOk I = true)
    (hinit : hasPushBasic I = true → I.intLimit ≤ initial) :
    ∀ x y, Dom I x → Dom I y → valOf I v x = valOf I v y → x = y := by
  have hv := values_of_initVars I v initial hint h
  refine inj_of_nodup I v (nodup_of_values I.term v initial hv) hok ?_
  intro hpb p hp
  obtain ⟨i, hi, rfl⟩ := List.getElem_of_mem hp
  have := hv i hi
  have := hinit hpb
  right; omega

theorem inj_int (I : Inst) (v : Val) (hdata : intTermsOk I = true) (hok : svsOk I = true) :
    ∀ x y, Dom I x → Dom I y → valOf I v x = valOf I v y → x = y := by
  simp only [intTermsOk, Bool.and_eq_true, List.all_eq_true, Bool.or_eq_true, Bool.not_eq_true'] at hdata
  obtain ⟨⟨hnum, hpd⟩, hsep⟩ := hdata
  have hval : ∀ p ∈ I.term, evalI v p.2 = (match p.2 with | .num k => k | _ => 0) := by
    intro p hp
    have := hnum p hp
    cases hp2 : p.2 <;> simp [hp2, evalI] at this ⊢
  have hmap : (I.term.map fun p => evalI v p.2) = I.term.map fun p => (match p.2 with | .num k => k | _ => 0) :=
    List.map_congr_left hval
  refine inj_of_nodup I v (by rw [hmap]; exact pairwiseDistinct_nodup _ hpd) hok ?_
  intro hpb p hp
  rcases hsep with hs | hs
  · rw [hpb] at hs; cases hs
  · have := hs p hp
    have hv := hval p hp
    cases hp2 : p.2 with
    | num k => simp [hp2] at this; right; simp [evalI]; exact this
    | _ => simp [hp2] at this

end GasolVerif.Enc
