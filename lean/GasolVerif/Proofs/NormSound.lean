/-
  Soundness of the normaliser: every rewrite preserves the value of the term in every state,
  under every well-formed environment.
-/
import GasolVerif.Norm
import GasolVerif.Equiv
import GasolVerif.Proofs.WordLemmas
import GasolVerif.Proofs.MemLemmas
set_option linter.unusedSimpArgs false
set_option linter.unusedVariables false
namespace GasolVerif
namespace Norm

section
variable (e : Env) (σ : St)

theorem isBoolOp_sem (op : BinOp) (h : isBoolOp op = true) (x y : Word) :
    ∃ b, op.sem x y = Word.ofBool b := by
  cases op <;> simp [isBoolOp] at h <;> simp only [BinOp.sem]
  · exact ⟨_, rfl⟩
  · exact ⟨_, rfl⟩
  · exact ⟨_, rfl⟩
  · exact ⟨_, rfl⟩
  · exact ⟨_, rfl⟩

theorem isBool_eval (t : Tm) (h : isBool t = true) : ∃ b, evalW e σ t = Word.ofBool b := by
  unfold isBool at h
  split at h
  · exact isBoolOp_sem _ h _ _
  · exact ⟨_, rfl⟩
  · simp at h

theorem mkIszero_sound (a : Tm) : evalW e σ (mkIszero a) = Word.iszero (evalW e σ a) := by
  unfold mkIszero
  split
  · simp [evalW, UnOp.sem]
  · simp [evalW, UnOp.sem, Word.iszero_iszero_iszero]
  · split
    · rename_i op x y h
      obtain ⟨b, hb⟩ := isBoolOp_sem op h (evalW e σ x) (evalW e σ y)
      simp [evalW, UnOp.sem, hb]
    · rfl
  · split
    · rename_i x w h; subst h
      simp [evalW, UnOp.sem, BinOp.sem, Word.iszero_gt_zero]
    · rfl
  · split
    · rename_i w x h; subst h
      simp [evalW, UnOp.sem, BinOp.sem, Word.iszero_lt_zero]
    · rfl
  · simp [evalW, BinOp.sem, Word.iszero_xor]
  · split <;> simp [evalW, BinOp.sem, Word.iszero_sub, Word.eq_comm']
  · rfl

theorem mkNot_sound (a : Tm) : evalW e σ (mkNot a) = Word.not (evalW e σ a) := by
  unfold mkNot
  split <;> simp [evalW, UnOp.sem, Word.not_not]

theorem mkUn_sound (op : UnOp) (a : Tm) : evalW e σ (mkUn op a) = op.sem (evalW e σ a) := by
  cases op <;> simp [mkUn, UnOp.sem, mkIszero_sound, mkNot_sound]

theorem isAddrEnv_sound (we : e.wf) (t : Tm) (h : isAddrEnv t = true) :
    Word.and addrMask (evalW e σ t) = evalW e σ t := by
  unfold isAddrEnv at h
  split at h
  · rename_i n
    have hn : n ∈ ["ADDRESS", "CALLER", "ORIGIN", "COINBASE"] := by
      simp at h; simp; rcases h with ((h | h) | h) | h <;> simp [h]
    have := we.addr160 n hn σ.trace
    simp only [evalW, Word.and]
    rw [BitVec.and_comm]; exact this
  · simp at h

theorem andConst_sound (we : e.wf) (a b t : Tm) (h : andConst a b = some t) :
    evalW e σ t = Word.and (evalW e σ a) (evalW e σ b) := by
  unfold andConst at h
  split at h
  · rename_i w
    split at h
    · rename_i hw; subst hw; simp at h; subst h; simp [evalW, Word.and_zero_left]
    · split at h
      · rename_i hw; subst hw; simp at h; subst h
        simp only [evalW]; exact (Word.and_max_left _).symm
      · split at h
        · rename_i hw; simp at hw; obtain ⟨hw1, hw2⟩ := hw; subst hw1; simp at h; subst h
          simp only [evalW]; exact (isAddrEnv_sound e σ we _ hw2).symm
        · split at h
          · simp at h; subst h; simp [evalW, BinOp.sem, Word.and_assoc_const]
          · simp at h
  · simp at h

theorem andStruct_sound (a b t : Tm) (h : andStruct a b = some t) :
    evalW e σ t = Word.and (evalW e σ a) (evalW e σ b) := by
  unfold andStruct at h
  split at h
  · rename_i hab; subst hab; simp at h; subst h; simp [Word.and_self]
  · split at h
    · split at h
      · rename_i hxy; subst hxy; simp at h; subst h; simp [evalW, UnOp.sem, Word.and_not_self]
      · simp at h
    · split at h
      · rename_i hxy; subst hxy; simp at h; subst h; simp [evalW, UnOp.sem, Word.not_and_self]
      · simp at h
    · split at h
      · rename_i hx; simp at hx; simp at h; subst h
        rcases hx with rfl | rfl <;> simp [evalW, BinOp.sem, Word.and_and_left, Word.and_and_right]
      · simp at h
    · split at h
      · rename_i hx; simp at hx; simp at h; subst h
        rcases hx with rfl | rfl <;> simp [evalW, BinOp.sem, Word.and_and_left', Word.and_and_right']
      · simp at h
    · split at h
      · rename_i hx; simp at hx; simp at h; subst h
        rcases hx with rfl | rfl <;> simp [evalW, BinOp.sem, Word.and_or_left, Word.and_or_right]
      · simp at h
    · split at h
      · rename_i hx; simp at hx; simp at h; subst h
        rcases hx with rfl | rfl <;> simp [evalW, BinOp.sem, Word.and_or_left', Word.and_or_right']
      · simp at h
    · simp at h

theorem andShlRule_sound (a b t : Tm) (h : andShlRule a b = some t) :
    evalW e σ t = Word.and (evalW e σ a) (evalW e σ b) := by
  unfold andShlRule at h
  split at h
  · split at h
    · rename_i hs; subst hs; simp at h; subst h
      split <;> simp [evalW, BinOp.sem, Word.and_shl_shl, Word.and_comm']
    · simp at h
  · split at h
    · rename_i hk; simp at hk; simp at h; subst h
      simp only [evalW, BinOp.sem]
      exact (Word.and_const_shl _ _ _ hk.1 hk.2).symm
    · simp at h
  · simp at h

theorem orConst_sound (a b t : Tm) (h : orConst a b = some t) :
    evalW e σ t = Word.or (evalW e σ a) (evalW e σ b) := by
  unfold orConst at h
  split at h
  · split at h
    · rename_i hw; subst hw; simp at h; subst h; simp [evalW, Word.or_zero_left]
    · split at h
      · rename_i hw; subst hw; simp at h; subst h
        simp only [evalW, maxW]; exact (Word.or_max_left _).symm
      · split at h
        · simp at h; subst h; simp [evalW, BinOp.sem, Word.or_assoc_const]
        · simp at h
  · simp at h

theorem orStruct_sound (a b t : Tm) (h : orStruct a b = some t) :
    evalW e σ t = Word.or (evalW e σ a) (evalW e σ b) := by
  unfold orStruct at h
  split at h
  · rename_i hab; subst hab; simp at h; subst h; simp [Word.or_self]
  · split at h
    · split at h
      · rename_i hxy; subst hxy; simp at h; subst h
        simp only [evalW, UnOp.sem, maxW]; exact (Word.or_not_self _).symm
      · simp at h
    · split at h
      · rename_i hxy; subst hxy; simp at h; subst h
        simp only [evalW, UnOp.sem, maxW]; exact (Word.not_or_self _).symm
      · simp at h
    · split at h
      · rename_i hx; simp at hx; simp at h; subst h
        rcases hx with rfl | rfl <;> simp [evalW, BinOp.sem, Word.or_or_left, Word.or_or_right]
      · simp at h
    · split at h
      · rename_i hx; simp at hx; simp at h; subst h
        rcases hx with rfl | rfl <;> simp [evalW, BinOp.sem, Word.or_or_left', Word.or_or_right']
      · simp at h
    · split at h
      · rename_i hx; simp at hx; simp at h; subst h
        rcases hx with rfl | rfl <;> simp [evalW, BinOp.sem, Word.or_and_left, Word.or_and_right]
      · simp at h
    · split at h
      · rename_i hx; simp at hx; simp at h; subst h
        rcases hx with rfl | rfl <;> simp [evalW, BinOp.sem, Word.or_and_left', Word.or_and_right']
      · simp at h
    · simp at h

theorem xorConst_sound (a b t : Tm) (h : xorConst a b = some t) :
    evalW e σ t = Word.xor (evalW e σ a) (evalW e σ b) := by
  unfold xorConst at h
  split at h
  · split at h
    · rename_i hw; subst hw; simp at h; subst h; simp [evalW, Word.xor_zero_left]
    · simp at h
  · simp at h

theorem xorStruct_sound (a b t : Tm) (h : xorStruct a b = some t) :
    evalW e σ t = Word.xor (evalW e σ a) (evalW e σ b) := by
  unfold xorStruct at h
  split at h
  · rename_i hab; subst hab; simp at h; subst h; simp [evalW, Word.xor_self]
  · split at h
    · split at h
      · rename_i hx; subst hx; simp at h; subst h; simp [evalW, BinOp.sem, Word.xor_xor_left]
      · split at h
        · rename_i hx; subst hx; simp at h; subst h; simp [evalW, BinOp.sem, Word.xor_xor_right]
        · simp at h
    · split at h
      · rename_i hx; subst hx; simp at h; subst h; simp [evalW, BinOp.sem, Word.xor_xor_left']
      · split at h
        · rename_i hx; subst hx; simp at h; subst h; simp [evalW, BinOp.sem, Word.xor_xor_right']
        · simp at h
    · simp at h

theorem addRule_sound (a b t : Tm) (h : addRule a b = some t) :
    evalW e σ t = Word.add (evalW e σ a) (evalW e σ b) := by
  unfold addRule at h
  split at h
  · split at h
    · rename_i hw; subst hw; simp at h; subst h; simp [evalW, Word.add_zero_left]
    · split at h
      · simp at h; subst h; simp [evalW, BinOp.sem, Word.add_assoc_const]
      · simp at h
  · simp at h

theorem mulStruct_sound (a b t : Tm) (h : mulStruct a b = some t) :
    evalW e σ t = Word.mul (evalW e σ a) (evalW e σ b) := by
  unfold mulStruct at h
  split at h
  · split at h
    · rename_i hw; subst hw; simp at h; subst h; simp [evalW, BinOp.sem, Word.mul_shl_one]
    · simp at h
  · split at h
    · rename_i hw; subst hw; simp at h; subst h; simp [evalW, BinOp.sem, Word.shl_one_mul]
    · simp at h
  · simp at h

theorem pow2?_sound (w : Word) (k : Nat) (h : pow2? w = some k) : k < 256 ∧ w = 1#256 <<< k := by
  unfold pow2? at h
  simp only at h
  split at h
  · rename_i hc; simp at hc; simp at h; subst h; exact ⟨hc.1.2, hc.2⟩
  · simp at h

theorem mulConst_sound (a b t : Tm) (h : mulConst a b = some t) :
    evalW e σ t = Word.mul (evalW e σ a) (evalW e σ b) := by
  unfold mulConst at h
  split at h
  · split at h
    · rename_i hw; subst hw; simp at h; subst h; simp [evalW, Word.mul_zero_left]
    · split at h
      · rename_i hw; subst hw; simp at h; subst h; simp [evalW, Word.mul_one_left]
      · split at h
        · rename_i k hk; simp at h; subst h
          obtain ⟨hk1, hk2⟩ := pow2?_sound _ _ hk
          simp only [evalW, BinOp.sem]
          rw [hk2]; exact (Word.mul_twoPow _ _ hk1).symm
        · simp at h
  · simp at h

theorem eqRule_sound (a b t : Tm) (h : eqRule a b = some t) :
    evalW e σ t = Word.eq (evalW e σ a) (evalW e σ b) := by
  unfold eqRule at h
  split at h
  · rename_i hab; subst hab; simp at h; subst h; simp [evalW, Word.eq_self]
  · split at h
    · split at h
      · rename_i hw; subst hw; simp at h; subst h; simp [evalW, mkIszero_sound, Word.eq_zero_left]
      · split at h
        · rename_i hw; simp at hw; obtain ⟨hw1, hw2⟩ := hw; subst hw1; simp at h; subst h
          obtain ⟨b, hb⟩ := isBool_eval e σ _ hw2
          simp [evalW, hb, Word.eq_one_ofBool]
        · split at h
          · split at h
            · rename_i hw; subst hw; simp at h; subst h
              simp [evalW, BinOp.sem, mkIszero_sound, Word.eq_xor_same]
            · simp at h; subst h; simp [evalW, BinOp.sem, Word.eq_xor_const]
          · simp at h
    · split at h
      · rename_i hx; subst hx; simp at h; subst h
        simp [evalW, BinOp.sem, mkIszero_sound, Word.eq_xor_same]
      · split at h
        · rename_i hx; subst hx; simp at h; subst h
          simp [evalW, BinOp.sem, mkIszero_sound, Word.eq_xor_same_right]
        · simp at h
    · split at h
      · rename_i hx; subst hx; simp at h; subst h
        simp only [evalW, BinOp.sem, mkIszero_sound]; rw [Word.eq_comm', Word.eq_xor_same]
      · split at h
        · rename_i hx; subst hx; simp at h; subst h
          simp only [evalW, BinOp.sem, mkIszero_sound]; rw [Word.eq_comm', Word.eq_xor_same_right]
        · simp at h
    · simp at h

omit e σ in
theorem orElse_some {α : Type} {o : Option α} {f : Unit → Option α} {t : α}
    (h : o.orElse f = some t) : o = some t ∨ (o = none ∧ f () = some t) := by
  cases o with
  | none => right; exact ⟨rfl, by simpa using h⟩
  | some x => left; simpa using h

theorem commRule_sound (we : e.wf) (op : BinOp) (a b t : Tm) (h : commRule op a b = some t) :
    evalW e σ t = op.sem (evalW e σ a) (evalW e σ b) := by
  unfold commRule at h
  cases op <;> simp only [BinOp.sem] at * <;> try (simp at h; done)
  · exact addRule_sound e σ a b t h
  · rcases orElse_some h with h | ⟨_, h⟩
    · exact mulStruct_sound e σ a b t h
    · exact mulConst_sound e σ a b t h
  · exact eqRule_sound e σ a b t h
  · rcases orElse_some h with h | ⟨_, h⟩
    · rcases orElse_some h with h | ⟨_, h⟩
      · exact andStruct_sound e σ a b t h
      · exact andConst_sound e σ we a b t h
    · exact andShlRule_sound e σ a b t h
  · rcases orElse_some h with h | ⟨_, h⟩
    · exact orStruct_sound e σ a b t h
    · exact orConst_sound e σ a b t h
  · rcases orElse_some h with h | ⟨_, h⟩
    · exact xorStruct_sound e σ a b t h
    · exact xorConst_sound e σ a b t h

theorem subRule_sound (a b t : Tm) (h : subRule a b = some t) :
    evalW e σ t = Word.sub (evalW e σ a) (evalW e σ b) := by
  unfold subRule at h
  split at h
  · rename_i hab; subst hab; simp at h; subst h; simp [evalW, Word.sub_self]
  · split at h
    · split at h
      · rename_i hw; subst hw; simp at h; subst h; simp [evalW, Word.sub_zero]
      · simp at h
    · simp at h

theorem divRule_sound (a b t : Tm) (h : divRule a b = some t) :
    evalW e σ t = Word.div (evalW e σ a) (evalW e σ b) := by
  unfold divRule at h
  split at h
  · split at h
    · rename_i hw; subst hw; simp at h; subst h; simp [evalW, Word.div_zero]
    · split at h
      · rename_i hw; subst hw; simp at h; subst h; simp [evalW, Word.div_one]
      · split at h
        · rename_i k hk; simp at h; subst h
          obtain ⟨hk1, hk2⟩ := pow2?_sound _ _ hk
          simp only [evalW, BinOp.sem]
          rw [hk2]; exact (Word.div_twoPow _ _ hk1).symm
        · simp at h
  · split at h
    · rename_i hw; subst hw; simp at h; subst h; simp [evalW, BinOp.sem, Word.div_shl_one]
    · split at h
      · split at h
        · rename_i hv; subst hv; simp at h; subst h; simp [evalW, Word.zero_div]
        · simp at h
      · simp at h
  · split at h
    · rename_i hw; subst hw; simp at h; subst h; simp [evalW, Word.zero_div]
    · simp at h
  · simp at h

theorem sdivRule_sound (a b t : Tm) (h : sdivRule a b = some t) :
    evalW e σ t = Word.sdiv (evalW e σ a) (evalW e σ b) := by
  unfold sdivRule at h
  split at h
  · split at h
    · rename_i hw; subst hw; simp at h; subst h; simp [evalW, Word.sdiv_zero]
    · split at h
      · rename_i hw; subst hw; simp at h; subst h; simp [evalW, Word.sdiv_one]
      · simp at h
  · split at h
    · rename_i hw; subst hw; simp at h; subst h; simp [evalW, Word.zero_sdiv]
    · simp at h
  · simp at h

theorem modRule_sound (a b t : Tm) (h : modRule a b = some t) :
    evalW e σ t = Word.mod (evalW e σ a) (evalW e σ b) := by
  unfold modRule at h
  split at h
  · rename_i hab; subst hab; simp at h; subst h; simp [evalW, Word.mod_self]
  · split at h
    · split at h
      · rename_i hw; simp at hw; simp at h; subst h
        rcases hw with rfl | rfl <;> simp [evalW, Word.mod_zero, Word.mod_one]
      · simp at h
    · simp at h

theorem expRule_sound (a b t : Tm) (h : expRule a b = some t) :
    evalW e σ t = Word.exp (evalW e σ a) (evalW e σ b) := by
  unfold expRule at h
  split at h
  · split at h
    · rename_i hw; subst hw; simp at h; subst h; simp [evalW, Word.exp_zero]
    · split at h
      · rename_i hw; subst hw; simp at h; subst h; simp [evalW, Word.exp_one]
      · split at h
        · split at h
          · rename_i hv; subst hv; simp at h; subst h; simp [evalW, Word.one_exp]
          · simp at h
        · simp at h
  · split at h
    · rename_i hw; subst hw; simp at h; subst h; simp [evalW, Word.one_exp]
    · split at h
      · rename_i hw; subst hw; simp at h; subst h; simp [evalW, mkIszero_sound, Word.zero_exp]
      · split at h
        · rename_i hw; subst hw; simp at h; subst h; simp [evalW, BinOp.sem, Word.two_exp]
        · simp at h
  · simp at h

theorem gtRule_sound (a b t : Tm) (h : gtRule a b = some t) :
    evalW e σ t = Word.gt (evalW e σ a) (evalW e σ b) := by
  unfold gtRule at h
  split at h
  · rename_i hab; subst hab; simp at h; subst h; simp [evalW, Word.gt_self]
  · split at h
    · split at h
      · rename_i hw; subst hw; simp at h; subst h; simp [evalW, Word.gt_zero_left]
      · split at h
        · rename_i hw; subst hw; simp at h; subst h; simp [evalW, mkIszero_sound, Word.gt_one_left]
        · simp at h
    · split at h
      · rename_i hw; subst hw; simp at h; subst h; simp [evalW, UnOp.sem, Word.gt_zero]
      · simp at h
    · simp at h

theorem ltRule_sound (a b t : Tm) (h : ltRule a b = some t) :
    evalW e σ t = Word.lt (evalW e σ a) (evalW e σ b) := by
  unfold ltRule at h
  split at h
  · rename_i hab; subst hab; simp at h; subst h; simp [evalW, Word.lt_self]
  · split at h
    · split at h
      · rename_i hw; subst hw; simp at h; subst h; simp [evalW, Word.lt_zero_right]
      · split at h
        · rename_i hw; subst hw; simp at h; subst h; simp [evalW, mkIszero_sound, Word.lt_one_right]
        · simp at h
    · split at h
      · rename_i hw; subst hw; simp at h; subst h; simp [evalW, UnOp.sem, Word.lt_zero_left]
      · simp at h
    · simp at h

theorem shiftRule_sound (a b t : Tm) (h : shiftRule a b = some t) :
    evalW e σ t = Word.shl (evalW e σ a) (evalW e σ b) ∧
    evalW e σ t = Word.shr (evalW e σ a) (evalW e σ b) := by
  unfold shiftRule at h
  split at h
  · split at h
    · rename_i hw; subst hw; simp at h; subst h; simp [evalW, Word.shl_zero_left, Word.shr_zero_left]
    · split at h
      · rename_i hw; simp at h; subst h; simp [evalW, Word.shl_big _ _ hw, Word.shr_big _ _ hw]
      · simp at h
  · split at h
    · rename_i hw; subst hw; simp at h; subst h; simp [evalW, Word.shl_zero_right, Word.shr_zero_right]
    · simp at h
  · simp at h

theorem sarRule_sound (a b t : Tm) (h : sarRule a b = some t) :
    evalW e σ t = Word.sar (evalW e σ a) (evalW e σ b) := by
  unfold sarRule at h
  split at h
  · split at h
    · rename_i hw; subst hw; simp at h; subst h; simp [evalW, Word.sar_zero_left]
    · simp at h
  · simp at h

theorem ncRule_sound (op : BinOp) (a b t : Tm) (h : ncRule op a b = some t) :
    evalW e σ t = op.sem (evalW e σ a) (evalW e σ b) := by
  unfold ncRule at h
  cases op <;> simp only [BinOp.sem] at * <;> try (simp at h; done)
  · exact subRule_sound e σ a b t h
  · exact divRule_sound e σ a b t h
  · exact sdivRule_sound e σ a b t h
  · exact modRule_sound e σ a b t h
  · exact expRule_sound e σ a b t h
  · exact ltRule_sound e σ a b t h
  · exact gtRule_sound e σ a b t h
  · unfold selfZeroRule at h; split at h
    · rename_i hab; subst hab; simp at h; subst h; simp [evalW, Word.slt_self]
    · simp at h
  · unfold selfZeroRule at h; split at h
    · rename_i hab; subst hab; simp at h; subst h; simp [evalW, Word.sgt_self]
    · simp at h
  · exact (shiftRule_sound e σ a b t h).1
  · exact (shiftRule_sound e σ a b t h).2
  · exact sarRule_sound e σ a b t h

theorem mkBin_sound (we : e.wf) (op : BinOp) (a b : Tm) :
    evalW e σ (mkBin op a b) = op.sem (evalW e σ a) (evalW e σ b) := by
  unfold mkBin
  split
  · simp [evalW]
  · split
    · rename_i hc
      simp only
      split
      · cases hr : commRule op a b with
        | none => simp [evalW]
        | some t => simp [commRule_sound e σ we op a b t hr]
      · cases hr : commRule op b a with
        | none => simp only [Option.getD_none, evalW]; exact BinOp.comm_sound op hc _ _
        | some t =>
          simp only [Option.getD_some, commRule_sound e σ we op b a t hr]
          exact BinOp.comm_sound op hc _ _
    · cases hr : ncRule op a b with
      | none => simp [evalW]
      | some t => simp [ncRule_sound e σ op a b t hr]

theorem mkTer_sound (op : TerOp) (a b c : Tm) :
    evalW e σ (mkTer op a b c) = op.sem (evalW e σ a) (evalW e σ b) (evalW e σ c) := by
  unfold mkTer
  split <;> simp [evalW]

theorem mkEnv1_sound (we : e.wf) (n : String) (a : Tm) :
    evalW e σ (mkEnv1 n a) = e.env1 n σ.trace (evalW e σ a) := by
  unfold mkEnv1
  split
  · split
    · rename_i hn; simp at hn; obtain ⟨h1, h2⟩ := hn; subst h1; subst h2
      simp only [evalW]; exact (we.selfbal σ.trace).symm
    · simp [evalW]
  · simp [evalW]

/-! ### memory and storage -/

theorem splitAddr_sound (t : Tm) :
    evalW e σ t = evalW e σ (splitAddr t).1 + (splitAddr t).2 := by
  unfold splitAddr
  split <;> simp [evalW, BinOp.sem, Word.add, BitVec.add_comm]

/-- the byte ranges `[A, A+sa)` and `[B, B+sb)` do not intersect -/
def Disj (A sa B sb : Nat) : Prop := A + sa ≤ B ∨ B + sb ≤ A

theorem disjoint_sound (a : Tm) (sa : Nat) (b : Tm) (sb : Nat) (h : disjoint a sa b sb = true) :
    Disj (evalW e σ a).toNat sa (evalW e σ b).toNat sb := by
  unfold disjoint at h
  rw [Bool.or_eq_true] at h
  rcases h with h | h
  · split at h
    · simp only [decide_eq_true_eq] at h
      simpa [Disj, evalW] using h
    · cases h
  simp only [Bool.and_eq_true, beq_iff_eq, decide_eq_true_eq] at h
  obtain ⟨hbase, h1, h2⟩ := h
  rw [splitAddr_sound e σ a, splitAddr_sound e σ b, hbase]
  generalize evalW e σ (splitAddr b).1 = base at *
  generalize (splitAddr a).2 = oa at *
  generalize (splitAddr b).2 = ob at *
  have hd : (ob - oa).toNat = (ob.toNat + (2 ^ 256 - oa.toNat)) % 2 ^ 256 := by
    rw [BitVec.toNat_sub]; congr 1; omega
  have hA : (base + oa).toNat = (base.toNat + oa.toNat) % 2 ^ 256 := BitVec.toNat_add _ _
  have hB : (base + ob).toNat = (base.toNat + ob.toNat) % 2 ^ 256 := BitVec.toNat_add _ _
  have l1 := base.isLt
  have l2 := oa.isLt
  have l3 := ob.isLt
  unfold Disj
  omega

theorem keysDiffer_sound (a b : Tm) (h : keysDiffer a b = true) : evalW e σ a ≠ evalW e σ b := by
  unfold keysDiffer at h
  simp only [Bool.and_eq_true, beq_iff_eq, bne_iff_ne, ne_eq] at h
  obtain ⟨hbase, hne⟩ := h
  rw [splitAddr_sound e σ a, splitAddr_sound e σ b, hbase]
  intro heq
  apply hne
  apply BitVec.eq_of_toNat_eq
  have h3 := congrArg BitVec.toNat heq
  rw [BitVec.toNat_add, BitVec.toNat_add] at h3
  have l1 := (evalW e σ (splitAddr b).1).isLt
  have l2 := (splitAddr a).2.isLt
  have l3 := (splitAddr b).2.isLt
  omega

theorem writeWord_comm (m : Mem) (A B : Nat) (v w : Word) (h : Disj A 32 B 32) :
    (m.writeWord B w).writeWord A v = (m.writeWord A v).writeWord B w := by
  funext j
  unfold Disj at h
  simp only [Mem.writeWord]
  split <;> split <;> first | rfl | omega

theorem writeWord_writeByte_comm (m : Mem) (A B : Nat) (v w : Word) (h : Disj A 32 B 1) :
    (m.writeByte B w).writeWord A v = (m.writeWord A v).writeByte B w := by
  funext j
  unfold Disj at h
  simp only [Mem.writeWord, Mem.writeByte]
  split <;> split <;> first | rfl | omega

theorem writeByte_comm (m : Mem) (A B : Nat) (v w : Word) (h : Disj A 1 B 1) :
    (m.writeByte B w).writeByte A v = (m.writeByte A v).writeByte B w := by
  funext j
  unfold Disj at h
  simp only [Mem.writeByte]
  split <;> split <;> first | rfl | omega

theorem writeWord_overwrite (m : Mem) (A : Nat) (v w : Word) :
    (m.writeWord A w).writeWord A v = m.writeWord A v := by
  funext j
  simp only [Mem.writeWord]
  split <;> rfl

theorem writeByte_overwrite (m : Mem) (A : Nat) (v w : Word) :
    (m.writeByte A w).writeByte A v = m.writeByte A v := by
  funext j
  simp only [Mem.writeByte]
  split <;> rfl

/-- two memories that agree outside `[A, A+32)` are equal after a word write at `A` -/
theorem writeWord_congr_outside (m₁ m₂ : Mem) (A : Nat) (v : Word)
    (h : ∀ j, j < A ∨ A + 32 ≤ j → m₁ j = m₂ j) : m₁.writeWord A v = m₂.writeWord A v := by
  funext j
  simp only [Mem.writeWord]
  split
  · rfl
  · exact h j (by omega)

theorem memFor_sound (a : Tm) (sz : Nat) (m : Tm) (j : Nat)
    (h1 : (evalW e σ a).toNat ≤ j) (h2 : j < (evalW e σ a).toNat + sz) :
    evalM e σ (memFor a sz m) j = evalM e σ m j := by
  induction m with
  | mstore m b v ihm _ _ =>
    simp only [memFor]
    split
    · rename_i hd
      have := disjoint_sound e σ a sz b 32 hd
      unfold Disj at this
      rw [ihm]
      simp only [evalM]
      rw [Mem.writeWord_out]; omega
    · simp only [evalM, Mem.writeWord]
      split
      · rfl
      · exact ihm
  | mstore8 m b v ihm _ _ =>
    simp only [memFor]
    split
    · rename_i hd
      have := disjoint_sound e σ a sz b 1 hd
      unfold Disj at this
      rw [ihm]
      simp only [evalM, Mem.writeByte]
      split
      · omega
      · rfl
    · simp only [evalM, Mem.writeByte]
      split
      · rfl
      · exact ihm
  | _ => simp [memFor]

theorem mkMload_sound (m a : Tm) :
    evalW e σ (mkMload m a) = (evalM e σ m).readWord (evalW e σ a).toNat := by
  have key : (evalM e σ (memFor a 32 m)).readWord (evalW e σ a).toNat =
      (evalM e σ m).readWord (evalW e σ a).toNat := by
    apply Mem.readWord_congr
    intro i hi
    exact memFor_sound e σ a 32 m _ (by omega) (by omega)
  unfold mkMload
  split
  · rename_i m' b v hm
    split
    · rename_i hab; subst hab
      rw [← key, hm]
      simp only [evalM]
      rw [Mem.readWord_writeWord_same]
    · rw [← key, hm]; simp [evalW]
  · rw [← key]; simp [evalW]

theorem mkKeccak_sound (we : e.wf) (m off len : Tm) :
    evalW e σ (mkKeccak m off len) =
      e.keccak (evalW e σ len).toNat (fun i => (evalM e σ m) ((evalW e σ off).toNat + i)) := by
  unfold mkKeccak
  split
  · rename_i n hn
    unfold constLen? at hn
    split at hn
    · rename_i c
      simp at hn; subst hn
      simp only [evalW]
      apply we.keccak_ext
      intro i hi
      exact memFor_sound e σ off c.toNat m _ (by omega) (by omega)
    · simp at hn
  · simp [evalW]

theorem killMstore_outside (a : Tm) (m : Tm) (j : Nat)
    (hj : j < (evalW e σ a).toNat ∨ (evalW e σ a).toNat + 32 ≤ j) :
    evalM e σ (killMstore a m) j = evalM e σ m j := by
  induction m with
  | mstore m b w ihm _ _ =>
    simp only [killMstore]
    split
    · rename_i hab; subst hab
      rw [ihm]; simp only [evalM]
      rw [Mem.writeWord_out _ _ _ _ hj]
    · simp only [evalM, Mem.writeWord]
      split
      · rfl
      · exact ihm
  | mstore8 m b w ihm _ _ =>
    simp only [killMstore, evalM, Mem.writeByte]
    split
    · rfl
    · exact ihm
  | _ => simp [killMstore]

theorem insMstore_sound (a v m : Tm) :
    evalM e σ (insMstore a v m) = (evalM e σ m).writeWord (evalW e σ a).toNat (evalW e σ v) := by
  induction m with
  | mstore m b w ihm _ _ =>
    simp only [insMstore]
    split
    · rename_i hab; subst hab
      simp only [evalM]; rw [writeWord_overwrite]
    · split
      · rename_i hd
        simp only [Bool.and_eq_true] at hd
        have := disjoint_sound e σ a 32 b 32 hd.1
        simp only [evalM, ihm]
        exact (writeWord_comm _ _ _ _ _ this).symm
      · simp [evalM]
  | mstore8 m b w ihm _ _ =>
    simp only [insMstore]
    split
    · rename_i hd
      simp only [Bool.and_eq_true] at hd
      have := disjoint_sound e σ a 32 b 1 hd.1
      simp only [evalM, ihm]
      exact (writeWord_writeByte_comm _ _ _ _ _ this).symm
    · simp [evalM]
  | _ => simp [insMstore, evalM]

theorem insMstore8_sound (a v m : Tm) :
    evalM e σ (insMstore8 a v m) = (evalM e σ m).writeByte (evalW e σ a).toNat (evalW e σ v) := by
  induction m with
  | mstore8 m b w ihm _ _ =>
    simp only [insMstore8]
    split
    · rename_i hab; subst hab
      simp only [evalM]; rw [writeByte_overwrite]
    · split
      · rename_i hd
        simp only [Bool.and_eq_true] at hd
        have := disjoint_sound e σ a 1 b 1 hd.1
        simp only [evalM, ihm]
        exact (writeByte_comm _ _ _ _ _ this).symm
      · simp [evalM]
  | mstore m b w ihm _ _ =>
    simp only [insMstore8]
    split
    · rename_i hd
      simp only [Bool.and_eq_true] at hd
      have := disjoint_sound e σ a 1 b 32 hd.1
      have hd' : Disj (evalW e σ b).toNat 32 (evalW e σ a).toNat 1 := by
        unfold Disj at *; omega
      simp only [evalM, ihm]
      exact writeWord_writeByte_comm _ _ _ _ _ hd'
    · simp [evalM]
  | _ => simp [insMstore8, evalM]

theorem mkMstore_sound (m a v : Tm) :
    evalM e σ (mkMstore m a v) = (evalM e σ m).writeWord (evalW e σ a).toNat (evalW e σ v) := by
  unfold mkMstore
  split
  · rename_i hv
    rw [hv, mkMload_sound, Mem.writeWord_readWord]
  · rw [insMstore_sound]
    apply writeWord_congr_outside
    intro j hj
    exact killMstore_outside e σ a m j hj

theorem mkMstore8_sound (m a v : Tm) :
    evalM e σ (mkMstore8 m a v) = (evalM e σ m).writeByte (evalW e σ a).toNat (evalW e σ v) := by
  unfold mkMstore8
  exact insMstore8_sound e σ a v m

/-! storage -/

theorem stoWrite_comm (s : Sto) (k j v w : Word) (h : k ≠ j) :
    (s.write j w).write k v = (s.write k v).write j w := by
  funext x
  simp only [Sto.write]
  split <;> split <;> first | rfl | (subst_vars; exact absurd rfl h)

theorem stoWrite_overwrite (s : Sto) (k v w : Word) : (s.write k w).write k v = s.write k v := by
  funext x
  simp only [Sto.write]
  split <;> rfl

theorem stoFor_sound (k s : Tm) : evalS e σ (stoFor k s) (evalW e σ k) = evalS e σ s (evalW e σ k) := by
  induction s with
  | sstore s j v ihs _ _ =>
    simp only [stoFor]
    split
    · rename_i hd
      have := keysDiffer_sound e σ k j hd
      rw [ihs]; simp [evalS, Sto.write, this]
    · simp only [evalS, Sto.write]
      split
      · rfl
      · exact ihs
  | _ => simp [stoFor]

theorem mkSload_sound (s k : Tm) : evalW e σ (mkSload s k) = evalS e σ s (evalW e σ k) := by
  have key := stoFor_sound e σ k s
  unfold mkSload
  split
  · rename_i s' j v hs
    split
    · rename_i hkj; subst hkj
      rw [← key, hs]; simp [evalS, Sto.write]
    · rw [← key, hs]; simp [evalW]
  · rw [← key]; simp [evalW]

theorem killSstore_outside (k s : Tm) (x : Word) (hx : x ≠ evalW e σ k) :
    evalS e σ (killSstore k s) x = evalS e σ s x := by
  induction s with
  | sstore s j w ihs _ _ =>
    simp only [killSstore]
    split
    · rename_i hkj; subst hkj
      rw [ihs]; simp [evalS, Sto.write, hx]
    · simp only [evalS, Sto.write]
      split
      · rfl
      · exact ihs
  | _ => simp [killSstore]

theorem insSstore_sound (k v s : Tm) :
    evalS e σ (insSstore k v s) = (evalS e σ s).write (evalW e σ k) (evalW e σ v) := by
  induction s with
  | sstore s j w ihs _ _ =>
    simp only [insSstore]
    split
    · rename_i hkj; subst hkj
      simp only [evalS]; rw [stoWrite_overwrite]
    · split
      · rename_i hd
        simp only [Bool.and_eq_true] at hd
        have := keysDiffer_sound e σ k j hd.1
        simp only [evalS, ihs]
        exact (stoWrite_comm _ _ _ _ _ this).symm
      · simp [evalS]
  | _ => simp [insSstore, evalS]

theorem mkSstore_sound (s k v : Tm) :
    evalS e σ (mkSstore s k v) = (evalS e σ s).write (evalW e σ k) (evalW e σ v) := by
  unfold mkSstore
  split
  · rename_i hv
    rw [hv, mkSload_sound]
    funext x
    simp only [Sto.write]
    split
    · rename_i hx; rw [hx]
    · rfl
  · rw [insSstore_sound]
    funext x
    simp only [Sto.write]
    split
    · rfl
    · rename_i hx; exact killSstore_outside e σ k s x hx

end
end Norm

/-! ### the three passes -/

open Norm in
theorem norm_sound (e : Env) (we : e.wf) (σ : St) (t : Tm) :
    evalW e σ (normW t) = evalW e σ t ∧ evalM e σ (normM t) = evalM e σ t ∧
      evalS e σ (normS t) = evalS e σ t := by
  induction t with
  | env1 n a iha =>
    refine ⟨?_, by simp [normM], by simp [normS]⟩
    simp [normW, mkEnv1_sound e σ we, evalW, iha.1]
  | un op a iha =>
    refine ⟨?_, by simp [normM], by simp [normS]⟩
    simp [normW, mkUn_sound, evalW, iha.1]
  | bin op a b iha ihb =>
    refine ⟨?_, by simp [normM], by simp [normS]⟩
    simp [normW, mkBin_sound e σ we, evalW, iha.1, ihb.1]
  | ter op a b c iha ihb ihc =>
    refine ⟨?_, by simp [normM], by simp [normS]⟩
    simp [normW, mkTer_sound, evalW, iha.1, ihb.1, ihc.1]
  | mload m a ihm iha =>
    refine ⟨?_, by simp [normM], by simp [normS]⟩
    simp [normW, mkMload_sound, evalW, ihm.2.1, iha.1]
  | sload s k ihs ihk =>
    refine ⟨?_, by simp [normM], by simp [normS]⟩
    simp [normW, mkSload_sound, evalW, ihs.2.2, ihk.1]
  | keccak m off len ihm iho ihl =>
    refine ⟨?_, by simp [normM], by simp [normS]⟩
    simp [normW, mkKeccak_sound e σ we, evalW, ihm.2.1, iho.1, ihl.1]
  | mstore m a v ihm iha ihv =>
    refine ⟨by simp [normW], ?_, by simp [normS]⟩
    simp [normM, mkMstore_sound, evalM, ihm.2.1, iha.1, ihv.1]
  | mstore8 m a v ihm iha ihv =>
    refine ⟨by simp [normW], ?_, by simp [normS]⟩
    simp [normM, mkMstore8_sound, evalM, ihm.2.1, iha.1, ihv.1]
  | sstore s k v ihs ihk ihv =>
    refine ⟨by simp [normW], by simp [normM], ?_⟩
    simp [normS, mkSstore_sound, evalS, ihs.2.2, ihk.1, ihv.1]
  | _ => simp [normW, normM, normS]

theorem norm3_sound : NormSound norm3 where
  w e σ t we := by
    simp only [norm3]
    rw [(norm_sound e we σ _).1, (norm_sound e we σ _).1, (norm_sound e we σ _).1]
  m e σ t we := by
    simp only [norm3]
    rw [(norm_sound e we σ _).2.1, (norm_sound e we σ _).2.1, (norm_sound e we σ _).2.1]
  s e σ t we := by
    simp only [norm3]
    rw [(norm_sound e we σ _).2.2, (norm_sound e we σ _).2.2, (norm_sound e we σ _).2.2]

/-- **The validator is sound**: whenever the executable check `equiv norm3 B B'` answers `true`,
    `B'` is observationally equivalent to `B` on every state and every well-formed environment. -/
theorem equiv_norm3_sound (B B' : List Instr) (h : equiv norm3 B B' = true) : ObsEq B B' :=
  equiv_sound norm3_sound B B' h

end GasolVerif
