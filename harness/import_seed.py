"""usage: import_seed.py <id> <src dir> <name> <caught_by comma list> -- copies a confirmed seeded change into /verif/seeded/"""
import json, os, shutil, sys
sid, src, name, caught = sys.argv[1:5]
dst = "/verif/seeded/%s-%s" % (sid, name)
os.makedirs(dst, exist_ok=True)
for f in os.listdir(src):
    if f.startswith("patch") or f.startswith("demo") or f == "meta.json":
        shutil.copy(os.path.join(src, f), dst)
meta = json.load(open(os.path.join(dst, "meta.json")))
res = open("/tmp/seedchk/%s.result" % sid).read().strip() if os.path.exists("/tmp/seedchk/%s.result" % sid) else ""
meta["breaks_property"] = sid[:3]
meta["confirmed_by_me"] = {"result": res,
                           "what_i_ran": "harness/confirm_seed.sh: scratch worktree of /repo HEAD; demo on clean tree (exit 0), git apply patch.diff, demo (exit 1), "
                                         "baseline pytest command with junit, all 46 stable_pass tests of /root/.vp/BASELINE.json still pass; then "
                                         "harness/seedtest.sh (git -C /repo apply; ./check <ids> --tier quick; git -C /repo checkout -- .)"}
meta["caught_by"] = [c for c in caught.split(",") if c]
json.dump(meta, open(os.path.join(dst, "meta.json"), "w"), indent=1)
print("imported", dst)
