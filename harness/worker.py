"""Worker process: reads one JSON task per line, answers one JSON line.  The real tool prints a lot;
fd 1 is redirected to /dev/null and answers go to the original stdout."""
import os, sys, json, traceback, resource, shutil

_out = os.fdopen(os.dup(1), "w")
_dn = os.open(os.devnull, os.O_WRONLY)
os.dup2(_dn, 1)
os.dup2(_dn, 2)
sys.stdout = os.fdopen(1, "w")

sys.path.insert(0, os.path.dirname(os.path.abspath(__file__)))
try:
    resource.setrlimit(resource.RLIMIT_AS, (3 << 30, 3 << 30))
except Exception:
    pass
_cov = None
if os.environ.get("GV_COVERAGE_DIR"):
    # diagnostic only (not used by any registered command): which lines of the tool do the checks' inputs reach
    import coverage
    _cov = coverage.Coverage(data_file=os.path.join(os.environ["GV_COVERAGE_DIR"], "cov"), data_suffix=True, branch=True,
                             include=[os.environ.get("GASOL_REPO", "/repo") + "/*"])
    _cov.start()
import tasks


def main():
    _out.write(json.dumps({"hello": tasks.impl.paths.gasol_path}) + "\n")
    _out.flush()
    for line in sys.stdin:
        line = line.strip()
        if not line:
            continue
        t = json.loads(line)
        try:
            r = tasks.dispatch(t)
        except MemoryError:
            r = {"harness_error": "MemoryError"}
        except Exception as e:
            r = {"harness_error": "%s: %s" % (type(e).__name__, e), "tb": traceback.format_exc()[-1500:]}
        _out.write(json.dumps(r) + "\n")
        _out.flush()
    tasks.cleanup()
    if _cov is not None:
        _cov.stop()
        _cov.save()


main()
