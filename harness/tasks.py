"""Task implementations executed inside worker processes (real code in process)."""
import os, shutil, time, copy
import impl, vocab


def cleanup():
    try:
        shutil.rmtree(impl.paths.gasol_path, ignore_errors=True)
    except Exception:
        pass


_params_cache = {}


def params_for(opts):
    key = tuple(opts)
    if key not in _params_cache:
        _params_cache[key] = impl.make_params(list(opts))
    p = _params_cache[key]
    impl.apply_globals(p)
    return p


def blk_items(b):
    return [[i.disasm, i.value] for i in b.instructions]


def t_optimize(t):
    """end to end on one plain-text block: optimize + keep-or-revert.  Output tokens of in/out."""
    p = params_for(t["opts"])
    r = {"text": t["text"], "opts": t["opts"]}
    t0 = time.time()
    try:
        bs = impl.parse_block(t["text"])
    except Exception as e:
        r["parse_exception"] = "%s: %s" % (type(e).__name__, e)
        return r
    r["blocks"] = []
    for b in bs:
        e = {"in_items": blk_items(b), "need": b.source_stack}
        try:
            e["in_tokens"] = vocab.tokens_of_block(b)
        except vocab.Unsupported as u:
            e["unsupported"] = str(u)
        try:
            with impl.quiet():
                cand, log, stats = impl.gasol_asm.optimize_asm_block_asm_format(b, p)
            e["cand_items"] = blk_items(cand)
            e["log"] = log
            try:
                with impl.quiet():
                    eq, reason = impl.gasol_asm.compare_asm_block_asm_format(b, cand, p)
                e["eq"] = bool(eq)
                e["reason"] = reason
            except Exception as ex:
                e["compare_exception"] = "%s: %s" % (type(ex).__name__, ex)
                eq = None
            final = cand if eq else b
            if eq is not None:
                e["out_items"] = blk_items(final)
                try:
                    e["out_tokens"] = vocab.tokens_of_block(final)
                    e["cand_tokens"] = vocab.tokens_of_block(cand)
                except vocab.Unsupported as u:
                    e["unsupported"] = str(u)
                e["cost_in"] = [b.gas_spent, b.bytes_required, b.length]
                e["cost_out"] = [final.gas_spent, final.bytes_required, final.length]
        except Exception as ex:
            e["optimize_exception"] = "%s: %s" % (type(ex).__name__, ex)
        r["blocks"].append(e)
    r["wall"] = time.time() - t0
    return r


KINDS = {"optimize": t_optimize}


def dispatch(t):
    return KINDS[t["kind"]](t)
