import GasolVerif.Models.Cost
set_option linter.unusedSimpArgs false
namespace GasolVerif.Cost

theorem go_spec (others : List Int) (any : Bool) :
    improves.go others any = true ↔ (∀ o ∈ others, o ≥ 0) ∧ (any = true ∨ ∃ o ∈ others, o > 0) := by
  induction others generalizing any with
  | nil => simp [improves.go]
  | cons o os ih =>
    simp only [improves.go]
    split
    · rename_i h
      rw [ih]
      simp only [List.mem_cons, forall_eq_or_imp, exists_eq_or_imp]
      constructor
      · rintro ⟨h1, _⟩; exact ⟨⟨by omega, h1⟩, Or.inr (Or.inl h)⟩
      · rintro ⟨⟨_, h1⟩, _⟩; exact ⟨h1, by simp⟩
    · split
      · rename_i h1 h2
        simp only [List.mem_cons, forall_eq_or_imp]
        constructor
        · intro h; cases h
        · rintro ⟨⟨h3, _⟩, _⟩; omega
      · rename_i h1 h2
        rw [ih]
        have ho : o = 0 := by omega
        subst ho
        simp

/-- the acceptance test is exactly: strictly better in the criterion, or equal in it, worse in no
    other measure and strictly better in at least one -/
theorem improves_spec (c : Int) (others : List Int) :
    improves c others = true ↔
      c > 0 ∨ (c = 0 ∧ (∀ o ∈ others, o ≥ 0) ∧ ∃ o ∈ others, o > 0) := by
  unfold improves
  split
  · rename_i h; simp [h]
  · split
    · rename_i h1 h2
      rw [go_spec]
      simp [h2]
    · rename_i h1 h2
      constructor
      · intro h; cases h
      · rintro (h | ⟨h, _⟩) <;> omega

/-- a sub-block replacement that passes the tool's test, *measured by the costs it was given*, never
    costs more in the chosen criterion, and ties are broken only by improvements elsewhere -/
theorem accepted_not_worse (crit : Crit) (ss sg sl : Int) (h : hasBeenOptimized crit ss sg sl = true) :
    match crit with
    | .gas => sg > 0 ∨ (sg = 0 ∧ ss > 0)
    | .size => ss > 0 ∨ (ss = 0 ∧ sg > 0)
    | .length => sl > 0 ∨ (sl = 0 ∧ sg ≥ 0 ∧ ss ≥ 0 ∧ (sg > 0 ∨ ss > 0)) := by
  cases crit <;> simp only [hasBeenOptimized, improves_spec] at h <;> simp only
  · rcases h with h | ⟨h1, h2, o, ho, hp⟩
    · exact Or.inl h
    · simp at ho h2; subst ho; exact Or.inr ⟨h1, hp⟩
  · rcases h with h | ⟨h1, h2, o, ho, hp⟩
    · exact Or.inl h
    · simp at ho h2; subst ho; exact Or.inr ⟨h1, hp⟩
  · rcases h with h | ⟨h1, h2, o, ho, hp⟩
    · exact Or.inl h
    · simp at ho h2
      refine Or.inr ⟨h1, h2.1, h2.2, ?_⟩
      rcases ho with rfl | rfl
      · exact Or.inl hp
      · exact Or.inr hp

/-- costs are additive over concatenation (sub-block replacement changes a block's size and length
    by exactly the saving of the replaced segment) -/
theorem costs_append (p : Bool) (A B : List Instr) :
    costs p (A ++ B) = ⟨(costs p A).gas + (costs p B).gas, (costs p A).bytes + (costs p B).bytes,
      (costs p A).len + (costs p B).len⟩ := by
  simp [costs, List.map_append, List.sum_append]

end GasolVerif.Cost
