"""C03 — simplification rules and constant folding are identities on 256-bit words."""
import random
from collections import Counter
import common, e2e, gen, pool, drv, vocab

M = 2 ** 256
THEOREMS = ["Norm.mkBin_sound", "Norm.mkUn_sound", "Norm.mkTer_sound", "Norm.mkEnv1_sound", "norm_sound",
            "norm3_sound", "equiv_norm3_sound", "BinOp.comm_sound", "Word.wpow_eq", "Word.mul_shl_one",
            "Word.div_shl_one", "Word.and_shl_shl", "Word.iszero_sub", "Word.iszero_xor", "Word.two_exp",
            "Word.zero_exp", "RuleTable.generated_rules_certified"]
SHAPES = [0, 1, 2, 5, 2 ** 160 - 1, 2 ** 255, M - 1, "s(0)", "s(1)"]
GRID = [0, 1, 2, 3, 31, 32, 255, 256, 2 ** 160 - 1, 2 ** 255 - 1, 2 ** 255, M - 2, M - 1]
FUNCT = {"+": "ADD", "-": "SUB", "*": "MUL", "/": "DIV", "^": "EXP", "and": "AND", "or": "OR", "xor": "XOR",
         "%": "MOD", "eq": "EQ", "gt": "GT", "lt": "LT", "shl": "SHL", "shr": "SHR", "sar": "SAR"}


def opnd(v, depth):
    if isinstance(v, int):
        if not 0 <= v < M:
            raise vocab.Unsupported("constant out of range %r" % (v,))
        return "PUSH:%x" % v
    if v == "s(0)":
        return "DUP%d" % (1 + depth)
    if v == "s(1)":
        return "DUP%d" % (2 + depth)
    raise vocab.Unsupported("unknown operand %r" % (v,))


def grid_states():
    return [(7, "%x,%x" % (x, y)) for x in GRID for y in GRID]


def combine_with_result(text, out_items):
    """`out_items` (the optimized form of `text`) followed by `text` with its references to the initial stack shifted past what the first
    part leaves; None when the block is not of the simple pushing kind"""
    import vocab
    first, net = [], 0
    for name, value in out_items:
        if name == "PUSH":
            first.append(gen.push(int(str(value), 16))); net += 1
        elif name == "PUSH0":
            first.append("PUSH0"); net += 1
        elif name.startswith("PUSH") or name in ("tag", "JUMPDEST"):
            return None
        elif name.startswith("DUP"):
            first.append(name); net += 1
        elif name.startswith("SWAP"):
            first.append(name)
        elif name == "POP":
            first.append(name); net -= 1
        elif name in vocab.UN or name in vocab.ENV1:
            first.append(name)
        elif name in vocab.BIN:
            first.append(name); net -= 1
        elif name in vocab.TER:
            first.append(name); net -= 2
        elif name in vocab.ENV0:
            first.append(name); net += 1
        else:
            return None
    if net < 1:
        return None
    toks, out, d, i = text.split(), [], 0, 0
    while i < len(toks):
        t = toks[i]
        i += 1
        if t.startswith("PUSH") and t != "PUSH0":
            if i >= len(toks):
                return None
            out += [t, toks[i]]; i += 1; d += 1
        elif t == "PUSH0" or t in vocab.ENV0:
            out.append(t); d += 1
        elif t.startswith("DUP") and t[3:].isdigit():
            k = int(t[3:])
            k2 = k + net if k > d else k
            if k2 > 16:
                return None
            out.append("DUP%d" % k2); d += 1
        elif t.startswith("SWAP") and t[4:].isdigit():
            k = int(t[4:])
            if k >= d:
                return None          # would move an initial word
            out.append(t)
        elif t in vocab.UN or t in vocab.ENV1:
            if d < 1:
                return None
            out.append(t)
        elif t in vocab.BIN:
            if d < 2:
                return None
            out.append(t); d -= 1
        elif t in vocab.TER:
            if d < 3:
                return None
            out.append(t); d -= 2
        else:
            return None
    return " ".join(first + out)


def run(tier):
    sd = common.seed()
    rng = random.Random(sd * 104729 + 3)
    po = common.proof_obligations("GasolVerif.Proofs.NormSound,GasolVerif.Props.RuleTable", THEOREMS)
    violations = [{"kind": "broken-proof-obligation", "what": b, "no_failing_input": True, "input": b} for b in po["broken"]]
    c = Counter()
    # ---- (a) shape-exhaustive table of apply_transform; (b) folding tables; (d) opcode round trip
    vals = GRID + [rng.randrange(0, M) for _ in range(6 if tier == "quick" else 40)] + [rng.randrange(0, 300) for _ in range(4)]
    binreq = [[f, a, b] for f in FUNCT for a in vals for b in vals]
    if tier == "quick":
        binreq = [r for r in binreq if rng.random() < 0.35 or (r[1] in GRID[:8] and r[2] in GRID[:8])]
    terreq = [[f, rng.choice(vals), rng.choice(vals), rng.choice(vals + [0, 0])] for f in ("addmod", "mulmod") for _ in range(150)]
    allops = [(o, 2) for o in sorted(vocab.BIN)] + [(o, 1) for o in sorted(vocab.UN)] + [(o, 3) for o in sorted(vocab.TER)] + \
             [(o, 0) for o in sorted(vocab.ENV0 - {"DIFFICULTY"})] + [(o, 1) for o in sorted(vocab.ENV1)] + \
             [("MLOAD", 1), ("SLOAD", 1), ("KECCAK256", 2)]
    res = pool.run_tasks([{"kind": "rule_table", "shapes": SHAPES, "timeout": 120},
                          {"kind": "fold_table", "bin": binreq, "ter": terreq, "timeout": 120},
                          {"kind": "opmap_table", "ops": allops, "timeout": 120}], timeout=120, nproc=3)
    for t, r, st in res:
        if st != "ok" or r is None or "harness_error" in r:
            # an internal helper that disappeared is a lost localisation, not a verdict
            c["localisation_unavailable:" + t["kind"]] += 1
    pairs = []
    rt = res[0][1] if res[0][2] == "ok" and res[0][1] and "rows" in res[0][1] else None
    if rt:
        for op, args, r, exc in rt["rows"]:
            c["rule-shapes"] += 1
            if exc is not None:
                violations.append({"kind": "rule-raises", "input": "%s%s" % (op, args), "what": "apply_transform(%s %s) raised %s" % (op, args, exc)})
                continue
            if r == -1:
                continue
            c["rule-fired"] += 1
            try:
                if len(args) == 2:
                    B = " ".join([opnd(args[1], 0), opnd(args[0], 1), op])
                else:
                    B = " ".join([opnd(args[0], 0), op])
                B2 = opnd(r, 0)
            except vocab.Unsupported as u:
                violations.append({"kind": "rule-not-identity", "input": "%s%s" % (op, args), "what": "apply_transform(%s %s) = %r: %s" % (op, args, r, u)})
                continue
            pairs.append({"kind": "rule", "desc": "%s%s -> %r" % (op, args, r), "in_tokens": B, "out_tokens": B2})
    ft = res[1][1] if res[1][2] == "ok" and res[1][1] and "bin" in res[1][1] else None
    if ft:
        for f, a, b, r, exc in ft["bin"]:
            c["fold-rows"] += 1
            desc = "%s(%#x,%#x) -> %r" % (FUNCT[f], a, b, r)
            if exc is not None:
                violations.append({"kind": "fold-raises", "input": desc, "what": "evaluate_expression raised: " + exc + " on " + desc})
                continue
            if not isinstance(r, int) or isinstance(r, bool) or not 0 <= r < M:
                violations.append({"kind": "fold-not-identity", "input": desc, "what": "folded value is not a 256-bit word: " + desc})
                continue
            pairs.append({"kind": "fold", "desc": desc, "in_tokens": "PUSH:%x PUSH:%x %s" % (b, a, FUNCT[f]), "out_tokens": "PUSH:%x" % r})
        for f, a, b, n, r, exc in ft["ter"]:
            c["fold-rows"] += 1
            desc = "%s(%#x,%#x,%#x) -> %r" % (f.upper(), a, b, n, r)
            if exc is not None or not isinstance(r, int) or not 0 <= r < M:
                violations.append({"kind": "fold-not-identity", "input": desc, "what": "ternary folding wrong or raising: %s %s" % (desc, exc)})
                continue
            pairs.append({"kind": "fold", "desc": desc, "in_tokens": "PUSH:%x PUSH:%x PUSH:%x %s" % (n, b, a, f.upper()), "out_tokens": "PUSH:%x" % r})
    om = res[2][1] if res[2][2] == "ok" and res[2][1] and "rows" in res[2][1] else None
    if om:
        for op, names, exc in om["rows"]:
            c["opmap-rows"] += 1
            want = "KECCAK256" if op == "SHA3" else op
            if exc is not None or names != [want]:
                violations.append({"kind": "opcode-round-trip", "input": op,
                                   "what": "specification of a lone %s contains %s (%s)" % (op, names, exc)})
    # judge rule/fold pairs: proved normaliser, else evaluation on the boundary grid
    eq = drv.batch(["EQUIV\t%s\t%s" % (p["in_tokens"], p["out_tokens"]) for p in pairs])
    todo = []
    for p, o in zip(pairs, eq):
        if o == "equiv":
            c[p["kind"] + "-justified-by-proved-table"] += 1
        else:
            todo.append(p)
    reqs, idx = [], []
    for i, p in enumerate(todo):
        for sdx, stk in grid_states():
            reqs.append("EXEC2\t%d\t%s\t%s\t%s" % (sdx, stk, p["in_tokens"], p["out_tokens"]))
            idx.append(i)
    outs = drv.batch(reqs)
    bad = {}
    for i, (r, o) in zip(idx, zip(reqs, outs)):
        if o.startswith("diff") and i not in bad:
            bad[i] = (r.split("\t")[2], o)
    for i, p in enumerate(todo):
        if i in bad:
            violations.append({"kind": p["kind"] + "-not-identity", "input": p["desc"],
                               "what": "%s is not an identity: X,Y = %s gives %s" % (p["desc"], bad[i][0], bad[i][1]),
                               "state": bad[i][0]})
        else:
            violations.append({"kind": p["kind"] + "-not-in-proved-table", "input": p["desc"], "no_failing_input": True,
                               "what": "correspondence broken: the code rewrites %s, which theorem norm_sound does not justify" % p["desc"]})
    # ---- (c) rule-heavy blocks through the real front end, rules on and off
    n = 300 if tier == "quick" else 4000
    blocks = gen.blocks(sd * 7 + 5, n, profiles=("arith", "rules", "mixed"))
    runs = e2e.run_optimize(blocks, [["-greedy"], ["-greedy", "-size"], ["-greedy", "-no-simplification"]], assign="all")
    # the systematic neighbourhood of the rules (every template x every operator of its family x small constants)
    corpus = gen.rule_corpus()
    c["rule-neighbourhood-blocks"] = len(corpus)
    runs += e2e.run_optimize(corpus, [["-greedy"]] if tier == "quick" else [["-greedy"], ["-greedy", "-size"], ["-greedy", "-length"]], assign="all")
    # second pass: the block a rule produced, followed by the block itself (stack references shifted): when the rule fires again its result
    # already exists in the block, which is a branch of its own in every rule ("new_exist")
    second = []
    for text, opts, e, st in runs:
        if e is not None and opts == ["-greedy"] and e.get("out_items") and e.get("out_tokens") != e.get("in_tokens"):
            comb = combine_with_result(text, e["out_items"])
            if comb:
                second.append(comb)
            # the same with the operands of the result's last non-commutative operation exchanged: an instruction that LOOKS like the rule's
            # result (same opcode, same operands in the other order) is present; the rule may not take it for its result
            oi = [list(x) for x in e["out_items"]]
            idx = [i for i, (nm, _) in enumerate(oi) if nm in ("SHR", "SHL", "SAR", "SUB", "DIV", "SDIV", "MOD", "SMOD", "LT", "GT", "SLT", "SGT", "EXP", "BYTE", "SIGNEXTEND")]
            if idx:
                sw = oi[:idx[-1]] + [["SWAP1", None]] + oi[idx[-1]:]
                comb2 = combine_with_result(text, sw)
                if comb2:
                    second.append(comb2)
    second = list(dict.fromkeys(second))
    if tier == "quick" and len(second) > 500:
        second = rng.sample(second, 500)
    c["rule-result-already-present-blocks"] = len(second)
    runs += e2e.run_optimize(second, [["-greedy"]], assign="all")
    bpairs = []
    for text, opts, e, st in runs:
        if e is None:
            c["run:" + st.split(":")[0]] += 1
            continue
        c["blocks"] += 1
        if "out_tokens" not in e or "unsupported" in e:
            c["no-output"] += 1
            continue
        if e["out_tokens"] == e["in_tokens"]:
            c["unchanged"] += 1
            continue
        bpairs.append({"text": text, "opts": opts, "in_tokens": e["in_tokens"], "out_tokens": e["out_tokens"], "need": e["need"]})
    e2e.judge_pairs(bpairs, 24 if tier == "quick" else 48, rng)
    samples = []
    for p in bpairs:
        c["block-" + p["verdict"]] += 1
        if p["verdict"] == "diff":
            violations.append({"kind": "rules-change-the-block", "input": p["text"], "options": p["opts"],
                               "what": "%s => %s: %s" % (p["text"], p["out_tokens"], p["detail"]), "state": p["state"]})
        elif p["verdict"] in ("inconsistent", "error"):
            raise common.MachineryError("validator/driver inconsistency: %s" % p)
        elif len(samples) < 4:
            samples.append({"input": p["text"], "options": p["opts"], "candidate": p["out_tokens"], "verdict": p["verdict"]})
    if rt:
        samples.append({"rule-table-row": rt["rows"][8]})
    cov = {"obligations": po["obligations"], "discharged": po["discharged"],
           "checker_cmd": "cd lean && lake build GasolVerif gvdrv; #print axioms on the rule, folding and normaliser theorems",
           "trusted_base": ["Lean 4.33 kernel", "axioms: propext, Classical.choice, Quot.sound", "lean/GasolVerif/Word.lean as EVM arithmetic",
                            "correspondence is one-directional: every rewrite the code performs must be justified by the proved table"],
           "axioms": po["axioms"], "dispatched_rule_opcodes": rt["ops"] if rt else None,
           "evaluations": c["rule-shapes"] + c["fold-rows"] + c["opmap-rows"] + c["blocks"],
           "distinct_nontrivial": c["rule-fired"] + c["fold-rows"] + len(bpairs),
           "rule": "apply_transform on every dispatched opcode x shapes %s (shape-exhaustive: the function branches on shape only); "
                   "folding on boundary grid^2 + random words; opcode round trip on every opcode; rule-heavy generated blocks "
                   "x {default,-size,-no-simplification}; non-trivial = a rewrite/fold happened" % SHAPES,
           "samples": samples, "counters": dict(c), "exhaustive": False}
    return {"level": "proof", "coverage": cov, "violations": violations,
            "assumptions": ["apply_transform depends on its operands only through the shapes enumerated",
                            "Env.wf (addresses are 160-bit, BALANCE(ADDRESS)=SELFBALANCE) for the environment rules"]}


def replay(v):
    print(v.get("what"))
    return 1
