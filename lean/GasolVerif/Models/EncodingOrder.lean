/-
  (M) C06: the order part of the Max-SMT encoding with the direct memory encoding (the default):
  `each_instruction_is_used_at_least_once`, `each_function_is_used_at_most_once` for stores
  (synthesis_additional_constraints.py) and the store/store, store/load, load/store constraints of
  `dependent_pre_order` (synthesis_pre_order.py), as raw constructor trees.   No Mathlib.
-/
import GasolVerif.Models.Encoding
namespace GasolVerif.Enc
open GasolVerif.Formula

/-- `add_distinct(t_j, theta)` -/
def tNe (I : Inst) (j th : Nat) : F := .conn .distinct [tA j, thetaF I th]

/-- a declared dependence `bef` before `aft` (theta values) and whether each end is a store (`'STORE' in id`) -/
structure OrderPair where
  bef : Nat
  aft : Nat
  befStore : Bool
  aftStore : Bool
  deriving Repr, Inhabited, DecidableEq

def lbOf (I : Inst) (th : Nat) : Nat := ((I.instrs.find? (·.theta == th)).map (·.lb)).getD 0
def ubOf (I : Inst) (th : Nat) : Nat := ((I.instrs.find? (·.theta == th)).map (·.ub)).getD 0

/-- `happens_before_direct(j, sf, bounds, th1, th2)`: `th2` at `j` needs `th1` at an earlier admissible position -/
def happensBefore (I : Inst) (j th1 th2 : Nat) : F :=
  let ps := (rangeL (lbOf I th1) j).map fun i => isT I i th1
  if ps.isEmpty then tNe I j th2 else .conn .imp [isT I j th2, .conn .or ps]

/-- `sto_ld_dependency`: the store at `j` excludes the load at every earlier admissible position -/
def stoLd (I : Inst) (j thSto thLd : Nat) : Option F :=
  let ps := (rangeL (lbOf I thLd) j).map fun i => tNe I i thLd
  if ps.isEmpty then none else some (.conn .imp [isT I j thSto, .conn .and ps])

/-- `ld_sto_dependency`: the store at `j` excludes the load at every later admissible position -/
def ldSto (I : Inst) (j thLd thSto : Nat) : Option F :=
  let ps := (rangeL (j + 1) (ubOf I thLd + 1)).map fun i => tNe I i thLd
  if ps.isEmpty then none else some (.conn .imp [isT I j thSto, .conn .and ps])

/-- the constraints `dependent_pre_order` emits for one order tuple -/
def pairRaw (I : Inst) (p : OrderPair) : List F :=
  if p.befStore && p.aftStore then
    (rangeL (lbOf I p.aft) (ubOf I p.aft + 1)).map fun j => happensBefore I j p.bef p.aft
  else if p.befStore then
    (rangeL (max 1 (max (lbOf I p.aft + 1) (lbOf I p.bef))) (ubOf I p.bef + 1)).filterMap fun j => stoLd I j p.bef p.aft
  else
    (rangeL (lbOf I p.aft) (min (I.b0 - 1) (min (ubOf I p.bef) (ubOf I p.aft + 1)))).filterMap fun j => ldSto I j p.bef p.aft

/-- `each_instruction_is_used_at_least_once` for one instruction -/
def atLeastOnce (I : Inst) (th : Nat) : F :=
  .conn .or ((rangeL (lbOf I th) (ubOf I th + 1)).map fun j => isT I j th)

/-- `each_function_is_used_at_most_once` for one instruction -/
def atMostOnce (I : Inst) (th : Nat) : List F :=
  if ubOf I th > lbOf I th then
    (rangeL (lbOf I th) (ubOf I th + 1)).map fun j =>
      F.conn .imp [isT I j th, .conn .and (((rangeL (lbOf I th) (ubOf I th + 1)).filter (· ≠ j)).map fun k => tNe I k th)]
  else []

def isStoreKind : Kind → Bool
  | .store _ _ => true
  | _ => false

def storeThetas (I : Inst) : List Nat := (I.instrs.filter fun ins => isStoreKind ins.kind).map (·.theta)

/-- the order part of the hard constraints (direct memory encoding) -/
def orderRaw (I : Inst) (pairs : List OrderPair) : List F :=
  (storeThetas I).map (atLeastOnce I) ++ (storeThetas I).flatMap (atMostOnce I) ++ pairs.flatMap (pairRaw I)

/-- side conditions on the instance: theta values name instructions uniquely and every admissible position lies
    inside the program -/
def orderOk (I : Inst) : Bool :=
  decide (I.instrs.map (·.theta)).Nodup && I.instrs.all fun ins => decide (ins.ub < I.b0)

/-- building each raw tree through the constructor model (`none`: a constructor raises) -/
def buildAll (raws : List F) : Option (List F) :=
  raws.mapM fun f => match build f with
    | .ok r => some r
    | .error _ => none

/-- uninterpreted theta values: `expressions_are_distinct(theta_0, …, theta_{n-1})` -/
def thetaDistinctRaw (I : Inst) : F := .conn .distinct ((List.range I.instrs.length).map fun k => thetaF I k)

/-- theta values are the numbers `0 … n-1`, each naming one instruction -/
def thetasOk (I : Inst) : Bool :=
  decide (I.instrs.map (·.theta)).Nodup && I.instrs.all fun ins => decide (ins.theta < I.instrs.length)

/-! ### the `l_vars` memory encoding -/

def lA (th : Nat) : F := .atom s!"l_{th}" false []

/-- `restrict_l_domain` -/
def lDomain (I : Inst) (th : Nat) : F :=
  .conn .or ((rangeL (lbOf I th) (ubOf I th + 1)).map fun (j : Nat) => F.conn .eq [lA th, .num (j : Int)])

/-- `mem_variable_equivalence_constraint`: `(t_j = theta) = (l_theta = j)` -/
def lEquiv (I : Inst) (j th : Nat) : F := .conn .eq [isT I j th, .conn .eq [lA th, .num (j : Int)]]

/-- `l_variable_order_constraint` -/
def lOrder (th1 th2 : Nat) : F := .conn .lt [lA th1, lA th2]

/-- the constraints of `l_conflicting_constraints` for the instructions `ls` (those that occur exactly once) and
    the edges `(before, after)` of the dependency graph between them -/
def lRaw (I : Inst) (ls : List Nat) (edges : List (Nat × Nat)) : List F :=
  (ls.flatMap fun th => lDomain I th :: (rangeL (lbOf I th) (ubOf I th + 1)).map fun j => lEquiv I j th) ++
  (edges.filter fun e => ls.contains e.1 && ls.contains e.2).map fun e => lOrder e.1 e.2

def L (v : Val) (th : Nat) : Int := v.i s!"l_{th}" []

end GasolVerif.Enc
