/-
  (P) C17: the PUSH0 flag changes the price of a zero push and nothing else (`costs_flag`, `saving_flag`);
  contract selection leaves every other contract as it was (`selection_frame`).   No Mathlib.
-/
import GasolVerif.Proofs.CostSound
namespace GasolVerif.Cost

/-- number of zero pushes (`PUSH 0` / `PUSH0`: one instruction in the machine) -/
def zeroPushes (B : List Instr) : Nat :=
  (B.filter fun i => match i with | .push w => w == 0#256 | _ => false).length

theorem gasOf_flag (i : Instr) :
    gasOf false i = gasOf true i + (match i with | .push w => if w == 0#256 then 1 else 0 | _ => 0) := by
  cases i with
  | push w => by_cases hw : w = 0#256 <;> simp [gasOf, hw]
  | _ => simp only [gasOf, Nat.add_zero]

theorem bytesOf_flag (i : Instr) :
    bytesOf false i = bytesOf true i + (match i with | .push w => if w == 0#256 then 1 else 0 | _ => 0) := by
  cases i with
  | push w =>
    by_cases hw : w = 0#256
    · subst hw; simp [bytesOf, byteLen]
    · simp [bytesOf, hw]
  | _ => simp only [bytesOf, Nat.add_zero]

/-- **a zero push is priced as PUSH0 (2 gas, 1 byte) when the flag is on and as PUSH1 0 (3 gas, 2 bytes) when it is
    off; nothing else depends on the flag** -/
theorem costs_flag (B : List Instr) :
    (costs false B).gas = (costs true B).gas + zeroPushes B ∧
    (costs false B).bytes = (costs true B).bytes + zeroPushes B ∧
    (costs false B).len = (costs true B).len := by
  induction B with
  | nil => simp [costs, zeroPushes]
  | cons i B ih =>
    simp only [costs, List.map_cons, List.sum_cons, zeroPushes, List.filter_cons] at ih ⊢
    have hg := gasOf_flag i
    have hb := bytesOf_flag i
    obtain ⟨h1, h2, h3⟩ := ih
    cases i with
    | push w =>
      simp only at hg hb
      by_cases hw : (w == 0#256) = true
      · simp only [hw, if_true, List.length_cons] at hg hb ⊢
        refine ⟨by omega, by omega, by omega⟩
      · simp only [hw, if_false, Bool.false_eq_true] at hg hb ⊢
        refine ⟨by omega, by omega, by omega⟩
    | _ =>
      simp only [Nat.add_zero] at hg hb
      simp only [Bool.false_eq_true, if_false]
      refine ⟨by omega, by omega, by omega⟩

/-- the savings the tool computes for a replacement differ between the two flag values exactly by the number of zero
    pushes removed: the same flag on both sides gives a consistent comparison -/
theorem saving_flag (B B' : List Instr) :
    ((costs false B).gas : Int) - (costs false B').gas =
      ((costs true B).gas : Int) - (costs true B').gas + ((zeroPushes B : Int) - zeroPushes B') ∧
    ((costs false B).bytes : Int) - (costs false B').bytes =
      ((costs true B).bytes : Int) - (costs true B').bytes + ((zeroPushes B : Int) - zeroPushes B') := by
  have h1 := costs_flag B
  have h2 := costs_flag B'
  omega

/-! contract selection: only the selected contract's code may change -/

structure Contract (α : Type) where
  name : String
  code : α

/-- `-c name`: the optimizer `opt` is applied to the selected contract and to no other -/
def optimizeSelected {α : Type} (sel : Option String) (opt : α → α) (cs : List (Contract α)) : List (Contract α) :=
  cs.map fun c => if sel = none ∨ sel = some c.name then { c with code := opt c.code } else c

theorem selection_frame {α : Type} (sel : String) (opt : α → α) (cs : List (Contract α)) :
    ∀ c ∈ cs, c.name ≠ sel → c ∈ optimizeSelected (some sel) opt cs := by
  intro c hc hn
  simp only [optimizeSelected, List.mem_map]
  refine ⟨c, hc, ?_⟩
  simp [Ne.symm hn]

theorem selection_names {α : Type} (sel : Option String) (opt : α → α) (cs : List (Contract α)) :
    (optimizeSelected sel opt cs).map (·.name) = cs.map (·.name) := by
  simp only [optimizeSelected, List.map_map]
  apply List.map_congr_left
  intro c _
  simp only [Function.comp]
  split <;> rfl

end GasolVerif.Cost
