/-
  (F) Symbolic terms over the initial state of a block and their meaning.
  One syntactic class for word-, memory- and storage-valued terms; an ill-sorted term has a
  junk (but fixed) value, which is harmless: every theorem is an equation between evaluations.
-/
import GasolVerif.Evm
namespace GasolVerif

inductive Tm
  | const (w : Word)
  | var (i : Nat)            -- i-th word of the initial stack (0 = top)
  | sym (s : String)         -- pseudo-push
  | env0 (n : String)
  | env1 (n : String) (a : Tm)
  | un (op : UnOp) (a : Tm)
  | bin (op : BinOp) (a b : Tm)
  | ter (op : TerOp) (a b c : Tm)
  | mload (m a : Tm)
  | sload (s k : Tm)
  | keccak (m off len : Tm)
  | mem0
  | mstore (m a v : Tm)
  | mstore8 (m a v : Tm)
  | sto0
  | sstore (s k v : Tm)
  deriving DecidableEq, Repr, Inhabited

mutual
def evalW (e : Env) (σ : St) : Tm → Word
  | .const w => w
  | .var i => σ.stack.getD i 0#256
  | .sym s => e.sym s
  | .env0 n => e.env0 n σ.trace
  | .env1 n a => e.env1 n σ.trace (evalW e σ a)
  | .un op a => op.sem (evalW e σ a)
  | .bin op a b => op.sem (evalW e σ a) (evalW e σ b)
  | .ter op a b c => op.sem (evalW e σ a) (evalW e σ b) (evalW e σ c)
  | .mload m a => (evalM e σ m).readWord (evalW e σ a).toNat
  | .sload s k => (evalS e σ s) (evalW e σ k)
  | .keccak m off len =>
      e.keccak (evalW e σ len).toNat (fun i => (evalM e σ m) ((evalW e σ off).toNat + i))
  | _ => 0#256
def evalM (e : Env) (σ : St) : Tm → Mem
  | .mem0 => σ.mem
  | .mstore m a v => (evalM e σ m).writeWord (evalW e σ a).toNat (evalW e σ v)
  | .mstore8 m a v => (evalM e σ m).writeByte (evalW e σ a).toNat (evalW e σ v)
  | _ => σ.mem
def evalS (e : Env) (σ : St) : Tm → Sto
  | .sto0 => σ.sto
  | .sstore s k v => (evalS e σ s).write (evalW e σ k) (evalW e σ v)
  | _ => σ.sto
end

end GasolVerif
