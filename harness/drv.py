"""Batch access to the Lean driver (lean/.lake/build/bin/gvdrv): one request line -> one response line."""
import os, subprocess, tempfile

ROOT = os.path.dirname(os.path.dirname(os.path.abspath(__file__)))
EXE = os.path.join(ROOT, "lean", ".lake", "build", "bin", "gvdrv")


def batch(lines, nproc=16, timeout=3600):
    """Run request lines through gvdrv (split over processes); returns list of responses.  A driver that does not answer within
    `timeout` seconds is a machinery failure (exit 2), never a verdict."""
    if not lines:
        return []
    for l in lines:
        assert "\n" not in l
    n = max(1, min(nproc, len(lines) // 200 + 1))
    chunks = [lines[i::n] for i in range(n)]
    procs = []
    for ch in chunks:
        p = subprocess.Popen([EXE], stdin=subprocess.PIPE, stdout=subprocess.PIPE, text=True)
        procs.append((p, ch))
    import threading
    outs = [None] * n

    def run(i, p, ch):
        try:
            o, _ = p.communicate("\n".join(ch) + "\n", timeout=timeout)
        except subprocess.TimeoutExpired:
            p.kill()
            p.communicate()
            outs[i] = None
            return
        outs[i] = o.split("\n")
        if outs[i] and outs[i][-1] == "":
            outs[i].pop()
    th = [threading.Thread(target=run, args=(i, p, ch)) for i, (p, ch) in enumerate(procs)]
    for t in th:
        t.start()
    for t in th:
        t.join()
    res = [None] * len(lines)
    for i in range(n):
        if outs[i] is None:
            raise RuntimeError("driver did not answer %d requests within %d s (first: %s)" % (len(chunks[i]), timeout, chunks[i][0][:200]))
        if len(outs[i]) != len(chunks[i]):
            raise RuntimeError("driver answered %d lines for %d requests" % (len(outs[i]), len(chunks[i])))
        for j, o in enumerate(outs[i]):
            res[i + j * n] = o
    return res
