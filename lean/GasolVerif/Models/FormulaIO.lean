/-
  Line-protocol glue for the formula model: an S-expression reader and truth-table comparison.
  Search/observation code (unverified).
    T | F | #<int> | (a <name> <b|i> args…) | (c <connective> args…)
-/
import GasolVerif.Models.Formula
namespace GasolVerif.Formula

def tokenize (s : String) : List String :=
  let rec go (cs : List Char) (cur : String) (acc : List String) : List String :=
    match cs with
    | [] => (if cur.isEmpty then acc else cur :: acc).reverse
    | c :: rest =>
      if c == '(' || c == ')' then
        go rest "" (String.singleton c :: (if cur.isEmpty then acc else cur :: acc))
      else if c == ' ' then go rest "" (if cur.isEmpty then acc else cur :: acc)
      else go rest (cur.push c) acc
  go s.toList "" []

mutual
partial def parseF : List String → Option (F × List String)
  | "T" :: r => some (.lit true, r)
  | "F" :: r => some (.lit false, r)
  | "(" :: "a" :: n :: s :: r =>
    match parseArgs r with
    | some (args, r') => some (.atom n (s == "b") args, r')
    | none => none
  | "(" :: "c" :: n :: r =>
    match Conn.ofName? n, parseArgs r with
    | some c, some (args, r') => some (.conn c args, r')
    | _, _ => none
  | t :: r =>
    if t.startsWith "#" then ((t.drop 1).toString.toInt?).map fun n => (.num n, r) else none
  | [] => none
partial def parseArgs : List String → Option (List F × List String)
  | ")" :: r => some ([], r)
  | ts =>
    match parseF ts with
    | some (f, r) =>
      match parseArgs r with
      | some (fs, r') => some (f :: fs, r')
      | none => none
    | none => none
end

def parse? (s : String) : Option F :=
  match parseF (tokenize s) with
  | some (f, []) => some f
  | _ => none

mutual
partial def atomsOf : F → List (String × Bool)
  | .atom n s args => (n, s) :: atomsOfList args
  | .conn _ args => atomsOfList args
  | _ => []
partial def atomsOfList : List F → List (String × Bool)
  | [] => []
  | a :: as => atomsOf a ++ atomsOfList as
end

/-- the `k`-th valuation over the given atom names -/
def valuation (names : List String) (k : Nat) : Val where
  b n args := ((k / 2 ^ (names.idxOf n)) + (args.foldl (fun a x => a * 3 + x.toNat) 0)) % 2 == 1
  i n args := Int.ofNat (((k / 3 ^ (names.idxOf n)) + (args.foldl (fun a x => a * 5 + x.toNat) 0)) % 3)

/-- first valuation (index) on which the two formulas differ, as booleans or as integers -/
def truthDiff (f g : F) : Option Nat :=
  let names := ((atomsOf f ++ atomsOf g).map (·.1)).eraseDups
  let n := min (3 ^ names.length * 2) 2048
  (List.range n).find? fun k =>
    let v := valuation names k
    evalB v f != evalB v g || (!f.isBoolSorted && evalI v f != evalI v g)

mutual
partial def showF : F → String
  | .lit true => "T" | .lit false => "F"
  | .num n => s!"#{n}"
  | .atom n s args => s!"(a {n} {if s then "b" else "i"}{showFs args})"
  | .conn c args => s!"(c {c.name}{showFs args})"
partial def showFs : List F → String
  | [] => ""
  | a :: as => " " ++ showF a ++ showFs as
end

/-- FORMULA request: raw tree, what the real constructors returned (or `RAISE`), rendered text -/
def handleFormula (raw built text : String) : String :=
  match parse? raw with
  | none => "error:parse-raw"
  | some r =>
    let model := build r
    if built == "RAISE" then
      match model with
      | .error _ => "model=same-raise"
      | .ok m => "model=diff:code-raises-model-gives:" ++ showF m
    else
    match parse? built with
    | none => "error:parse-built"
    | some b =>
      let ms := match model with
        | .ok m => if F.beq m b then "same" else "diff:" ++ showF m
        | .error _ => "diff:model-raises"
      let rs := if render b == text then "same" else "diff:" ++ render b
      let ts := match truthDiff r b with
        | none => "same"
        | some k => s!"diff:valuation-{k}"
      let ws := if r.ws then "ws" else "ill-sorted"
      s!"model={ms};render={rs};truth={ts};{ws}"

/-- PYEQ request: two built formulas and Python's answer to `f == g` -/
def handlePyEq (fs gs py : String) : String :=
  match parse? fs, parse? gs with
  | some f, some g =>
    let m := pyEq f g
    let ts := match truthDiff f g with
      | none => "same"
      | some k => s!"diff:valuation-{k}"
    s!"model={if m == (py == "1") then "same" else "diff"};truth={ts};{if f.ws && g.ws then "ws" else "ill-sorted"}"
  | _, _ => "error:parse"

end GasolVerif.Formula
