"""C11 — log replay reproduces the optimized code and rejects tampered logs."""
import json, random
from collections import Counter
import common, docrun, pool, drv, vocab, e2e
from props.c10 import block_map, tokens

THEOREMS = ["Pipeline.replay_sound", "Pipeline.replay_roundtrip", "equiv_norm3_sound"]


def tamper(rng, log, all_ids):
    """one edit of a log (dict block -> id list)"""
    log = {k: list(v) for k, v in log.items()}
    keys = [k for k in log if log[k]]
    if not keys:
        return "empty", log
    k = rng.choice(keys)
    seq = log[k]
    kind = rng.choice(["substitute", "delete", "duplicate", "permute", "foreign", "raw-opcode", "truncate", "drop-block", "swap-blocks"])
    if kind == "substitute":
        seq[rng.randrange(len(seq))] = rng.choice(all_ids)
    elif kind == "delete":
        del seq[rng.randrange(len(seq))]
    elif kind == "duplicate":
        i = rng.randrange(len(seq)); seq.insert(i, seq[i])
    elif kind == "permute":
        rng.shuffle(seq)
    elif kind == "foreign":
        other = rng.choice(keys); seq.insert(rng.randrange(len(seq) + 1), rng.choice(log[other]))
    elif kind == "raw-opcode":
        seq.insert(rng.randrange(len(seq) + 1), rng.choice(["ADD", "POP", "DUP1", "SWAP1", "JUMPDEST", "STOP", "PUSH0", "MSTORE", "NOT", "CALLER"]))
    elif kind == "truncate":
        log[k] = seq[:len(seq) // 2]
    elif kind == "drop-block":
        del log[k]
    else:
        o = rng.choice(keys); log[k], log[o] = log[o], log[k]
    return kind, log


def run(tier):
    sd = common.seed()
    rng = random.Random(sd * 1151 + 37)
    po = common.proof_obligations("GasolVerif.Pipeline,GasolVerif.Proofs.NormSound", THEOREMS)
    violations = [{"kind": "broken-proof-obligation", "what": b, "no_failing_input": True, "input": b} for b in po["broken"]]
    c = Counter()
    import docs
    rdoc, redits = docs.reorder_doc()
    dl = docrun.synthesized(sd + 71, 4 if tier == "quick" else 16, ncontracts=2, nblocks=5) + docs.analysis_failing() + [rdoc, docs.many_subblocks_doc()]
    samples = []
    for opts in (["-greedy"], ["-greedy", "-storage", "-push0"]) if tier == "quick" else (["-greedy"], ["-greedy", "-storage"], ["-greedy", "-push0"], ["-greedy", "-size", "-partition"]):
        first = docrun.run_docs(dl, opts + ["-log"])
        for (name, d), r in zip(dl, first):
            res = r["res"]
            base = name.split(".")[0]
            outname, logname = base + "_optimized.json_solc", base + ".log"
            if r["status"] != "ok" or not res or res.get("rc") != 0 or outname not in res["files"] or logname not in res["files"]:
                violations.append({"kind": "no-log-or-output", "input": name, "options": opts, "what": "run of %s with -log: rc %s files %s" % (name, (res or {}).get("rc"), list((res or {}).get("files", {})))})
                continue
            c["documents"] += 1
            log = json.loads(res["files"][logname])
            text = d if isinstance(d, str) else json.dumps(d)
            # (a) faithful replay
            rp = pool.run_tasks([{"kind": "cli", "files": {name: text, logname: res["files"][logname]}, "args": [name] + opts + ["-optimize-from-log", logname], "timeout": 300}], timeout=300)[0]
            rr = rp[1]
            rname = base + "_optimized_from_log.json_solc"
            if rp[2] != "ok" or not rr or rr.get("rc") != 0 or rname not in rr.get("files", {}):
                violations.append({"kind": "replay-of-own-log-fails", "input": name, "options": opts,
                                   "what": "replaying the log of %s (%s) ended rc=%s: %s" % (name, opts, (rr or {}).get("rc"), ((rr or {}).get("stderr_tail") or "")[-300:])})
            elif rr["files"][rname] != res["files"][outname]:
                violations.append({"kind": "replay-differs-from-run", "input": name, "options": opts,
                                   "what": "the file replayed from the log of %s (%s) is not byte-identical to the optimized file" % (name, opts)})
            else:
                c["faithful-replays"] += 1
            # (b) tampered logs
            all_ids = sorted({i for v in log.values() for i in v})
            inp = block_map(d)
            tasks, kinds = [], []
            # at least one edit aimed at every block of the log (repeated blocks included), plus random ones
            targets = [k for k in log if log[k]]
            if tier == "quick":
                targets = targets[:10] if len(targets) <= 10 else rng.sample(targets, 10)
            edits = []
            for k in targets:
                seq = list(log[k])
                tl = {a: list(b) for a, b in log.items()}
                how = rng.choice(["swap-first-two", "delete", "duplicate", "substitute"])
                if how == "swap-first-two" and len(seq) > 1:
                    seq[0], seq[1] = seq[1], seq[0]
                elif how == "delete":
                    del seq[rng.randrange(len(seq))]
                elif how == "duplicate":
                    i = rng.randrange(len(seq)); seq.insert(i, seq[i])
                else:
                    seq[rng.randrange(len(seq))] = rng.choice(all_ids or ["ADD"])
                if seq != log[k]:
                    tl[k] = seq
                    edits.append(("targeted-" + how, tl))
            for _ in range(4 if tier == "quick" else 12):
                edits.append(tamper(rng, log, all_ids or ["ADD"]))
            if name == rdoc[0]:
                # the same accesses in the opposite order, every operation still applied to its own operands
                for honest, tampered in redits:
                    for k in log:
                        if log[k] == honest:
                            tl = {a: list(b) for a, b in log.items()}
                            tl[k] = list(tampered)
                            edits.append(("accesses-reordered-stack-correct", tl))
            for kind, tl in edits:
                kinds.append(kind)
                tasks.append({"kind": "cli", "files": {name: text, logname: json.dumps(tl)}, "args": [name] + opts + ["-optimize-from-log", logname], "timeout": 300})
            for kind, (t, tr, st) in zip(kinds, pool.run_tasks(tasks, timeout=300)):
                c["tampered-logs"] += 1
                c["tamper:" + kind] += 1
                if st != "ok" or tr is None:
                    c["tampered-run-failed:" + st] += 1
                    continue
                if tr.get("rc") != 0 or rname not in tr.get("files", {}):
                    c["tampered-rejected"] += 1
                    continue
                c["tampered-accepted"] += 1
                out = block_map(json.loads(tr["files"][rname]))
                reqs, keys = [], []
                for k in inp:
                    if out.get(k) != inp[k]:
                        try:
                            reqs.append("EQUIV\t%s\t%s" % (tokens(inp[k]), tokens(out[k]))); keys.append(k)
                        except (vocab.Unsupported, KeyError):
                            violations.append({"kind": "tampered-log-emits-ill-formed-code", "input": name, "options": opts,
                                               "what": "log edit %s on %s accepted, block %s is not well formed: %s" % (kind, name, k, [(i["name"], i.get("value")) for i in out.get(k, [])])})
                pairs = [{"in_tokens": q.split("\t")[1], "out_tokens": q.split("\t")[2], "need": 0} for q in reqs]
                # states must be deep enough for both blocks to run (otherwise both fail and look alike)
                # (just deep enough for the input block: the replayed one may not need a deeper stack)
                nds = drv.batch(["NEED\t%s" % p["in_tokens"] for p in pairs]) if pairs else []
                for i, p in enumerate(pairs):
                    w = nds[i].split()
                    if w and w[0].isdigit():
                        p["need"] = int(w[0])
                if pairs:
                    e2e.judge_pairs(pairs, 24, rng, check_proved=0)
                for k, p in zip(keys, pairs):
                    c["tampered-block-" + p["verdict"]] += 1
                    if p["verdict"] == "diff":
                        violations.append({"kind": "tampered-log-changes-behaviour", "input": name, "options": opts,
                                           "what": "log edit '%s' on %s was accepted and block %s now differs from the input: %s" % (kind, name, k, p["detail"]),
                                           "state": p.get("state")})
            if len(samples) < 2:
                samples.append({"document": name, "options": opts, "log_blocks": len(log), "log_sample": dict(list(log.items())[:2])})
    cov = {"obligations": po["obligations"], "discharged": po["discharged"],
           "checker_cmd": "cd lean && lake build; #print axioms " + ", ".join(THEOREMS),
           "trusted_base": ["Lean 4.33 kernel", "axioms: propext, Classical.choice, Quot.sound", "Pipeline.replayBlock as the model of optimize_asm_from_log",
                            "replay_sound needs the checker hypothesis hCmp (C05)"],
           "axioms": po["axioms"], "evaluations": c["documents"] + c["tampered-logs"], "distinct_nontrivial": c["tampered-logs"] + c["faithful-replays"],
           "rule": "synthesized documents x option sets: run with -log, replay the log (must be byte-identical), replay edited logs (id "
                   "substitution, deletion, duplication, permutation, foreign ids, raw opcodes, truncation, dropped/swapped blocks): replay "
                   "must fail or every changed block must be proved equivalent to the input by the Lean validator / survive concrete search",
           "samples": samples or [{"n": 0}], "counters": dict(c)}
    return {"level": "proof", "coverage": cov, "violations": violations,
            "assumptions": ["replay_sound is a corollary of the checker's soundness, which C05 only validates per pair"]}


def replay(v):
    print(v.get("what"))
    return 1
